#!/bin/sh
# tools/confirm_seed.sh Cxx mN : confirm a seeded change in its scratch worktree and file it under seeded/
# usage: confirm_seed.sh C02 m1
ID=$1; M=$2; WT=/tmp/wt_$ID; SD=/tmp/seed_$ID/$M
export PYTHONPATH=$WT/feems:$WT/machinery-system-structure:$WT/RunFEEMSSim PYTHONDONTWRITEBYTECODE=1 PYTHONHASHSEED=0
git -C $WT checkout -q -- . || exit 2
( cd $SD && timeout 300 /venv/bin/python demo.py >/tmp/cs_clean.out 2>&1 ); CLEAN=$?
git -C $WT apply $SD/patch.diff || { echo "patch does not apply"; exit 2; }
( cd $SD && timeout 300 /venv/bin/python demo.py >/tmp/cs_mut.out 2>&1 ); MUT=$?
( cd $WT && timeout 900 /venv/bin/python -m pytest -q -p no:cacheprovider --timeout=900 --deselect feems/tests/test_node.py::TestShaftLine::test_shaft_line >/tmp/cs_tests.out 2>&1 ); TESTS=$?
git -C $WT checkout -q -- .
echo "$ID $M demo_clean=$CLEAN demo_mutant=$MUT tests_with_mutant=$TESTS ($(tail -1 /tmp/cs_tests.out))"
if [ $CLEAN = 0 ] && [ $MUT = 1 ] && [ $TESTS = 0 ]; then
  D=/verif/seeded/${ID}_$M; mkdir -p $D; cp $SD/patch.diff $SD/demo.py $D/; cp $SD/notes.md $D/notes.md 2>/dev/null
  echo CONFIRMED
else echo NOT-CONFIRMED; tail -5 /tmp/cs_mut.out; fi
