#!/bin/sh
# tools/try_harmless.sh <worktree> <patch.diff> Cxx [Cyy ...] : apply a behaviour-preserving rewrite in a scratch worktree
# and run the quick checks against THAT tree (FEEMS_VERIF_REPO); /repo is not touched, no evidence is written.
WT=$1; PATCH=$2; shift 2
git -C $WT checkout -q -- . || exit 2
git -C $WT apply "$PATCH" || { echo "patch does not apply"; exit 2; }
for id in "$@"; do
  FEEMS_VERIF_REPO=$WT VERIF_NO_EVIDENCE=1 /verif/bin/check $id > /tmp/harm_$id.out 2>&1; rc=$?
  echo "== $id exit=$rc: $(grep -m2 -E 'VIOLATION' /tmp/harm_$id.out | tr '\n' ' ')$(tail -1 /tmp/harm_$id.out | cut -c1-160)"
done
git -C $WT checkout -q -- .
