#!/usr/bin/env python3
"""tools/seed_meta.py <seed dir name> <property> <detected-by comma list or 'none'> [note]"""
import json, sys, subprocess
from pathlib import Path
d = Path('/verif/seeded') / sys.argv[1]
notes = (d / 'notes.md').read_text() if (d / 'notes.md').exists() else ''
meta = {
  "breaks_property": sys.argv[2],
  "needs_to_manifest": notes.strip(),
  "confirmed_by": "tools/confirm_seed.sh in a scratch worktree: demo.py exit 0 on the clean tree, exit 1 with the patch; pinned suite (test_shaft_line deselected as flaky) passes with the patch",
  "checks_run": "tools/try_patch.sh <patch> <ids> (git -C /repo apply; ./bin/check <id>; git -C /repo checkout -- .)",
  "detected_by": [] if sys.argv[3] == 'none' else sys.argv[3].split(','),
  "note": sys.argv[4] if len(sys.argv) > 4 else "",
  "repo_head_when_made": subprocess.run(['git','-C','/repo','rev-parse','--short','HEAD'],capture_output=True,text=True).stdout.strip(),
}
(d / 'meta.json').write_text(json.dumps(meta, indent=1))
