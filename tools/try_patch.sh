#!/bin/sh
# tools/try_patch.sh <patch.diff> Cxx [Cyy ...] : apply to /repo, run the quick checks, undo. (never commits)
PATCH=$1; shift
[ -z "$(git -C /repo status --porcelain)" ] || { echo "/repo not clean"; exit 2; }
git -C /repo apply "$PATCH" || { echo "patch does not apply"; exit 2; }
rm -rf /tmp/evidence_keep && cp -r /verif/evidence /tmp/evidence_keep   # runs on a mutated tree must not leave their evidence behind
for id in "$@"; do
  /verif/bin/check $id > /tmp/try_$id.out 2>&1; rc=$?
  echo "== $id exit=$rc: $(grep -m2 -E 'VIOLATION|KNOWN' /tmp/try_$id.out | tr '\n' ' ')$(tail -1 /tmp/try_$id.out)"
done
git -C /repo checkout -- .
rm -rf /verif/evidence && mv /tmp/evidence_keep /verif/evidence
