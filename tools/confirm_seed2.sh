#!/bin/sh
# tools/confirm_seed2.sh Cxx mN mOUT : round R (env R, default 2) - confirm /tmp/seedR_Cxx/mN in /tmp/wtR_Cxx, file it as seeded/Cxx_mOUT
ID=$1; M=$2; OUT=$3; R=${R:-2}; WT=/tmp/wt${R}_$ID; SD=/tmp/seed${R}_$ID/$M
export PYTHONPATH=$WT/feems:$WT/machinery-system-structure:$WT/RunFEEMSSim PYTHONDONTWRITEBYTECODE=1 PYTHONHASHSEED=0
git -C $WT checkout -q -- . || exit 2
( cd $SD && timeout 300 /venv/bin/python demo.py >/tmp/cs2_clean_${ID}_$M.out 2>&1 ); CLEAN=$?
git -C $WT apply $SD/patch.diff || { echo "patch does not apply"; exit 2; }
( cd $SD && timeout 300 /venv/bin/python demo.py >/tmp/cs2_mut_${ID}_$M.out 2>&1 ); MUT=$?
( cd $WT && timeout 900 /venv/bin/python -m pytest -q -p no:cacheprovider --timeout=900 --deselect feems/tests/test_node.py::TestShaftLine::test_shaft_line >/tmp/cs2_tests_${ID}_$M.out 2>&1 ); TESTS=$?
git -C $WT checkout -q -- .
echo "$ID $M demo_clean=$CLEAN demo_mutant=$MUT tests_with_mutant=$TESTS ($(tail -1 /tmp/cs2_tests_${ID}_$M.out))"
if [ $CLEAN = 0 ] && [ $MUT = 1 ] && [ $TESTS = 0 ]; then
  D=/verif/seeded/${ID}_$OUT; mkdir -p $D; cp $SD/patch.diff $SD/demo.py $D/; cp $SD/notes.md $D/notes.md 2>/dev/null
  echo CONFIRMED
else echo NOT-CONFIRMED; tail -5 /tmp/cs2_mut_${ID}_$M.out; fi
