#!/usr/bin/env python3
"""Regenerates MANIFEST.json from the table below (kept valid at all times)."""
import json, sys
from pathlib import Path
V = Path(__file__).resolve().parent.parent
props = [json.loads(l) for l in (V / "properties.jsonl").read_text().splitlines() if l.strip()]
CLAIMED = json.loads((V / "tools" / "claimed.json").read_text())
SETUP = ("cd coq && coq_makefile -f _CoqProject -o Makefile && timeout 3000 make -j16 2>&1 | tail -n 40")
checks, na = [], []
for p in props:
    pid = p["id"]
    c = CLAIMED.get(pid)
    if not c:
        na.append({"property_id": pid, "reason": "no check registered yet: the Coq model and correspondence for this property are not built in the committed tree (plan in DESIGN.md section 6); nothing is claimed for it"})
        continue
    checks.append({
        "property_id": pid,
        "quick_cmd": f"./bin/check {pid} --tier quick",
        "thorough_cmd": f"./bin/check {pid} --tier thorough",
        "evidence_file": f"evidence/{pid}.json",
        "replay_cmd_template": f"./bin/check {pid} --replay {{path}}",
        "engine": "coq-model+correspondence",
        "level_claimed": {"category": "proof", "text": c["text"], "design_ref": c.get("design_ref", f"DESIGN.md section 6 / {pid}")},
        "level_note": c["note"],
        "technique": c["technique"],
    })
m = {
    "version": 1,
    "setup_cmd": SETUP,
    "hooks": {"guard": "FEEMS_VERIF", "enable": "no source hooks are needed: every observation is a public attribute or return value; the checks import /repo's working tree directly (PYTHONPATH) with FEEMS_VERIF=1 set",
              "baseline_off_cmd": "cd /repo && /venv/bin/python -m pytest -ra -q -p no:cacheprovider --timeout=900 --continue-on-collection-errors",
              "source_commits": [], "add_only": True},
    "engines": [{"name": "coq-model+correspondence", "path": "coq/ harness/ bin/check",
                 "serves_properties": [c["property_id"] for c in checks],
                 "kind_free_text": "Gallina model + theorems (Coq 8.16.1, full .vo build), tied to /repo by running the model inside coqc (vm_compute) on the same inputs and observations as the real implementation; regenerated Gallina data files where the property is about tables/constants"}],
    "checks": checks,
    "not_applicable": na,
    "notes": "See DESIGN.md. Genuine defects repaired by fix: commits in /repo are listed in known_findings.json (status fixed).",
}
(V / "MANIFEST.json").write_text(json.dumps(m, indent=1) + "\n")
print("claimed", len(checks), "not claimed", len(na))
