#!/bin/sh
# tools/run_all.sh [tier] : every claimed check on the current tree, in sequence; prints one line per check
TIER=${1:-quick}
for id in $(python3 -c "import json; print(' '.join(c['property_id'] for c in json.load(open('/verif/MANIFEST.json'))['checks']))"); do
  /verif/bin/check $id --tier $TIER > /tmp/all_$id.out 2>&1; rc=$?
  echo "$id exit=$rc $(grep -c VIOLATION /tmp/all_$id.out) violations :: $(tail -1 /tmp/all_$id.out | cut -c1-200)"
done
