#!/usr/bin/env python3
"""tools/seed_table.py : markdown table of the seeded changes and which checks catch them (from seeded/*/meta.json)"""
import json, re
from pathlib import Path
rows = []
for d in sorted(Path('/verif/seeded').iterdir()):
    m = d / 'meta.json'
    if not m.exists():
        continue
    meta = json.loads(m.read_text())
    diff = (d / 'patch.diff').read_text()
    files = sorted({Path(f).name for f in re.findall(r'^\+\+\+ b/(\S+)', diff, re.M)})
    funcs = sorted(set(re.findall(r'^@@.*@@\s*(?:def|class)\s+(\w+)', diff, re.M)))
    notes = (d / 'notes.md').read_text() if (d / 'notes.md').exists() else ''
    title = next((l.strip('# ').strip() for l in notes.splitlines() if l.strip()), '')
    title = re.sub(r'^(C\d\d\s*/?\s*m\d\s*[-—:–]*\s*|m\d\s*[-—:–]+\s*)', '', title)[:110]
    rows.append((d.name, ', '.join(files), ', '.join(funcs)[:60], title, ', '.join(meta['detected_by']) or 'NOT DETECTED', meta.get("note", "")[:400]))
print('| seed | file (function) | change | caught by | how |')
print('|------|-----------------|--------|-----------|-----|')
for n, f, fn, t, det, note in rows:
    print(f'| {n} | {f} ({fn}) | {t} | {det} | {note} |')
