#!/bin/sh
# tools/run_thorough_subset.sh Cxx ... : (for `vp run`) build the Coq tree in the snapshot, then the thorough tier of the given checks
cd coq && coq_makefile -f _CoqProject -o Makefile >/dev/null && timeout 3000 make -j8 2>&1 | tail -n 3; cd ..
for id in "$@"; do
  VERIF_NO_EVIDENCE=1 ./bin/check $id --tier thorough > thorough_$id.out 2>&1; rc=$?
  echo "$id exit=$rc $(grep -c VIOLATION thorough_$id.out) violations :: $(tail -1 thorough_$id.out | cut -c1-200)"
done
