"""Canonical dump of every behaviour-relevant attribute of a FEEMS system (C13).

dump_system(system) -> nested dict of plain values (floats as floats, enums by name, curves as lists of
[x, y]); diff(a, b) -> list of (path, a-value, b-value).  Components of a switchboard / shaft line are
keyed by name, so the order in which they are listed is not part of the dump.
"""
from __future__ import annotations

import numpy as np


def _pts(a):
    if a is None:
        return None
    a = np.asarray(a, dtype=float)
    if a.ndim == 1:
        return [float(x) for x in a]
    return [[float(x) for x in row] for row in a]


def _enum(e):
    return None if e is None else e.name


def _emission(curves):
    if not curves:
        return {}
    out = {}
    for c in curves:
        out[c.emission.name] = [[float(p.load_ratio), float(p.emission_g_per_kwh)] for p in c.points_per_kwh]
    return out


def dump_engine(e):
    d = {"cls": type(e).__name__, "name": e.name, "rated_power": float(e.rated_power),
         "rated_speed": float(e.rated_speed), "bsfc": _pts(e.specific_fuel_consumption_points),
         "fuel": _enum(e.fuel_type), "origin": _enum(e.fuel_origin), "nox": _enum(e.nox_calculation_method),
         "cycle": _enum(getattr(e, "engine_cycle_type", None)), "emissions": _emission(e.emission_curves),
         "uid": e.uid}
    if hasattr(e, "specific_pilot_fuel_consumption_points"):
        d["pilot_bsfc"] = _pts(e.specific_pilot_fuel_consumption_points)
        d["pilot_fuel"] = _enum(e.pilot_fuel_type)
        d["pilot_origin"] = _enum(e.pilot_fuel_origin)
    return d


def dump_basic(c, with_type=True):
    d = {"cls": type(c).__name__, "name": c.name, "rated_power": float(c.rated_power),
         "rated_speed": float(c.rated_speed or 0.0), "uid": c.uid}
    if with_type:
        d["type"] = _enum(c.type)
        d["power_type"] = _enum(c.power_type)
    pts = getattr(c, "_efficiency_points", None)
    if pts is not None:
        d["eff"] = _pts(pts)
    return d


def dump_component(c):
    """one component of a switchboard or a shaft line"""
    cls = type(c).__name__
    d = dump_basic(c)
    for a in ("switchboard_id", "shaft_line_id"):
        if hasattr(c, a):
            d[a] = int(getattr(c, a))
    if cls == "Genset":
        d["engine"] = dump_engine(c.aux_engine)
        d["generator"] = dump_basic(c.generator, with_type=False)
    elif cls == "FuelCellSystem":
        fc = c.fuel_cell
        d["module"] = dict(dump_basic(fc, with_type=False), fuel=_enum(fc.fuel_type), origin=_enum(fc.fuel_origin))
        d["converter"] = dump_basic(c.converter, with_type=False)
        d["number_modules"] = int(c.number_modules)
    elif cls == "COGES":
        g = c.cogas
        d["cogas"] = dict(dump_basic(g, with_type=False), fuel=_enum(g.fuel_type), origin=_enum(g.fuel_origin),
                          nox=_enum(g.nox_calculation_method), emissions=_emission(g.emission_curves),
                          gt_curve=_pts(g.gas_turbine_power_curve), st_curve=_pts(g.steam_turbine_power_curve))
        d["generator"] = dump_basic(c.generator, with_type=False)
    elif cls == "Battery":
        d.update(kwh=float(c.rated_capacity_kWh), c_in=float(c.charging_rate_C), c_out=float(c.discharging_rate_C),
                 eff_c=float(c.eff_charging), eff_d=float(c.eff_discharging), soc0=float(c.soc0))
    elif cls == "SuperCapacitor":
        d.update(wh=float(c.rated_capacity_Wh), eff_c=float(c.eff_charging), eff_d=float(c.eff_discharging),
                 soc0=float(c.soc0))
    elif cls == "BatterySystem":
        b = c.battery
        d["battery"] = dict(name=b.name, kwh=float(b.rated_capacity_kWh), c_in=float(b.charging_rate_C),
                            c_out=float(b.discharging_rate_C), eff_c=float(b.eff_charging),
                            eff_d=float(b.eff_discharging), soc0=float(b.soc0), uid=b.uid)
        d["converter"] = dump_basic(c.converter, with_type=False)
    elif cls == "SuperCapacitorSystem":
        b = c.supercapacitor
        d["supercapacitor"] = dict(name=b.name, wh=float(b.rated_capacity_Wh), rated_power=float(b.rated_power),
                                   eff_c=float(b.eff_charging), eff_d=float(b.eff_discharging), soc0=float(b.soc0),
                                   uid=b.uid)
        d["converter"] = dump_basic(c.converter, with_type=False)
    elif cls in ("SerialSystemElectric", "PTIPTO"):
        d["stages"] = [dict(dump_basic(s, with_type=False), family=_family(s)) for s in c.components]
    elif cls in ("MainEngineForMechanicalPropulsion", "MainEngineWithGearBoxForMechanicalPropulsion"):
        d["engine"] = dump_engine(c.engine)
        gb = getattr(c, "gearbox", None)
        d["gearbox"] = None if gb is None else dump_basic(gb, with_type=False)
        d.pop("type")           # the class decides (the engine-with-gearbox class is typed MAIN_ENGINE)
    return d


def _family(s):
    t = s.type.name
    if t == "TRANSFORMER":
        return "transformer"
    if t in ("POWER_CONVERTER", "INVERTER", "RECTIFIER", "ACTIVE_FRONT_END"):
        return "converter"
    if t in ("SYNCHRONOUS_MACHINE", "INDUCTION_MACHINE", "ELECTRIC_MOTOR"):
        return "machine"
    return t


def dump_electric(es):
    out = {"switchboards": {}, "breakers": sorted(sorted(int(x) for x in b) for b in _breakers(es))}
    for sid, swb in es.switchboards.items():
        out["switchboards"][int(sid)] = {c.name: dump_component(c) for c in swb.components}
    return out


def _breakers(es):
    return [tuple(b.switchboard_ids) for b in es.bus_tie_breakers]


def dump_mechanical(ms):
    out = {"shaft_lines": {}}
    for sl in ms.shaft_line:
        out["shaft_lines"][int(sl.id)] = {c.name: dump_component(c) for c in sl.components}
    return out


def dump_system(s):
    cls = type(s).__name__
    d = {"cls": cls}
    if cls == "ElectricPowerSystem":
        d["electric"] = dump_electric(s)
    else:
        d["name"] = s.name
        d["electric"] = dump_electric(s.electric_system)
        d["mechanical"] = dump_mechanical(s.mechanical_system)
        for sl in s.mechanical_system.shaft_line:
            for c in sl.components:
                if type(c).__name__ == "PTIPTO":
                    d["mechanical"]["shaft_lines"][int(sl.id)][c.name]["shared"] = any(c is e for e in s.electric_system.pti_pto)
        if cls == "HybridPropulsionSystem":
            # the PTI/PTO of a shaft line must be the very object listed on the switchboard
            ident = {}
            for sl in s.mechanical_system.shaft_line:
                for c in sl.components:
                    if type(c).__name__ == "PTIPTO":
                        ident[c.name] = any(c is e for e in s.electric_system.pti_pto)
            d["pti_pto_shared"] = ident
    return d


def diff(a, b, path="", skip=("uid",), tol=0.0):
    out = []
    if isinstance(a, dict) and isinstance(b, dict):
        for k in sorted(set(a) | set(b), key=str):
            if k in skip:
                continue
            if k not in a or k not in b:
                out.append((f"{path}/{k}", a.get(k, "<absent>"), b.get(k, "<absent>")))
            else:
                out += diff(a[k], b[k], f"{path}/{k}", skip, tol)
        return out
    if isinstance(a, list) and isinstance(b, list):
        if len(a) != len(b):
            return [(path, a, b)]
        for i, (x, y) in enumerate(zip(a, b)):
            out += diff(x, y, f"{path}[{i}]", skip, tol)
        return out
    if isinstance(a, float) and isinstance(b, float):
        if a == b or (a != a and b != b) or abs(a - b) <= tol * max(1.0, abs(a), abs(b)):
            return []
        return [(path, a, b)]
    return [] if a == b else [(path, a, b)]
