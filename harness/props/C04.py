"""C04 — shaft-line power balance, equal engine loading, full-PTI mode."""
from __future__ import annotations

from fractions import Fraction

import numpy as np

import core
import plantgen as pg
from props.base import Prop

ENG = ("main_engine", "main_engine_gb")


class P(Prop):
    ID = "C04"
    THEOREMS = ["C04_balance", "C04_equal_loading", "C04_off_zero", "C04_full_pti", "C04_status_writeback"]
    MAKE_TARGETS = ["theories/Props/C04.vo", "theories/Check/Check_C04.vo"]
    CHECK_REQUIRE = ("From Coq Require Import QArith List Bool.\nFrom Feems Require Import Base.Num Base.Pchip Model.Component "
                     "Model.Shaft Model.Hybrid Check.Check_C06 Check.Check_C04.\nOpen Scope Q_scope.")
    RULE = ("mechanical systems of 1-3 shaft lines (ids from 1..5), 1-3 main engines per line with or without gearbox, optional "
            "PTI/PTO per line, 1-2 loads per line (float load series), n=1-8; engine status series, PTI/PTO shaft power of either "
            "sign set by output or by input, full-PTI flags per step; compared per line and step: every engine output, the "
            "PTI/PTO shaft power after the balance, the engine statuses after the write-back; load inputs must be unchanged. "
            "Non-trivial = a line with >= 2 engines or a PTI/PTO")
    QUICK_N = 300
    THOROUGH_N = 6000
    SHARD = 60

    def gen(self, rng, tier, override=None):
        out = []
        for _ in range(self.n_cases(tier, override)):
            plant = pg.gen_mechanical_plant(rng)
            inp = pg.gen_mechanical_inputs(rng, plant)
            n = inp["n"]
            # a shaft line sailed purely electrically: every engine of the line off for the whole series, full PTI throughout
            if rng.random() < 0.2:
                for ln in plant["lines"]:
                    idx = [i for i, d in enumerate(plant["mech"]) if d["line"] == ln]
                    if any(plant["mech"][i]["cls"] == "ptipto" for i in idx) and rng.random() < 0.7:
                        for i in idx:
                            if plant["mech"][i]["cls"] in ENG:
                                inp["comps"][i]["status"] = [False] * n
                            elif plant["mech"][i]["cls"] == "ptipto":
                                inp["comps"][i]["full"] = [True] * n
            if rng.random() < 0.2:        # whole-kW loads given as integer arrays on their input side
                for d, ci in zip(plant["mech"], inp["comps"]):
                    if d["cls"] in ("propeller", "mech_load"):
                        ci["out"] = [Fraction(int(x)) for x in ci["out"]]
                        ci["set"] = "by_input"
                inp["int_loads"] = True
            # the PTI/PTO's own on/off series, which the shaft balance does not read: off at some steps, full-PTI steps included
            if rng.random() < 0.3:
                for d, ci in zip(plant["mech"], inp["comps"]):
                    if d["cls"] == "ptipto":
                        ci["pti_status"] = [rng.random() < 0.5 for _ in range(n)]
            case = {"plant": plant, "inp": inp}
            # a second balance on the same object after ONLY the operating mode changed (engine statuses, full-PTI
            # flags); loads and PTI/PTO set-points stay as they are
            if rng.random() < 0.35:
                import copy
                inp2 = copy.deepcopy(inp)
                for d, ci in zip(plant["mech"], inp2["comps"]):
                    if d["cls"] in ENG:
                        ci["status"] = [rng.random() < 0.7 for _ in range(n)]
                    elif d["cls"] == "ptipto":
                        ci["full"] = [rng.random() < 0.3 for _ in range(n)]
                case["inp2"] = inp2
                case["in_place2"] = rng.random() < 0.4     # the caller edits the status arrays the engines hold instead of handing over new ones
            out.append(case)
        return out

    def run(self, case):
        plant = case["plant"]
        sysm, objs = pg.build_mechanical_system(plant)
        pg.apply_mechanical_inputs(sysm, objs, plant, case["inp"])
        res = self.balance_and_observe(plant, sysm, objs)
        if case.get("inp2"):
            for d, o, ci in zip(plant["mech"], objs, case["inp2"]["comps"]):
                if d["cls"] in ENG:
                    if case.get("in_place2") and isinstance(o.status, np.ndarray) and o.status.shape == (len(ci["status"]),):
                        o.status[...] = np.array(ci["status"], dtype=bool)
                    else:
                        sysm.set_status_main_engine_for_name_shaft_line_id(d["name"], d["line"], np.array(ci["status"], dtype=bool))
                elif d["cls"] == "ptipto":
                    sysm.set_full_pti_mode_for_name_shaft_line_id(d["name"], d["line"], np.array(ci["full"], dtype=bool))
            res["second"] = self.balance_and_observe(plant, sysm, objs)
        return res

    def balance_and_observe(self, plant, sysm, objs):
        loads_before = {i: np.array(o.power_input, dtype=float).copy() for i, (d, o) in enumerate(zip(plant["mech"], objs))
                        if d["cls"] in ("propeller", "mech_load")}
        pti_set = {i: np.array(o.power_output, dtype=float).copy() for i, (d, o) in enumerate(zip(plant["mech"], objs)) if d["cls"] == "ptipto"}
        with np.errstate(all="ignore"):
            sysm.do_power_balance()
        res = {"out": [], "status": [], "load_in": {}, "pti_set": {}, "pti_elec": {}}
        for i, (d, o) in enumerate(zip(plant["mech"], objs)):
            res["out"].append([float(x) for x in np.atleast_1d(o.power_output)])
            res["status"].append([bool(x) for x in np.atleast_1d(o.status)] if d["cls"] in ENG else None)
            if i in loads_before:
                res["load_in"][str(i)] = [float(x) for x in loads_before[i]]
                res.setdefault("load_after", {})[str(i)] = [float(x) for x in np.atleast_1d(o.power_input)]
            if i in pti_set:
                res["pti_set"][str(i)] = [float(x) for x in pti_set[i]]
                res["pti_elec"][str(i)] = [float(x) for x in np.atleast_1d(o.power_input)]
        res["rated"] = [float(o.rated_power) for o in objs]
        return res

    def lines(self, case, obs):
        """per line: indices of engines, pti (or None), loads"""
        plant = case["plant"]
        for ln in plant["lines"]:
            idx = [i for i, d in enumerate(plant["mech"]) if d["line"] == ln]
            yield ln, [i for i in idx if plant["mech"][i]["cls"] in ENG], \
                next((i for i in idx if plant["mech"][i]["cls"] == "ptipto"), None), \
                [i for i in idx if plant["mech"][i]["cls"] in ("propeller", "mech_load")]

    def term(self, case, obs):
        t = self.term_one(case, case["inp"], obs)
        if case.get("inp2"):
            t = "(" + t + "\n && " + self.term_one(case, case["inp2"], obs["second"]) + ")%bool"
        return t

    def term_one(self, case, inp, obs):
        plant = case["plant"]
        parts = []
        for ln, engs, pti, loads in self.lines(case, obs):
            scale = core.coq_q(Fraction(max(1.0, sum(obs["rated"][i] for i in engs))))
            for t in range(inp["n"]):
                ld = core.coq_list([core.coq_q(Fraction(obs["load_in"][str(i)][t])) for i in loads])
                if pti is None:
                    pt, opt = "None", "None"
                else:
                    pt = f"(Some ({core.coq_q(Fraction(obs['pti_set'][str(pti)][t]))}, {core.coq_bool(inp['comps'][pti]['full'][t])}))"
                    opt = f"(Some {core.coq_fl(obs['out'][pti][t])})"
                es = core.coq_list([f"{{| e_rated := {core.coq_q(Fraction(obs['rated'][i]))}; e_on := {core.coq_bool(inp['comps'][i]['status'][t])} |}}" for i in engs])
                parts.append(f"check_line {{| l_loads := {ld}; l_pti := {pt}; l_engines := {es} |}} {scale} "
                             f"{core.coq_fl_list([obs['out'][i][t] for i in engs])} {opt} "
                             f"{core.coq_bool_list([obs['status'][i][t] for i in engs])}")
        return "(" + "\n && ".join(parts) + ")%bool"

    def oracle(self, case, obs):
        why = self.oracle_one(case, case["inp"], obs)
        if why is None and case.get("inp2"):
            why = self.oracle_one(case, case["inp2"], obs["second"])
            if why:
                why = "second balance on the same object after only statuses / full-PTI flags changed: " + why
        return why

    def oracle_one(self, case, inp, obs):
        plant = case["plant"]
        for k, v in obs.get("load_after", {}).items():
            if v != obs["load_in"][k]:
                return f"the balance changed the load series of {plant['mech'][int(k)]['name']}: {obs['load_in'][k]} -> {v}"
        for ln, engs, pti, loads in self.lines(case, obs):
            for t in range(inp["n"]):
                L = sum(obs["load_in"][str(i)][t] for i in loads)
                full = pti is not None and inp["comps"][pti]["full"][t]
                P = obs["out"][pti][t] if pti is not None else 0.0
                E = sum(obs["out"][i][t] for i in engs)
                running = [i for i in engs if inp["comps"][i]["status"][t]]
                scale = max(1.0, sum(obs["rated"][i] for i in engs))
                for i in engs:
                    if not inp["comps"][i]["status"][t] and obs["out"][i][t] != 0:
                        return f"line {ln} step {t}: stopped engine {plant['mech'][i]['name']} delivers {obs['out'][i][t]} kW"
                if full:
                    if abs(P - L) > 1e-9 * scale or any(obs["out"][i][t] != 0 for i in engs):
                        return f"line {ln} step {t} (full PTI): PTI carries {P} of {L} kW, engines {[obs['out'][i][t] for i in engs]}"
                    continue
                if running or abs(L - P) <= 1e-9 * scale:
                    if abs(E + P - L) > 1e-9 * scale:
                        return f"line {ln} step {t}: engines {E} kW + PTI/PTO {P} kW != loads {L} kW"
                fr = [obs["out"][i][t] / obs["rated"][i] for i in running]
                if fr and max(fr) - min(fr) > 1e-9:
                    return f"line {ln} step {t}: running engines loaded unequally {fr}"
        return None

    def nontrivial(self, case, obs):
        return any(len(e) >= 2 or p is not None for _, e, p, _ in self.lines(case, obs))

    def tags(self, case, obs):
        plant, inp = case["plant"], case["inp"]
        t = [f"lines={len(plant['lines'])}", f"n={inp['n']}"]
        for ln, engs, pti, loads in self.lines(case, obs):
            t.append("line-with-pti" if pti is not None else "line-without-pti")
            if pti is not None:
                ci = inp["comps"][pti]
                if any(ci["full"]):
                    t.append("full-pti-step")
                if all(ci["full"]) and all(not any(inp["comps"][i]["status"]) for i in engs):
                    t.append("line-all-electric(engines off, full PTI throughout)")
                if any(x < 0 for x in ci["shaft"]):
                    t.append("pto(negative shaft power)")
            if any(not all(inp["comps"][i]["status"]) for i in engs):
                t.append("engine-stopped-at-some-step")
            if len(loads) >= 2:
                t.append("two-loads-on-a-line")
        for d in plant["mech"]:
            t.append("cls:" + d["cls"])
        if any(ci.get("pti_status") for ci in inp["comps"]):
            t.append("pti-pto-switched-off-at-some-steps")
        if case.get("inp2"):
            t.append("second-balance-after-mode-change-only")
            if case.get("in_place2"):
                t.append("statuses-edited-in-place")
        if inp.get("int_loads"):
            t.append("loads-as-integer-arrays")
        return sorted(set(t))

    def search(self, rng, near=None):
        return self.gen(rng, "quick", 200)
