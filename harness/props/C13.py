"""C13 — the protobuf system description round-trips to an identically behaving system."""
from __future__ import annotations

import copy
import math
from fractions import Fraction

import numpy as np

import core
import plantgen as pg
import regen
import sysdump
import sysrun
from props.base import Prop

FRESH = "<fresh>"
FUELS = ["DIESEL", "HFO", "NATURAL_GAS", "HYDROGEN", "AMMONIA", "LPG_PROPANE", "LPG_BUTANE", "ETHANOL", "METHANOL", "LFO",
         "LSFO_CRUDE", "LSFO_BLEND", "ULSFO", "VLSFO"]
ORIGINS = ["FOSSIL", "BIO", "RENEWABLE_NON_BIO"]
CYCLES = ["DIESEL", "OTTO", "LEAN_BURN_SPARK_IGNITION"]
TIERS = ["TIER_1", "TIER_2", "TIER_3"]
SPECIES = ["SOX", "NOX", "CO", "PM", "HC", "CH4", "N2O"]


# ----------------------------------------------------------------------------------------------
# Gallina writers

def q(x):
    return core.coq_q(Fraction(float(x)))


def st(s):
    return core.coq_string(str(s))


def nat(n):
    return core.coq_nat(int(n))


def pts(p):
    return core.coq_list([f"({q(a)}, {q(b)})" for a, b in p])


def opt(x, f):
    return "None" if x is None else f"(Some {f(x)})"


def enum_nums():
    """FEEMS enum member numbers by name (the protobuf numbers are the same: theorem C13_enum_numbering)."""
    from feems.fuel import FuelOrigin, TypeFuel
    from feems.types_for_feems import EmissionType, EngineCycleType
    import MachSysS.system_structure_pb2 as proto
    nox = {n: v.number for n, v in proto.Engine.NOxCalculationMethod.DESCRIPTOR.values_by_name.items()}
    return ({m.name: m.value for m in TypeFuel}, {m.name: m.value for m in FuelOrigin}, {m.name: m.value for m in EngineCycleType},
            {m.name: m.value for m in EmissionType}, nox)


def emis(d, E):
    return core.coq_list([f"({nat(E[3][k])}, {pts(v)})" for k, v in d.items()])


def f_engine(e, E):
    pilot = "None"
    if "pilot_bsfc" in e:
        pilot = f"(Some ({pts(e['pilot_bsfc'])}, {nat(E[0][e['pilot_fuel']])}, {nat(E[1][e['pilot_origin']])}))"
    return (f"{{| e_name := {st(e['name'])}; e_rated := {q(e['rated_power'])}; e_speed := {q(e['rated_speed'])}; e_bsfc := {pts(e['bsfc'])}; "
            f"e_fuel := {nat(E[0][e['fuel']])}; e_origin := {nat(E[1][e['origin']])}; e_nox := {nat(E[4][e['nox']])}; "
            f"e_cycle := {nat(E[2][e['cycle']])}; e_emis := {emis(e['emissions'], E)}; e_pilot := {pilot}; e_uid := {st(e['uid'])} |}}")


def f_mach(m):
    return (f"{{| h_name := {st(m['name'])}; h_rated := {q(m['rated_power'])}; h_speed := {q(m['rated_speed'])}; "
            f"h_eff := {pts(m['eff'])}; h_uid := {st(m['uid'])} |}}")


def f_ecomp(c):
    return f"{{| c_name := {st(c['name'])}; c_rated := {q(c['rated_power'])}; c_eff := {pts(c['eff'])}; c_uid := {st(c['uid'])} |}}"


def f_battery(b):
    return (f"{{| b_name := {st(b['name'])}; b_kwh := {q(b['kwh'])}; b_cin := {q(b['c_in'])}; b_cout := {q(b['c_out'])}; "
            f"b_effc := {q(b['eff_c'])}; b_effd := {q(b['eff_d'])}; b_soc0 := {q(b['soc0'])}; b_uid := {st(b['uid'])} |}}")


def f_supercap(c):
    return (f"{{| u_name := {st(c['name'])}; u_wh := {q(c['wh'])}; u_rated := {q(c['rated_power'])}; u_effc := {q(c['eff_c'])}; "
            f"u_effd := {q(c['eff_d'])}; u_soc0 := {q(c['soc0'])}; u_uid := {st(c['uid'])} |}}")


KIND = {"transformer": "KTransformer", "converter": "KConverter", "machine": "KMachine", "OTHER_LOAD": "KOtherLoad"}


def f_serial(d, line=None):
    stages = core.coq_list([
        f"{{| g_kind := {KIND.get(s['family'], 'KUnsupported')}; g_name := {st(s['name'])}; g_rated := {q(s['rated_power'])}; "
        f"g_speed := {q(s['rated_speed'])}; g_eff := {pts(s['eff'])}; g_uid := {st(s['uid'])} |}}" for s in d["stages"]])
    ln = d.get("shaft_line_id", 1) if line is None else line
    return (f"{{| r_pti := {core.coq_bool(d['cls'] == 'PTIPTO')}; r_name := {st(d['name'])}; r_uid := {st(d['uid'])}; "
            f"r_rated := {q(d['rated_power'])}; r_speed := {q(d['rated_speed'])}; r_line := {nat(ln)}; r_stages := {stages} |}}")


def f_comp(d, E):
    c = d["cls"]
    if c == "Genset":
        return f"CGenset {st(d['name'])} {st(d['uid'])} {f_engine(d['engine'], E)} {f_mach(d['generator'])}"
    if c == "ElectricMachine":
        return f"CGenerator {f_mach(d)}"
    if c == "FuelCellSystem":
        m = d["module"]
        mod = (f"{{| m_name := {st(m['name'])}; m_rated := {q(m['rated_power'])}; m_eff := {pts(m['eff'])}; m_fuel := {nat(E[0][m['fuel']])}; "
               f"m_origin := {nat(E[1][m['origin']])}; m_uid := {st(m['uid'])} |}}")
        return f"CFuelCell {st(d['name'])} {st(d['uid'])} {mod} {f_ecomp(d['converter'])} {nat(d['number_modules'])}"
    if c == "COGES":
        k = d["cogas"]
        curves = "None" if k["gt_curve"] is None else f"(Some ({pts(k['gt_curve'])}, {pts(k['st_curve'])}))"
        cg = (f"{{| k_name := {st(k['name'])}; k_rated := {q(k['rated_power'])}; k_speed := {q(k['rated_speed'])}; k_eff := {pts(k['eff'])}; "
              f"k_fuel := {nat(E[0][k['fuel']])}; k_origin := {nat(E[1][k['origin']])}; k_nox := {nat(E[4][k['nox']])}; "
              f"k_emis := {emis(k['emissions'], E)}; k_curves := {curves}; k_uid := {st(k['uid'])} |}}")
        return f"CCoges {st(d['name'])} {st(d['uid'])} {cg} {f_mach(d['generator'])}"
    if c == "Battery":
        return f"CBattery {f_battery(d)}"
    if c == "BatterySystem":
        return f"CBatterySys {st(d['name'])} {st(d['uid'])} {f_battery(d['battery'])} {f_ecomp(d['converter'])}"
    if c == "SuperCapacitor":
        return f"CSupercap {f_supercap(d)}"
    if c == "SuperCapacitorSystem":
        return f"CSupercapSys {st(d['name'])} {st(d['uid'])} {f_supercap(d['supercapacitor'])} {f_ecomp(d['converter'])}"
    if c in ("SerialSystemElectric", "PTIPTO"):
        return f"CSerial {f_serial(d)}"
    if c == "ElectricComponent":
        return f"CLoad {f_ecomp(d)}"
    raise ValueError("no model constructor for " + c)


def m_comp(d, E):
    c = d["cls"]
    if c == "MainEngineForMechanicalPropulsion":
        return f"MEngine {st(d['name'])} {st(d['uid'])} {f_engine(d['engine'], E)}"
    if c == "MainEngineWithGearBoxForMechanicalPropulsion":
        return f"MEngineGB {st(d['name'])} {st(d['uid'])} {f_engine(d['engine'], E)} {f_mach(d['gearbox'])}"
    if c == "MechanicalPropulsionComponent":
        return f"MPropeller {st(d['name'])} {st(d['uid'])} {q(d['rated_power'])} {q(d['rated_speed'])} {pts(d['eff'])}"
    if c == "PTIPTO":
        return f"MPti {core.coq_bool(d.get('shared', False))} {f_serial(d)}"
    raise ValueError("no model constructor for " + c)


def f_electric(d, E):
    swbs = core.coq_list([f"({nat(i)}, {core.coq_list([f_comp(c, E) for c in comps.values()])})" for i, comps in d["switchboards"].items()])
    return f"{{| x_swbs := {swbs}; x_breakers := {core.coq_edges(d['breakers_listed'])} |}}"


def f_system(d, E):
    e = f_electric(d["electric"], E)
    if d["cls"] == "ElectricPowerSystem":
        return f"(SElectric {st(d['name'])} {e})"
    lines = core.coq_list([f"({nat(i)}, {core.coq_list([m_comp(c, E) for c in comps.values()])})"
                           for i, comps in d["mechanical"]["shaft_lines"].items()])
    return f"({'SHybrid' if d['cls'] == 'HybridPropulsionSystem' else 'SMech'} {st(d['name'])} {e} {lines})"


# ---- protobuf messages ----

def p_eff(e):
    v = opt(e.value if e.HasField("value") else None, q)
    c = opt([(p.x, p.y) for p in e.curve.curve.points] if e.HasField("curve") else None, pts)
    return f"{{| pe_value := {v}; pe_curve := {c} |}}"


def p_fuel(f):
    return f"{{| pf_type := {nat(f.fuel_type)}; pf_origin := {nat(f.fuel_origin)} |}}"


def p_emis(l):
    return core.coq_list([f"{{| px_type := {nat(c.emission_type)}; px_pts := {pts([(p.x, p.y) for p in c.curve.points])} |}}" for c in l])


def p_ecomp(c):
    return (f"{{| pc_name := {st(c.name)}; pc_rated := {q(c.rated_power_kw)}; pc_eff := {p_eff(c.efficiency)}; "
            f"pc_order := {nat(c.order_from_switchboard_or_shaftline)}; pc_uid := {st(c.uid)} |}}")


def p_machine(c):
    return (f"{{| pm_name := {st(c.name)}; pm_rated := {q(c.rated_power_kw)}; pm_speed := {q(c.rated_speed_rpm)}; pm_eff := {p_eff(c.efficiency)}; "
            f"pm_order := {nat(c.order_from_switchboard_or_shaftline)}; pm_uid := {st(c.uid)} |}}")


def p_engine(g):
    return (f"{{| pg_name := {st(g.name)}; pg_rated := {q(g.rated_power_kw)}; pg_speed := {q(g.rated_speed_rpm)}; pg_bsfc := {p_eff(g.bsfc)}; "
            f"pg_fuel := {p_fuel(g.main_fuel)}; pg_order := {nat(g.order_from_switchboard_or_shaftline)}; "
            f"pg_pilot_bsfc := {opt(g.pilot_bsfc if g.HasField('pilot_bsfc') else None, p_eff)}; pg_pilot_fuel := {p_fuel(g.pilot_fuel)}; "
            f"pg_nox := {nat(g.nox_calculation_method)}; pg_emis := {p_emis(g.emission_curves)}; pg_cycle := {nat(g.engine_cycle_type)}; "
            f"pg_uid := {st(g.uid)} |}}")


def p_power_curve(k, name):
    return opt([(p.x, p.y) for p in getattr(k, name).curve.points] if k.HasField(name) else None, pts)


def p_cogas(k):
    return (f"{{| pk_name := {st(k.name)}; pk_rated := {q(k.rated_power_kw)}; pk_speed := {q(k.rated_speed_rpm)}; pk_eff := {p_eff(k.efficiency)}; "
            f"pk_gt := {p_power_curve(k, 'gas_turbine_power_curve')}; pk_st := {p_power_curve(k, 'steam_turbine_power_curve')}; "
            f"pk_fuel := {p_fuel(k.fuel)}; pk_order := {nat(k.order_from_switchboard_or_shaftline)}; pk_nox := {nat(k.nox_calculation_method)}; "
            f"pk_emis := {p_emis(k.emission_curves)}; pk_uid := {st(k.uid)} |}}")


def p_battery(b):
    return (f"{{| pb_name := {st(b.name)}; pb_kwh := {q(b.energy_capacity_kwh)}; pb_cin := {q(b.rated_charging_rate_c)}; "
            f"pb_cout := {q(b.rated_discharging_rate_c)}; pb_effc := {q(b.efficiency_charging)}; pb_effd := {q(b.efficiency_discharging)}; "
            f"pb_soc0 := {q(b.initial_state_of_charge)}; pb_order := {nat(b.order_from_switchboard_or_shaftline)}; pb_uid := {st(b.uid)} |}}")


def p_supercap(c):
    return (f"{{| ps_name := {st(c.name)}; ps_wh := {q(c.energy_capacity_wh)}; ps_rated := {q(c.rated_power_kw)}; "
            f"ps_effc := {q(c.efficiency_charging)}; ps_effd := {q(c.efficiency_discharging)}; ps_soc0 := {q(c.initial_state_of_charge)}; "
            f"ps_order := {nat(c.order_from_switchboard_or_shaftline)}; ps_uid := {st(c.uid)} |}}")


def p_fuelcell(c):
    return (f"{{| pq_name := {st(c.name)}; pq_rated := {q(c.rated_power_kw)}; pq_eff := {p_eff(c.efficiency)}; "
            f"pq_order := {nat(c.order_from_switchboard_or_shaftline)}; pq_fuel := {p_fuel(c.fuel)}; pq_nmod := {nat(c.number_modules)}; "
            f"pq_uid := {st(c.uid)} |}}")


def p_propeller(c):
    return (f"{{| pp_eff := {p_eff(c.efficiency)}; pp_id := {nat(c.propulsor_id)}; pp_order := {nat(c.order_from_switchboard_or_shaftline)}; "
            f"pp_uid := {st(c.uid)} |}}")


def p_gear(g):
    return (f"{{| pr_name := {st(g.name)}; pr_rated := {q(g.rated_power_kw)}; pr_speed := {q(g.rated_speed_rpm)}; pr_eff := {p_eff(g.efficiency)}; "
            f"pr_order := {nat(g.order_from_switchboard_or_shaftline)}; pr_uid := {st(g.uid)} |}}")


def p_sub(s):
    def fld(name, f):
        return opt(getattr(s, name) if s.HasField(name) else None, f)
    return (f"{{| s_gear := {fld('gear', p_gear)}; s_engine := {fld('engine', p_engine)}; s_machine := {fld('electric_machine', p_machine)}; "
            f"s_transformer := {fld('transformer', p_ecomp)}; s_conv1 := {fld('converter1', p_ecomp)}; s_conv2 := {fld('converter2', p_ecomp)}; "
            f"s_battery := {fld('battery', p_battery)}; s_fuelcell := {fld('fuel_cell', p_fuelcell)}; s_propeller := {fld('propeller', p_propeller)}; "
            f"s_supercap := {fld('supercapacitor', p_supercap)}; s_other_load := {fld('other_load', p_ecomp)}; s_cogas := {fld('cogas', p_cogas)}; "
            f"s_ptype := {nat(s.power_type)}; s_ctype := {nat(s.component_type)}; s_name := {st(s.name)}; s_rated := {q(s.rated_power_kw)}; "
            f"s_speed := {q(s.rated_speed_rpm)}; s_uid := {st(s.uid)} |}}")


def p_system(m):
    swbs = core.coq_list([f"({nat(w.switchboard_id)}, {core.coq_list([p_sub(s) for s in w.subsystems])})" for w in m.electric_system.switchboards])
    lines = core.coq_list([f"({nat(w.shaft_line_id)}, {core.coq_list([p_sub(s) for s in w.subsystems])})" for w in m.mechanical_system.shaft_lines])
    return f"{{| y_name := {st(m.name)}; y_ptype := {nat(m.propulsion_type)}; y_swbs := {swbs}; y_lines := {lines} |}}"


# ----------------------------------------------------------------------------------------------
# case generation

def rand_curve(rng, lo, hi, den=256):
    """a stored-curve input: a single value, two end points, or 3-5 points in arbitrary order (a centre value and a
    small wiggle, so that power in against power out stays monotone)"""
    c = rng.randint(int(lo * den), int(hi * den))
    w = max(1, int((hi - lo) * den / 12))
    v = lambda: Fraction(min(int(hi * den), max(int(lo * den), c + rng.randint(-w, w))), den)
    u = rng.random()
    if u < 0.3:
        return [v()]
    if u < 0.5:
        return [[0, v()], [1, v()]]                      # the two points a single value is stored as - with different values
    n = rng.randint(2, 5)
    xs = rng.sample([Fraction(k, 8) for k in range(0, 11)], n)
    return [[x, v()] for x in xs]


def rand_emissions(rng, need_nox=False):
    em = {}
    sp = rng.sample(SPECIES, rng.randint(0, 3))
    if need_nox and "NOX" not in sp:
        sp.append("NOX")
    for s in sp:
        n = rng.choice([1, 2, 3])
        loads = sorted(rng.sample([Fraction(1, 10), Fraction(1, 4), Fraction(1, 2), Fraction(3, 4), Fraction(1),
                                   Fraction(11, 10), Fraction(5, 4)], n))      # overload points (110 %, 125 %) included
        em[s] = [[l, Fraction(rng.randint(1, 80), 16)] for l in loads]
    return em


def rand_engine(rng, d, dual=False):
    nox = rng.choice(TIERS + ["CURVE"])
    fuel = rng.choice(FUELS) if rng.random() < 0.6 else rng.choice(["DIESEL", "NATURAL_GAS"])
    e = {"rated": Fraction(d["rated"]) * Fraction(11, 10), "speed": rng.choice([100, 720, 900, 1500]), "nox": nox,
         "fuel": fuel, "origin": rng.choice(ORIGINS), "cycle": rng.choice(CYCLES),
         "bsfc": rand_curve(rng, 160, 260, den=1), "emissions": rand_emissions(rng, need_nox=(nox == "CURVE"))}
    if dual:
        e["pilot"] = {"bspfc": rand_curve(rng, 1, 12, den=4), "fuel": rng.choice(["DIESEL", "HFO", "VLSFO", "METHANOL"]), "origin": rng.choice(ORIGINS)}
    return e


def rand_stages(rng, rated, representable=True):
    eff = lambda: rand_curve(rng, 0.9, 1.0)
    if representable:
        slots = []
        if rng.random() < 0.4:
            slots.append("transformer")
        slots += ["converter"] * rng.choice([0, 1, 1, 2])
        if rng.random() < 0.75 or not slots:
            slots.append("machine")
        rng.shuffle(slots)
    else:
        slots = rng.choice([["converter", "converter", "converter", "machine"], ["transformer", "transformer", "machine"],
                            ["breaker", "converter", "machine"], ["machine", "converter", "machine"]])
    out = []
    for k in slots:
        s = {"kind": k, "rated": Fraction(rated) * rng.choice([1, 1, Fraction(9, 8)]), "eff": eff()}
        if k == "machine":
            s["type"] = rng.choice(["SYNCHRONOUS_MACHINE", "INDUCTION_MACHINE", "ELECTRIC_MOTOR"])
            s["speed"] = rng.choice([600, 1000, 1800])
        elif k == "converter":
            s["type"] = rng.choice(["POWER_CONVERTER", "INVERTER", "RECTIFIER", "ACTIVE_FRONT_END"])
        out.append(s)
    return out


def enrich13(rng, d):
    cls = d["cls"]
    d["eff"] = rand_curve(rng, 0.9, 1.0)
    if cls in ("genset", "genset_df", "genset_rect", "main_engine", "main_engine_gb"):
        d["engine"] = rand_engine(rng, d, dual=(cls == "genset_df"))
        if cls == "genset_rect":
            d["rect_eff"] = rand_curve(rng, 0.95, 1.0)
        if cls == "main_engine_gb":
            d["gb_eff"] = rand_curve(rng, 0.95, 1.0)
    elif cls == "fuelcell":
        d["fc"] = {"modules": rng.choice([1, 1, 2, 3, 4]), "eff": rand_curve(rng, 0.4, 0.65), "fuel": rng.choice(["HYDROGEN", "AMMONIA", "NATURAL_GAS", "METHANOL"]),
                   "origin": rng.choice(ORIGINS)}
    elif cls == "coges":
        nox = rng.choice(TIERS + ["CURVE"])
        cg = {"rated": Fraction(d["rated"]) * Fraction(9, 8), "speed": rng.choice([3000, 3600]), "nox": nox, "fuel": rng.choice(["NATURAL_GAS", "DIESEL", "HYDROGEN"]),
              "origin": rng.choice(ORIGINS), "eff": rand_curve(rng, 0.3, 0.55), "emissions": rand_emissions(rng, need_nox=(nox == "CURVE"))}
        if rng.random() < 0.5:
            xs = [Fraction(1, 4), Fraction(1, 2), Fraction(1)]
            cg["gt_curve"] = [[x, Fraction(rng.randint(10, 40) * 10) * x] for x in xs]
            cg["st_curve"] = [[x, Fraction(rng.randint(2, 12) * 10) * x] for x in xs]
        d["cogas"] = cg
    elif cls in ("battery", "battery_sys", "supercap", "supercap_sys"):
        d["bat"] = {"kwh": rng.choice([500, 1000, 1500]), "wh": rng.choice([2000, 5000]), "soc0": Fraction(rng.randint(2, 14), 16),
                    "eff_c": Fraction(rng.randint(58, 64), 64), "eff_d": Fraction(rng.randint(58, 64), 64)}
    elif cls in ("drive", "ptipto"):
        d["stages"] = rand_stages(rng, d["rated"], representable=not d.get("unrepresentable"))
        d["speed"] = rng.choice([600, 1000, 1800])
    return d


MUTATIONS = ["fuel_out_of_range", "origin_out_of_range", "cycle_out_of_range", "nox_out_of_range", "emission_type_zero", "clear_efficiency",
             "value_and_curve", "zero_value_and_curve", "zero_value_only", "short_uid", "modules", "empty_name", "zero_subsystem_rating",
             "swap_orders", "shuffle_points", "single_point_curve", "unsupported_type", "zero_rated", "empty_power_curve", "other_propulsion_type"]


class P(Prop):
    ID = "C13"
    THEOREMS = ["C13_component_roundtrip", "C13_switchboard_roundtrip", "C13_electric_roundtrip", "C13_line_roundtrip",
                "C13_system_roundtrip", "C13_stable", "C13_hybrid_roundtrip", "C13_short_uid_replaced", "C13_breakers_are_the_chain"]
    MAKE_TARGETS = ["theories/Props/C13.vo", "theories/Check/Check_C13.vo"]
    CHECK_REQUIRE = ("From Coq Require Import QArith String List Bool.\nFrom Feems Require Import Model.ProtoSys Check.Check_C13.\n"
                     "Open Scope Q_scope.\nOpen Scope string_scope.")
    RULE = ("(enums) members and numbers of TypeFuel, FuelOrigin, EngineCycleType, EmissionType, TypeComponent, TypePower and the NOx method names "
            "regenerated from the FEEMS modules and from the compiled protobuf descriptors, theorem C13_enum_numbering re-proved; (round trip) "
            "electric, mechanical+electric and hybrid plants of every component kind the converters branch on, all fuels/origins/cycles/tiers/"
            "species, single values, two-end-point and multi-point curves given in arbitrary order; the real encoder's message (serialised and "
            "parsed back) must equal the model's encoding of the system read from the objects, the real decoder's system must equal the model's "
            "decoding of that message; the oracle compares every attribute of the original and the round-tripped system, the second-pass "
            "message, and the simulation results of both on the same inputs; (malformed) one field of the message changed before decoding "
            "(enum out of range, missing efficiency, value and curve, short uid, module count, orders swapped, ...): the model's decoder "
            "must fail where the real one raises and agree where it does not. Non-trivial = >= 3 components of >= 2 kinds")
    QUICK_N = 60
    THOROUGH_N = 1500
    SHARD = 10

    # ---- regenerated enum numbering -----------------------------------------------------------
    def regen(self):
        info = regen.gen_enums()
        ok, log = regen.compile_gen([core.GEN / "Gen_enums.v", "C13_gen.v"])
        info["theorems"] = ["C13_enum_numbering"]
        if ok:
            return True, None, 1, 1, info
        bad = regen.enum_mismatches()
        if bad:
            name, member, why = bad[0]
            return False, {"kind": "failing-input", "broken": "C13_enum_numbering", "input": {"enum": name, "member": member},
                           "observed": {"mismatches": [list(b) for b in bad[:6]]}, "why": why}, 1, 0, info
        return False, {"kind": "no-failing-input-found", "broken": "C13_enum_numbering", "why": log[-800:]}, 1, 0, info

    # ---- cases --------------------------------------------------------------------------------------
    MSS = ["electric_propulsion_system.mss", "hybrid_propulsion_system.mss", "mechanical_propulsion_with_electric_system.mss",
           "system_proto.mss", "system_proto_with_coges.mss"]

    def gen(self, rng, tier, override=None):
        out = []
        if not override:
            # the descriptions packaged with MachSysS (those that parse) as a fixed corpus
            out += [{"kind": "file", "stream": "mss", "file": f, "plant": {"comps": [], "breakers": []}, "mech": []} for f in self.MSS]
        n = self.n_cases(tier, override)
        for i in range(n):
            kind = rng.choice(["electric", "electric", "mech", "hybrid"])
            plant = pg.gen_electric_plant(rng, max_swb=3)
            plant["comps"] = [c for c in plant["comps"] if c["cls"] != "ptipto" or kind == "hybrid"]
            representable = rng.random() < 0.85
            ids = sorted({c["swb"] for c in plant["comps"]})
            if representable:
                ren = {s: k + 1 for k, s in enumerate(ids)}
                for c in plant["comps"]:
                    c["swb"] = ren[c["swb"]]
                plant["breakers"] = [[k + 1, k + 2] for k in range(len(ids) - 1)]
                plant["swbs"] = list(range(1, len(ids) + 1))
            bad_serial = rng.random() < 0.05
            for c in plant["comps"]:
                if bad_serial and c["cls"] in ("drive", "ptipto"):
                    c["unrepresentable"] = True
                enrich13(rng, c)
            # uids given by the user and kept across plant revisions (otherwise every component draws a fresh uuid4)
            case = {"kind": kind, "plant": plant, "mech": [], "stream": "roundtrip", "fixed_uids": rng.random() < 0.35}
            if kind == "hybrid" and not any(c["cls"] == "ptipto" for c in plant["comps"]):
                plant["comps"].append(enrich13(rng, {"name": "pti0", "cls": "ptipto", "swb": plant["comps"][0]["swb"],
                                                     "rated": Fraction(rng.randint(2, 20) * 50)}))
            if kind != "electric":
                mp = pg.gen_mechanical_plant(rng, pti_prob=(0.3 if kind == "mech" else 0.0))
                for c in mp["mech"]:
                    if c["cls"] == "mech_load":
                        c["cls"] = "propeller"
                    enrich13(rng, c)
                    if c["cls"] == "ptipto":
                        c["stages"] = rand_stages(rng, c["rated"])
                case["mech"] = mp["mech"]
                case["lines"] = mp["lines"]
                if kind == "hybrid":
                    for k, c in enumerate([c for c in plant["comps"] if c["cls"] == "ptipto"]):
                        c["line"] = mp["lines"][k % len(mp["lines"])]
            case["inputs"] = self.gen_inputs(rng, case)
            if rng.random() < 0.3:
                case["stream"] = "malformed"
                case["mutation"] = {"kind": rng.choice(MUTATIONS), "pick": rng.randint(0, 10 ** 6)}
            out.append(case)
        return out

    def gen_inputs(self, rng, case):
        n = rng.randint(1, 5)
        einp = pg.gen_electric_inputs(rng, case["plant"], n=n)
        for d, ci in zip(case["plant"]["comps"], einp["comps"]):
            if pg.kind_of(d["cls"]) == "Source":
                ci["lsm"] = [Fraction(0)] * n
            if pg.kind_of(d["cls"]) == "Consumer":
                ci["set"] = "from_output"
        einp["dt"] = [Fraction(rng.randint(1, 40) * 15) for _ in range(n)]
        minp = None
        if case["mech"]:
            minp = pg.gen_mechanical_inputs(rng, {"mech": case["mech"]}, n=n)
        return {"n": n, "elec": einp, "mech": minp, "spec": rng.choice(["IMO", "IMO", "FUEL_EU_MARITIME"])}

    # ---- the implementation -------------------------------------------------------------------------
    @staticmethod
    def fix_uids(objs):
        """the same component name gets the same uid in every plant of this process (a study that revises a plant keeps its uids)"""
        def walk(o, path):
            if hasattr(o, "uid"):
                o.uid = "uid:" + path
            for a in ("aux_engine", "engine", "generator", "converter", "fuel_cell", "battery", "supercapacitor", "cogas", "gearbox"):
                sub = getattr(o, a, None)
                if sub is not None and hasattr(sub, "uid"):
                    walk(sub, path + "/" + a)
            for k, sub in enumerate(getattr(o, "components", None) or []):
                walk(sub, f"{path}/stage{k}")
        for o in objs:
            walk(o, o.name)

    @staticmethod
    def build(case):
        from feems.system_model import (HybridPropulsionSystem, MechanicalPropulsionSystem,
                                        MechanicalPropulsionSystemWithElectricPowerSystem)
        es, eobjs = pg.build_electric_system(case["plant"])
        if case.get("fixed_uids"):
            P.fix_uids(eobjs)
        if case["kind"] == "electric":
            return es
        byname = {d["name"]: o for d, o in zip(case["plant"]["comps"], eobjs)}
        mobjs = []
        for d in case["mech"]:
            mobjs.append(pg.build_electric_component(d) if d["cls"] == "ptipto" else pg.build_mechanical_component(d))
        if case.get("fixed_uids"):
            P.fix_uids(mobjs)
        if case["kind"] == "hybrid":
            ptis = [byname[d["name"]] for d in case["plant"]["comps"] if d["cls"] == "ptipto"]
            return HybridPropulsionSystem("hyb", es, MechanicalPropulsionSystem("mech", mobjs + ptis))
        return MechanicalPropulsionSystemWithElectricPowerSystem("ship", es, MechanicalPropulsionSystem("mech", mobjs))

    @staticmethod
    def to_proto(s):
        from MachSysS import convert_to_protobuf as cp
        c = type(s).__name__
        if c == "ElectricPowerSystem":
            return cp.convert_electric_system_to_protobuf_machinery_system(s)
        if c == "HybridPropulsionSystem":
            return cp.convert_hybrid_propulsion_system_to_protobuf(s)
        return cp.convert_mechanical_propulsion_system_with_electric_system_to_protobuf(s)

    @staticmethod
    def parse(msg):
        import MachSysS.system_structure_pb2 as proto
        m = proto.MachinerySystem()
        m.ParseFromString(msg.SerializeToString())
        return m

    @staticmethod
    def dump(s):
        d = sysdump.dump_system(s)
        es = s if type(s).__name__ == "ElectricPowerSystem" else s.electric_system
        d["electric"]["breakers_listed"] = [[int(x) for x in b.switchboard_ids] for b in es.bus_tie_breakers]
        if "name" not in d:
            d["name"] = es.name
        return d

    @staticmethod
    def canon_msg(msg):
        import MachSysS.system_structure_pb2 as proto
        m = proto.MachinerySystem()
        m.CopyFrom(msg)
        for grp in list(m.electric_system.switchboards) + list(m.mechanical_system.shaft_lines):
            subs = sorted(grp.subsystems, key=lambda x: (x.name, x.uid))
            del grp.subsystems[:]
            grp.subsystems.extend(subs)
        return m

    def simulate(self, s, case):
        """figures of the system on the case's inputs (components addressed by name) or the exception's type"""
        from feems.components_model.utility import IntegrationMethod
        from feems.fuel import FuelSpecifiedBy
        inp = case["inputs"]
        n = inp["n"]
        es = s if type(s).__name__ == "ElectricPowerSystem" else s.electric_system
        ms = None if type(s).__name__ == "ElectricPowerSystem" else s.mechanical_system
        try:
            with np.errstate(all="ignore"):
                eobj = {c.name: c for w in es.switchboards.values() for c in w.components}
                objs = [eobj[d["name"]] for d in case["plant"]["comps"]]
                pg.apply_electric_inputs(es, objs, case["plant"], inp["elec"])
                if es.bus_tie_breakers and inp["elec"].get("sts") is not None and len(es.bus_tie_breakers) != len(case["plant"]["breakers"]):
                    es.set_bus_tie_status_all(np.ones((n, len(es.bus_tie_breakers)), dtype=bool))
                if ms is not None:
                    mobj = {c.name: c for sl in ms.shaft_line for c in sl.components}
                    pg.apply_mechanical_inputs(ms, [mobj[d["name"]] for d in case["mech"]], {"mech": case["mech"]}, inp["mech"])
                    ms.set_time_interval(np.array([float(x) for x in inp["elec"]["dt"]]), IntegrationMethod.sum_with_time)
                    if case["kind"] == "hybrid":
                        for d in case["plant"]["comps"]:
                            if d["cls"] == "ptipto":
                                o = eobj[d["name"]]
                                o.status = np.ones(n, dtype=bool)
                                o.full_pti_mode = np.zeros(n, dtype=bool)
                        s.do_power_balance_calculation()
                    else:
                        ms.do_power_balance()
                        es.do_power_balance_calculation()
                else:
                    es.do_power_balance_calculation()
                spec = FuelSpecifiedBy[inp["spec"]]
                snaps = [sysrun.snap(es.get_fuel_energy_consumption_running_time(fuel_specified_by=spec))]
                if ms is not None:
                    snaps.append(sysrun.snap(ms.get_fuel_energy_consumption_running_time(fuel_specified_by=spec)))
            return {"figures": [sysrun.figures(x) for x in snaps]}
        except Exception as e:      # noqa: BLE001 - the same exception must come from both systems
            return {"raised": type(e).__name__}

    def mutate(self, msg, mut):
        """one change to the parsed message; returns a description of what was changed (or None: not applicable)"""
        rnd = core.Rng(mut["pick"])
        subs = [s for w in msg.electric_system.switchboards for s in w.subsystems] + [s for w in msg.mechanical_system.shaft_lines for s in w.subsystems]
        k = mut["kind"]
        engines = [s.engine for s in subs if s.HasField("engine")]
        effs = []
        for s in subs:
            for f in ("electric_machine", "transformer", "converter1", "converter2", "other_load", "fuel_cell", "propeller", "gear", "cogas"):
                if s.HasField(f):
                    effs.append(getattr(s, f))
        if k == "fuel_out_of_range" and engines:
            rnd.choice(engines).main_fuel.fuel_type = 14 + rnd.randint(0, 3)
        elif k == "origin_out_of_range" and engines:
            rnd.choice(engines).main_fuel.fuel_origin = 4
        elif k == "cycle_out_of_range" and engines:
            rnd.choice(engines).engine_cycle_type = 4
        elif k == "nox_out_of_range" and engines:
            rnd.choice(engines).nox_calculation_method = 4
        elif k == "emission_type_zero" and any(e.emission_curves for e in engines):
            rnd.choice([e for e in engines if e.emission_curves]).emission_curves[0].emission_type = rnd.choice([0, 8])
        elif k == "clear_efficiency" and effs:
            rnd.choice(effs).ClearField("efficiency")
        elif k == "value_and_curve" and effs:
            rnd.choice(effs).efficiency.value = rnd.choice([0.5, 0.875, 1.0])
        elif k == "zero_value_and_curve" and effs:
            rnd.choice(effs).efficiency.value = rnd.choice([0.0, -1.0])
        elif k == "zero_value_only" and effs:
            e = rnd.choice(effs).efficiency
            e.ClearField("curve")
            e.value = 0.0
        elif k == "short_uid":
            s = rnd.choice(subs)
            s.uid = rnd.choice(["", "abc", "12345", "123456"])
        elif k == "modules" and any(s.HasField("fuel_cell") for s in subs):
            rnd.choice([s for s in subs if s.HasField("fuel_cell")]).fuel_cell.number_modules = rnd.choice([0, 1, 2, 5])
        elif k == "empty_name":
            cands = [s for s in subs if s.component_type in (1, 3, 5)]
            if not cands:
                return None
            s = rnd.choice(cands)
            for f in ("engine", "electric_machine", "other_load"):
                if s.HasField(f):
                    getattr(s, f).name = ""
        elif k == "zero_subsystem_rating" and any(s.component_type in (4, 6) for s in subs):
            s = rnd.choice([s for s in subs if s.component_type in (4, 6)])
            s.rated_power_kw = 0.0
            if rnd.random() < 0.5:
                s.rated_speed_rpm = 0.0
        elif k == "swap_orders" and any(s.component_type in (4, 6) for s in subs):
            s = rnd.choice([s for s in subs if s.component_type in (4, 6)])
            fl = [f for f in ("electric_machine", "transformer", "converter1", "converter2") if s.HasField(f)]
            if len(fl) < 2:
                return None
            a, b = rnd.sample(fl, 2)
            oa, ob = getattr(s, a).order_from_switchboard_or_shaftline, getattr(s, b).order_from_switchboard_or_shaftline
            getattr(s, a).order_from_switchboard_or_shaftline = ob if rnd.random() < 0.7 else oa
            getattr(s, b).order_from_switchboard_or_shaftline = oa
        elif k == "shuffle_points" and any(e.efficiency.HasField("curve") and len(e.efficiency.curve.curve.points) > 2 for e in effs):
            e = rnd.choice([e for e in effs if e.efficiency.HasField("curve") and len(e.efficiency.curve.curve.points) > 2])
            p = [(x.x, x.y) for x in e.efficiency.curve.curve.points]
            rnd.shuffle(p)
            del e.efficiency.curve.curve.points[:]
            for x, y in p:
                e.efficiency.curve.curve.points.add(x=x, y=y)
        elif k == "single_point_curve" and effs:
            e = rnd.choice(effs)
            del e.efficiency.curve.curve.points[:]
            e.efficiency.curve.curve.points.add(x=0.5, y=0.9375)
            if rnd.random() < 0.3:
                del e.efficiency.curve.curve.points[:]
        elif k == "unsupported_type":
            rnd.choice(subs).component_type = rnd.choice([0, 2, 9, 11, 13, 20, 21, 23, 27, 28, 30])
        elif k == "zero_rated" and effs:
            e = rnd.choice([x for x in effs + engines if hasattr(x, "rated_power_kw")] or [None])
            if e is None:
                return None
            e.rated_power_kw = rnd.choice([0.0, -5.0])
        elif k == "empty_power_curve" and any(s.HasField("cogas") for s in subs):
            c = rnd.choice([s for s in subs if s.HasField("cogas")]).cogas
            which = rnd.choice(["gt", "st", "both", "shorter"])
            if which in ("gt", "both"):
                c.gas_turbine_power_curve.x_label = "load_ratio"
                del c.gas_turbine_power_curve.curve.points[:]
            if which in ("st", "both"):
                c.steam_turbine_power_curve.x_label = "load_ratio"
                del c.steam_turbine_power_curve.curve.points[:]
            if which == "shorter" and len(c.gas_turbine_power_curve.curve.points) > 1:
                del c.gas_turbine_power_curve.curve.points[-1]
        elif k == "other_propulsion_type":
            msg.propulsion_type = rnd.choice([0, 1, 2])
        else:
            return None
        return k

    def run_mss(self, case):
        """a packaged description: decode, compare with the model's decoding; encode and decode again: stable"""
        import MachSysS.system_structure_pb2 as proto
        from MachSysS.convert_to_feems import convert_proto_propulsion_system_to_feems
        E = enum_nums()
        path = core.REPO / "machinery-system-structure" / "tests" / case["file"]
        if not path.exists():
            return {"not_built": "file missing"}
        msg = proto.MachinerySystem()
        msg.ParseFromString(path.read_bytes())
        uids = set()
        for w in list(msg.electric_system.switchboards) + list(msg.mechanical_system.shaft_lines):
            for sub in w.subsystems:
                uids.add(sub.uid)
                for f, _ in sub.ListFields():
                    if hasattr(getattr(sub, f.name), "uid"):
                        uids.add(getattr(sub, f.name).uid)
        pterm = p_system(msg)
        out = {}
        with np.errstate(all="ignore"):
            s1 = convert_proto_propulsion_system_to_feems(msg)
            d1 = self.dump(s1)
            try:
                f1 = f_system(self.mark_fresh(copy.deepcopy(d1), uids), E)
                out["dec_term"] = f"(let p := {pterm} in negb (in_model p) || check_dec {st(FRESH)} p {f1})"
            except (ValueError, KeyError):
                out["dec_term"] = f"negb (in_model {pterm})"
            m1 = self.to_proto(s1)
            s2 = convert_proto_propulsion_system_to_feems(self.parse(m1))
            m2 = self.to_proto(s2)
            out["second_pass_equal"] = self.canon_msg(m1) == self.canon_msg(m2)
            out["attr_diff"] = [list(map(str, x)) for x in sysdump.diff(self.dump(s1), self.dump(s2))[:3]]
        return out

    def run(self, case):
        from google.protobuf.message import DecodeError  # noqa: F401
        from MachSysS.convert_to_feems import convert_proto_propulsion_system_to_feems
        if case["stream"] == "mss":
            return self.run_mss(case)
        E = enum_nums()
        out = {}
        with np.errstate(all="ignore"):
            try:
                s = self.build(case)
            except Exception as e:      # noqa: BLE001 - the plant itself is not a valid system: nothing to convert
                return {"not_built": type(e).__name__ + ": " + str(e)[:100]}
            d1 = self.dump(s)
            out["orig"] = d1
            try:
                msg = self.parse(self.to_proto(s))
            except Exception as e:      # noqa: BLE001
                return {**out, "encode_raised": type(e).__name__ + ": " + str(e)[:160]}
            out["enc_term"] = f"check_enc {f_system(d1, E)} {p_system(msg)}"
            if case["stream"] == "malformed":
                what = self.mutate(msg, case["mutation"])
                out["mutated"] = what
                msg = self.parse(msg)
            uids = set()
            for w in list(msg.electric_system.switchboards) + list(msg.mechanical_system.shaft_lines):
                for sub in w.subsystems:
                    uids.add(sub.uid)
                    for f, _ in sub.ListFields():
                        if hasattr(getattr(sub, f.name), "uid"):
                            uids.add(getattr(sub, f.name).uid)
            pterm = p_system(msg)
            try:
                s2 = convert_proto_propulsion_system_to_feems(msg)
                if s2 is None:
                    raise ValueError("the decoder returned None")
            except Exception as e:      # noqa: BLE001
                out["decode_raised"] = type(e).__name__ + ": " + str(e)[:160]
                out["dec_term"] = f"(let p := {pterm} in negb (in_model p) || check_dec_fails p)"
                return out
            d2 = self.dump(s2)
            out["rt"] = d2
            try:
                f2 = f_system(self.mark_fresh(copy.deepcopy(d2), uids), E)
                out["dec_term"] = f"(let p := {pterm} in negb (in_model p) || check_dec {st(FRESH)} p {f2})"
            except ValueError:       # a component class the model has no constructor for: only outside the model
                out["dec_term"] = f"negb (in_model {pterm})"
            if case["stream"] == "malformed":
                return out
            # second pass: stable up to the order of the subsystems
            try:
                m1 = self.to_proto(s2)
                s3 = convert_proto_propulsion_system_to_feems(self.parse(m1))
                m2 = self.to_proto(s3)
                out["second_pass_equal"] = self.canon_msg(m1) == self.canon_msg(m2)
                out["first_pass_equal_modulo_name"] = self._eq_mod_name(self.canon_msg(self.to_proto(s)), self.canon_msg(m1))
            except Exception as e:      # noqa: BLE001
                out["second_pass_raised"] = type(e).__name__ + ": " + str(e)[:160]
            # behaviour on the same inputs (fresh objects: simulation writes into the components)
            out["sim_orig"] = self.simulate(self.build(case), case)
            out["sim_rt"] = self.simulate(convert_proto_propulsion_system_to_feems(self.parse(self.to_proto(self.build(case)))), case)
        return out

    @staticmethod
    def _eq_mod_name(a, b):
        a.name = b.name
        return a == b

    @staticmethod
    def mark_fresh(d, uids):
        def walk(x):
            if isinstance(x, dict):
                for k, v in x.items():
                    if k == "uid" and isinstance(v, str) and v not in uids:
                        x[k] = FRESH
                    else:
                        walk(v)
            elif isinstance(x, list):
                for v in x:
                    walk(v)
        walk(d)
        return d

    # ---- model comparison ---------------------------------------------------------------------------
    def term(self, case, obs):
        if "not_built" in obs or "encode_raised" in obs:
            return "true"
        parts = [obs["dec_term"]]
        if "enc_term" in obs:
            parts.append(obs["enc_term"])
        return "(" + "\n && ".join(parts) + ")%bool"

    # ---- the property on the implementation ---------------------------------------------------------
    def oracle(self, case, obs):
        if "not_built" in obs or case["stream"] == "malformed":
            return None
        if case["stream"] == "mss":
            if obs.get("attr_diff"):
                return f"{case['file']}: the system decoded from the description changes in a second round trip: {obs['attr_diff'][0]}"
            if not obs.get("second_pass_equal", True):
                return f"{case['file']}: description -> system -> description is not stable after the first pass"
            return None
        if "encode_raised" in obs:
            return "the system cannot be converted to its protobuf description: " + obs["encode_raised"]
        if "decode_raised" in obs:
            return "the description of the system cannot be converted back: " + obs["decode_raised"]
        a, b = copy.deepcopy(obs["orig"]), copy.deepcopy(obs["rt"])
        if a["cls"] == "ElectricPowerSystem":
            a.pop("name"), b.pop("name")            # an electric system's name is not part of its description's round trip
        for d in (a, b):
            d["electric"].pop("breakers_listed")
            if d["cls"] != "HybridPropulsionSystem":   # the shaft line of a PTI/PTO only matters where there are shaft lines
                for comps in d["electric"]["switchboards"].values():
                    for c in comps.values():
                        c.pop("shaft_line_id", None)
        df = sysdump.diff(a, b)
        if df:
            p, x, y = df[0]
            return f"the round-tripped system differs at {p}: {str(x)[:120]} became {str(y)[:120]} ({len(df)} differences)"
        if "second_pass_raised" in obs:
            return "the round-tripped system cannot be converted a second time: " + obs["second_pass_raised"]
        if not obs.get("second_pass_equal", True):
            return "description -> system -> description is not stable after the first pass (subsystems compared as a set)"
        sa, sb = obs["sim_orig"], obs["sim_rt"]
        if ("raised" in sa) != ("raised" in sb) or sa.get("raised") != sb.get("raised"):
            return f"same inputs: the original {sa.get('raised', 'runs')}, the round-tripped system {sb.get('raised', 'runs')}"
        if "figures" in sa:
            for k, (fa, fb) in enumerate(zip(sa["figures"], sb["figures"])):
                for key in sorted(set(fa) | set(fb)):
                    x, y = fa.get(key, 0.0), fb.get(key, 0.0)
                    if isinstance(x, float) and isinstance(y, float) and not (x == y or (x != x and y != y) or abs(x - y) <= 1e-9 * max(1.0, abs(x), abs(y))):
                        return f"same inputs, different results: {key} = {x} for the original and {y} after the round trip (system part {k})"
        return None

    # ---- known findings -----------------------------------------------------------------------------
    @staticmethod
    def pred_breakers(case, obs, params):
        if not isinstance(case, dict) or "plant" not in case:
            return False
        ids = sorted({c["swb"] for c in case["plant"]["comps"]})
        chain = [[k + 1, k + 2] for k in range(len(ids) - 1)]
        return ids != list(range(1, len(ids) + 1)) or [list(b) for b in case["plant"]["breakers"]] != chain

    @staticmethod
    def pred_serial(case, obs, params):
        if not isinstance(case, dict) or "plant" not in case:
            return False
        for c in list(case["plant"]["comps"]) + list(case.get("mech") or []):
            if c["cls"] in ("drive", "ptipto") and c.get("stages"):
                kinds = [s["kind"] for s in c["stages"]]
                if kinds.count("transformer") > 1 or kinds.count("converter") > 2 or kinds.count("machine") > 1 or "breaker" in kinds:
                    return True
        return False

    PREDICATES = {"breakers_or_switchboard_ids_not_representable": pred_breakers.__func__,
                  "serial_system_with_more_stages_than_fields": pred_serial.__func__}

    def nontrivial(self, case, obs):
        if case["stream"] == "mss":
            return True
        comps = list(case["plant"]["comps"]) + list(case.get("mech") or [])
        return len(comps) >= 3 and len({c["cls"] for c in comps}) >= 2

    def tags(self, case, obs):
        if case["stream"] == "mss":
            return ["stream=packaged-description", "file:" + case["file"]]
        t = ["plant=" + case["kind"], "stream=" + case["stream"], "uids=" + ("given(fixed per name)" if case.get("fixed_uids") else "generated")]
        for c in list(case["plant"]["comps"]) + list(case.get("mech") or []):
            t.append("cls:" + c["cls"])
            e = c.get("engine") or c.get("cogas") or {}
            if e.get("nox"):
                t.append("nox:" + e["nox"])
            if e.get("cycle") and c["cls"] != "coges":
                t.append("cycle:" + e["cycle"])
        if case["stream"] == "malformed":
            t.append("mutation:" + str(obs.get("mutated")) + ("->raises" if "decode_raised" in obs else "->decodes"))
        for k in ("not_built", "encode_raised", "decode_raised"):
            if k in obs:
                t.append(k + ":" + obs[k].split(":")[0])
        if self.pred_breakers(case, obs, {}):
            t.append("breakers/ids not representable")
        if self.pred_serial(case, obs, {}):
            t.append("serial system not representable")
        return sorted(set(t))

    def shrink(self, case):
        if case["stream"] == "mss":
            return
        for i in range(len(case["plant"]["comps"])):
            c = copy.deepcopy(case)
            d = c["plant"]["comps"].pop(i)
            if d["cls"] == "ptipto" and c["kind"] == "hybrid":
                continue
            c["inputs"]["elec"]["comps"].pop(i)
            yield c
        for i in range(len(case.get("mech") or [])):
            c = copy.deepcopy(case)
            c["mech"].pop(i)
            if c["inputs"]["mech"]:
                c["inputs"]["mech"]["comps"].pop(i)
            yield c

    def search(self, rng, near=None):
        return [c for c in self.gen(rng, "quick", 60) if c["stream"] == "roundtrip"]
