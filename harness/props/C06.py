"""C06 — components never create energy; conversion is bounded and self-consistent."""
from __future__ import annotations

from fractions import Fraction

import numpy as np

import core
from props.base import Prop


def coq_curve(c):
    if len(c) == 1 and not isinstance(c[0], (list, tuple)):
        return f"(Const {core.coq_q(c[0])})"
    return "(Points " + core.coq_list([f"({core.coq_q(l)}, {core.coq_q(v)})" for l, v in c]) + ")"


def np_curve(c):
    if len(c) == 1 and not isinstance(c[0], (list, tuple)):
        return np.array([float(c[0])])
    return np.array([[float(l), float(v)] for l, v in c])


def gen_curve(rng, lo=32, hi=64, clampy=False):
    """efficiencies k/64 in [0.5, 1]; loads k/8; optionally values outside [0.01, 1]"""
    k = rng.choice([1, 1, 2, 2, 2, 3, 3, 4, 5, 6])
    val = lambda: Fraction(rng.randint(lo, hi), 64)
    if k == 1:
        v = val()
        if clampy:
            v = rng.choice([Fraction(5, 4), Fraction(1, 200), Fraction(98), v])
        return [v]
    loads = sorted(rng.sample([Fraction(i, 8) for i in range(0, 9)], k))
    if rng.random() < 0.25:            # a data sheet with an overload point (112.5 %, 125 % of rated power)
        loads = sorted(set(loads[:-1] + [rng.choice([Fraction(9, 8), Fraction(5, 4)])]))      # (dyadic: keeps the 201-point tables small)
        k = len(loads)
    style = rng.choice(["rising", "any", "any", "peak"])
    vals = sorted(val() for _ in range(k)) if style == "rising" else [val() for _ in range(k)]
    if k >= 3 and rng.random() < 0.2:      # a characteristic that peaks at part load and returns to its first value at the top
        vals = list(vals)
        vals[-1] = vals[0]
        vals[k // 2] = max(vals) if max(vals) > vals[0] else min(Fraction(hi, 64), vals[0] + Fraction(3, 64))
    pts = [[l, v] for l, v in zip(loads, vals)]
    if clampy and rng.random() < 0.5:
        pts[rng.randrange(k)][1] = rng.choice([Fraction(9, 8), Fraction(1, 256)])
    rng.shuffle(pts)
    return pts


def queries(rng, rated, n=10, table=True):
    qs = []
    specials = [Fraction(0), rated, -rated, rated * Fraction(99, 100), -rated * Fraction(99, 100), rated / 2]
    if table:
        specials += [rated * Fraction(k - 100, 100) for k in rng.sample(range(0, 201), 3)]
    for _ in range(n):
        x = rng.choice(specials) if rng.random() < 0.45 else Fraction(rng.randint(-128, 128), 128) * rated
        qs.append([rng.randint(0, 1), rng.random() < 0.5, x])
    return qs


class P(Prop):
    ID = "C06"
    THEOREMS = ["C06_no_energy_created", "C06_clamp", "C06_inverse_exact_at_table", "C06_inverse_stays_in_table_cell",
                "C06_inverse_gain_below_one_step", "C06_scalar_equals_array",
                "C06_serial_at_grid", "C06_storage"]
    MAKE_TARGETS = ["theories/Props/C06.vo", "theories/Check/Check_C06.vo"]
    CHECK_REQUIRE = ("From Coq Require Import QArith List Bool.\n"
                     "From Feems Require Import Base.Num Base.Pchip Model.Component Model.Storage Check.Check_C06.\nOpen Scope Q_scope.")
    RULE = ("(basic) converters/transformers with a single value or 2-6 point curve (efficiencies k/64 in [0.5,1], sometimes "
            "outside [0.01,1] to make the clamp active), ratings 100..4000 kW; conversions in both directions, as scalar calls "
            "and as array elements, at 0, +-rated, 0.99 rated, table points and random powers; constructor acceptance compared; "
            "(serial) 2-3 stages with equal or different ratings: efficiency at and between grid loads, conversions; "
            "(machine) electric machines in source, consumer and PTI/PTO role, shaft<->electric both ways; (storage) batteries and "
            "supercapacitors with and without converter, both directions. Non-trivial = a multi-point curve or a multi-stage system")
    QUICK_N = 112
    THOROUGH_N = 3000
    SHARD = 4

    def gen(self, rng, tier, override=None):
        out = []
        for _ in range(self.n_cases(tier, override)):
            u = rng.random()
            rated = Fraction(rng.choice([100, 250, 950, 1000, 2000, 4000]))
            if u < 0.4:
                out.append({"stream": "basic", "rated": rated, "curve": gen_curve(rng, clampy=rng.random() < 0.25),
                            "qs": queries(rng, rated), "from_file": rng.random() < 0.2})
            elif u < 0.6:
                ns = rng.choice([2, 3, 3])
                equal = rng.random() < 0.4
                stages = []
                for i in range(ns):
                    r = rated if (equal or i == 0) else Fraction(rng.choice([1, 2, 3, 4, 6])) * rated / 2
                    stages.append({"rated": r, "curve": gen_curve(rng, lo=48)})
                if not equal and rng.random() < 0.5:        # a later stage smaller than the first
                    stages[rng.randrange(1, ns)]["rated"] = rated / 2
                # the rating of the chain may be left out: it is then the first stage's (which is what the stream hands over anyway)
                gq = [[0, rng.random() < 0.5, Fraction(rng.randint(1, 10), 10) * rated], [1, rng.random() < 0.5, -Fraction(rng.randint(1, 10), 10) * rated]]
                out.append({"stream": "serial", "rated": rated, "rated_given": rng.random() < 0.5, "stages": stages, "qs": queries(rng, rated, 6, table=False) + gq,
                            "loads": [Fraction(k, 10) for k in rng.sample(range(0, 11), 4)] + [Fraction(rng.randint(0, 40), 40) for _ in range(3)]})
            elif u < 0.75:
                out.append({"stream": "machine", "role": rng.choice(["SOURCE", "CONSUMER", "PTI_PTO"]), "rated": rated,
                            "curve": gen_curve(rng, lo=48), "qs": queries(rng, rated, 8)})
            else:
                conv = None
                kind = rng.choice(["battery", "battery_sys", "supercap", "supercap_sys"])
                if kind.endswith("_sys"):
                    conv = {"rated": rated, "curve": gen_curve(rng, lo=56)}
                out.append({"stream": "storage", "kind": kind, "rated": rated, "conv": conv,
                            "eff_c": Fraction(rng.randint(48, 64), 64), "eff_d": Fraction(rng.randint(48, 64), 64),
                            "qs": queries(rng, rated, 8, table=False)})
        return out

    # ------------------------------------------------------------------------------------------
    def build(self, case):
        from feems.components_model.component_base import BasicComponent, SerialSystem
        from feems.components_model.component_electric import (Battery, BatterySystem, ElectricComponent, ElectricMachine,
                                                               SuperCapacitor, SuperCapacitorSystem)
        from feems.types_for_feems import TypeComponent, TypePower
        st = case["stream"]
        r = float(case["rated"])
        if st == "basic" and case.get("from_file") and len(case["curve"]) > 1:
            # the same component described by a data file (rating and efficiency table read from the CSV, the rated
            # power argument left at its default)
            import pandas as pd
            d = core.BUILD / "tmp"
            d.mkdir(parents=True, exist_ok=True)
            f = d / f"component_{__import__('os').getpid()}.csv"
            cols = {"Rated Power": [r], "Rated Speed": [1000.0]}
            for l, v in case["curve"]:
                cols[f"Efficiency@{float(l)}%"] = [float(v)]
            pd.DataFrame(cols, index=["c"]).to_csv(f)
            try:
                return BasicComponent(TypeComponent.TRANSFORMER, TypePower.POWER_TRANSMISSION, "c", file_name=str(f))
            finally:
                f.unlink()
        if st == "basic":
            return BasicComponent(TypeComponent.TRANSFORMER, TypePower.POWER_TRANSMISSION, "c", r, np_curve(case["curve"]))
        if st == "serial":
            comps = [BasicComponent(TypeComponent.TRANSFORMER, TypePower.POWER_TRANSMISSION, f"s{i}", float(s["rated"]), np_curve(s["curve"]))
                     for i, s in enumerate(case["stages"])]
            if not case.get("rated_given", True):
                return SerialSystem(TypeComponent.PROPULSION_DRIVE, TypePower.POWER_CONSUMER, "ser", comps)
            return SerialSystem(TypeComponent.PROPULSION_DRIVE, TypePower.POWER_CONSUMER, "ser", comps, rated_power=r)
        if st == "machine":
            return ElectricMachine(type_=TypeComponent.SYNCHRONOUS_MACHINE, name="m", rated_power=r, rated_speed=1000.0,
                                   power_type=TypePower[{"SOURCE": "POWER_SOURCE", "CONSUMER": "POWER_CONSUMER", "PTI_PTO": "PTI_PTO"}[case["role"]]],
                                   eff_curve=np_curve(case["curve"]))
        k = case["kind"]
        conv = None
        if case["conv"]:
            conv = ElectricComponent(type_=TypeComponent.POWER_CONVERTER, name="conv", rated_power=float(case["conv"]["rated"]),
                                     eff_curve=np_curve(case["conv"]["curve"]), power_type=TypePower.POWER_TRANSMISSION)
        if k.startswith("battery"):
            b = Battery("b", 1000.0, r / 1000.0, r / 1000.0, eff_charging=float(case["eff_c"]), eff_discharging=float(case["eff_d"]))
            return BatterySystem("bs", b, conv, 1) if conv else b
        s = SuperCapacitor("s", 5000.0, r, eff_charging=float(case["eff_c"]), eff_discharging=float(case["eff_d"]))
        return SuperCapacitorSystem("ss", s, conv, 1) if conv else s

    def ask(self, comp, case, q):
        d, sc, x = q
        x = float(x)
        st = case["stream"]
        arg = x if sc else np.array([x, x])
        if st == "machine":
            f = comp.get_shaft_power_load_from_electric_power if d == 0 else comp.get_electric_power_load_from_shaft_power
        else:
            f = comp.get_power_input_from_bidirectional_output if d == 0 else comp.get_power_output_from_bidirectional_input
        v, load = f(arg)
        v = np.atleast_1d(np.asarray(v, dtype=float))
        return float(v[0]), float(np.atleast_1d(np.asarray(load, dtype=float))[0])

    def run(self, case):
        from feems.exceptions import InputError
        with np.errstate(all="ignore"):
            try:
                comp = self.build(case)
            except InputError as e:
                return {"accepted": False, "msg": str(e)[:80]}
            # extra queries derived at run time: the supply needed for (almost) rated delivery, converted back --
            # this is where the inverse is evaluated at the top edge of its table
            extra = []
            if case["stream"] == "basic":
                for frac in (1.0, 0.995):
                    sup, _ = comp.get_power_input_from_bidirectional_output(float(case["rated"]) * frac)
                    extra.append([1, frac == 1.0, Fraction(float(sup))])
            case = {**case, "qs": case["qs"] + extra}
            res = [self.ask(comp, case, q) for q in case["qs"]]
            out = {"accepted": True, "ans": [r[0] for r in res], "load": [r[1] for r in res], "extra_qs": extra}
            if case["stream"] in ("basic", "serial", "machine"):
                loads = case.get("loads") or [abs(float(q[2])) / float(case["rated"]) for q in case["qs"]]
                out["eff"] = [float(comp.get_efficiency_from_load_percentage(float(l))) for l in loads]
            if case["stream"] == "serial":
                out["stage_eff"] = [[float(c.get_efficiency_from_load_percentage(float(l) * float(case["stages"][0]["rated"]) / float(s["rated"])))
                                     for c, s in zip(comp.components, case["stages"])] for l in case["loads"]]
                # stage efficiencies at the stages' own loads for each query (load = |x| / rating of the first stage)
                out["q_stage_eff"] = [[float(c.get_efficiency_from_load_percentage(abs(float(q[2])) / float(s["rated"])))
                                       for c, s in zip(comp.components, case["stages"])] for q in case["qs"]]
            # series == element by element
            qs = case["qs"]
            if qs:
                d = qs[0][0]
                xs = np.array([float(q[2]) for q in qs if q[0] == d])
                f = None
                if case["stream"] == "machine":
                    f = comp.get_shaft_power_load_from_electric_power if d == 0 else comp.get_electric_power_load_from_shaft_power
                else:
                    f = comp.get_power_input_from_bidirectional_output if d == 0 else comp.get_power_output_from_bidirectional_input
                arg = xs.copy()
                ser, _ = f(arg)
                out["series_input_unchanged"] = bool(np.array_equal(arg, xs))
                one = [float(np.atleast_1d(np.asarray(f(float(x))[0], dtype=float))[0]) for x in xs]
                out["series"] = [float(v) for v in np.atleast_1d(ser)]
                out["one_by_one"] = one
            # the setters, used twice with ONE buffer that the caller refills in place between the two calls
            if qs and case["stream"] != "machine":
                vals = [float(q[2]) for q in qs]
                first, second = vals[: max(1, len(vals) // 2)], vals[len(vals) // 2:][: max(1, len(vals) // 2)]
                m = min(len(first), len(second))
                hist = {}
                for name, setter, getter in (("set_power_input_from_output", comp.set_power_input_from_output, comp.get_power_input_from_bidirectional_output),
                                             ("set_power_output_from_input", comp.set_power_output_from_input, comp.get_power_output_from_bidirectional_input)):
                    buf = np.array(first[:m])
                    setter(buf)
                    buf[:] = second[:m]
                    got, _ = setter(buf)
                    want, _ = getter(np.array(second[:m]))
                    hist[name] = {"got": [float(v) for v in np.atleast_1d(got)], "want": [float(v) for v in np.atleast_1d(want)],
                                  "buffer_kept": bool(np.array_equal(buf, np.array(second[:m])))}
                out["setter_history"] = hist
            # round trip: delivered -> supplied -> delivered
            rt = []
            if case["stream"] == "basic":
                for q in qs:
                    x = float(q[2])
                    if x > 0:
                        s, _ = comp.get_power_input_from_bidirectional_output(x)
                        b, _ = comp.get_power_output_from_bidirectional_input(float(s))
                    else:
                        s, _ = comp.get_power_output_from_bidirectional_input(x)
                        b, _ = comp.get_power_input_from_bidirectional_output(float(s))
                    rt.append(abs(float(b) - x) / float(case["rated"]))
                out["roundtrip_err"] = rt
                # the same round trips with strict balance: scalars one by one and the whole series at once
                srt = []
                r_ = float(case["rated"])
                xs = [float(q[2]) for q in qs if abs(float(q[2])) <= r_] + [0.003 * r_, -0.004 * r_, 0.01 * r_, -0.015 * r_]    # incl. very low loads
                out["strict_xs"] = xs
                for x in xs:
                    if x > 0:
                        s, _ = comp.get_power_input_from_bidirectional_output(x, strict_power_balance=True)
                        b, _ = comp.get_power_output_from_bidirectional_input(float(s), strict_power_balance=True)
                    else:
                        s, _ = comp.get_power_output_from_bidirectional_input(x, strict_power_balance=True)
                        b, _ = comp.get_power_input_from_bidirectional_output(float(s), strict_power_balance=True)
                    srt.append(abs(float(b) - x) / float(case["rated"]))
                out["strict_roundtrip_err"] = srt
                if xs:
                    a = np.array(xs)
                    s, _ = comp.get_power_input_from_bidirectional_output(a.copy(), strict_power_balance=True)
                    b, _ = comp.get_power_output_from_bidirectional_input(np.asarray(s, dtype=float).copy(), strict_power_balance=True)
                    out["strict_roundtrip_err_series"] = [float(v) for v in np.abs(np.asarray(b, dtype=float) - a) / float(case["rated"])]
            return out

    def term(self, case, obs):
        st = case["stream"]
        qs = core.coq_list([f"({q[0]}%nat, {core.coq_bool(q[1])}, {core.coq_q(q[2])})" for q in case["qs"] + obs.get("extra_qs", [])])
        ans = core.coq_fl_list(obs.get("ans", []))
        r = core.coq_q(case["rated"])
        if st == "basic":
            return f"check_basic {r} {coq_curve(case['curve'])} {core.coq_bool(obs['accepted'])} {qs} {ans}"
        if st == "serial":
            stages = core.coq_list([f"({core.coq_q(s['rated'])}, {coq_curve(s['curve'])})" for s in case["stages"]])
            r = f"(serial_rating {'(Some ' + r + ')' if case.get('rated_given', True) else 'None'} {stages})"
            if not obs["accepted"]:
                # rejected by a stage constructor or by the system's own monotonicity check
                return f"negb (serial_accepted {r} {stages})"
            return f"check_serial {r} {stages} {core.coq_q_list(case['loads'])} {core.coq_fl_list(obs['eff'])} {qs} {ans}"
        if not obs["accepted"]:
            c = case["curve"] if st == "machine" else case["conv"]["curve"]
            rr = r if st == "machine" else core.coq_q(case["conv"]["rated"])
            return f"negb (p_accepted (prepare {rr} (curve_fn {coq_curve(c)})))"
        if st == "machine":
            ro = {"SOURCE": "RSource", "CONSUMER": "RConsumer", "PTI_PTO": "RPtiPto"}[case["role"]]
            return f"check_machine {ro} {r} {coq_curve(case['curve'])} {qs} {ans}"
        conv = "None" if not case["conv"] else f"(Some ({core.coq_q(case['conv']['rated'])}, {coq_curve(case['conv']['curve'])}))"
        return (f"check_storage {{| eff_c := {core.coq_q(case['eff_c'])}; eff_d := {core.coq_q(case['eff_d'])} |}} {conv} {r} {qs} {ans}")

    def oracle(self, case, obs):
        if not obs.get("accepted"):
            return None
        st = case["stream"]
        R = float(case["rated"])
        for q, a in zip(case["qs"] + obs.get("extra_qs", []), obs["ans"]):
            x = float(q[2])
            if abs(x) > R:
                continue
            if x == 0 and a != 0:
                return f"zero flow gives {a} on the other side"
            if a * x < 0:
                return f"flow {x} kW is converted to {a} kW of opposite sign"
            d = q[0]
            if st == "machine" and case["role"] != "SOURCE":
                d = 1 - d          # consumer / PTI-PTO: shaft from electric is "output from input"
            # direction 0 (input from output): x > 0 -> the answer is the supply side, computed by the exact
            # forward formula; x < 0 -> x is the supply side and the answer comes from the interpolated inverse
            forward = (d == 0) == (x > 0)
            supply, delivery = (a, x) if forward else (x, a)
            # the interpolated inverse is accurate to 0.5 % of rated power (as the property states)
            slack = 1e-9 * abs(delivery) if (forward or (st == "storage" and not case["conv"])) else 0.005 * R
            if abs(supply) < abs(delivery) - slack:
                return f"energy created: supply side {supply} kW, delivery side {delivery} kW"
        if st == "serial":
            # delivered / supplied power at a tabulated load of the chain = product of the stage efficiencies at their own loads
            for (d, sc, x), a, se in zip(case["qs"], obs["ans"], obs.get("q_stage_eff") or []):
                x = float(x)
                l10 = abs(x) / R * 10
                if x != 0 and (d == 0) == (x > 0) and abs(l10 - round(l10)) < 1e-12 and l10 <= 10:
                    prod = min(1.0, max(0.01, float(np.prod(se))))
                    if abs(a * prod - x) > 1e-9 * max(1.0, abs(x)):
                        return (f"serial system delivering {x} kW (load {abs(x) / R} of the first stage's rating): supply side {a} kW, "
                                f"delivery / product of the stage efficiencies at their own loads = {x / prod}")
            for l, e, se in zip(case["loads"], obs["eff"], obs["stage_eff"]):
                if l * 10 == int(l * 10):
                    prod = min(1.0, max(0.01, float(np.prod(se))))     # the system's own efficiency is limited to [1 %, 100 %] too
                    if abs(e - prod) > 1e-9:
                        return f"serial system at load {float(l)}: efficiency {e}, product of the stage efficiencies at their own loads {prod}"
        if obs.get("series_input_unchanged") is False:
            return "converting a power series changed the caller's array in place"
        if "series" in obs:
            for s, o in zip(obs["series"], obs["one_by_one"]):
                if abs(s - o) > 1e-9 * max(1.0, abs(o)):
                    return f"series evaluation gives {s}, element-by-element {o}"
        for name, h in (obs.get("setter_history") or {}).items():
            if not h["buffer_kept"]:
                return f"{name} changed the caller's buffer"
            for g, w in zip(h["got"], h["want"]):
                if abs(g - w) > 1e-9 * max(1.0, abs(w)):
                    return (f"{name} called a second time with the same buffer, refilled in place, returns {g} where the conversion of "
                            f"the buffer's content is {w}")
        for q, e in zip(case["qs"], obs.get("roundtrip_err", [])):
            if e > 0.005:
                return f"round trip of {float(q[2])} kW misses by {e * 100:.3f} % of rated power (claimed: within 0.5 %)"
        for how, errs in (("a scalar", obs.get("strict_roundtrip_err", [])), ("a series", obs.get("strict_roundtrip_err_series", []))):
            for x, e in zip(obs.get("strict_xs", []), errs):
                q = [0, 0, x]
                if not e <= 1e-6:
                    return (f"round trip of {float(q[2])} kW with strict balance (as {how}) misses by {e:.3e} of rated power "
                            f"(claimed: within 1e-6)")
        return None

    @staticmethod
    def steep_or_outside(curve, load, min_abs_slope=0.5):
        """is this load outside the load range the curve's points span (PCHIP extrapolates there), or on / next to a segment
        whose efficiency changes by at least min_abs_slope per unit load?"""
        pts = sorted([[float(l), float(v)] for l, v in curve])
        if load < pts[0][0] or load > pts[-1][0]:
            return True
        for i in range(len(pts) - 1):
            slope = abs((pts[i + 1][1] - pts[i][1]) / (pts[i + 1][0] - pts[i][0]))
            lo = pts[max(i - 1, 0)][0]
            hi = pts[min(i + 2, len(pts) - 1)][0]
            if slope >= min_abs_slope and lo <= load <= hi:
                return True
        return False

    @staticmethod
    def pred_rough(case, obs, params):
        """every round trip that misses its bound is made at a load where the curve is steep or extrapolated"""
        if not isinstance(case, dict) or case.get("stream") != "basic" or len(case.get("curve") or []) < 2:
            return False
        r = float(case["rated"])
        bad = [abs(float(q[2])) / r for q, e in zip(case["qs"] + [[0, 0, x] for x in []], obs.get("roundtrip_err", [])) if e > 0.005]
        for how in ("strict_roundtrip_err", "strict_roundtrip_err_series"):
            bad += [abs(x) / r for x, e in zip(obs.get("strict_xs", []), obs.get(how, [])) if not e <= 1e-6]
        return bool(bad) and all(P.steep_or_outside(case["curve"], l, params.get("min_abs_slope", 0.5)) for l in bad)

    PREDICATES = {"rough_curve_roundtrip_above_half_percent": pred_rough.__func__}

    def nontrivial(self, case, obs):
        if case["stream"] == "serial":
            return True
        c = case.get("curve") or (case.get("conv") or {}).get("curve") or [0]
        return len(c) >= 2

    def tags(self, case, obs):
        t = ["stream=" + case["stream"]]
        if case["stream"] == "basic":
            t.append("accepted" if obs.get("accepted") else "rejected(non-monotonic)")
            if case.get("from_file") and len(case["curve"]) > 1:
                t.append("component-described-by-a-data-file")
            c = case["curve"]
            vals = [c[0]] if len(c) == 1 and not isinstance(c[0], list) else [v for _, v in c]
            if any(v > 1 or v < Fraction(1, 100) for v in vals):
                t.append("clamp-active")
            t.append(f"points={len(c)}")
            if len(c) > 1 and any(l > 1 for l, _ in c):
                t.append("curve-with-overload-point")
            m = max(obs.get("roundtrip_err", [0]) or [0])
            t.append("roundtrip<=0.1%" if m <= 0.001 else "roundtrip<=0.5%" if m <= 0.005 else "roundtrip>0.5%")
        if case["stream"] == "serial":
            t.append("equal-ratings" if len({s["rated"] for s in case["stages"]}) == 1 else "different-ratings")
            if not case.get("rated_given", True):
                t.append("chain-rating-left-out")
        if case["stream"] == "machine":
            t.append("role=" + case["role"])
        if case["stream"] == "storage":
            t.append(case["kind"])
        if any(q[2] == 0 for q in case["qs"]):
            t.append("power-exactly-0")
        if any(abs(q[2]) == case["rated"] for q in case["qs"]):
            t.append("power=+-rated")
        return t

    def extra_coverage(self):
        return {}

    def search(self, rng, near=None):
        return self.gen(rng, "quick", 100)
