"""C16 — same operating profile, same results, whatever the input route."""
from __future__ import annotations

from fractions import Fraction

import numpy as np

import core
import plantgen as pg
import sysrun
from props.base import Prop


def aux_coq(a):
    if isinstance(a, list):
        return "(AuxSeries " + core.coq_q_list(a) + ")"
    return f"(AuxScalar {core.coq_q(a)})"


class P(Prop):
    ID = "C16"
    THEOREMS = ["C16_routes_agree", "C16_hold", "C16_equal_split", "C16_aux_fallback"]
    MAKE_TARGETS = ["theories/Props/C16.vo", "theories/Check/Check_C16.vo"]
    CHECK_REQUIRE = ("From Coq Require Import QArith List Bool.\nFrom Feems Require Import Base.Num Model.Routes Check.Check_C16.\nOpen Scope Q_scope.")
    RULE = ("electric plants (1-2 switchboards, 1-3 propulsion drives, 0-2 auxiliary loads) and mechanical+electric plants "
            "(1-2 propellers): one profile of 2-7 samples with irregular stamps (sometimes two EQUAL intervals), auxiliary power as one "
            "value or per sample (some samples exactly 0, message-level value also set), run through every applicable route on a "
            "FRESH MachineryCalculation each: propulsion-power series, Gymir result, protobuf time series (per-sample or "
            "message-level auxiliary power), operating points with durations; per route the delivered power of every propulsor, the "
            "input of every auxiliary load and the interval vector are compared in Coq with the model's `fed` record; the oracle "
            "requires identical results on all routes. Also the operation-profile interpolation on another time base. "
            "Non-trivial = >= 3 samples")
    QUICK_N = 80
    THOROUGH_N = 2000
    SHARD = 20

    def gen(self, rng, tier, override=None):
        out = []
        for _ in range(self.n_cases(tier, override)):
            nswb = rng.choice([1, 2])
            swbs = [1, 2][:nswb]
            mech = rng.random() < 0.35
            comps = []
            for s in swbs:
                for k in range(rng.randint(1, 2)):
                    comps.append({"name": f"g{s}{k}", "cls": "genset", "swb": s, "rated": Fraction(rng.randint(8, 16) * 250)})
            nprop = rng.randint(1, 3)
            if not mech:
                for k in range(nprop):
                    comps.append({"name": f"drive{k}", "cls": "drive", "swb": rng.choice(swbs), "rated": Fraction(4000), "eff": [Fraction(15, 16)]})
            naux = rng.choice([1, 1, 2, 3]) if mech else rng.choice([0, 1, 1, 2, 3])   # an electric plant without any consumer is rejected (remark R-10)
            uneven = naux == 3 and nswb == 2          # two auxiliary loads on one switchboard, one on the other
            for k in range(naux):
                comps.append({"name": f"aux{k}", "cls": "load", "swb": ([1, 1, 2][k] if uneven else rng.choice(swbs)), "rated": Fraction(2000), "eff": [1]})
            mcomps = None
            if mech:
                nprop = rng.randint(1, 2)
                mcomps = []
                for k in range(nprop):
                    mcomps += [{"name": f"me{k}", "cls": "main_engine", "line": k + 1, "rated": Fraction(8000)},
                               {"name": f"prop{k}", "cls": "propeller", "line": k + 1, "rated": Fraction(8000), "eff": [1]}]
            m = rng.randint(2, 7)
            frac = rng.random() < 0.4            # time stamps that are not whole seconds
            steps = [Fraction(rng.randint(1, 40) * 15) + (Fraction(rng.randint(0, 7), 8) if frac else 0) for _ in range(m - 1)]
            if m >= 3 and rng.random() < 0.5:
                steps[1] = steps[0]          # two equally long intervals
            ts = [Fraction(rng.randint(0, 1000)) + (Fraction(rng.randint(0, 7), 8) if frac else 0)]
            if rng.random() < 0.3:
                ts = [Fraction(0)]            # a profile on a relative time base: the first stamp is exactly 0 s
            for d in steps:
                ts.append(ts[-1] + d)
            ps = [Fraction(rng.randint(0, 64), 64) * 4000 for _ in range(m)]
            int_profile = rng.random() < 0.3           # whole-kW propulsion power handed over as an integer-typed series
            if int_profile:
                ps = [Fraction(rng.randint(0, 32) * 125) for _ in range(m)]
            if naux == 0:
                aux = Fraction(0)
            elif rng.random() < 0.5:
                aux = Fraction(rng.randint(1, 64), 64) * 800
            else:
                aux = [Fraction(rng.randint(1, 64), 64) * 800 if rng.random() < 0.7 else Fraction(0) for _ in range(m)]
            out.append({"plant": {"comps": comps, "breakers": [[1, 2]] if nswb == 2 else [], "swbs": swbs}, "mech": mcomps,
                        "nprop": nprop, "naux": naux, "ts": ts, "ps": ps, "aux": aux,
                        "message_aux_when_series": Fraction(rng.randint(1, 64), 64) * 800, "int_profile": int_profile,
                        # an operating mode of zero duration (an empty bin of the statistics) at some place, with its own values
                        "zero_mode": {"at": rng.randrange(m), "power": Fraction(rng.randint(0, 64), 64) * 4000,
                                      "aux": Fraction(rng.randint(1, 64), 64) * 800},
                        "profile": {"ts": sorted(rng.sample(range(int(ts[0]) - 50, int(ts[-1]) + 50), 3)),
                                    "speed": [rng.randint(0, 40) / 2 for _ in range(3)], "draft": [rng.randint(8, 20) / 2 for _ in range(3)]}})
        return out

    def build(self, case):
        from RunFeemsSim.machinery_calculation import MachineryCalculation
        from feems.system_model import MechanicalPropulsionSystem, MechanicalPropulsionSystemWithElectricPowerSystem
        es, _ = pg.build_electric_system(case["plant"])
        sysm = es
        if case["mech"]:
            ms = MechanicalPropulsionSystem("mech", [pg.build_mechanical_component(d) for d in case["mech"]])
            sysm = MechanicalPropulsionSystemWithElectricPowerSystem("ship", es, ms)
        return MachineryCalculation(sysm, maximum_allowed_power_source_load_percentage=75), es, sysm

    def observe(self, case, es, sysm, res):
        props = (list(sysm.mechanical_system.mechanical_loads) if case["mech"] else list(es.propulsion_drives))
        snap = (sysrun.snap(res.mechanical_system), sysrun.snap(res.electric_system)) if case["mech"] else (sysrun.snap(res),)
        return {"gensets": [[float(x) for x in np.atleast_1d(g.power_output)] for g in es.power_sources if type(g).__name__ == "Genset"],
                "prop": [[float(x) for x in np.atleast_1d(p.power_output)] for p in props],
                "aux": [[float(x) for x in np.atleast_1d(o.power_input)] for o in es.other_load],
                "dt": [float(x) for x in np.atleast_1d(es.time_interval_s)], "snap": list(snap)}

    def run(self, case):
        import pandas as pd
        import MachSysS.gymir_result_pb2 as gp
        from MachSysS.convert_proto_timeseries import convert_proto_timeseries_to_pd_dataframe
        ts = [float(x) for x in case["ts"]]
        ps = [float(x) for x in case["ps"]]
        aux = case["aux"]
        series_aux = isinstance(aux, list)
        auxf = np.array([float(x) for x in aux]) if series_aux else float(aux)
        out = {}
        with np.errstate(all="ignore"):
            mc, es, sysm = self.build(case)
            data = np.array([int(x) for x in ps], dtype=int) if case.get("int_profile") else ps
            r = mc.calculate_machinery_system_output_from_propulsion_power_time_series(
                propulsion_power=pd.Series(index=ts, data=data), auxiliary_power_kw=auxf)
            out["series"] = self.observe(case, es, sysm, r)
            if not series_aux:
                mc, es, sysm = self.build(case)
                g = gp.GymirResult(name="x", auxiliary_load_kw=float(aux),
                                   result=[gp.SimulationInstance(epoch_s=t, power_kw=p) for t, p in zip(ts, ps)])
                g = gp.GymirResult.FromString(g.SerializeToString())
                r = mc.calculate_machinery_system_output_from_gymir_result(gymir_result=g)
                out["gymir"] = self.observe(case, es, sysm, r)
            # protobuf time series: per-sample auxiliary power, message-level value also set
            mc, es, sysm = self.build(case)
            per = [float(x) for x in aux] if series_aux else [0.0] * len(ts)
            msg_aux = float(case["message_aux_when_series"]) if series_aux else float(aux)
            prof = case["profile"]
            tsr = gp.TimeSeriesResult(
                propulsion_power_timeseries=[gp.PropulsionPowerInstance(epoch_s=t, propulsion_power_kw=p, auxiliary_power_kw=a)
                                             for t, p, a in zip(ts, ps, per)],
                auxiliary_power_kw=msg_aux,
                operation_profile=[gp.OperationProfilePoint(epoch_s=float(t), speed_kn=s, draft_m=d)
                                   for t, s, d in zip(prof["ts"], prof["speed"], prof["draft"])])
            tsr = gp.TimeSeriesResult.FromString(tsr.SerializeToString())
            df = convert_proto_timeseries_to_pd_dataframe(tsr)
            out["interp"] = {"speed": [float(x) for x in df["speed_kn"]], "draft": [float(x) for x in df["draft_m"]]}
            r = mc.calculate_machinery_system_output_from_time_series_result(time_series=tsr)
            out["proto"] = self.observe(case, es, sysm, r)
            out["proto_per"], out["proto_msg"] = per, msg_aux
            mc, es, sysm = self.build(case)
            r = mc.calculate_machinery_system_output_from_statistics(
                propulsion_power=np.array(ps[:-1]), frequency=np.diff(np.array(ts)),
                auxiliary_power_kw=(auxf[:-1] if series_aux else auxf))
            out["stat"] = self.observe(case, es, sysm, r)
            # the same statistics with an empty bin (a mode of zero duration) in it
            z = case.get("zero_mode")
            if z:
                k = min(z["at"], len(ps) - 1)
                p2 = np.insert(np.array(ps[:-1]), k, float(z["power"]))
                f2 = np.insert(np.diff(np.array(ts)), k, 0.0)
                a2 = np.insert(auxf[:-1], k, float(z["aux"])) if series_aux else auxf
                mc, es, sysm = self.build(case)
                r = mc.calculate_machinery_system_output_from_statistics(propulsion_power=p2, frequency=f2, auxiliary_power_kw=a2)
                o = self.observe(case, es, sysm, r)
                out["stat_zero"] = {"snap": o["snap"], "at": k}
        return out

    def term(self, case, obs):
        ts, ps = core.coq_q_list(case["ts"]), core.coq_q_list(case["ps"])
        aux = case["aux"]
        series_aux = isinstance(aux, list)
        np_, na = case["nprop"], case["naux"]
        scale = "8000"
        def fed(route):
            if route == "series":
                return f"(from_time_series {ts} {ps} {aux_coq(aux)})"
            if route == "gymir":
                return f"(from_gymir {ts} {ps} {core.coq_q(aux)})"
            if route == "proto":
                per = core.coq_q_list([Fraction(x) for x in obs["proto_per"]])
                return f"(from_proto {ts} {ps} {per} {core.coq_q(Fraction(obs['proto_msg']))})"
            a = aux[:-1] if series_aux else aux
            return f"(from_statistics (drop_last {ps}) (diffs {ts}) {aux_coq(a)})"
        parts = []
        for route in ("series", "gymir", "proto", "stat"):
            if route not in obs:
                continue
            o = obs[route]
            parts.append(f"check_fed {fed(route)} {max(np_, 1)}%nat {max(na, 1) if na else 1}%nat {scale} "
                         f"{core.coq_list([core.coq_fl_list(x) for x in o['prop']])} {core.coq_list([core.coq_fl_list(x) for x in o['aux']]) if na else '[[]]' if False else core.coq_list([core.coq_fl_list(x) for x in o['aux']])} "
                         f"{core.coq_fl_list(o['dt'])}")
        prof = case["profile"]
        xs = core.coq_q_list([Fraction(t) for t in prof["ts"]])
        parts.append(f"check_interp {xs} {core.coq_q_list([Fraction(v) for v in prof['speed']])} {ts} {core.coq_fl_list(obs['interp']['speed'])}")
        parts.append(f"check_interp {xs} {core.coq_q_list([Fraction(v) for v in prof['draft']])} {ts} {core.coq_fl_list(obs['interp']['draft'])}")
        t = "(" + "\n && ".join(parts) + ")%bool"
        if na == 0:
            t = t.replace(f"{max(np_, 1)}%nat 1%nat {scale}", f"{max(np_, 1)}%nat 0%nat {scale}")
        return t

    def oracle(self, case, obs):
        ref = obs["series"]
        m = len(case["ts"])
        # sample k held until sample k+1, equal split
        for k in range(m - 1):
            want = float(case["ps"][k]) / case["nprop"]
            for p in ref["prop"]:
                if len(p) != m - 1 or abs(p[k] - want) > 1e-9 * max(1.0, want):
                    return f"time-series route: propulsor gets {p} but sample {k} / {case['nprop']} propulsors is {want} over {m - 1} intervals"
            if abs(ref["dt"][k] - float(case["ts"][k + 1] - case["ts"][k])) > 1e-9:
                return f"interval {k} is {ref['dt'][k]} s, the stamps give {float(case['ts'][k + 1] - case['ts'][k])} s"
        # the auxiliary power is split equally over the auxiliary loads, wherever they sit
        if case["naux"]:
            aux = case["aux"]
            for k in range(m - 1):
                want = float(aux[k] if isinstance(aux, list) else aux) / case["naux"]
                for a_ in ref["aux"]:
                    if len(a_) != m - 1 or abs(a_[k] - want) > 1e-9 * max(1.0, want):
                        return (f"time-series route: an auxiliary load gets {a_} but interval {k}'s auxiliary power split equally over "
                                f"{case['naux']} loads is {want}")
        # a sample is held until the next one: a genset's running hours are the intervals in which it delivers power
        from props.C19 import scalar_fields
        el = ref["snap"][-1]         # the electric system's result
        if "running_hours_genset_total_hr" in scalar_fields() and ref.get("gensets") is not None:
            got = el["scalars"][scalar_fields().index("running_hours_genset_total_hr")]
            want = sum(d for g in ref["gensets"] for d, p in zip(ref["dt"], g) if p != 0) / 3600
            if abs(got - want) > 1e-9 * max(1.0, want):
                return (f"genset running hours {got} h, but the intervals {ref['dt']} in which the gensets deliver power "
                        f"({[[p != 0 for p in g] for g in ref['gensets']]}) sum to {want} h")
        for route in ("gymir", "proto", "stat"):
            if route not in obs:
                continue
            if route == "proto" and isinstance(case["aux"], list) and all(a == 0 for a in case["aux"]):
                continue         # all per-sample values zero: the message-level value applies instead, another profile
            o = obs[route]
            for key in ("prop", "aux", "dt"):
                a, b = np.array(ref[key], dtype=float), np.array(o[key], dtype=float)
                if a.shape != b.shape or not np.allclose(a, b, rtol=1e-9, atol=1e-9):
                    return f"route '{route}' feeds {key} = {o[key]}, the time-series route {ref[key]} for the same profile"
            for sa, sb in zip(ref["snap"], o["snap"]):
                d = sysrun.figures_diff(sa, sb)
                if d:
                    return f"route '{route}' gives other results than the time-series route for the same profile: {d[:3]}"
        if "stat_zero" in obs and "stat" in obs:
            for sa, sb in zip(obs["stat"]["snap"], obs["stat_zero"]["snap"]):
                d = sysrun.figures_diff(sa, sb)
                if d:
                    return (f"operating-point route: a mode of zero duration inserted at place {obs['stat_zero']['at']} changes the results: {d[:3]}")
        return None

    def nontrivial(self, case, obs):
        return len(case["ts"]) >= 3

    def tags(self, case, obs):
        t = ["plant=" + ("mechanical+electric" if case["mech"] else "electric"), f"samples={len(case['ts'])}",
             f"propulsors={case['nprop']}", f"aux-loads={case['naux']}",
             "aux=" + ("per-sample" if isinstance(case["aux"], list) else "one-value")]
        ds = [case["ts"][i + 1] - case["ts"][i] for i in range(len(case["ts"]) - 1)]
        if len(set(ds)) < len(ds):
            t.append("two-equal-intervals")
        if any(x != int(x) for x in case["ts"]):
            t.append("time-stamps-not-whole-seconds")
        if case.get("int_profile"):
            t.append("integer-typed-propulsion-series")
        if case["ts"][0] == 0:
            t.append("relative-time-base(first stamp 0 s)")
        if "stat_zero" in obs:
            t.append("statistics-with-a-zero-duration-mode")
        if isinstance(case["aux"], list) and any(a == 0 for a in case["aux"][:-1]) and not all(a == 0 for a in case["aux"]):
            t.append("some-per-sample-aux-exactly-0")
        return t

    def search(self, rng, near=None):
        return self.gen(rng, "quick", 40)
