"""C05 — hybrid system: one PTI/PTO, consistent on the electric and the shaft side."""
from __future__ import annotations

from fractions import Fraction

import numpy as np

import core
import plantgen as pg
from props.base import Prop
from props.C06 import coq_curve, gen_curve


class P(Prop):
    ID = "C05"
    THEOREMS = ["C05_no_full_pti", "C05_full_pti", "C05_full_step", "C05_load_sharing_step", "C05_both_within_eps", "C05_loss",
                "C05_combined_balance_computes_the_step_formulas"]
    MAKE_TARGETS = ["theories/Props/C05.vo", "theories/Check/Check_C04.vo"]
    CHECK_REQUIRE = ("From Coq Require Import QArith List Bool.\nFrom Feems Require Import Base.Num Base.Pchip Model.Component "
                     "Model.Shaft Model.Hybrid Check.Check_C06 Check.Check_C04.\nOpen Scope Q_scope.")
    RULE = ("hybrid plants: 1-4 switchboards (closed chain of ties) with 1-3 equally sharing sources and 1-2 consumers, one PTI/PTO (serial "
            "drive of 1-2 stages with 1-4 point curves) in given-power mode on any switchboard, shared with a shaft line of 1-2 "
            "main engines and a propeller; series of 2-6 steps mixing PTI (positive electrical power), PTO (negative) and full-PTI "
            "steps, or none; compared per step: electrical and shaft power of the PTI/PTO after the combined balance, every engine "
            "and source output; the oracle checks both balances within 0.5 % of the PTI/PTO rating. Non-trivial = series with a "
            "full-PTI step or a PTO step")
    QUICK_N = 100
    THOROUGH_N = 2500
    SHARD = 5

    def gen(self, rng, tier, override=None):
        out = []
        for _ in range(self.n_cases(tier, override)):
            nswb = rng.choice([1, 1, 2, 3, 4])       # closed chain of ties: one bus however many switchboards
            swbs = [1, 2, 3, 4][:nswb]
            n = rng.randint(2, 6)
            comps = []
            for s in swbs:
                for k in range(rng.randint(1, 2)):
                    comps.append({"name": f"g{s}{k}", "cls": rng.choice(["genset", "generator"]), "swb": s, "rated": Fraction(rng.randint(4, 16) * 250)})
                comps.append({"name": f"c{s}", "cls": "load", "swb": s, "rated": Fraction(3000), "eff": [1.0]})
            nm = rng.choice([1, 1, 1, 2])
            machines, mech = [], []
            style = rng.choice(["mixed", "mixed", "no-full", "all-full"])
            rated_pti = Fraction(rng.choice([500, 1000, 2000]))
            for j in range(nm):
                nst = rng.choice([1, 1, 2])
                stages = [{"rated": rated_pti, "eff": gen_curve(rng, lo=56)} for _ in range(nst)]
                stages = [s if len(s["eff"]) <= 4 else {"rated": s["rated"], "eff": [s["eff"][0][1]]} for s in stages]
                name = f"ptipto{j}"
                comps.append({"name": name, "cls": "ptipto", "swb": rng.choice(swbs), "line": j + 1, "rated": rated_pti, "stages": stages})
                for k in range(rng.randint(1, 2)):
                    mech.append({"name": f"me{j}{k}", "cls": rng.choice(["main_engine", "main_engine_gb"]), "line": j + 1,
                                 "rated": Fraction(rng.randint(8, 24) * 250)})
                mech.append({"name": f"prop{j}", "cls": "propeller", "line": j + 1, "rated": Fraction(12000), "eff": [1.0]})
                full = [{"mixed": rng.random() < 0.35, "no-full": False, "all-full": True}[style] for _ in range(n)]
                # full-PTI loads up to the rating itself (the electrical demand, load / efficiency, then exceeds the rating)
                load = [Fraction(rng.choice([rng.randint(1, 28), rng.randint(1, 28), rng.randint(29, 32)]), 32) * rated_pti if f
                        else Fraction(rng.randint(8, 40), 8) * 250 for f in full]
                machines.append({"name": name, "line": j + 1, "full": full, "load": load,
                                 "e0": [Fraction(rng.randint(-28, 28), 32) * rated_pti for _ in range(n)]})
            # one machine that SHARES THE LOAD with the sources on some steps (PTO in equal-sharing mode, flag 0) and follows its
            # set-point on the others; full-PTI steps are set-point steps
            if rng.random() < 0.35:
                m0 = rng.choice(machines)         # with two machines the other one follows its set-points / drives its shaft alone
                lsm = [1 if f else rng.choice([0, 0, 1]) for f in m0["full"]]
                if all(x == 1 for x in lsm):
                    lsm[rng.randrange(n)] = 0 if not all(m0["full"]) else 1
                lsm = [1 if f else x for f, x in zip(m0["full"], lsm)]
                m0["lsm"] = lsm
                m0["e0"] = [Fraction(0) if x == 0 else e for x, e in zip(lsm, m0["e0"])]
            # a machine that only ever generates (PTO) or only ever motors (PTI) over the whole series
            elif rng.random() < 0.3:
                sgn = rng.choice([1, -1])
                for m_ in machines:
                    m_["e0"] = [sgn * abs(e) if e != 0 else sgn * rated_pti / 4 for e in m_["e0"]]
            # steps at which the propeller idles (shaft load exactly 0) while the machine generates (PTO): the engines drive it
            if rng.random() < 0.3:
                for m_ in machines:
                    for t_ in range(n):
                        if not m_["full"][t_] and rng.random() < 0.4:
                            m_["load"][t_] = Fraction(0)
                            if not (m_.get("lsm") and m_["lsm"][t_] == 0):
                                m_["e0"][t_] = -abs(m_["e0"][t_]) if m_["e0"][t_] != 0 else -rated_pti / 8
            share = nm == 2 and rng.random() < 0.5
            if share:            # both machines are handed THE SAME set-point array object
                machines[1]["e0"] = machines[0]["e0"]
            rng.shuffle(comps)
            cons = {c["name"]: [Fraction(rng.randint(0, 16), 16) * 1000 for _ in range(n)] for c in comps if c["cls"] == "load"}
            case = {"elec": {"comps": comps, "breakers": [[k, k + 1] for k in range(1, nswb)], "swbs": swbs}, "mech": mech,
                    "n": n, "machines": machines, "share_array": share, "cons": cons}
            # a second calculation of the same length on the same plant object: some sources switched off (at least one stays on),
            # other consumer loads, the machines' set-points and flags supplied again
            nsrc = sum(1 for c_ in comps if pg.kind_of(c_["cls"]) == "Source")
            if rng.random() < 0.3 and nsrc >= 2 and not any(m_.get("lsm") for m_ in machines):
                off = sorted(rng.sample(range(nsrc), rng.randint(1, nsrc - 1)))
                import copy as _copy
                m2 = _copy.deepcopy(machines)
                for m_ in m2:
                    m_["e0"] = [Fraction(rng.randint(-28, 28), 32) * rated_pti for _ in range(n)]
                case["second"] = {"cons": {k_: [Fraction(rng.randint(0, 16), 16) * 1000 for _ in range(n)] for k_ in cons},
                                  "machines": m2, "src_off": off, "share_array": False}
            out.append(case)
        return out

    # ---- implementation side: build once, supply inputs, balance, observe (a second calculation may follow on the same object)
    def build(self, case):
        from feems.system_model import HybridPropulsionSystem, MechanicalPropulsionSystem
        esys, eobjs = pg.build_electric_system(case["elec"])
        byname = {d["name"]: o for d, o in zip(case["elec"]["comps"], eobjs)}
        ptis = [byname[m["name"]] for m in case["machines"]]
        mobjs = [pg.build_mechanical_component(d) for d in case["mech"]]
        msys = MechanicalPropulsionSystem("mech", mobjs + ptis)
        return {"esys": esys, "eobjs": eobjs, "ptis": ptis, "mobjs": mobjs, "msys": msys, "hyb": HybridPropulsionSystem("hyb", esys, msys)}

    def supply(self, ctx, case, inp):
        """inp: cons, machines (e0, load, full, lsm), share_array, src_off (indices, in component order, of sources switched off)"""
        from feems.components_model.utility import IntegrationMethod
        n = case["n"]
        esys, eobjs, msys, mobjs, ptis = ctx["esys"], ctx["eobjs"], ctx["msys"], ctx["mobjs"], ctx["ptis"]
        esys.set_time_interval(np.full(n, 60.0), IntegrationMethod.sum_with_time)
        if case["elec"]["breakers"] and inp is case:      # the ties stay closed: set once, not again before a second calculation
            esys.set_bus_tie_status_all(np.ones((n, len(case["elec"]["breakers"])), dtype=bool))
        shared = np.array([float(x) for x in inp["machines"][0]["e0"]]) if inp.get("share_array") else None
        k_src = 0
        for d, o in zip(case["elec"]["comps"], eobjs):
            k = pg.kind_of(d["cls"])
            if k == "Consumer":
                o.power_input = np.array([float(x) for x in inp["cons"][d["name"]]])
            else:
                on = not (k == "Source" and k_src in (inp.get("src_off") or []))
                o.status = np.ones(n, dtype=bool) if on else np.zeros(n, dtype=bool)      # assigned on the component, as pms_basic does
                o.load_sharing_mode = np.ones(n) if k == "PtiPto" else np.zeros(n)
                k_src += (k == "Source")
        for m, o in zip(inp["machines"], ptis):
            arr = shared if shared is not None else np.array([float(x) for x in m["e0"]])
            if m.get("lsm"):
                o.load_sharing_mode = np.array([float(x) for x in m["lsm"]])
            if not (m.get("lsm") and not any(m["lsm"])):      # a machine that shares the load throughout is given no set-point
                msys.set_power_input_pti_pto_by_value_for_name_shaft_line_id(m["name"], m["line"], arr)
            msys.set_full_pti_mode_for_name_shaft_line_id(m["name"], m["line"], np.array(m["full"], dtype=bool))
        for d, o in zip(case["mech"], mobjs):
            if d["cls"] == "propeller":
                m = next(mm for mm in inp["machines"] if mm["line"] == d["line"])
                o.power_input = np.array([float(x) for x in m["load"]])
            else:
                o.status = np.ones(n, dtype=bool)

    def observe(self, ctx, case):
        eobjs, mobjs, ptis = ctx["eobjs"], ctx["mobjs"], ctx["ptis"]
        res = {"machines": [], "pti_rated": float(ptis[0].rated_power),
               "sources": [[float(x) for x in o.power_output] for d, o in zip(case["elec"]["comps"], eobjs) if pg.kind_of(d["cls"]) == "Source"],
               "src_rated": [float(o.rated_power) for d, o in zip(case["elec"]["comps"], eobjs) if pg.kind_of(d["cls"]) == "Source"]}
        for m, o in zip(case["machines"], ptis):
            engs = [(d, e) for d, e in zip(case["mech"], mobjs) if d["line"] == m["line"] and d["cls"] != "propeller"]
            res["machines"].append({"elec": [float(x) for x in o.power_input], "shaft": [float(x) for x in o.power_output],
                                    "engines": [[float(x) for x in e.power_output] for _, e in engs],
                                    "eng_rated": [float(e.rated_power) for _, e in engs]})
        return res

    def run(self, case):
        from feems.exceptions import InputError
        try:
            ctx = self.build(case)
        except InputError:
            return {"rejected": True}
        self.supply(ctx, case, case)
        with np.errstate(all="ignore"):
            ctx["hyb"].do_power_balance_calculation()
        res = self.observe(ctx, case)
        if case.get("second"):       # another calculation of the same length on the same plant object, some sources now switched off
            self.supply(ctx, case, case["second"])
            with np.errstate(all="ignore"):
                ctx["hyb"].do_power_balance_calculation()
            res["second"] = self.observe(ctx, case)
        return res

    def term(self, case, obs):
        defs = {c["name"]: c for c in case["elec"]["comps"] if c["cls"] == "ptipto"}
        st = lambda d: core.coq_list([f"({core.coq_q(s['rated'])}, {coq_curve(s['eff'])})" for s in d["stages"]])
        if obs.get("rejected"):
            return "negb (" + " && ".join(f"serial_accepted {core.coq_q(d['rated'])} {st(d)}" for d in defs.values()) + ")%bool"
        scale = core.coq_q(Fraction(max(obs["pti_rated"], sum(obs["src_rated"]))))
        lets = "".join(f"let p{j} := prepare {core.coq_q(defs[m['name']]['rated'])} (serial_fn (mk_stages {st(defs[m['name']])})) in "
                       for j, m in enumerate(case["machines"]))
        parts = []
        for inp, ob in [(case, obs)] + ([(case["second"], obs["second"])] if case.get("second") and obs.get("second") else []):
            self.term_run(case, inp, ob, defs, scale, parts)
        return f"({lets}(" + "\n && ".join(parts) + ")%bool)"

    def term_run(self, case, inp, obs, defs, scale, parts):
        anyf = core.coq_bool(any(any(m["full"]) for m in inp["machines"]))
        off = set(inp.get("src_off") or [])
        on_rated = [Fraction(r) for k_, r in enumerate(obs["src_rated"]) if k_ not in off]
        for t in range(case["n"]):
            cons = sum(v[t] for v in inp["cons"].values())
            net = core.coq_q(cons)
            bal = [m for m in inp["machines"] if m.get("lsm") and m["lsm"][t] == 0]      # sharing the load at this step
            cap = sum(on_rated) + sum(Fraction(defs[m["name"]]["rated"]) for m in bal)
            # per step one let-block, so that every value is computed once: set-point machines first -- what the LAST electric
            # pass reads of them (ebal) is part of the net load the load-sharing machines and the sources share
            lets_t, checks = [], []
            netv = f"n{t}"
            terms = [core.coq_q(cons)]
            for j, m in enumerate(inp["machines"]):
                if m not in bal:
                    lets_t.append(f"let h{j} := {{| h_e0 := {core.coq_q(m['e0'][t])}; h_load := {core.coq_q(m['load'][t])}; "
                                  f"h_full := {core.coq_bool(m['full'][t])}; h_any_full := {anyf}; h_bal := false |}} in")
                    terms.append(f"ebal p{j} h{j}")
            lets_t.append(f"let {netv} := Qred (dy ({' + '.join(terms)})) in")
            for j, m in enumerate(inp["machines"]):
                if m in bal:
                    lets_t.append(f"let h{j} := {{| h_e0 := Qred (dy (- {core.coq_q(defs[m['name']]['rated'])} * ({netv} / {core.coq_q(cap)}))); "
                                  f"h_load := {core.coq_q(m['load'][t])}; h_full := {core.coq_bool(m['full'][t])}; h_any_full := {anyf}; h_bal := true |}} in")
            for j, (m, o) in enumerate(zip(inp["machines"], obs["machines"])):
                engines = core.coq_list([f"{{| e_rated := {core.coq_q(Fraction(r))}; e_on := true |}}" for r in o["eng_rated"]])
                checks.append(f"machine_ok p{j} h{j} {engines} {scale} {core.coq_fl(o['elec'][t])} {core.coq_fl(o['shaft'][t])} "
                              f"{core.coq_fl_list([e[t] for e in o['engines']])}")
            checks.append(f"sources_ok_cap {core.coq_q_list(on_rated)} {core.coq_q(cap)} {netv} {scale} "
                          f"{core.coq_fl_list([s_[t] for k_, s_ in enumerate(obs['sources']) if k_ not in off])}")
            if off:          # sources that are switched off deliver nothing
                checks.append(f"sources_ok_cap {core.coq_q_list([Fraction(obs['src_rated'][k_]) for k_ in sorted(off)])} 1 0 {scale} "
                              f"{core.coq_fl_list([obs['sources'][k_][t] for k_ in sorted(off)])}")
            parts.append("(" + " ".join(lets_t) + " (" + " && ".join(checks) + ")%bool)")

    def oracle(self, case, obs):
        if obs.get("rejected"):
            return None
        why = self.oracle_run(case, case, obs)
        if why is None and case.get("second") and obs.get("second"):
            why = self.oracle_run(case, case["second"], obs["second"])
            if why:
                why = "second calculation on the same plant object (some sources switched off, other loads): " + why
        return why

    def oracle_run(self, whole, case, obs):
        R = obs["pti_rated"]
        for t in range(whole["n"]):
            cons = sum(float(v[t]) for v in case["cons"].values())
            src = sum(s[t] for s in obs["sources"])
            elec = sum(o["elec"][t] for o in obs["machines"])
            if abs(src - cons - elec) > 0.005 * R * len(obs["machines"]) + 1e-9 * max(1.0, src):
                return (f"step {t}: electric balance off by {src - cons - elec:.4f} kW (sources {src}, consumers {cons}, "
                        f"PTI/PTO electrical {elec}); allowed 0.5 % of {R} kW per machine")
            for m, o in zip(case["machines"], obs["machines"]):
                eng = sum(e[t] for e in o["engines"])
                L = float(m["load"][t])
                if abs(eng + o["shaft"][t] - L) > 0.005 * R + 1e-9 * max(1.0, L):
                    return (f"step {t}, shaft line {m['line']}: shaft balance off by {eng + o['shaft'][t] - L:.4f} kW (engines {eng}, "
                            f"PTI/PTO shaft {o['shaft'][t]}, load {L}); allowed 0.5 % of {R} kW")
                if m["full"][t]:
                    if any(abs(e[t]) > 1e-9 for e in o["engines"]):
                        return f"step {t} (full PTI) line {m['line']}: engines deliver {[e[t] for e in o['engines']]}"
                    if o["elec"][t] < o["shaft"][t] - 0.005 * R:
                        return f"step {t} (full PTI): electrical side supplies {o['elec'][t]} kW for {o['shaft'][t]} kW on the shaft"
        return None

    @staticmethod
    def pred_pti_curve(case, obs, params):
        """a PTI/PTO stage whose efficiency points do not span loads 1/8..7/8 (extrapolated inside the operating range) or that
        has a segment changing by >= 0.5 per unit load: the interpolated inverse of such a machine misses the 0.5 % bound"""
        if not isinstance(case, dict) or "elec" not in case:
            return False
        for c in case["elec"]["comps"]:
            if c["cls"] != "ptipto":
                continue
            for s_ in c.get("stages") or []:
                pts = s_["eff"]
                if len(pts) < 2 or not isinstance(pts[0], (list, tuple)):
                    continue
                p_ = sorted([[float(l), float(v)] for l, v in pts])
                if p_[0][0] > 0.125 or p_[-1][0] < 0.875:
                    return True
                if any(abs((p_[i + 1][1] - p_[i][1]) / (p_[i + 1][0] - p_[i][0])) >= params.get("min_abs_slope", 0.5) for i in range(len(p_) - 1)):
                    return True
        return False

    PREDICATES = {"pti_curve_steep_or_not_spanning_the_load_range": pred_pti_curve.__func__}

    def nontrivial(self, case, obs):
        return any(any(m["full"]) or any(e < 0 for e in m["e0"]) for m in case["machines"])

    def tags(self, case, obs):
        t = [f"nswb={len(case['elec']['swbs'])}", f"n={case['n']}", f"machines={len(case['machines'])}"]
        if case["share_array"]:
            t.append("machines-share-one-setpoint-array")
        if any(m.get("lsm") for m in case["machines"]):
            t.append("machine-shares-the-load-on-some-steps(flag 0)")
        if case.get("second"):
            t.append("second-calculation-on-the-same-object(sources switched off)")
        if any(l == 0 and not f for m in case["machines"] for l, f in zip(m["load"], m["full"])):
            t.append("idle-propeller-step(shaft load 0) with PTO")
        es = [e for m in case["machines"] for e, f in zip(m["e0"], m["full"]) if not f]
        if es and (all(e < 0 for e in es) or all(e > 0 for e in es)):
            t.append("series-all-PTO" if es[0] < 0 else "series-all-PTI")
        fl = [f for m in case["machines"] for f in m["full"]]
        t.append("full-pti:" + ("all" if all(fl) else "some" if any(fl) else "none"))
        if any(e < 0 and not f for m in case["machines"] for e, f in zip(m["e0"], m["full"])):
            t.append("pto-step")
        if any(e > 0 and not f for m in case["machines"] for e, f in zip(m["e0"], m["full"])):
            t.append("pti-step")
        return t

    def search(self, rng, near=None):
        return self.gen(rng, "quick", 60)
