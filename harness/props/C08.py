"""C08 — greenhouse-gas emissions = sum over fuels of mass x pathway factor."""
from __future__ import annotations

import csv
import itertools
from fractions import Fraction

import numpy as np

import core
import regen
from props.base import Prop

CLASSES = [1, 2, 3, 4, 5, 6]
CLASS_TABLE_NAME = {1: "ALL ICEs", 2: "LNG otto (medium speed)", 3: "LNG otto (slow speed)",
                    4: "LNG diesel (slow speed)", 5: "LBSI", 6: "Fuel Cells"}


def user_factor_list(co2, ch4, n2o, slip):
    from feems.fuel import FuelConsumerClassFuelEUMaritime as C
    from feems.fuel import GhgEmissionFactorTankToWake as G
    return [G(co2_factor_gco2_per_gfuel=float(co2), ch4_factor_gch4_per_gfuel=float(ch4),
              n2o_factor_gn2o_per_gfuel=float(n2o), c_slip_percent=float(slip), fuel_consumer_class=c)
            for c in [None] + [C(i) for i in CLASSES]]


def read_table_raw(which):
    """independent reading of the packaged CSV (csv module, not pandas, not fuel.py's loader)"""
    path = core.REPO / "feems" / "feems" / "package_data" / ("fuel_eu_fuel_table.csv" if which == "eu" else "fuel_imo_table.csv")
    with open(path, newline="", encoding="utf-8-sig") as f:
        lines = list(csv.reader(f))
    header_at = int(lines[1][1])
    values_at = int(lines[3][1])
    header = [h for h in lines[header_at - 1] if h != ""]
    rows = []
    for ln in lines[values_at - 1:]:
        if not any(c.strip() for c in ln):
            continue
        rows.append(dict(zip(header, ln)))
    return rows


class P(Prop):
    ID = "C08"
    THEOREMS = ["C08_total_is_sum", "C08_zero_total", "C08_scalar_series", "C08_formula", "C08_gas_engine_rule"]
    GEN_THEOREMS = ["C08_gwp", "C08_slip_is_class_property", "C08_slip_only_for_gas", "C08_imo_co2_only",
                    "C08_no_missing_factor", "C08_nongas_in_gas_engine"]
    MAKE_TARGETS = ["theories/Props/C08.vo", "theories/Check/Check_C08.vo"]
    EXTRA_Q = [(core.GEN, "FeemsGen")]
    CHECK_REQUIRE = ("From Coq Require Import QArith String List Bool.\n"
                     "From Feems Require Import Base.Num Model.Ghg Check.Check_C08.\n"
                     "From FeemsGen Require Import Gen_fuel_tables.\nOpen Scope Q_scope.")
    RULE = ("(tables) the two GHG tables, name maps and GWP constants are regenerated from feems.fuel as imported and the six "
            "theorems of coq/gen/C08_gen.v re-proved; (factors, EXHAUSTIVE in every tier) every fuel type x origin (incl. NONE) x "
            "{IMO, FuelEU} x every consumer class: tank-to-wake, well-to-tank, tank-to-wake without slip or the exception; "
            "(mix) 1-4 fuels incl. user-specified ones, scalar or series masses incl. zeros and zero-total steps, every class; "
            "(class) engine class from fuel, cycle and rated speed for engines built from arguments and from a data file. "
            "Non-trivial = a mix of >= 2 fuels or a factor case with a table row")
    QUICK_N = 260
    THOROUGH_N = 5000
    SHARD = 60
    exhaustive = False

    # ---- regenerated obligations --------------------------------------------------------------
    def regen(self):
        info = regen.gen_fuel_tables()
        ok, log = regen.compile_gen([core.GEN / "Gen_fuel_tables.v", "C08_gen.v"])
        n = len(self.GEN_THEOREMS)
        info["theorems"] = self.GEN_THEOREMS
        if ok:
            import re
            m = re.search(r"=\s*(\[.*?\])\s*:\s*list \(string \* string\)", log, re.S)
            info["incomplete_rows_now"] = " ".join(m.group(1).split()) if m else ""
            details = []
            if m and "(" in m.group(1):
                details.append({"kind": "failing-input", "broken": "C08_no_missing_factor (rows listed as known)",
                                "input": {"regen": "incomplete_rows", "rows": info["incomplete_rows_now"]},
                                "observed": {"rows": info["incomplete_rows_now"]},
                                "why": "FuelEU rows without tank-to-wake factors: " + info["incomplete_rows_now"]})
                return False, details, n, n, info
            return True, None, n, n, info
        # a theorem over the tables no longer checks: search the implementation for a failing input
        why = self.table_oracle()
        import re
        m = re.search(r'C08_gen.v", line (\d+)', log)
        broken = "a theorem of coq/gen/C08_gen.v over the regenerated tables"
        if m:
            src = (core.COQ / "gen" / "C08_gen.v").read_text().split("\n")
            ln = int(m.group(1))
            for k in range(ln - 1, -1, -1):
                if src[k].startswith("Theorem"):
                    broken = src[k].split()[1]
                    break
        if why:
            return False, {"kind": "failing-input", "broken": broken, "input": why["input"], "observed": why["observed"],
                           "why": why["why"]}, n, n - 1, info
        return False, {"kind": "no-failing-input-found", "broken": broken, "input": None, "observed": None,
                       "why": log[-1200:]}, n, n - 1, info

    def table_oracle(self):
        """the table-level clauses of the property, restated on the implementation"""
        from feems.fuel import (Fuel, FuelConsumerClassFuelEUMaritime as C, FuelOrigin, FuelSpecifiedBy, TypeFuel,
                                _GWP100_CH4, _GWP100_N2O)
        if (_GWP100_CH4, _GWP100_N2O) != (25, 298):
            return {"input": {"constants": "GWP100"}, "observed": {"ch4": _GWP100_CH4, "n2o": _GWP100_N2O},
                    "why": f"GWP100 weights are CH4={_GWP100_CH4}, N2O={_GWP100_N2O}; the property names 25 and 298"}
        gas = [C.LNG_OTTO_MEDIUM_SPEED, C.LNG_OTTO_SLOW_SPEED, C.LNG_DIESEL, C.LNG_LBSI]
        ref = {}
        for o in (FuelOrigin.FOSSIL, FuelOrigin.BIO, FuelOrigin.RENEWABLE_NON_BIO):
            try:
                f = Fuel(TypeFuel.NATURAL_GAS, o, FuelSpecifiedBy.FUEL_EU_MARITIME)
            except Exception:
                continue
            for c in gas:
                rows = [x for x in f.ghg_emission_factor_tank_to_wake if x.fuel_consumer_class == c]
                if not rows:
                    return {"input": {"fuel": "NATURAL_GAS", "origin": o.name, "class": c.name}, "observed": {"rows": 0},
                            "why": f"FuelEU: natural gas of origin {o.name} has no factor for engine class {c.name}"}
                s = rows[0].c_slip_percent
                if c in ref and ref[c][1] != s:
                    return {"input": {"fuel": "NATURAL_GAS", "origin": o.name, "class": c.name},
                            "observed": {"slip": s, "slip_" + ref[c][0]: ref[c][1]},
                            "why": f"methane slip of class {c.name} depends on the origin: {s} for {o.name}, {ref[c][1]} for {ref[c][0]}"}
                ref.setdefault(c, (o.name, s))
        for t in TypeFuel:
            for o in (FuelOrigin.FOSSIL, FuelOrigin.BIO, FuelOrigin.RENEWABLE_NON_BIO):
                try:
                    f = Fuel(t, o, FuelSpecifiedBy.IMO)
                except Exception:
                    continue
                x = f.ghg_emission_factor_tank_to_wake[0]
                if x.ghg_emission_factor_gco2eq_per_gfuel != x.co2_factor_gco2_per_gfuel:
                    return {"input": {"fuel": t.name, "origin": o.name, "spec": "IMO"},
                            "observed": {"ttw": x.ghg_emission_factor_gco2eq_per_gfuel, "co2": x.co2_factor_gco2_per_gfuel},
                            "why": "under IMO the tank-to-wake factor differs from the tabulated CO2 factor"}
        return None

    # ---- cases -----------------------------------------------------------------------------------
    def gen(self, rng, tier, override=None):
        from feems.fuel import FuelOrigin, TypeFuel
        out = []
        if not override:
            for spec in ("IMO", "FUEL_EU_MARITIME"):
                for t in TypeFuel:
                    for o in FuelOrigin:
                        out.append({"stream": "factors", "spec": spec, "type": t.value, "origin": o.value})
            # engine class: every fuel kind of interest x cycle x speeds around the 200 rpm boundary x described by arguments / by a data file
            for ty in (0, 2, 8):
                for cy in (0, 1, 2, 3):
                    for sp in (80, 199, 199.5, 200, 200.5, 514, 720, 1800):
                        for ff in (False, True):
                            out.append({"stream": "class", "type": ty, "cycle": cy, "speed": sp, "from_file": ff})
            self.exhaustive = True
        n = self.n_cases(tier, override)
        types = [t.value for t in TypeFuel]
        for _ in range(n):
            if rng.random() < 0.8:
                spec = rng.choice(["IMO", "FUEL_EU_MARITIME"])
                series = rng.random() < 0.5
                nst = rng.randint(2, 4) if series else 1
                fuels = []
                for _f in range(rng.choice([1, 2, 2, 3, 4])):
                    ms = [Fraction(0) if rng.random() < 0.2 else Fraction(rng.randint(1, 800), 8) for _s in range(nst)]
                    if rng.random() < 0.2:
                        fuels.append({"user": [Fraction(rng.randint(200, 330), 100), Fraction(rng.randint(0, 10), 100000),
                                               Fraction(rng.randint(0, 30), 100000), Fraction(rng.randint(0, 30), 10),
                                               Fraction(rng.randint(350, 500), 10000), Fraction(rng.randint(0, 200), 10)],
                                      "mass": ms})
                    else:
                        fuels.append({"type": rng.choice([0, 0, 2, 2, 2, 1, 3, 8, 9, 13] + types), "origin": rng.choice([1, 1, 1, 2, 3]),
                                      "mass": ms})
                if series and rng.random() < 0.4:
                    t0 = rng.randrange(nst)
                    for f in fuels:
                        f["mass"][t0] = Fraction(0)
                out.append({"stream": "mix", "spec": spec, "series": series, "n": nst, "fuels": fuels,
                            "cls": rng.choice(CLASSES)})
            elif rng.random() < 0.45:
                # a whole plant (gensets on several fuels, dual-fuel sets, fuel-cell systems of 1-3 modules) under either
                # specification: the GHG figure of every fuel consumer and of the plant against mass x pathway factor
                import plantgen as pg
                import sysrun
                c = sysrun.gen_electric_case(rng, n=rng.randint(1, 4), max_swb=2)
                for d in c["plant"]["comps"]:
                    if pg.kind_of(d["cls"]) == "Source" and d["cls"] not in ("genset", "genset_df", "genset_rect"):
                        d["cls"] = "fuelcell"
                        d["fc"] = {"modules": rng.choice([1, 2, 3]), "fuel": rng.choice(["HYDROGEN", "HYDROGEN", "NATURAL_GAS"]),
                                   "origin": rng.choice(["FOSSIL", "RENEWABLE_NON_BIO"])}
                    if pg.kind_of(d["cls"]) in ("Storage", "PtiPto"):
                        d["cls"] = "battery"
                # an Otto-cycle gas engine whose generator has another rated speed, on the other side of the 200 rpm boundary
                # between the slow-speed and the medium-speed consumer class
                gs = [d for d in c["plant"]["comps"] if d["cls"] in ("genset", "genset_rect")]
                if gs and rng.random() < 0.5:
                    d = rng.choice(gs)
                    slow = rng.random() < 0.5
                    d["engine"] = dict(d.get("engine") or {}, rated=Fraction(d["rated"]) * Fraction(11, 10), fuel="NATURAL_GAS", cycle="OTTO",
                                       speed=100 if slow else 720)
                    d["engine"].pop("pilot", None)
                    d["gen_speed"] = rng.choice([1800, 720]) if slow else rng.choice([0, 150])
                out.append({"stream": "plant", "spec": rng.choice(["IMO", "FUEL_EU_MARITIME", "FUEL_EU_MARITIME"]), "plant": c["plant"], "inp": c["inp"]})
            elif rng.random() < 0.3:
                # a plant's result charged to a fuel tank that may not cover it (feems.simulation_interface.EnergySource)
                out.append({"stream": "tank", "spec": rng.choice(["IMO", "FUEL_EU_MARITIME"]), "fuel": rng.choice(["DIESEL", "NATURAL_GAS"]),
                            "tank_share": rng.choice([Fraction(5), Fraction(1), Fraction(3, 5), Fraction(1, 4)]),
                            "prev": rng.choice([Fraction(0), Fraction(0), Fraction(1, 2), Fraction(3, 5)]), "last": rng.random() < 0.3,
                            "loads": [Fraction(rng.randint(1, 16), 16) * 1000 for _ in range(3)], "dt": [Fraction(rng.randint(1, 40) * 30) for _ in range(3)]})
            else:
                out.append({"stream": "class", "type": rng.choice([0, 2, 2, 2, 8]), "cycle": rng.choice([0, 1, 2, 2, 3]),
                            "speed": rng.choice([80, 130, 199, 199.5, 200, 200.5, 514, 720, 1000, 1800]),
                            "from_file": rng.random() < 0.4})
        return out

    def mk(self, case, f, step):
        from feems.fuel import Fuel, FuelOrigin, FuelSpecifiedBy, TypeFuel
        if "user" in f:
            co2, ch4, n2o, slip, lhv, wtt = f["user"]
            return Fuel(TypeFuel.DIESEL, FuelOrigin.FOSSIL, FuelSpecifiedBy.USER, lhv_mj_per_g=float(lhv),
                        ghg_emission_factor_well_to_tank_gco2eq_per_mj=float(wtt),
                        ghg_emission_factor_tank_to_wake=user_factor_list(co2, ch4, n2o, slip), mass_or_mass_fraction=step)
        return Fuel(TypeFuel(f["type"]), FuelOrigin(f["origin"]), FuelSpecifiedBy[case["spec"]], mass_or_mass_fraction=step)

    def run(self, case):
        from feems.fuel import (Fuel, FuelConsumerClassFuelEUMaritime as C, FuelConsumption, FuelOrigin, FuelSpecifiedBy,
                                TypeFuel)
        st = case["stream"]
        if st == "tank":
            return self.run_tank(case)
        if st == "plant":
            return self.run_plant(case)
        with np.errstate(all="ignore"):
            if st == "factors":
                res = {}
                for c in CLASSES:
                    try:
                        f = Fuel(TypeFuel(case["type"]), FuelOrigin(case["origin"]), FuelSpecifiedBy[case["spec"]])
                        res[c] = [float(f.get_ghg_emission_factor_tank_to_wake_gco2eq_per_gfuel(C(c))),
                                  float(f.ghg_emission_factor_well_to_tank_gco2_per_gfuel),
                                  float(f.get_ghg_emission_factor_tank_to_wake_gco2eq_per_gfuel(C(c), exclude_slip=True))]
                    except (ValueError, KeyError, StopIteration) as e:
                        res[c] = "raised:" + type(e).__name__
                return {"factors": res}
            if st == "mix":
                n, series = case["n"], case["series"]
                try:
                    fuels = [self.mk(case, f, np.array([float(x) for x in f["mass"]]) if series else float(f["mass"][0]))
                             for f in case["fuels"]]
                    rec = FuelConsumption(fuels=fuels)
                    before = [np.array(f.mass_or_mass_fraction, dtype=float).copy() for f in rec.fuels]
                    e = rec.get_total_co2_emissions(fuel_consumer_class=C(case["cls"]))
                    tr = [np.broadcast_to(np.atleast_1d(np.asarray(x, dtype=float)), (n,)) for x in
                          (e.tank_to_wake_kg_or_gco2eq_per_gfuel, e.well_to_tank_kg_or_gco2eq_per_gfuel,
                           e.tank_to_wake_kg_or_gco2eq_per_gfuel_without_slip)]
                    after = [np.array(f.mass_or_mass_fraction, dtype=float) for f in rec.fuels]
                    same = all(np.array_equal(a, b) for a, b in zip(before, after))
                    return {"total": [[float(tr[k][t]) for k in range(3)] for t in range(n)], "operands_unchanged": bool(same)}
                except (ValueError, KeyError, StopIteration) as ex:
                    return {"total": "raised:" + type(ex).__name__}
            # engine class
            from feems.components_model.component_mechanical import Engine
            from feems.types_for_feems import EngineCycleType, TypeComponent
            kw = dict(type_=TypeComponent.MAIN_ENGINE, fuel_type=TypeFuel(case["type"]), engine_cycle_type=EngineCycleType(case["cycle"]))
            if case["from_file"]:
                core.CASES.mkdir(parents=True, exist_ok=True)
                fn = core.CASES / f"engine_{id(case)}.csv"
                fn.write_text(",Rated Power,Rated Speed,BSFC@25%,BSFC@50%,BSFC@100%\n"
                              f"engine1,1000.0,{float(case['speed'])},220.0,200.0,190.0\n")
                try:
                    eng = Engine(file_name=str(fn), **kw)
                finally:
                    fn.unlink()
            else:
                eng = Engine(name="e", rated_power=1000.0, rated_speed=float(case["speed"]),
                             bsfc_curve=np.array([[0.25, 220.0], [1.0, 190.0]]), **kw)
            try:
                c = eng.fuel_consumer_type_fuel_eu_maritime.value
            except ValueError:
                c = None
            return {"cls": c, "speed": float(eng.rated_speed)}

    def coq_entries(self, case, t):
        ents = []
        for f in case["fuels"]:
            if "user" in f:
                co2, ch4, n2o, slip, lhv, wtt = f["user"]
                ttw = (1 - slip / 100) * (co2 + ch4 * 25 + n2o * 298) + slip / 100 * 25
                # user fuels: the model takes the factor triple; for IMO mixes the code ignores exclude_slip
                noslip = ttw if case["spec"] == "IMO_NEVER" else co2
                fid = f"User {core.coq_q(ttw)} {core.coq_q(wtt * lhv)} {core.coq_q(noslip)}"
            else:
                fid = f"Prescribed {f['type']}%nat {f['origin']}%nat"
            ents.append(f"({fid}, {core.coq_q(f['mass'][t])})")
        return core.coq_list(ents)

    def run_plant(self, case):
        import plantgen as pg
        from feems.components_model.node import get_fuel_emission_energy_balance_for_component
        from feems.components_model.utility import IntegrationMethod
        from feems.exceptions import InputError
        from feems.fuel import FuelConsumerClassFuelEUMaritime as C, FuelSpecifiedBy
        spec = FuelSpecifiedBy[case["spec"]]
        trip = lambda g: [float(np.sum(g.tank_to_wake_kg_or_gco2eq_per_gfuel)), float(np.sum(g.well_to_tank_kg_or_gco2eq_per_gfuel))]
        fl = lambda fc: [[f.fuel_type.value, f.origin.value, f.fuel_specified_by.name, float(np.sum(f.mass_or_mass_fraction))] for f in fc.fuels]
        with np.errstate(all="ignore"):
            try:
                sysm, objs = pg.build_electric_system(case["plant"])
                pg.apply_electric_inputs(sysm, objs, case["plant"], case["inp"])
                sysm.do_power_balance_calculation()
                res = sysm.get_fuel_energy_consumption_running_time(fuel_specified_by=spec)
            except (InputError, ValueError, StopIteration) as e:
                return {"rejected": type(e).__name__}
            comps = []
            dt = np.array([float(x) for x in case["inp"]["dt"]])
            for d, o in zip(case["plant"]["comps"], objs):
                if pg.kind_of(d["cls"]) != "Source":
                    continue
                try:
                    r = get_fuel_emission_energy_balance_for_component(component=o, time_interval_s=dt, integration_method=IntegrationMethod.sum_with_time,
                                                                       fuel_specified_by=spec)
                except (ValueError, StopIteration) as e:
                    return {"rejected": type(e).__name__}
                cls = C.FUEL_CELL.value if d["cls"] == "fuelcell" else o.aux_engine.fuel_consumer_type_fuel_eu_maritime.value
                comps.append({"name": d["name"], "cls": cls, "fuels": fl(r.multi_fuel_consumption_total_kg), "co2": trip(r.co2_emission_total_kg)})
            return {"comps": comps, "total_fuels": fl(res.multi_fuel_consumption_total_kg), "total_co2": trip(res.co2_emission_total_kg)}

    def oracle_plant(self, case, obs):
        import math
        if "rejected" in obs:
            return None
        sums = [0.0, 0.0]
        for c in obs["comps"]:
            want = [0.0, 0.0]
            for ty, origin, spec, m in c["fuels"]:
                if spec != case["spec"]:
                    return f"{c['name']}: fuel {ty}/{origin} is reported as specified by {spec}, the calculation was asked for {case['spec']}"
                if m == 0:
                    continue
                fa = self.raw_factor(case["spec"], ty, origin, c["cls"])
                if fa is None or any(math.isnan(x) for x in fa):
                    return None          # a row without factors (F-C08-1) or no row at all: nothing to compare with
                want[0] += m * fa[0]
                want[1] += m * fa[1]
            for name, g, w in zip(("tank-to-wake", "well-to-tank"), c["co2"], want):
                if not abs(g - w) <= 1e-9 * max(1.0, abs(w)):
                    return f"{c['name']}: {name} {g} kg but the sum over its fuels of mass x pathway factor is {w} kg"
            sums = [sums[0] + want[0], sums[1] + want[1]]
        for ty, origin, spec, m in obs["total_fuels"]:
            if spec != case["spec"]:
                return f"plant total: fuel {ty}/{origin} is reported as specified by {spec}, asked for {case['spec']}"
        for name, g, w in zip(("tank-to-wake", "well-to-tank"), obs["total_co2"], sums):
            if not abs(g - w) <= 1e-9 * max(1.0, abs(w)):
                return f"plant: {name} {g} kg but the sum over all fuel consumers of mass x pathway factor is {w} kg"
        return None

    def run_tank(self, case):
        import plantgen as pg
        from feems.components_model.utility import IntegrationMethod
        from feems.fuel import FuelSpecifiedBy
        from feems.simulation_interface import EnergySource, EnergySourceType
        plant = {"comps": [{"name": "gs", "cls": "genset", "swb": 1, "rated": Fraction(1000),
                            "engine": {"fuel": case["fuel"], "cycle": "OTTO" if case["fuel"] == "NATURAL_GAS" else "DIESEL", "rated": Fraction(1100)}},
                           {"name": "hotel", "cls": "load", "swb": 1, "rated": Fraction(1000), "eff": [1]}], "breakers": [], "swbs": [1]}
        inp = {"n": 3, "sts": None, "dt": case["dt"],
               "comps": [{"status": [True] * 3, "lsm": [Fraction(0)] * 3, "pin": [Fraction(0)] * 3}, {"pin": case["loads"], "set": "from_output"}]}
        spec = FuelSpecifiedBy[case["spec"]]
        comp = lambda g: [float(g.tank_to_wake_kg_or_gco2eq_per_gfuel), float(g.well_to_tank_kg_or_gco2eq_per_gfuel), float(g.well_to_wake_kg_or_gco2eq_per_gfuel)]
        with np.errstate(all="ignore"):
            sysm, objs = pg.build_electric_system(plant)
            pg.apply_electric_inputs(sysm, objs, plant, inp)
            sysm.do_power_balance_calculation()
            res = sysm.get_fuel_energy_consumption_running_time(fuel_specified_by=spec)
            burned = float(res.fuel_consumption_total_kg)
            before = comp(res.co2_emission_total_kg)
            tank = EnergySource(EnergySourceType.LNG_DIESEL, rated_capacity=10 * burned, unit="kg", remaining_capacity=float(case["tank_share"]) * burned)
            _, res2 = tank.set_remaining_capacity_from_feems_result(res, ratio_energy_used_in_previous_source=float(case["prev"]),
                                                                    is_last_energy_source=case["last"])
            return {"burned": burned, "co2_before": before, "mass_after": float(res2.fuel_consumption_total_kg),
                    "co2_after": comp(res2.co2_emission_total_kg)}

    def term(self, case, obs):
        st = case["stream"]
        if st in ("tank", "plant"):
            return "true"
        spec = "IMO" if case.get("spec") == "IMO" else "EU"
        if st == "factors":
            parts = []
            for c in CLASSES:
                o = obs["factors"][c]
                ob = "None" if isinstance(o, str) else "(Some " + core.coq_fl_list(o) + ")"
                parts.append(f"check_factors tables {spec} {case['type']}%nat {case['origin']}%nat {c}%nat {ob}")
            return "(" + " && ".join(parts) + ")%bool"
        if st == "mix":
            parts = []
            for t in range(case["n"]):
                ob = "None" if isinstance(obs["total"], str) else "(Some " + core.coq_fl_list(obs["total"][t]) + ")"
                parts.append(f"check_total {core.coq_bool(case['series'])} tables {spec} {case['cls']}%nat {self.coq_entries(case, t)} {ob}")
            return "(" + "\n && ".join(parts) + ")%bool"
        ob = "None" if obs["cls"] is None else f"(Some {obs['cls']}%nat)"
        return (f"check_class natural_gas_type {case['type']}%nat {case['cycle']}%nat {core.coq_q(Fraction(obs['speed']))} {ob}")

    # the property restated on the implementation, with an independent reading of the CSV files
    _raw = None

    def raw_factor(self, spec, ty, origin, cls):
        from feems.fuel import (_FUEL_CLASS_FUEL_EU_MARITIME_MAPPING as OM, _FUEL_TYPE_FUEL_EU_MARITIME_MAPPING as TM,
                                FuelOrigin, TypeFuel)
        if P._raw is None:
            P._raw = {"eu": read_table_raw("eu"), "imo": read_table_raw("imo")}
        if FuelOrigin(origin) not in OM:
            return None
        pn, fc = TM[TypeFuel(ty)], OM[FuelOrigin(origin)]
        rows = [r for r in P._raw["eu" if spec != "IMO" else "imo"] if r["pathway_name"] == pn and r["fuel_class"] == fc]
        if not rows:
            return None
        num = lambda s: float(s) if s not in ("", None) else float("nan")
        if spec == "IMO":
            r = rows[0]
        else:
            if ty != 2 and cls in (2, 3, 4, 5):
                cls = 1
            rr = [r for r in rows if r["fuel_consumer_unit_class"] == CLASS_TABLE_NAME[cls]]
            if not rr:
                return None
            r = rr[0]
        s = num(r["C_slip"])
        ttw = (1 - s / 100) * (num(r["Cf_CO2"]) + 25 * num(r["Cf_CH4"]) + 298 * num(r["Cf_N2O"])) + 25 * s / 100
        return ttw, num(rows[0]["CO2_WtT"]) * num(rows[0]["LCV"])

    def oracle(self, case, obs):
        if case["stream"] == "plant":
            return self.oracle_plant(case, obs)
        if case["stream"] == "tank":
            if obs["burned"] <= 0:
                return None
            for name, a, b in zip(("tank-to-wake", "well-to-tank", "well-to-wake"), obs["co2_before"], obs["co2_after"]):
                want = a / obs["burned"] * obs["mass_after"]        # the same pathway factor per kg of the same fuel
                if abs(b - want) > 1e-9 * max(1.0, abs(want)):
                    return (f"result charged to a tank: {obs['mass_after']} kg of fuel reported with {name} {b} kg, "
                            f"mass x pathway factor = {want} kg")
            return None
        if case["stream"] != "mix" or isinstance(obs["total"], str):
            return None
        if not obs["operands_unchanged"]:
            return "get_total_co2_emissions changed the masses of the record it was computed from"
        for t in range(case["n"]):
            ttw = wtt = 0.0
            for f in case["fuels"]:
                m = float(f["mass"][t])
                if "user" in f:
                    co2, ch4, n2o, slip, lhv, w = [float(x) for x in f["user"]]
                    fa = ((1 - slip / 100) * (co2 + 25 * ch4 + 298 * n2o) + 25 * slip / 100, w * lhv)
                else:
                    fa = self.raw_factor(case["spec"], f["type"], f["origin"], case["cls"])
                    if fa is None:
                        return None
                ttw += m * fa[0]
                wtt += m * fa[1]
            got = obs["total"][t]
            tot = sum(float(f["mass"][t]) for f in case["fuels"])
            if tot == 0:
                ttw = wtt = 0.0
            for name, g, e in (("tank-to-wake", got[0], ttw), ("well-to-tank", got[1], wtt)):
                if e == e and not abs(g - e) <= 1e-9 * max(1.0, abs(e)):
                    return f"step {t}: reported {name} {g} but the sum over fuels of mass x pathway factor is {e}"
        return None

    @staticmethod
    def pred_known_rows(case, obs, params):
        import re
        if isinstance(case, dict) and case.get("stream") == "mix" and case.get("spec") == "FUEL_EU_MARITIME":
            # a mix containing one of the known pathways without factors: every figure is NaN
            from feems.fuel import (_FUEL_CLASS_FUEL_EU_MARITIME_MAPPING as OM, _FUEL_TYPE_FUEL_EU_MARITIME_MAPPING as TM, FuelOrigin, TypeFuel)
            hit = any("type" in f and FuelOrigin(f["origin"]) in OM and [TM[TypeFuel(f["type"])], OM[FuelOrigin(f["origin"])]] in params["rows"]
                      for f in case["fuels"])
            nan = isinstance(obs.get("total"), list) and any(x != x for row in obs["total"] for x in row if isinstance(x, float))
            return hit and nan
        if not (isinstance(case, dict) and case.get("regen") == "incomplete_rows"):
            return False
        rows = [list(x) for x in re.findall(r'\("([^"]+)", "([^"]+)"\)', case["rows"])]
        return bool(rows) and all(r in params["rows"] for r in rows)

    PREDICATES = {"eu_rows_without_factors": pred_known_rows.__func__}

    def nontrivial(self, case, obs):
        if case["stream"] == "mix":
            return len(case["fuels"]) >= 2
        if case["stream"] == "factors":
            return any(not isinstance(v, str) for v in obs.get("factors", {}).values())
        return True

    def tags(self, case, obs):
        t = ["stream=" + case["stream"]]
        if case["stream"] == "plant":
            t.append("spec=" + case["spec"])
            if "rejected" in obs:
                t.append("plant-rejected:" + obs["rejected"])
            for d in case["plant"]["comps"]:
                if d["cls"] == "fuelcell":
                    t.append(f"fuel-cell-system-modules={d['fc']['modules']}")
                if d["cls"] == "genset_df":
                    t.append("dual-fuel-set")
            return sorted(set(t))
        if case["stream"] == "mix":
            t += ["spec=" + case["spec"], "series" if case["series"] else "scalar", f"nfuels={len(case['fuels'])}", f"class={case['cls']}"]
            if any("user" in f for f in case["fuels"]):
                t.append("user-fuel")
            if isinstance(obs.get("total"), str):
                t.append(obs["total"])
            if any(sum(f["mass"][k] for f in case["fuels"]) == 0 for k in range(case["n"])):
                t.append("zero-total-step")
            if case["cls"] in (2, 3, 4, 5) and any(f.get("type") not in (2, None) for f in case["fuels"]):
                t.append("non-gas-fuel-in-gas-engine")
        if case["stream"] == "factors":
            t.append("spec=" + case["spec"])
            if all(isinstance(v, str) for v in obs["factors"].values()):
                t.append("pathway-not-listed")
        if case["stream"] == "class":
            t.append("from-file" if case["from_file"] else "from-arguments")
        return t

    def search(self, rng, near=None):
        return self.gen(rng, "quick", 200)
