"""C07 — fuel mass flow follows the consumption and efficiency characteristics."""
from __future__ import annotations

from fractions import Fraction

import numpy as np

import core
import plantgen as pg
from props.base import Prop
from props.C06 import coq_curve, gen_curve, np_curve


ONE_ROW_X = None      # set per case by run(): a single value v handed over as the one-row curve [[x, v]]


def npc(c):
    if ONE_ROW_X is not None and len(c) == 1 and not isinstance(c[0], (list, tuple)):
        return np.array([[float(ONE_ROW_X), float(c[0])]])
    return np_curve(c)


def gen_bsfc(rng, lo=150, hi=260):
    k = rng.choice([1, 2, 3, 4, 5])
    if k == 1:
        return [Fraction(rng.randint(lo, hi))]
    loads = sorted(rng.sample([Fraction(i, 8) for i in range(1, 9)], k))
    return [[l, Fraction(rng.randint(lo * 2, hi * 2), 2)] for l in loads]


def prep(rated, curve):
    return f"(prepare {core.coq_q(rated)} (curve_fn {coq_curve(curve)}))"


class P(Prop):
    ID = "C07"
    THEOREMS = ["C07_engine", "C07_pilot_separate", "C07_chain", "C07_modules_linear", "C07_fuel_power_over_lhv",
                "C07_turbine_split", "C07_running_hours"]
    MAKE_TARGETS = ["theories/Props/C07.vo", "theories/Check/Check_C07.vo"]
    CHECK_REQUIRE = ("From Coq Require Import QArith List Bool.\nFrom Feems Require Import Base.Num Base.Pchip Model.Component "
                     "Model.FuelRun Check.Check_C06 Check.Check_C07.\nOpen Scope Q_scope.")
    RULE = ("every fuel consumer kind: (engine) single- and dual-fuel engines with 1-5 point consumption curves, explicit power "
            "as scalar or series incl. 0 and powers at curve points; (genset) with and without rectifier: engine power behind the "
            "generator and fuel; (geared) main engine with gearbox efficiency < 1, run point asked twice; (fuelcell) 1-4 modules "
            "behind a converter; (cogas) COGAS alone and in a COGES with gas/steam split curves; (hours) running hours through "
            "get_fuel_emission_energy_balance_for_component with irregular intervals and idle steps. Non-trivial = multi-point "
            "curve or several modules")
    QUICK_N = 200
    THOROUGH_N = 5000
    SHARD = 8

    def gen(self, rng, tier, override=None):
        out = []
        for _ in range(self.n_cases(tier, override)):
            st = rng.choice(["engine", "engine", "genset", "geared", "fuelcell", "cogas", "hours"])
            rated = Fraction(rng.choice([500, 1000, 2000, 4000]))
            n = rng.randint(1, 5)
            ps = [Fraction(rng.randint(0, 64), 64) * rated if rng.random() < 0.85 else Fraction(0) for _ in range(n)]
            c = {"stream": st, "rated": rated, "ps": ps, "scalar": rng.random() < 0.3,
                 # a characteristic that is one value may be handed over as [v] or as the one-row curve [[load, v]]
                 "one_row_x": (float(rng.choice([0.5, 0.8, 1.0])) if rng.random() < 0.3 else None)}
            if c["scalar"]:
                c["ps"] = ps[:1]
            if st == "engine":
                c.update({"bsfc": gen_bsfc(rng), "pilot": gen_bsfc(rng, 2, 12) if rng.random() < 0.4 else None,
                          "same_pilot_kind": rng.random() < 0.3,
                          "main_origin": rng.choice(["FOSSIL", "FOSSIL", "BIO", "RENEWABLE_NON_BIO"]),
                          "pilot_origin": rng.choice(["FOSSIL", "FOSSIL", "BIO"])})
                if len(c["bsfc"]) > 1 and rng.random() < 0.5:       # a power exactly at a curve point
                    c["ps"][0] = c["bsfc"][rng.randrange(len(c["bsfc"]))][0] * rated
            elif st == "genset":
                c.update({"bsfc": gen_bsfc(rng), "gen_eff": gen_curve(rng, lo=56), "rect": gen_curve(rng, lo=60) if rng.random() < 0.35 else None,
                          "eng_rated": rated * Fraction(rng.choice([9, 10, 11]), 10),
                          "rect_rated": rated * rng.choice([1, 1, Fraction(5, 4), Fraction(3, 4), Fraction(3, 2)])})   # rectifier rated unlike the generator
                if c["rect"]:
                    c["ps"][0] = Fraction(rng.randint(1, 10), 10) * rated       # a load at which the combined curve is tabulated
                c["stored_power_history"] = rng.random() < 0.4
            elif st == "geared":
                c.update({"bsfc": gen_bsfc(rng), "gear": gen_curve(rng, lo=56)})
            elif st == "fuelcell":
                c.update({"modules": rng.choice([1, 2, 3, 4]), "conv": gen_curve(rng, lo=58), "mod_eff": gen_curve(rng, lo=26, hi=40),
                          "fc_fuel": rng.choice(["HYDROGEN", "HYDROGEN", "NATURAL_GAS", "AMMONIA", "METHANOL"]),
                          "fc_spec": rng.choice(["IMO", "FUEL_EU_MARITIME"])})
            elif st == "cogas":
                k = rng.choice([2, 3, 4])
                loads = sorted(rng.sample([Fraction(i, 8) for i in range(1, 9)], k))
                tot = [l * rated for l in loads]
                gt = [t * Fraction(rng.randint(36, 52), 64) for t in tot]
                st_ = [t - g for t, g in zip(tot, gt)]
                if rng.random() < 0.4:         # the curves given in another order than ascending load (e.g. data-sheet order 100 % ... 25 %)
                    order = list(range(k))
                    rng.shuffle(order)
                    loads, gt, st_ = [loads[i] for i in order], [gt[i] for i in order], [st_[i] for i in order]
                c.update({"ceff": gen_curve(rng, lo=20, hi=36), "coges": rng.random() < 0.5, "gen_eff": gen_curve(rng, lo=58),
                          "split": None if rng.random() < 0.3 else {"loads": loads, "gt": gt, "st": st_}})
                if c["split"] and not c["coges"]:
                    c["ps"][0] = rng.choice(loads) * rated                      # an output exactly at a curve point
            else:
                c.update({"kind": rng.choice(["genset", "fuelcell", "main_engine", "generator"]),
                          "dt": [Fraction(rng.randint(1, 40) * 15) for _ in range(n)], "scalar": False, "ps": ps,
                          "uniform_trapezoid": rng.random() < 0.25 and n >= 2})
                if c["uniform_trapezoid"]:
                    c["dt"] = [c["dt"][0]] * n
            out.append(c)
        return out

    # ------------------------------------------------------------------------------------------
    def run(self, case):
        from feems.components_model.component_base import BasicComponent
        from feems.components_model.component_electric import (COGES, ElectricComponent, ElectricMachine, FuelCell,
                                                               FuelCellSystem, Genset)
        from feems.components_model.component_mechanical import (COGAS, Engine, EngineDualFuel,
                                                                 MainEngineForMechanicalPropulsion,
                                                                 MainEngineWithGearBoxForMechanicalPropulsion)
        from feems.exceptions import InputError
        from feems.fuel import FuelOrigin, TypeFuel
        from feems.types_for_feems import TypeComponent, TypePower
        global ONE_ROW_X
        ONE_ROW_X = case.get("one_row_x")
        st = case["stream"]
        r = float(case["rated"])
        arr = np.array([float(x) for x in case["ps"]])
        power = float(arr[0]) if case["scalar"] else arr
        lst = lambda v, n=len(arr): [float(x) for x in np.broadcast_to(np.atleast_1d(np.asarray(v, dtype=float)), (n,))]
        try:
            with np.errstate(all="ignore"):
                if st == "engine":
                    kw = dict(type_=TypeComponent.MAIN_ENGINE, name="e", rated_power=r, rated_speed=900.0, bsfc_curve=npc(case["bsfc"]))
                    if case["pilot"]:
                        mf = TypeFuel.DIESEL if case["same_pilot_kind"] else TypeFuel.NATURAL_GAS
                        eng = EngineDualFuel(bspfc_curve=npc(case["pilot"]), pilot_fuel_type=TypeFuel.DIESEL, fuel_type=mf,
                                             fuel_origin=FuelOrigin[case.get("main_origin", "FOSSIL")],
                                             pilot_fuel_origin=FuelOrigin[case.get("pilot_origin", "FOSSIL")], **kw)
                    else:
                        eng = Engine(**kw)
                    rp = eng.get_engine_run_point_from_power_out_kw(power_kw=power)
                    fuels = rp.fuel_flow_rate_kg_per_s.fuels
                    return {"load": lst(rp.load_ratio), "bsfc": lst(rp.bsfc_g_per_kWh), "fuel": lst(fuels[0].mass_or_mass_fraction),
                            "pilot": lst(fuels[1].mass_or_mass_fraction) if len(fuels) > 1 else [], "nfuels": len(fuels),
                            "kinds": [f.fuel_type.name for f in fuels], "origins": [f.origin.name for f in fuels]}
                if st == "genset":
                    eng = Engine(type_=TypeComponent.AUXILIARY_ENGINE, name="e", rated_power=float(case["eng_rated"]), rated_speed=900.0,
                                 bsfc_curve=npc(case["bsfc"]))
                    gen = ElectricMachine(type_=TypeComponent.GENERATOR, name="g", rated_power=r, rated_speed=900.0,
                                          power_type=TypePower.POWER_SOURCE, switchboard_id=1, eff_curve=npc(case["gen_eff"]))
                    rect = None
                    if case["rect"]:
                        rect = ElectricComponent(type_=TypeComponent.RECTIFIER, name="r", rated_power=float(case.get("rect_rated", case["rated"])),
                                                 eff_curve=npc(case["rect"]), switchboard_id=1)
                    gs = Genset("gs", eng, gen, rect)
                    if case.get("stored_power_history"):
                        # the run point read from the STORED delivered power, after an earlier evaluation with another series of
                        # the same length (a reporting step that follows a calculation on a reused genset)
                        gs.power_output = np.flip(np.atleast_1d(arr)) * 0.5 + 1.0
                        gs.get_fuel_cons_load_bsfc_from_power_out_generator_kw()
                        gs.power_output = np.atleast_1d(arr).copy()
                        rp = gs.get_fuel_cons_load_bsfc_from_power_out_generator_kw()
                    else:
                        rp = gs.get_fuel_cons_load_bsfc_from_power_out_generator_kw(power=arr)
                    return {"eng_power": lst(gs.aux_engine.power_output), "fuel": lst(rp.engine.fuel_flow_rate_kg_per_s.fuels[0].mass_or_mass_fraction),
                            "load": lst(rp.engine.load_ratio), "bsfc": lst(rp.engine.bsfc_g_per_kWh),
                            "gen_points": [[float(a), float(b)] for a, b in gs.generator._efficiency_points]}
                if st == "geared":
                    eng = Engine(type_=TypeComponent.MAIN_ENGINE, name="e", rated_power=r, rated_speed=900.0, bsfc_curve=npc(case["bsfc"]))
                    gb = BasicComponent(TypeComponent.GEARBOX, TypePower.POWER_TRANSMISSION, "gb", r, npc(case["gear"]))
                    me = MainEngineWithGearBoxForMechanicalPropulsion("me", eng, gb)
                    me.power_output = arr
                    rp1 = me.get_engine_run_point_from_power_out_kw()
                    f1 = lst(rp1.fuel_flow_rate_kg_per_s.fuels[0].mass_or_mass_fraction)
                    ep = lst(me.engine.power_output)
                    rp2 = me.get_engine_run_point_from_power_out_kw()         # asked again on the same state
                    return {"eng_power": ep, "fuel": f1, "fuel_again": lst(rp2.fuel_flow_rate_kg_per_s.fuels[0].mass_or_mass_fraction),
                            "delivered_after": lst(me.power_output)}
                if st == "fuelcell":
                    m = case["modules"]
                    from feems.fuel import FuelSpecifiedBy
                    fuel = TypeFuel[case.get("fc_fuel", "HYDROGEN")]
                    origin = FuelOrigin.RENEWABLE_NON_BIO if fuel == TypeFuel.HYDROGEN else FuelOrigin.FOSSIL
                    mod = FuelCell("m", r / m, npc(case["mod_eff"]), fuel, origin)
                    conv = ElectricComponent(type_=TypeComponent.POWER_CONVERTER, name="c", rated_power=r, eff_curve=npc(case["conv"]),
                                             power_type=TypePower.POWER_TRANSMISSION, switchboard_id=1)
                    fcs = FuelCellSystem("fcs", mod, conv, 1, number_modules=m)
                    rp = fcs.get_fuel_cell_run_point(power_out_kw=power, fuel_specified_by=FuelSpecifiedBy[case.get("fc_spec", "IMO")])
                    f = rp.fuel_flow_rate_kg_per_s.fuels[0]
                    return {"fuel": lst(f.mass_or_mass_fraction), "lhv": float(f.lhv_mj_per_g)}
                if st == "cogas":
                    kw = {}
                    if case["split"]:
                        s = case["split"]
                        kw = dict(gas_turbine_power_curve=np.array([[float(l), float(g)] for l, g in zip(s["loads"], s["gt"])]),
                                  steam_turbine_power_curve=np.array([[float(l), float(g)] for l, g in zip(s["loads"], s["st"])]))
                    cg = COGAS(name="cg", rated_power=r, eff_curve=npc(case["ceff"]), rated_speed=3000.0, fuel_type=TypeFuel.NATURAL_GAS, **kw)
                    if case["coges"]:
                        gen = ElectricMachine(type_=TypeComponent.GENERATOR, name="g", rated_power=r, rated_speed=3000.0,
                                              power_type=TypePower.POWER_SOURCE, switchboard_id=1, eff_curve=npc(case["gen_eff"]))
                        sysm = COGES("coges", cg, gen)
                        rp = sysm.get_system_run_point_from_power_output_kw(power_output_kw=arr).cogas
                        cp = lst(cg.power_output)
                    else:
                        cg.power_output = arr
                        rp = cg.get_gas_turbine_run_point_from_power_output_kw()
                        cp = lst(arr)
                    f = rp.fuel_flow_rate_kg_per_s.fuels[0]
                    return {"cogas_power": cp, "fuel": lst(f.mass_or_mass_fraction), "lhv": float(f.lhv_mj_per_g),
                            "gt": lst(rp.gas_turbine_power_kw) if case["split"] else [], "st": lst(rp.steam_turbine_power_kw) if case["split"] else []}
                # running hours
                from feems.components_model.node import get_fuel_emission_energy_balance_for_component
                from feems.components_model.utility import IntegrationMethod as IM
                d = {"name": "x", "cls": case["kind"], "swb": 1, "line": 1, "rated": case["rated"]}
                comp = pg.build_mechanical_component(d) if case["kind"] == "main_engine" else pg.build_electric_component(d)
                comp.power_output = arr
                if case["uniform_trapezoid"]:
                    res = get_fuel_emission_energy_balance_for_component(component=comp, time_interval_s=float(case["dt"][0]), integration_method=IM.trapezoid)
                else:
                    res = get_fuel_emission_energy_balance_for_component(component=comp, time_interval_s=np.array([float(x) for x in case["dt"]]),
                                                                         integration_method=IM.sum_with_time)
                h = {"genset": res.running_hours_genset_total_hr, "generator": res.running_hours_genset_total_hr,
                     "fuelcell": res.running_hours_fuel_cell_total_hr, "main_engine": res.running_hours_main_engines_hr}[case["kind"]]
                return {"hours": float(h)}
        except InputError:
            return {"rejected": True}

    def term(self, case, obs):
        st = case["stream"]
        if obs.get("rejected"):
            return "true"
        ps = core.coq_q_list(case["ps"])
        r = core.coq_q(case["rated"])
        sc = core.coq_bool(case["scalar"])
        if st == "engine":
            pil = "None" if not case["pilot"] else f"(Some {coq_curve(case['pilot'])})"
            return (f"check_engine {r} {coq_curve(case['bsfc'])} {pil} {ps} {core.coq_fl_list(obs['load'])} {core.coq_fl_list(obs['bsfc'])} "
                    f"{core.coq_fl_list(obs['fuel'])} {core.coq_fl_list(obs['pilot'])}")
        if st == "genset":
            if case["rect"]:
                stages = core.coq_list([f"({r}, {coq_curve(case['gen_eff'])})",
                                        f"({core.coq_q(case.get('rect_rated', case['rated']))}, {coq_curve(case['rect'])})"])
                gen = f"(prepare {r} (serial_fn (mk_stages {stages})))"
            else:
                gen = prep(case["rated"], case["gen_eff"])
            eng_p = core.coq_q_list([Fraction(x) for x in obs["eng_power"]])
            return (f"(check_genset_power {gen} false {ps} {core.coq_fl_list(obs['eng_power'])} && "
                    f"check_engine {core.coq_q(case['eng_rated'])} {coq_curve(case['bsfc'])} None {eng_p} {core.coq_fl_list(obs['load'])} "
                    f"{core.coq_fl_list(obs['bsfc'])} {core.coq_fl_list(obs['fuel'])} [])%bool")
        if st == "geared":
            eng_p = core.coq_q_list([Fraction(x) for x in obs["eng_power"]])
            n = len(case["ps"])
            return (f"(check_geared_power {r} {coq_curve(case['gear'])} {ps} {core.coq_fl_list(obs['eng_power'])} && "
                    f"all2 (fun p o => cl 1 o (engine_fuel {r} (curve_fn {coq_curve(case['bsfc'])}) p)) {eng_p} {core.coq_fl_list(obs['fuel'])} && "
                    f"all2 (fun p o => cl 1 o (engine_fuel {r} (curve_fn {coq_curve(case['bsfc'])}) p)) {eng_p} {core.coq_fl_list(obs['fuel_again'])})%bool")
        if st == "fuelcell":
            m = case["modules"]
            return (f"check_fuel_cell {core.coq_q(Fraction(m))} {prep(case['rated'], case['conv'])} "
                    f"{prep(case['rated'] / m, case['mod_eff'])} {core.coq_q(Fraction(obs['lhv']))} {sc} {ps} {core.coq_fl_list(obs['fuel'])}")
        if st == "cogas":
            cp = core.coq_q_list([Fraction(x) for x in obs["cogas_power"]])
            share = "None"
            if case["split"]:
                s = case["split"]
                share = "(Some (Points " + core.coq_list([f"({core.coq_q(l)}, {core.coq_q(g / (g + t))})"
                                                          for l, g, t in sorted(zip(s["loads"], s["gt"], s["st"]))]) + "))"
            pre = ""
            if case["coges"]:
                pre = f"check_genset_power {prep(case['rated'], case['gen_eff'])} false {ps} {core.coq_fl_list(obs['cogas_power'])} && "
            return (f"({pre}check_cogas {r} {coq_curve(case['ceff'])} {share} {core.coq_q(Fraction(obs['lhv']))} {cp} "
                    f"{core.coq_fl_list(obs['fuel'])} {core.coq_fl_list(obs['gt'])} {core.coq_fl_list(obs['st'])})%bool")
        return f"check_hours {ps} {core.coq_q_list(case['dt'])} {core.coq_fl(obs['hours'])}"

    def oracle(self, case, obs):
        if obs.get("rejected"):
            return None
        st = case["stream"]
        ps = [float(x) for x in case["ps"]]
        if st == "engine":
            for p, b, f in zip(ps, obs["bsfc"], obs["fuel"]):
                if abs(f - b * p / 3.6e6) > 1e-12 + 1e-9 * abs(f):
                    return f"engine at {p} kW: fuel {f} kg/s, bsfc {b} g/kWh x power / 3.6e6 = {b * p / 3.6e6}"
                if p == 0 and f != 0:
                    return f"fuel flow {f} at zero power"
                inside = len(case["bsfc"]) == 1 or (float(case["bsfc"][0][0]) <= p / float(case["rated"]) <= float(case["bsfc"][-1][0]))
                if f < 0 and inside:      # the property speaks of powers within the load range covered by the curve
                    return f"negative fuel flow {f} at {p} kW"
            if case["pilot"] and obs.get("origins") and obs["origins"] != [case.get("main_origin", "FOSSIL"), case.get("pilot_origin", "FOSSIL")][:len(obs["origins"])]:
                return (f"dual-fuel engine with main fuel origin {case.get('main_origin')} and pilot origin {case.get('pilot_origin')} reports its "
                        f"fuels with origins {obs['origins']}")
            if case["pilot"] and obs["nfuels"] != 2:
                return f"dual-fuel engine reports {obs['nfuels']} fuel entries (main and pilot must be separate): {obs['kinds']}"
            if len(case["bsfc"]) > 1:
                for l, v in case["bsfc"]:
                    for p, b in zip(case["ps"], obs["bsfc"]):
                        if p == l * case["rated"] and abs(b - float(v)) > 1e-9 * float(v):
                            return f"at the given curve point load {float(l)} the consumption is {b}, the point says {float(v)}"
        if st == "genset" and case["rect"]:
            from scipy.interpolate import PchipInterpolator

            def eff_fn(c):
                if len(c) == 1:
                    v = float(c[0] if not isinstance(c[0], (list, tuple)) else c[0][1])
                    return lambda x: v
                pts = sorted((float(a), float(b)) for a, b in c)
                f = PchipInterpolator([a for a, _ in pts], [b for _, b in pts])
                return lambda x: float(min(1.0, max(0.01, f(x))))
            eg, er = eff_fn(case["gen_eff"]), eff_fn(case["rect"])
            ratio = float(case["rated"] / case.get("rect_rated", case["rated"]))
            for p, e in zip(case["ps"], obs["eng_power"]):
                l = p / case["rated"]
                if 0 < l <= 1 and (l * 10).denominator == 1:
                    want = float(p) / min(1.0, max(0.01, eg(float(l)) * er(float(l) * ratio)))
                    if abs(e - want) > 1e-6 * max(1.0, abs(want)):
                        return (f"genset with rectifier at {float(p)} kW (generator load {float(l)}, rectifier load {float(l) * ratio}): engine power {e} kW, "
                                f"power / (generator efficiency x rectifier efficiency) = {want} kW")
        if st == "geared":
            if obs["delivered_after"] != ps:
                return f"asking for the run point changed the delivered power series: {ps} -> {obs['delivered_after']}"
            if any(abs(a - b) > 1e-12 + 1e-9 * abs(a) for a, b in zip(obs["fuel"], obs["fuel_again"])):
                return f"asking twice for the run point gives fuel {obs['fuel']} and then {obs['fuel_again']}"
        if st == "cogas" and case["split"]:
            for p, g, s in zip(obs["cogas_power"], obs["gt"], obs["st"]):
                if abs(g + s - p) > 1e-9 * max(1.0, abs(p)):
                    return f"gas turbine {g} kW + steam turbine {s} kW != output {p} kW"
            sp = case["split"]
            for l, g, t in zip(sp["loads"], sp["gt"], sp["st"]):
                for p, og in zip(obs["cogas_power"], obs["gt"]):
                    if abs(p - float(l * case["rated"])) < 1e-9 and abs(og - float(g)) > 1e-6 * max(1.0, float(g)) and float(g + t) == float(l * case["rated"]):
                        return f"at load {float(l)} the gas turbine curve gives {float(g)} kW, reported {og} kW"
        if st == "hours":
            want = sum(float(d) for p, d in zip(case["ps"], case["dt"]) if p != 0) / 3600
            if abs(obs["hours"] - want) > 1e-9 * max(1.0, want):
                return f"running hours {obs['hours']} h, the intervals with non-zero output sum to {want} h"
        return None

    def nontrivial(self, case, obs):
        return any(isinstance(case.get(k), list) and len(case[k]) > 1 for k in ("bsfc", "gear", "conv", "ceff", "gen_eff")) or case.get("modules", 1) > 1 \
            or case["stream"] == "hours"

    def tags(self, case, obs):
        t = ["stream=" + case["stream"], "scalar" if case["scalar"] else "series"]
        if case["stream"] == "engine" and case["pilot"]:
            t.append("dual-fuel" + ("(pilot of the main fuel's kind)" if case["same_pilot_kind"] else ""))
        if case["stream"] == "genset" and case["rect"]:
            t.append("with-rectifier")
        if case.get("one_row_x") is not None:
            t.append("single values handed over as one-row curves [[load, v]]")
        if case["stream"] == "fuelcell":
            t.append(f"modules={case['modules']}")
            t.append("fuel-cell:" + case.get("fc_fuel", "HYDROGEN") + "/" + case.get("fc_spec", "IMO"))
        if case["stream"] == "cogas":
            t.append("coges" if case["coges"] else "cogas-alone")
            t.append("with-split-curves" if case["split"] else "no-split-curves")
        if case["stream"] == "hours":
            t.append("kind=" + case["kind"])
            t.append("scalar-interval(trapezoid)" if case["uniform_trapezoid"] else "interval-array")
            if any(p == 0 for p in case["ps"]):
                t.append("idle-step")
        if any(p == 0 for p in case["ps"]):
            t.append("zero-power")
        return t

    def search(self, rng, near=None):
        return self.gen(rng, "quick", 120)
