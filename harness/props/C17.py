"""C17 — stored energy and state of charge follow terminal power and efficiencies."""
from __future__ import annotations

from fractions import Fraction

import numpy as np

import core
from props.base import Prop
from props.C06 import coq_curve, gen_curve, np_curve


class P(Prop):
    ID = "C17"
    THEOREMS = ["C17_energy", "C17_soc", "C17_units", "C17_last_accumulated_is_total", "C17_roundtrip_never_gains"]
    MAKE_TARGETS = ["theories/Props/C17.vo", "theories/Check/Check_C17.vo"]
    CHECK_REQUIRE = ("From Coq Require Import QArith List Bool.\nFrom Feems Require Import Base.Num Base.Pchip Model.Component "
                     "Model.Storage Check.Check_C06 Check.Check_C17.\nOpen Scope Q_scope.")
    RULE = ("batteries and supercapacitors, alone and behind a converter (curve of 1-6 points), efficiencies k/64 in [0.75,1] "
            "(charging and discharging different), capacities, initial states, terminal power series of 1-8 steps of either sign "
            "incl. zeros and charge-then-discharge of equal terminal energy, irregular intervals given as FLOAT or as INTEGER "
            "arrays; observed: total and accumulated energy, total and accumulated state of charge (each queried twice, in both "
            "orders), energy_stored_total_mj of the per-component result. Non-trivial = series with both signs")
    QUICK_N = 120
    THOROUGH_N = 4000
    SHARD = 5

    def gen(self, rng, tier, override=None):
        out = []
        for _ in range(self.n_cases(tier, override)):
            kind = rng.choice(["battery", "battery_sys", "supercap", "supercap_sys"])
            rated = Fraction(rng.choice([100, 500, 1000]))
            n = rng.randint(1, 8)
            style = rng.choice(["mixed", "mixed", "roundtrip", "charge", "discharge"])
            if style == "roundtrip" and n >= 2:
                p = Fraction(rng.randint(1, 64), 64) * rated
                d = Fraction(rng.randint(1, 40) * 15)
                ps, dt = [p, -p], [d, d]
                n = 2
            else:
                sign = {"mixed": [-1, 1, 1, -1, 0], "charge": [1], "discharge": [-1]}.get(style, [-1, 1])
                ps = [Fraction(rng.randint(0, 64), 64) * rated * rng.choice(sign) for _ in range(n)]
                dt = [Fraction(rng.randint(1, 40) * 15) for _ in range(n)]
            conv = {"rated": rated, "curve": gen_curve(rng, lo=56)} if kind.endswith("_sys") else None
            out.append({"kind": kind, "rated": rated, "conv": conv, "eff_c": Fraction(rng.randint(48, 64), 64),
                        "eff_d": Fraction(rng.randint(48, 64), 64), "soc0": Fraction(rng.randint(0, 8), 8),
                        "cap": Fraction(rng.choice([50, 200, 1000])) if kind.startswith("battery") else Fraction(rng.choice([2000, 5000])),
                        "ps": ps, "dt": dt, "int_dt": rng.random() < 0.4, "order": rng.choice(["total-first", "accumulated-first"])})
        return out

    def build(self, case):
        from feems.components_model.component_electric import (Battery, BatterySystem, ElectricComponent, SuperCapacitor,
                                                               SuperCapacitorSystem)
        from feems.types_for_feems import TypeComponent, TypePower
        r = float(case["rated"])
        conv = None
        if case["conv"]:
            conv = ElectricComponent(type_=TypeComponent.POWER_CONVERTER, name="conv", rated_power=r,
                                     eff_curve=np_curve(case["conv"]["curve"]), power_type=TypePower.POWER_TRANSMISSION)
        if case["kind"].startswith("battery"):
            cap = float(case["cap"])
            b = Battery("b", cap, r / cap, r / cap, soc0=float(case["soc0"]), eff_charging=float(case["eff_c"]),
                        eff_discharging=float(case["eff_d"]), switchboard_id=1)
            return BatterySystem("bs", b, conv, 1) if conv else b
        s = SuperCapacitor("s", float(case["cap"]), r, soc0=float(case["soc0"]), eff_charging=float(case["eff_c"]),
                           eff_discharging=float(case["eff_d"]), switchboard_id=1)
        return SuperCapacitorSystem("ss", s, conv, 1) if conv else s

    def run(self, case):
        from feems.components_model.node import get_fuel_emission_energy_balance_for_component
        from feems.components_model.utility import IntegrationMethod as IM
        from feems.exceptions import InputError
        try:
            comp = self.build(case)
        except InputError:
            return {"rejected": True}
        power = np.array([float(x) for x in case["ps"]], dtype=float)
        comp.power_input = power
        dt = np.array([int(x) for x in case["dt"]]) if case["int_dt"] else np.array([float(x) for x in case["dt"]])
        kw = dict(time_interval_s=dt, integration_method=IM.sum_with_time)
        q = {}
        order = ["tot", "acc", "soc", "socacc"] if case["order"] == "total-first" else ["socacc", "acc", "soc", "tot"]
        for rnd in (1, 2):          # every figure is asked for twice
            for what in order:
                if what == "tot":
                    v = comp.get_energy_stored_kj(**kw)
                elif what == "acc":
                    v = comp.get_energy_stored_kj(accumulated_time_series=True, **kw)
                elif what == "soc":
                    v = comp.get_soc(**kw)
                else:
                    v = comp.get_soc(accumulated_time_series=True, **kw)
                v = [float(x) for x in np.atleast_1d(v)]
                if rnd == 2 and q[what] != v:
                    return {"unstable": what, "first": q[what], "second": v}
                q[what] = v
        res = get_fuel_emission_energy_balance_for_component(component=comp, **kw)
        return {"tot": q["tot"][0], "acc": q["acc"], "soc": q["soc"][0], "socacc": q["socacc"],
                "mj": float(res.energy_stored_total_mj), "power_after": [float(x) for x in np.atleast_1d(comp.power_input)]}

    def term(self, case, obs):
        if obs.get("rejected"):
            return f"negb (p_accepted (prepare {core.coq_q(case['rated'])} (curve_fn {coq_curve(case['conv']['curve'])})))"
        if "unstable" in obs:
            return "false"
        conv = "None" if not case["conv"] else f"(Some ({core.coq_q(case['conv']['rated'])}, {coq_curve(case['conv']['curve'])}))"
        scale = core.coq_q(case["rated"] * sum(case["dt"]))
        return (f"check_case {core.coq_bool(case['kind'].startswith('battery'))} "
                f"{{| eff_c := {core.coq_q(case['eff_c'])}; eff_d := {core.coq_q(case['eff_d'])} |}} {conv} "
                f"{core.coq_q(case['soc0'])} {core.coq_q(case['cap'])} {core.coq_q_list(case['ps'])} {core.coq_q_list(case['dt'])} {scale} "
                f"{core.coq_fl(obs['tot'])} {core.coq_fl_list(obs['acc'])} {core.coq_fl(obs['soc'])} {core.coq_fl_list(obs['socacc'])} {core.coq_fl(obs['mj'])}")

    def oracle(self, case, obs):
        if obs.get("rejected"):
            return None
        if "unstable" in obs:
            return f"asking twice for {obs['unstable']} gives {obs['first']} and then {obs['second']}"
        if obs["power_after"] != [float(x) for x in case["ps"]]:
            return f"the terminal power series was changed by the queries: {obs['power_after']}"
        n = len(case["ps"])
        if len(obs["acc"]) != n + 1:
            return f"accumulated series has {len(obs['acc'])} values for {n} intervals"
        sc = float(case["rated"] * sum(case["dt"]))
        if abs(obs["acc"][-1] - obs["tot"]) > 1e-9 * max(1.0, sc):
            return f"last accumulated value {obs['acc'][-1]} kJ differs from the integrated total {obs['tot']} kJ"
        if not case["conv"]:
            e = sum((float(p) * float(case["eff_c"]) if p > 0 else float(p) / float(case["eff_d"])) * float(d)
                    for p, d in zip(case["ps"], case["dt"]))
            if abs(obs["tot"] - e) > 1e-9 * max(1.0, sc):
                return f"energy credited {obs['tot']} kJ, terminal power x efficiencies integrates to {e} kJ"
        k = 3600.0 if case["kind"].startswith("battery") else 3.6
        want = float(case["soc0"]) + obs["tot"] / k / float(case["cap"])
        if abs(obs["soc"] - want) > 1e-9 * max(1.0, abs(want)):
            return f"state of charge {obs['soc']}, initial + energy / capacity = {want}"
        if sum(p * d for p, d in zip(case["ps"], case["dt"])) == 0 and obs["soc"] > float(case["soc0"]) + 1e-12:
            return f"equal terminal energy in and out ends at {obs['soc']} above the start {float(case['soc0'])}"
        if abs(obs["mj"] - obs["tot"] / 1000) > 1e-9 * max(1.0, sc / 1000):
            return f"result reports {obs['mj']} MJ stored, the store says {obs['tot'] / 1000}"
        return None

    def nontrivial(self, case, obs):
        return any(p > 0 for p in case["ps"]) and any(p < 0 for p in case["ps"])

    def tags(self, case, obs):
        t = [case["kind"], "integer-intervals" if case["int_dt"] else "float-intervals", case["order"]]
        if sum(p * d for p, d in zip(case["ps"], case["dt"])) == 0:
            t.append("equal-terminal-energy-in-and-out")
        return t

    def search(self, rng, near=None):
        return self.gen(rng, "quick", 100)
