"""C18 — fuel-consumption records add, scale and split without loss or side effects."""
from __future__ import annotations

from fractions import Fraction

import numpy as np

import core
from props.base import Prop

# (type, origin, spec[, user factors]) the generator draws kinds from
KINDS = [
    ("DIESEL", "FOSSIL", "IMO"), ("NATURAL_GAS", "FOSSIL", "IMO"), ("HFO", "FOSSIL", "IMO"), ("HYDROGEN", "RENEWABLE_NON_BIO", "IMO"),
    ("DIESEL", "FOSSIL", "FUEL_EU_MARITIME"), ("NATURAL_GAS", "BIO", "FUEL_EU_MARITIME"), ("METHANOL", "BIO", "FUEL_EU_MARITIME"),
    ("DIESEL", "FOSSIL", "USER"), ("NATURAL_GAS", "FOSSIL", "USER"),
]


def kind_code(k):
    from feems.fuel import FuelOrigin, FuelSpecifiedBy, TypeFuel
    return TypeFuel[k[0]].value * 100 + FuelOrigin[k[1]].value * 10 + FuelSpecifiedBy[k[2]].value


def mk_fuel(k, mass):
    from feems.fuel import Fuel, FuelOrigin, FuelSpecifiedBy, GhgEmissionFactorTankToWake, TypeFuel
    kw = {}
    if k[2] == "USER":
        kw = dict(lhv_mj_per_g=0.0427, ghg_emission_factor_well_to_tank_gco2eq_per_mj=14.4,
                  ghg_emission_factor_tank_to_wake=[GhgEmissionFactorTankToWake(
                      co2_factor_gco2_per_gfuel=3.2, ch4_factor_gch4_per_gfuel=0.00005,
                      n2o_factor_gn2o_per_gfuel=0.00018, c_slip_percent=0.5, fuel_consumer_class=None)])
    return Fuel(TypeFuel[k[0]], FuelOrigin[k[1]], FuelSpecifiedBy[k[2]], mass_or_mass_fraction=mass, **kw)


def dump(rec, n, series):
    out = []
    for f in rec.fuels:
        m = f.mass_or_mass_fraction
        vals = [float(x) for x in np.atleast_1d(m)]
        if len(vals) == 1 and n > 1:
            vals = vals * n
        out.append([f.fuel_type.value * 100 + f.origin.value * 10 + f.fuel_specified_by.value, vals])
    return out


def lengths(rec):
    """number of points every entry of the record holds (1 = a scalar mass)"""
    return [int(np.size(f.mass_or_mass_fraction)) for f in rec.fuels]


class P(Prop):
    ID = "C18"
    THEOREMS = ["C18_add_conserves", "C18_add_comm_assoc", "C18_scale", "C18_fractions", "C18_operands_unchanged"]
    MAKE_TARGETS = ["theories/Props/C18.vo", "theories/Check/Check_C18.vo"]
    CHECK_REQUIRE = ("From Coq Require Import QArith List Bool.\n"
                     "From Feems Require Import Base.Num Model.FuelRecord Check.Check_C18.\nOpen Scope Q_scope.")
    RULE = ("histories of 2-6 add / scale / mass-fraction / query (total, fractions, CO2 emissions) operations on 2-4 SHARED "
            "records with 0-4 entries each (IMO, FuelEU and user-specified kinds, a kind may occur twice in one record), scalar "
            "masses or series of 2-5 steps incl. zeros and all-zero steps, scalar or per-step scale factors; after every "
            "operation every live record is dumped and compared. Non-trivial = some operand has >= 2 entries")
    QUICK_N = 400
    THOROUGH_N = 8000
    SHARD = 100

    def gen(self, rng, tier, override=None):
        out = []
        for _ in range(self.n_cases(tier, override)):
            series = rng.random() < 0.6
            n = rng.randint(2, 5) if series else 1
            one_spec = rng.random() < 0.6
            pool = [k for k in KINDS if k[2] == "IMO"] if one_spec else KINDS
            recs = []
            tiny = Fraction(1, 2 ** 40) if rng.random() < 0.15 else 1      # flows of the order 1e-10 (tonnes per second, scaled records)
            for _r in range(rng.randint(2, 4)):
                ne = rng.choice([0, 1, 1, 2, 2, 3, 4])
                ents = []
                for _e in range(ne):
                    k = rng.choice(pool) if not ents or rng.random() > 0.15 else ents[-1][0]
                    zero_all = rng.random() < 0.1
                    ms = [Fraction(0) if (zero_all or rng.random() < 0.2) else Fraction(rng.randint(1, 400), 8) * tiny for _ in range(n)]
                    ents.append([list(k), ms])
                if ents and rng.random() < 0.15:
                    ents.append([list(ents[-1][0]), list(ents[-1][1])])      # the same flow twice (two identical machines)
                recs.append(ents)
            # in a series case some records hold plain scalar masses (a constant flow): "scalar" form
            forms = ["series" if series else "scalar" for _ in recs]
            if series:
                for i_, ents in enumerate(recs):
                    if ents and rng.random() < 0.2:
                        forms[i_] = "scalar"
                        for e in ents:
                            e[1] = [e[1][0]] * n
            if series and rng.random() < 0.3 and recs:   # a step in which every record is zero
                t0 = rng.randrange(n)
                for r, fm in zip(recs, forms):
                    for e in r:
                        if fm == "series":
                            e[1][t0] = Fraction(0)
            ops = []
            live = len(recs)
            fl = list(forms)          # form of every live record: series / scalar / mixed (entries of both forms)
            for _o in range(rng.randint(2, 6)):
                kind = rng.choice(["add", "add", "add", "scale", "frac", "query", "query"])
                uniform = [i_ for i_, f_ in enumerate(fl) if f_ == ("series" if series else "scalar")]
                if kind in ("frac", "query") and not uniform:
                    kind = "add"
                if kind == "add":
                    i_, j_ = rng.randrange(live), rng.randrange(live)
                    ops.append(["add", i_, j_]); live += 1
                    ne_i, ne_j = len(self._nent(recs, ops, i_)), len(self._nent(recs, ops, j_))
                    fl.append(fl[i_] if (fl[i_] == fl[j_] or ne_j == 0) else fl[j_] if ne_i == 0 else "mixed")
                elif kind == "scale":
                    if series and rng.random() < 0.4:
                        k = [Fraction(rng.randint(0, 24), 8) for _ in range(n)]
                    else:
                        k = [Fraction(0) if rng.random() < 0.15 else Fraction(rng.randint(0, 24), 8)] * n     # incl. a factor of exactly 0
                    i_ = rng.randrange(live)
                    ops.append(["scale", i_, k]); live += 1
                    per_step = series and len(set(k)) > 1
                    fl.append("series" if (per_step and self._nent(recs, ops, i_)) else fl[i_])
                elif kind == "frac":
                    i_ = rng.choice(uniform)
                    ops.append(["frac", i_]); live += 1
                    fl.append(fl[i_])
                else:
                    ops.append(["query", rng.choice(uniform), rng.choice(["total", "fractions", "emissions"])])
            out.append({"series": series, "n": n, "recs": recs, "ops": ops, "share_objects": rng.random() < 0.4, "forms": forms, "live_forms": fl,
                        "zero_dim_arrays": (not series) and rng.random() < 0.4,      # only where every mass is a scalar
                        # `total += record` (an accumulation loop) instead of `total = total + record` for the add operations
                        "in_place_add": rng.random() < 0.3})
        return out

    @staticmethod
    def _nent(recs, ops, i):
        """the kinds a live record has (initial records, then one per add / scale / frac in order)"""
        live = [[tuple(k) for k, _ in r] for r in recs]
        for o in ops:
            if o[0] == "add":
                live.append(live[o[1]] + [k for k in live[o[2]] if k not in live[o[1]]])
            elif o[0] in ("scale", "frac"):
                live.append(list(live[o[1]]))
        return live[i] if i < len(live) else []

    def run(self, case):
        from feems.fuel import FuelConsumerClassFuelEUMaritime, FuelConsumption
        n, series = case["n"], case["series"]
        env = []
        forms = case.get("forms") or ["series" if series else "scalar"] * len(case["recs"])
        for ents, form in zip(case["recs"], forms):
            fuels = []
            made = {}      # share_objects: entries with the same kind and masses are ONE Fuel object listed several times
            for k, ms in ents:
                mass = np.array([float(x) for x in ms]) if form == "series" else float(ms[0])
                if form != "series" and case.get("zero_dim_arrays"):
                    mass = np.array(float(ms[0]))          # a scalar mass handed over as a 0-d array (what np.sum etc. return)
                key = (tuple(k), tuple(ms))
                if case.get("share_objects") and key in made:
                    fuels.append(made[key])
                    continue
                made[key] = mk_fuel(tuple(k), mass)
                fuels.append(made[key])
            env.append(FuelConsumption(fuels=fuels))
        dumps, queries = [], []
        with np.errstate(all="ignore"):
            for o in case["ops"]:
                q = None
                if o[0] == "add":
                    if case.get("in_place_add"):
                        acc = env[o[1]]
                        acc += env[o[2]]              # no in-place addition is defined: Python evaluates acc = acc + other
                        env.append(acc)
                    else:
                        env.append(env[o[1]] + env[o[2]])
                elif o[0] == "scale":
                    k = np.array([float(x) for x in o[2]]) if (series and len(set(o[2])) > 1) else float(o[2][0])
                    env.append(env[o[1]] * k)
                elif o[0] == "frac":
                    fr = env[o[1]].fuel_by_mass_fraction
                    env.append(FuelConsumption(fuels=fr.fuels))
                else:
                    r = env[o[1]]
                    try:
                        if o[2] == "total":
                            q = [float(x) for x in np.atleast_1d(r.total_fuel_consumption)]
                        elif o[2] == "fractions":
                            q = dump(FuelConsumption(fuels=r.fuel_by_mass_fraction.fuels), n, series)
                        else:
                            e = r.get_total_co2_emissions(fuel_consumer_class=FuelConsumerClassFuelEUMaritime.ICE)
                            q = [float(x) for x in np.atleast_1d(e.well_to_wake_kg_or_gco2eq_per_gfuel)]
                    except (ValueError, StopIteration) as ex:   # e.g. IMO and FuelEU fuels mixed in one record
                        q = "rejected:" + type(ex).__name__
                queries.append(q)
                dumps.append([dump(r, n, series) for r in env])
        return {"dumps": dumps, "queries": queries, "lengths": [lengths(r) for r in env]}

    def term(self, case, obs):
        n, series = case["n"], case["series"]
        parts = []
        for t in range(n):
            env = core.coq_list([core.coq_list([f"({kind_code(tuple(k))}%nat, {core.coq_q(ms[t])})" for k, ms in ents])
                                 for ents in case["recs"]])
            ops = []
            for o in case["ops"]:
                if o[0] == "add":
                    ops.append(f"OAdd {o[1]} {o[2]}")
                elif o[0] == "scale":
                    ops.append(f"OScale {o[1]} {core.coq_q(o[2][t])}")
                elif o[0] == "frac":
                    ops.append(f"OFrac {o[1]}")
                else:
                    ops.append(f"OQuery {o[1]}")
            dumps = core.coq_list([core.coq_list([core.coq_list([f"({kc}%nat, {core.coq_fl(vals[t])})" for kc, vals in rec])
                                                  for rec in d]) for d in obs["dumps"]], sep=";\n   ")
            parts.append(f"check_hist {core.coq_bool(series)} {env} {core.coq_list(ops)} {dumps}")
        return "(" + "\n && ".join(parts) + ")%bool"

    def oracle(self, case, obs):
        """operands unchanged; conservation; scaling; fractions — on the implementation's dumps"""
        n = case["n"]
        prev = [[[kind_code(tuple(k)), [float(x) for x in ms]] for k, ms in ents] for ents in case["recs"]]

        def mass_of(rec, kc, t):
            return sum(v[t] for k, v in rec if k == kc)

        def tot(rec, t):
            return sum(v[t] for _, v in rec)
        for j, (o, d) in enumerate(zip(case["ops"], obs["dumps"])):
            for i, r in enumerate(prev):
                if d[i] != r:
                    return f"operation {j} {o[:2]} changed live record {i}: {r} -> {d[i]}"
            if o[0] != "query":
                new = d[-1]
                for t in range(n):
                    kinds = {k for r in (prev[o[1]], new) for k, _ in r} | ({k for k, _ in prev[o[2]]} if o[0] == "add" else set())
                    for kc in kinds:
                        if o[0] == "add":
                            exp = mass_of(prev[o[1]], kc, t) + mass_of(prev[o[2]], kc, t)
                        elif o[0] == "scale":
                            exp = mass_of(prev[o[1]], kc, t) * float(o[2][t])
                        else:
                            T = tot(prev[o[1]], t)
                            exp = mass_of(prev[o[1]], kc, t) / T if T != 0 else 0.0
                        got = mass_of(new, kc, t)
                        if not abs(got - exp) <= 1e-9 * max(1.0, abs(exp)):
                            return f"operation {j} {o[0]}: kind {kc} step {t}: got {got}, the property requires {exp}"
                    if o[0] == "frac" and tot(prev[o[1]], t) != 0 and abs(tot(new, t) - 1.0) > 1e-9:
                        return f"operation {j}: mass fractions sum to {tot(new, t)} at step {t}"
            q = obs["queries"][j]
            if o[0] == "query" and o[2] == "total" and isinstance(q, list):
                for t in range(len(q)):
                    if abs(q[t] - tot(prev[o[1]], t if len(q) > 1 else 0)) > 1e-9 * max(1.0, abs(q[t])):
                        return f"total query {q} differs from the sum of the entries"
            prev = d
        # a series stays a series (every entry holds n points), a scalar record a scalar one
        for i, (fm, ls) in enumerate(zip(case.get("live_forms") or [], obs.get("lengths") or [])):
            want = n if fm == "series" else 1 if fm == "scalar" else None
            if want is not None and any(l != want for l in ls):
                return (f"live record {i} should hold {'series of ' + str(n) + ' points' if fm == 'series' else 'scalar masses'} "
                        f"but its entries hold {ls} points")
        return None

    def nontrivial(self, case, obs):
        return any(len(r) >= 2 for r in case["recs"])

    def tags(self, case, obs):
        t = ["series" if case["series"] else "scalar", f"nops={len(case['ops'])}"]
        for o in case["ops"]:
            t.append("op:" + o[0] + (":" + o[2] if o[0] == "query" else ""))
        if any(len({tuple(k) for k, _ in r}) < len(r) for r in case["recs"]):
            t.append("duplicate-kind-in-one-record")
        if case.get("share_objects") and any(len({(tuple(k), tuple(ms)) for k, ms in r}) < len(r) for r in case["recs"]):
            t.append("one-Fuel-object-listed-twice-in-a-record")
        if len({k[2] for r in case["recs"] for k, _ in r}) > 1:
            t.append("mixed-specifications")
        if case.get("zero_dim_arrays") and "scalar" in (case.get("forms") or []):
            t.append("scalar-masses-as-0-d-arrays")
        if case.get("in_place_add") and any(o[0] == "add" for o in case["ops"]):
            t.append("accumulation-with-+=")
        if case["series"] and "scalar" in (case.get("forms") or []):
            t.append("scalar-record-among-series-records")
        if any(o[0] == "scale" and all(x == 0 for x in o[2]) for o in case["ops"]):
            t.append("scale-factor-exactly-0")
        if any(isinstance(q, str) for q in obs.get("queries", [])):
            t.append("query-rejected(mixed IMO/EU)")
        return sorted(set(t))

    def shrink(self, case):
        if len(case["ops"]) > 1:
            yield {**case, "ops": case["ops"][:-1]}

    def search(self, rng, near=None):
        return self.gen(rng, "quick", 300)
