"""C02 — bus grouping equals connectivity through closed bus-tie breakers."""
from __future__ import annotations

import itertools

import numpy as np

import core
from props.base import Prop


def build_system(swbs, breakers):
    from feems.components_model.component_electric import ElectricMachine, Genset
    from feems.components_model.component_mechanical import Engine
    from feems.system_model import ElectricPowerSystem
    from feems.types_for_feems import TypeComponent, TypePower

    comps = []
    for s in swbs:
        eng = Engine(type_=TypeComponent.AUXILIARY_ENGINE, name=f"e{s}", rated_power=1000,
                     rated_speed=1000, bsfc_curve=np.array([[0.5, 200.0], [1.0, 190.0]]))
        gen = ElectricMachine(type_=TypeComponent.GENERATOR, name=f"g{s}", rated_power=950,
                              rated_speed=1000, power_type=TypePower.POWER_SOURCE,
                              switchboard_id=s, eff_curve=np.array([0.95]))
        comps.append(Genset(f"gs{s}", eng, gen))
    return ElectricPowerSystem("s", comps, [tuple(b) for b in breakers])


def components_at(swbs, breakers, row):
    """Connectivity classes by breadth-first search (the oracle's own, independent computation)."""
    adj = {s: set() for s in swbs}
    for (a, b), c in zip(breakers, row):
        if c:
            adj[a].add(b)
            adj[b].add(a)
    comp = {}
    for s in swbs:
        if s in comp:
            continue
        stack = [s]
        comp[s] = s
        while stack:
            u = stack.pop()
            for v in adj[u]:
                if v not in comp:
                    comp[v] = s
                    stack.append(v)
    return comp


class P(Prop):
    ID = "C02"
    THEOREMS = ["C02_grouping", "C02_count", "C02_order_orientation", "C02_effective_from_t"]
    MAKE_TARGETS = ["theories/Props/C02.vo", "theories/Check/Check_C02.vo"]
    CHECK_REQUIRE = "From Coq Require Import List Bool.\nFrom Feems Require Import Model.Bus Check.Check_C02."
    RULE = ("random switchboard id sets (1-6 ids from 1..9), random breaker multigraphs in random order and "
            "orientation, n=1-10 status rows with random flips, both setters; thorough adds all simple graphs on "
            "<=4 switchboards x all orders x all orientations. Distinct by hash of (ids, breakers, statuses, setter); "
            "non-trivial = at least 2 switchboards and at least one breaker")
    QUICK_N = 600
    THOROUGH_N = 6000
    SHARD = 300
    exhaustive = False

    def gen(self, rng, tier, override=None):
        n = self.n_cases(tier, override)
        out = []
        for k in range(n):
            nswb = rng.choice([1, 2, 2, 3, 3, 3, 4, 4, 4, 5, 5, 6])
            big = rng.random() < 0.08          # a large plant: 9-12 switchboards, 9-14 breakers
            if big:
                nswb = rng.randint(9, 12)
            swbs = sorted(rng.sample(range(1, 10 if not big else 16), nswb))
            if nswb == 1:
                nb = 0
            else:
                nb = rng.randint(1, min(7, nswb + 2)) if not big else rng.randint(9, 14)
            breakers = []
            for _ in range(nb):
                a, b = rng.sample(swbs, 2)
                breakers.append([a, b])
            if big:      # a chain through all switchboards first, so that the later breakers matter too
                order = swbs[:]
                rng.shuffle(order)
                breakers = [[order[i], order[i + 1]] for i in range(nswb - 1)] + breakers[: max(0, nb - (nswb - 1))]
            T = rng.randint(1, 10)
            p_closed = rng.choice([0.3, 0.5, 0.7, 0.9])
            p_flip = rng.choice([0.0, 0.1, 0.3, 0.6])
            row = [rng.random() < p_closed for _ in breakers]
            sts = []
            for t in range(T):
                if t > 0:
                    row = [(not c) if rng.random() < p_flip else c for c in row]
                sts.append(list(row))
            if big and T >= 2:      # steps at which ONE breaker alone changes, the last-declared ones included
                row = list(sts[0])
                sts = [list(row)]
                for t in range(1, T):
                    j0 = rng.choice([len(breakers) - 1, len(breakers) - 2, rng.randrange(len(breakers))])
                    row[j0] = not row[j0]
                    sts.append(list(row))
            case = {"swbs": swbs, "breakers": breakers, "sts": sts, "oracle_only": big,
                    "setter": rng.choice(["all", "each"]), "later": [], "numeric": rng.random() < 0.35}
            # history: further status settings on the SAME system object; "reuse" = the caller mutates
            # the array it passed before in place and passes it again (same series length)
            if breakers and rng.random() < 0.35:
                for _ in range(rng.randint(1, 3)):
                    reuse = rng.random() < 0.5
                    T2 = len(sts) if reuse else rng.randint(1, 8)
                    base = case["later"][-1]["sts"] if (case["later"] and len(case["later"][-1]["sts"]) == T2) else (sts if len(sts) == T2 else None)
                    if base is not None and rng.random() < 0.6:
                        sts2 = [list(r) for r in base]
                        for _ in range(rng.randint(0, 2)):
                            t0 = rng.randrange(T2); j0 = rng.randrange(len(breakers))
                            for t in range(t0, T2):
                                sts2[t][j0] = not sts2[t][j0]
                    else:
                        sts2 = [[rng.random() < 0.6 for _ in breakers] for _ in range(T2)]
                    # the same matrix as an earlier setting again (A, B, A), each setting through its own setter
                    earlier = [sts] + [l["sts"] for l in case["later"]]
                    if len(earlier) >= 2 and rng.random() < 0.4:
                        sts2 = [list(r) for r in rng.choice(earlier[:-1])]
                        reuse = False
                    # the same SEQUENCE of breaker configurations as the setting before, held for other numbers of steps
                    # (A A B C -> A B B B C C: other change points, possibly another length)
                    if rng.random() < 0.3:
                        prev = earlier[-1]
                        runs = [list(r) for i, r in enumerate(prev) if i == 0 or r != prev[i - 1]]
                        sts2 = [list(r) for r in runs for _ in range(rng.randint(1, 3))]
                        reuse = False
                    case["later"].append({"sts": sts2, "reuse": reuse, "setter": rng.choice(["all", "each", None])})
            # A, B, A with the setters alternating (all, each, all / each, all, each): the third setting re-applies the first
            # matrix through the first setter after the other setter was used in between
            if breakers and rng.random() < 0.12:
                B = [[rng.random() < 0.5 for _ in breakers] for _ in range(len(sts))]
                if B == sts:
                    B[0][0] = not B[0][0]
                first = rng.choice(["all", "each"])
                other = "each" if first == "all" else "all"
                case["setter"] = first
                case["later"] = [{"sts": B, "reuse": False, "setter": other}, {"sts": [list(r) for r in sts], "reuse": False, "setter": first}]
            out.append(case)
        if tier == "thorough" and not override:
            out += self.exhaustive_small()
        return out

    def exhaustive_small(self):
        """all simple graphs on <=4 switchboards x all declaration orders of <=4 breakers x all
        orientations, all closed + each single breaker opened at step 1"""
        out = []
        for nswb in (2, 3, 4):
            swbs = list(range(1, nswb + 1))
            pairs = list(itertools.combinations(swbs, 2))
            for r in range(1, min(4, len(pairs)) + 1):
                for sub in itertools.combinations(pairs, r):
                    for perm in itertools.permutations(sub):
                        for orient in itertools.product([0, 1], repeat=r):
                            brk = [[a, b] if o == 0 else [b, a] for (a, b), o in zip(perm, orient)]
                            sts = [[True] * r, [True] * (r - 1) + [False]]
                            out.append({"swbs": swbs, "breakers": brk, "sts": sts, "setter": "all", "later": []})
        self.exhaustive = True
        return out

    def run(self, case):
        swbs, brk = case["swbs"], case["breakers"]

        def snap(s):
            return {"change": [int(x) for x in s.bus_configuration_change_index],
                    "maps": [[int(m[x]) for x in swbs] for m in s.switchboard2bus],
                    "nobus": [int(x) for x in s.no_bus]}

        def apply(s, arr, setter=None):
            if (setter or case["setter"]) == "all":
                s.set_bus_tie_status_all(arr)
            else:
                s.set_bus_tie_status([(j + 1, arr[:, j]) for j in range(len(brk))])
        try:
            s = build_system(swbs, brk)
            steps = []
            if brk:
                dt = float if case.get("numeric") else bool      # the front ends pass np.ones(...) floats
                arr = np.array(case["sts"], dtype=dt).reshape(len(case["sts"]), len(brk))
                apply(s, arr)
                steps.append(snap(s))
                for lt in case.get("later", []):
                    new = np.array(lt["sts"], dtype=dt).reshape(len(lt["sts"]), len(brk))
                    if lt["reuse"] and new.shape == arr.shape:
                        arr[:, :] = new      # the caller edits its own buffer in place ...
                    else:
                        arr = new
                    apply(s, arr, lt.get("setter"))            # ... and hands it over again
                    steps.append(snap(s))
            else:
                steps.append(snap(s))
        except Exception as e:
            return {"error": type(e).__name__, "msg": str(e)[:200]}
        return {"steps": steps}

    def all_sts(self, case):
        return [case["sts"]] + [lt["sts"] for lt in case.get("later", [])] if case["breakers"] else [case["sts"]]

    def term(self, case, obs):
        if "error" in obs:
            return "false"
        if case.get("oracle_only"):
            # large plants (9+ breakers): the quick-find labels of the model are nested functions whose evaluation cost grows
            # exponentially with the number of breakers; these cases are decided by the oracle (breadth-first search) alone
            return "true"
        swbs, brk = case["swbs"], case["breakers"]
        parts = []
        for sts, o in zip(self.all_sts(case), obs["steps"]):
            # no breakers: the implementation keeps one period with the single switchboard
            sts_c = core.coq_list([core.coq_bool_list(r) for r in sts]) if brk else "[[]]"
            parts.append("check_case " + core.coq_nat_list(swbs) + " "
                         + core.coq_edges(brk) + " " + sts_c + " "
                         + core.coq_nat_list(o["change"]) + " "
                         + core.coq_list([core.coq_nat_list(m) for m in o["maps"]]) + " "
                         + core.coq_nat_list(o["nobus"]))
        return "(" + " && ".join(parts) + ")%bool"

    def oracle(self, case, obs):
        """The property restated on the implementation's observables, with its own BFS."""
        if "error" in obs:
            return f"implementation raised {obs['error']}: {obs['msg']}"
        swbs, brk = case["swbs"], case["breakers"]
        for k, (sts, o) in enumerate(zip(self.all_sts(case), obs["steps"])):
            why = self.oracle_one(swbs, brk, sts, o)
            if why:
                return f"after status setting no. {k + 1} on the same object: {why}"
        return None

    def oracle_one(self, swbs, brk, sts, obs):
        if not brk:
            if obs["nobus"] != [1] or len(obs["maps"]) != 1:
                return "single switchboard without breakers must be one bus"
            return None
        T = len(sts)
        exp_change = [0] + [t for t in range(1, T) if sts[t] != sts[t - 1]]
        if obs["change"] != exp_change:
            return f"change indices {obs['change']} but breaker rows change at {exp_change}"
        if len(obs["maps"]) != len(exp_change) or len(obs["nobus"]) != len(exp_change):
            return "number of stored configurations differs from number of periods"
        for t in range(T):
            i = max(k for k, c in enumerate(obs["change"]) if c <= t)
            comp = components_at(swbs, [tuple(b) for b in brk], sts[t])
            m = dict(zip(swbs, obs["maps"][i]))
            for x in swbs:
                for y in swbs:
                    if (m[x] == m[y]) != (comp[x] == comp[y]):
                        return (f"step {t}: switchboards {x},{y} bus ids {m[x]},{m[y]} but connected="
                                f"{comp[x] == comp[y]} through closed breakers")
            if obs["nobus"][i] != len(set(comp.values())):
                return f"step {t}: no_bus={obs['nobus'][i]} but {len(set(comp.values()))} groups"
        return None

    def nontrivial(self, case, obs):
        return len(case["swbs"]) >= 2 and len(case["breakers"]) >= 1

    def tags(self, case, obs):
        swbs, brk, sts = case["swbs"], case["breakers"], case["sts"]
        t = [f"nswb={len(swbs)}", f"nbrk={min(len(brk), 5)}{'+' if len(brk) > 5 else ''}",
             "setter=" + case["setter"], f"settings-on-one-object={1 + len(case.get('later', []))}"]
        if case.get("numeric"):
            t.append("numeric-0/1-status")
        if case.get("oracle_only"):
            t.append("large-plant(9-12 switchboards, 9-14 breakers): oracle only")
        if any(lt["reuse"] for lt in case.get("later", [])):
            t.append("caller-buffer-reused-in-place")
        obs = dict(obs["steps"][0]) if "steps" in obs else obs
        t.append(f"periods={min(len(obs.get('change', [])), 4)}")
        if brk and any(a > b for a, b in brk):
            t.append("reversed-orientation")
        if brk and [tuple(sorted(b)) for b in brk] != sorted(tuple(sorted(b)) for b in brk):
            t.append("out-of-order")
        if "error" in obs:
            t.append("impl-error:" + obs["error"])
        # ring: more closed edges than needed
        if len(brk) >= len(swbs) and len(swbs) >= 3:
            t.append("cyclic-or-multi")
        if len(sts) >= 2 and obs.get("change") and 1 in obs["change"]:
            t.append("change-at-1")
        if len(sts) >= 2 and obs.get("change") and (len(sts) - 1) in obs["change"]:
            t.append("change-at-last")
        return t

    def shrink(self, case):
        swbs, brk, sts = case["swbs"], case["breakers"], case["sts"]
        if case.get("later"):
            yield {**case, "later": case["later"][:-1]}
            return
        if len(sts) > 1:
            for t in range(len(sts)):
                yield {**case, "sts": sts[:t] + sts[t + 1:]}
        for j in range(len(brk)):
            if len(brk) > 1:
                yield {**case, "breakers": brk[:j] + brk[j + 1:], "sts": [r[:j] + r[j + 1:] for r in sts]}
        used = {x for b in brk for x in b}
        for s in swbs:
            if s not in used and len(swbs) > 1:
                yield {**case, "swbs": [x for x in swbs if x != s]}

    def search(self, rng, near=None):
        return self.gen(rng, "quick", 400)

    def explain(self, case, obs):
        swbs, brk, sts = case["swbs"], case["breakers"], self.all_sts(case)[-1]
        sts_c = core.coq_list([core.coq_bool_list(r) for r in sts]) if brk else "[[]]"
        rc, out = core.eval_terms_show(self.ID, self.CHECK_REQUIRE,
            f"(change_index {sts_c}, config {core.coq_edges(brk)} {core.coq_nat_list(swbs)} {sts_c})")
        return out[-800:]
