"""C19 — combining results adds every quantity present in either operand."""
from __future__ import annotations

import dataclasses
from collections import defaultdict
from fractions import Fraction

import numpy as np
import pandas as pd

import core
from props.base import Prop
from props.C18 import KINDS, kind_code, mk_fuel

SPECIAL = ("duration_s", "load_ratio_genset", "total_emission_kg", "detail_result",
           "multi_fuel_consumption_total_kg", "co2_emission_total_kg")


def scalar_fields():
    from feems.types_for_feems import FEEMSResult
    return [f.name for f in dataclasses.fields(FEEMSResult) if f.name not in SPECIAL]


def build(d):
    from feems.fuel import FuelConsumption, GHGEmissions
    from feems.types_for_feems import EmissionType, FEEMSResult
    kw = {}
    for name, v in zip(scalar_fields(), d["scalars"]):
        kw[name] = float(v)
    sp = None
    if d["species"] is not None:
        items = {EmissionType(k): float(v) for k, v in d["species"]}
        sp = defaultdict(float, items) if d.get("species_defaultdict", True) else dict(items)
    det = None
    if d["detail"] is not None:
        det = pd.DataFrame({"row": d["detail"], "x": [float(i) for i in d["detail"]]}, index=[f"c{i}" for i in d["detail"]])
    return FEEMSResult(
        duration_s=None if d["duration"] is None else float(d["duration"]),
        load_ratio_genset=None if d["load"] is None else float(d["load"]),
        total_emission_kg=sp, detail_result=det,
        multi_fuel_consumption_total_kg=FuelConsumption(fuels=[mk_fuel(tuple(k), float(m)) for k, m in d["fuel"]]),
        co2_emission_total_kg=GHGEmissions(*[float(x) for x in d["co2"]]), **kw)


def snap(r):
    sp = None
    if r.total_emission_kg is not None:
        sp = sorted([[k.value, float(v)] for k, v in r.total_emission_kg.items()])
    det = None if r.detail_result is None else [int(x) for x in r.detail_result["row"].tolist()] if "row" in r.detail_result else []
    g = r.co2_emission_total_kg
    return {
        "duration": None if r.duration_s is None else float(np.atleast_1d(r.duration_s)[0]),
        "load": None if r.load_ratio_genset is None else float(np.atleast_1d(r.load_ratio_genset)[0]),
        "scalars": [float(getattr(r, n)) for n in scalar_fields()],
        "species": sp,
        "fuel": [[f.fuel_type.value * 100 + f.origin.value * 10 + f.fuel_specified_by.value, float(f.mass_or_mass_fraction)]
                 for f in r.multi_fuel_consumption_total_kg.fuels],
        "co2": [float(g.tank_to_wake_kg_or_gco2eq_per_gfuel), float(g.well_to_tank_kg_or_gco2eq_per_gfuel),
                float(g.tank_to_wake_kg_or_gco2eq_per_gfuel_without_slip)],
        "detail": det,
    }


def do_merge(fz, a, b):
    try:
        with np.errstate(all="raise"):
            r = a.sum_with_freeze_duration(b) if fz else a.sum_and_extend_duration(b)
        return 0, r
    except AssertionError:
        return 1, None
    except (ZeroDivisionError, FloatingPointError):
        return 2, None


def coq_res(d):
    sp = "None" if d["species"] is None else "(Some " + core.coq_list([f"({k}%nat, {core.coq_q(v)})" for k, v in d["species"]]) + ")"
    det = "None" if d["detail"] is None else "(Some " + core.coq_nat_list(d["detail"]) + ")"
    fuel = core.coq_list([f"({kind_code(tuple(k))}%nat, {core.coq_q(m)})" for k, m in d["fuel"]])
    return ("{| r_duration := " + core.coq_option(d["duration"], core.coq_q) + "; r_load := " + core.coq_option(d["load"], core.coq_q)
            + "; r_scalars := " + core.coq_q_list(d["scalars"]) + "; r_species := " + sp + "; r_fuel := " + fuel
            + "; r_co2 := " + core.coq_q_list(d["co2"]) + "; r_detail := " + det + " |}")


def coq_ores(s):
    if s is None:
        s = {"duration": None, "load": None, "scalars": [], "species": None, "fuel": [], "co2": [], "detail": None}
    sp = "None" if s["species"] is None else "(Some " + core.coq_list([f"({k}%nat, {core.coq_fl(v)})" for k, v in s["species"]]) + ")"
    det = "None" if s["detail"] is None else "(Some " + core.coq_nat_list(s["detail"]) + ")"
    fuel = core.coq_list([f"({k}%nat, {core.coq_fl(m)})" for k, m in s["fuel"]])
    return ("{| o_duration := " + core.coq_option(s["duration"], core.coq_fl) + "; o_load := " + core.coq_option(s["load"], core.coq_fl)
            + "; o_scalars := " + core.coq_fl_list(s["scalars"]) + "; o_species := " + sp + "; o_fuel := " + fuel
            + "; o_co2 := " + core.coq_fl_list(s["co2"]) + "; o_detail := " + det + " |}")


def figures_equal(x, y, tol=1e-9):
    """compare two snapshots figure by figure (fuel per kind, species absent = 0); returns differing fields"""
    diff = []
    def close(a, b):
        if a is None or b is None:
            return a is None and b is None
        return abs(a - b) <= tol * max(1.0, abs(a), abs(b))
    if not close(x["duration"], y["duration"]): diff.append("duration_s")
    if not close(x["load"], y["load"]): diff.append("load_ratio_genset")
    if len(x["scalars"]) != len(y["scalars"]) or not all(close(a, b) for a, b in zip(x["scalars"], y["scalars"])): diff.append("scalars")
    sx, sy = dict(map(tuple, x["species"] or [])), dict(map(tuple, y["species"] or []))
    if (x["species"] is None) != (y["species"] is None) or any(not close(sx.get(k, 0.0), sy.get(k, 0.0)) for k in set(sx) | set(sy)):
        diff.append("total_emission_kg")
    kinds = {k for k, _ in x["fuel"]} | {k for k, _ in y["fuel"]}
    if any(not close(sum(m for k2, m in x["fuel"] if k2 == k), sum(m for k2, m in y["fuel"] if k2 == k)) for k in kinds):
        diff.append("fuel")
    if not all(close(a, b) for a, b in zip(x["co2"], y["co2"])): diff.append("co2")
    if x["detail"] != y["detail"]: diff.append("detail_result")
    return diff


class P(Prop):
    ID = "C19"
    THEOREMS = ["C19_adds_everything", "C19_species_union", "C19_durations", "C19_load_ratio", "C19_assoc_partial",
                "C19_neutral", "C19_assoc_load_extend_refuted"]
    MAKE_TARGETS = ["theories/Props/C19.vo", "theories/Check/Check_C19.vo"]
    CHECK_REQUIRE = ("From Coq Require Import QArith List Bool.\n"
                     "From Feems Require Import Base.Num Model.FuelRecord Model.Result Check.Check_C18 Check.Check_C19.\nOpen Scope Q_scope.")
    RULE = ("pairs and triples of FEEMSResult objects with random unset fields (duration, generator load, species map, detail "
            "table), differing species sets (plain dict or defaultdict) and fuel kinds, equal or different durations (incl. 0), "
            "both merge flavours, both groupings of every triple, merges with the empty result on either side; operands are "
            "snapshotted before and after. Non-trivial = both operands carry a species map or fuel entries")
    QUICK_N = 400
    THOROUGH_N = 8000
    SHARD = 100

    def gen_res(self, rng, dur_pool):
        nsc = len(scalar_fields())
        sp = None
        if rng.random() < 0.75:
            ks = rng.sample(range(1, 8), rng.randint(0, 4))
            sp = [[k, Fraction(rng.randint(0, 80), 8)] for k in ks]
        fuel = []
        for _ in range(rng.choice([0, 1, 1, 2, 3])):
            fuel.append([list(rng.choice(KINDS)), Fraction(rng.randint(0, 400), 8)])
        if rng.random() < 0.12:
            # a record with nothing but energies / running hours / GHG figures set (e.g. shore power or a battery entered by hand):
            # no duration, no generator load, no species map, no fuel, no detail table
            return {"duration": None, "load": None,
                    "scalars": [Fraction(rng.randint(1, 800), 8) if rng.random() < 0.7 else Fraction(0) for _ in range(nsc)],
                    "species": None, "species_defaultdict": False, "fuel": [],
                    "co2": [Fraction(rng.randint(0, 800), 8) for _ in range(3)], "detail": None}
        return {
            "duration": None if rng.random() < 0.2 else rng.choice(dur_pool),
            "load": None if rng.random() < 0.3 else Fraction(rng.randint(0, 16), 16),
            "scalars": [Fraction(rng.randint(0, 800), 8) if rng.random() < 0.7 else Fraction(0) for _ in range(nsc)],
            "species": sp, "species_defaultdict": rng.random() < 0.6,
            "fuel": fuel, "co2": [Fraction(rng.randint(0, 800), 8) for _ in range(3)],
            "detail": None if rng.random() < 0.3 else [rng.randint(0, 99) for _ in range(rng.randint(0, 3))],
        }

    def gen(self, rng, tier, override=None):
        out = []
        for _ in range(self.n_cases(tier, override)):
            fz = rng.random() < 0.5
            if fz:
                d0 = Fraction(rng.randint(0, 40) * 15)
                pool = [d0, d0, d0, d0, Fraction(rng.randint(1, 40) * 15)]   # mostly equal, sometimes not (assertion)
            else:
                pool = [Fraction(rng.randint(0, 40) * 15) for _ in range(4)] + [Fraction(0)]
            kind = rng.choice(["pair", "triple", "triple", "neutral"])
            n = {"pair": 2, "triple": 3, "neutral": 1}[kind]
            out.append({"kind": kind, "freeze": fz, "ops": [self.gen_res(rng, pool) for _ in range(n)]})
        return out

    def run(self, case):
        from feems.types_for_feems import FEEMSResult
        fz = case["freeze"]
        objs = [build(d) for d in case["ops"]]
        before = [snap(o) for o in objs]
        res = {}
        if case["kind"] == "pair":
            code, r = do_merge(fz, objs[0], objs[1])
            res["ab"] = [code, snap(r) if r is not None else None]
        elif case["kind"] == "neutral":
            for name, (x, y) in {"ea": (FEEMSResult(), objs[0]), "ae": (objs[0], FEEMSResult())}.items():
                code, r = do_merge(fz, x, y)
                res[name] = [code, snap(r) if r is not None else None]
        else:
            a, b, c = objs
            code_ab, ab = do_merge(fz, a, b)
            res["ab"] = [code_ab, snap(ab) if ab is not None else None]
            if ab is not None:
                code_l, l = do_merge(fz, ab, c)
                res["l"] = [code_l, snap(l) if l is not None else None]
            code_bc, bc = do_merge(fz, b, c)
            res["bc"] = [code_bc, snap(bc) if bc is not None else None]
            if bc is not None:
                code_r, r = do_merge(fz, a, bc)
                res["r"] = [code_r, snap(r) if r is not None else None]
            if res.get("l", [1, None])[1] and res.get("r", [1, None])[1]:
                res["assoc_diff"] = figures_equal(res["l"][1], res["r"][1])
        after = [snap(o) for o in objs]
        return {"res": res, "before": before, "after": after}

    def term(self, case, obs):
        fz = core.coq_bool(case["freeze"])
        rs = [coq_res(d) for d in case["ops"]]
        R = obs["res"]
        g = lambda k: R.get(k, [0, None])
        if case["kind"] == "pair":
            return f"check_merge {fz} {rs[0]} {rs[1]} {g('ab')[0]}%nat {coq_ores(g('ab')[1])}"
        if case["kind"] == "neutral":
            n = len(scalar_fields())
            return (f"(check_merge {fz} (empty_res {n}) {rs[0]} {g('ea')[0]}%nat {coq_ores(g('ea')[1])} && "
                    f"check_merge {fz} {rs[0]} (empty_res {n}) {g('ae')[0]}%nat {coq_ores(g('ae')[1])})%bool")
        return (f"check_triple {fz} {rs[0]} {rs[1]} {rs[2]} {g('ab')[0]}%nat {coq_ores(g('ab')[1])} {g('l')[0]}%nat {coq_ores(g('l')[1])} "
                f"{g('bc')[0]}%nat {coq_ores(g('bc')[1])} {g('r')[0]}%nat {coq_ores(g('r')[1])}")

    def oracle(self, case, obs):
        if obs["before"] != obs["after"]:
            i = next(i for i, (x, y) in enumerate(zip(obs["before"], obs["after"])) if x != y)
            return f"operand {i} was changed by the combination: {obs['before'][i]} -> {obs['after'][i]}"
        R = obs["res"]
        ops = obs["before"]

        def expect_add(x, y, got, what):
            exp = {"scalars": [a + b for a, b in zip(x["scalars"], y["scalars"])], "co2": [a + b for a, b in zip(x["co2"], y["co2"])]}
            for k in ("scalars", "co2"):
                if any(abs(a - b) > 1e-9 * max(1, abs(b)) for a, b in zip(got[k], exp[k])) or len(got[k]) != len(exp[k]):
                    return f"{what}: {k} {got[k]} is not the sum {exp[k]}"
            sx, sy, sg = dict(map(tuple, x["species"] or [])), dict(map(tuple, y["species"] or [])), dict(map(tuple, got["species"] or []))
            for k in set(sx) | set(sy):
                if k not in sg:
                    return f"{what}: species {k} present in an operand is missing from the combination"
                if abs(sg[k] - (sx.get(k, 0) + sy.get(k, 0))) > 1e-9 * max(1, abs(sg[k])):
                    return f"{what}: species {k}: {sg[k]} is not {sx.get(k, 0)} + {sy.get(k, 0)}"
            kinds = {k for k, _ in x["fuel"]} | {k for k, _ in y["fuel"]} | {k for k, _ in got["fuel"]}
            for k in kinds:
                m = lambda s: sum(v for k2, v in s["fuel"] if k2 == k)
                if abs(m(got) - m(x) - m(y)) > 1e-9 * max(1, abs(m(got))):
                    return f"{what}: fuel kind {k}: {m(got)} is not {m(x)} + {m(y)}"
            if (x["detail"] is not None or y["detail"] is not None) and got["detail"] != (x["detail"] or []) + (y["detail"] or []):
                return f"{what}: detail rows {got['detail']} are not the concatenation"
            dx, dy = x["duration"], y["duration"]
            if dx is not None and dy is not None:
                want = dx if case["freeze"] else dx + dy
                if abs(got["duration"] - want) > 1e-9 * max(1, want):
                    return f"{what}: duration {got['duration']}, expected {want}"
            lx, ly = x["load"], y["load"]
            if lx is not None and ly is not None and case["freeze"] and got["load"] != max(lx, ly):
                return f"{what}: same-period generator load {got['load']} is not the larger of {lx}, {ly}"
            if lx is not None and ly is not None and not case["freeze"] and dx is not None and dy is not None and dx + dy > 0:
                want = (lx * dx + ly * dy) / (dx + dy)
                if abs(got["load"] - want) > 1e-9:
                    return f"{what}: consecutive-period generator load {got['load']} is not the time-weighted {want}"
            return None
        if case["kind"] == "pair" and R["ab"][1]:
            return expect_add(ops[0], ops[1], R["ab"][1], "a+b")
        if case["kind"] == "neutral":
            for name in ("ea", "ae"):
                if R[name][0] != 0:
                    return f"combination with the empty result failed ({name})"
                d = figures_equal(R[name][1], ops[0])
                if d:
                    return f"the empty result is not neutral ({name}): fields {d} differ"
        if case["kind"] == "triple":
            if R["ab"][1]:
                w = expect_add(ops[0], ops[1], R["ab"][1], "a+b")
                if w:
                    return w
            if R.get("assoc_diff"):
                return f"combination is not associative: (a+b)+c and a+(b+c) differ in {R['assoc_diff']}"
        return None

    @staticmethod
    def pred_extend_load_unset(case, obs, params):
        if case["kind"] != "triple" or case["freeze"]:
            return False
        if obs["res"].get("assoc_diff") != ["load_ratio_genset"]:
            return False
        return any(d["load"] is None or d["duration"] is None for d in case["ops"])

    PREDICATES = {"extend_load_assoc_with_unset_load_or_duration": pred_extend_load_unset.__func__}

    def nontrivial(self, case, obs):
        return sum(1 for d in case["ops"] if d["species"] or d["fuel"]) >= min(2, len(case["ops"]))

    def tags(self, case, obs):
        t = [case["kind"], "freeze" if case["freeze"] else "extend"]
        for k, v in obs["res"].items():
            if isinstance(v, list) and len(v) == 2 and v[0] == 1:
                t.append("assertion(durations differ)")
            if isinstance(v, list) and len(v) == 2 and v[0] == 2:
                t.append("zero-division(total duration 0)")
        sps = [set(k for k, _ in d["species"]) for d in case["ops"] if d["species"] is not None]
        if len(sps) >= 2 and any(a != b for a in sps for b in sps):
            t.append("differing-species-sets")
        if any(d["species"] is None for d in case["ops"]):
            t.append("unset-species")
        if any(d["load"] is None for d in case["ops"]):
            t.append("unset-load")
        if any(d["duration"] is None for d in case["ops"]):
            t.append("unset-duration")
        if any(not d.get("species_defaultdict", True) for d in case["ops"] if d["species"] is not None):
            t.append("plain-dict-species")
        return sorted(set(t))

    def search(self, rng, near=None):
        return self.gen(rng, "quick", 300)
