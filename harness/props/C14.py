"""C14 — the protobuf result export carries exactly the figures of the result."""
from __future__ import annotations

import math
from fractions import Fraction

import numpy as np

import core
import plantgen as pg
import regen
import sysrun
from props.base import Prop
from props.C10 import coq_res_obs
from props.C19 import scalar_fields

SCALAR_MSG_FIELDS = None


def msg_scalar_fields():
    import MachSysS.feems_result_pb2 as rp
    return [f.name for f in rp.FeemsResult.DESCRIPTOR.fields if f.type == f.TYPE_DOUBLE and f.name != "nox_emission_total_kg"]


def parse_sub(m, with_rows=True):
    d = {"scalars": [[n, float(getattr(m, n))] for n in msg_scalar_fields()],
         "fuel": [[f.fuel_type * 100 + f.fuel_origin * 10 + f.fuel_specified_by, float(f.mass_or_mass_fraction)] for f in m.multi_fuel_consumption_total_kg.fuels],
         "co2": [float(getattr(m.co2_emission_total_kg, k)) for k in ("well_to_tank", "tank_to_wake", "well_to_wake", "tank_to_wake_without_slip", "well_to_wake_without_slip")],
         "nox": float(m.nox_emission_total_kg), "rows": []}
    for r in m.detailed_result:
        d["rows"].append({"name": r.component_name, "fuel_total": sum(float(f.mass_or_mass_fraction) for f in r.multi_fuel_consumption_kg.fuels),
                          "co2_ttw": float(r.co2_emissions_kg.tank_to_wake), "co2_ttw_noslip": float(r.co2_emissions_kg.tank_to_wake_without_slip),
                          "co2_wtw_noslip": float(r.co2_emissions_kg.well_to_wake_without_slip), "co2_wtt": float(r.co2_emissions_kg.well_to_tank),
                          "nox": float(r.nox_emissions_kg), "hours": float(r.running_hours_h), "type": r.component_type,
                          "node": int(r.switchboard_id or r.shaftline_id), "stored": float(r.energy_stored_mj),
                          "time": [float(x) for x in r.result_time_series.time], "power": [float(x) for x in r.result_time_series.power_output_kw],
                          "fuel_series": [[f.fuel_type * 100 + f.fuel_origin * 10 + f.fuel_specified_by, [float(x) for x in f.mass_or_mass_fraction]]
                                          for f in r.result_time_series.fuel_consumption_kg_per_s.fuels]})
    return d


def epochs_of(case):
    """time stamps of the input time series message (n + 1 stamps for n samples); case["repeat_stamp"] = k: stamp k + 1
    repeats stamp k (a report logged twice: an interval of zero length)"""
    n = case["inp"]["n"]
    ep = [1000.0 + 7.5 * k for k in range(n + 1)]
    k = case.get("repeat_stamp")
    if k is not None and k + 1 <= n:
        ep[k + 1] = ep[k]
    return ep


class P(Prop):
    ID = "C14"
    THEOREMS = ["C14_totals_carried", "C14_fuel_co2_nox", "C14_series_time_base"]
    MAKE_TARGETS = ["theories/Props/C14.vo", "theories/Check/Check_C14.vo"]
    CHECK_REQUIRE = ("From Coq Require Import QArith String List Bool.\nFrom Feems Require Import Base.Num Model.FuelRecord Model.Result "
                     "Model.ProtoResult Check.Check_C18 Check.Check_C19 Check.Check_C14.\nOpen Scope Q_scope.\nOpen Scope string_scope.")
    RULE = ("(names) dataclass fields, message fields, _COLUMN_NAMES and the detail-table columns regenerated from the code, theorem "
            "C14_columns_mapped re-proved; (export) electric plants (incl. two gensets of the SAME NAME on different switchboards, "
            "fuel cells, batteries, PTI/PTO; generators, COGES and supercapacitors too) and mechanical+electric plants, multi-fuel, "
            "IMO and FuelEU factors, results exported with and without per-component series, per-interval and scalar time base, with and "
            "without an input time-series message; the serialised message is parsed back and compared in Coq with the model's export of "
            "the result; the oracle compares every detail record and series with the result and the components. "
            "Non-trivial = a plant with >= 2 fuel consumers")
    QUICK_N = 160
    THOROUGH_N = 2500
    SHARD = 20

    def regen(self):
        info = regen.gen_columns()
        ok, log = regen.compile_gen([core.GEN / "Gen_columns.v", "C14_gen.v"])
        info["theorems"] = ["C14_columns_mapped"]
        if ok:
            return True, None, 1, 1, info
        # which name has no home?
        import dataclasses
        import MachSysS.feems_result_pb2 as rp
        from MachSysS.convert_feems_result_to_proto import _COLUMN_NAMES
        from feems.types_for_feems import FEEMSResult
        mf = {f.name for f in rp.FeemsResult.DESCRIPTOR.fields}
        special = {"detail_result", "multi_fuel_consumption_total_kg", "total_emission_kg", "co2_emission_total_kg", "load_ratio_genset"}
        for f in dataclasses.fields(FEEMSResult):
            if f.name not in special and f.name not in mf:
                return False, {"kind": "failing-input", "broken": "C14_columns_mapped", "input": {"result_field": f.name}, "observed": {"message_fields": sorted(mf)},
                               "why": f"result field {f.name} has no field of that name in the FeemsResult message: the export drops it"}, 1, 0, info
        pc = {f.name for f in rp.ResultPerComponent.DESCRIPTOR.fields}
        for k, v in _COLUMN_NAMES.items():
            if v not in pc:
                return False, {"kind": "failing-input", "broken": "C14_columns_mapped", "input": {"column": k}, "observed": {"maps_to": v},
                               "why": f"detail column '{k}' maps to '{v}', which is not a field of ResultPerComponent"}, 1, 0, info
        return False, {"kind": "no-failing-input-found", "broken": "C14_columns_mapped", "why": log[-800:]}, 1, 0, info

    def gen(self, rng, tier, override=None):
        out = []
        for _ in range(self.n_cases(tier, override)):
            mech = rng.random() < 0.4
            c = sysrun.gen_electric_case(rng, n=rng.choice([1, 2, 3, 4, 5, 6, 6, 7, 12, 14]), max_swb=2)
            comps = c["plant"]["comps"]
            # two gensets with the same name on different switchboards, loaded differently
            if len(c["plant"]["swbs"]) == 2 and rng.random() < 0.5:
                gs = [d for d in comps if d["cls"] in ("genset", "genset_rect")]
                if len({d["swb"] for d in gs}) == 2:
                    a = next(d for d in gs if d["swb"] == c["plant"]["swbs"][0])
                    b = next(d for d in gs if d["swb"] == c["plant"]["swbs"][1])
                    b["name"] = a["name"]
                    c["same_name"] = True
            c["mech"] = None
            if mech:
                m = sysrun.gen_mechanical_case(rng, n=c["inp"]["n"])
                m["plant"]["mech"] = [d for d in m["plant"]["mech"] if d["cls"] != "ptipto"]
                keep = [i for i, d in enumerate(sysrun.pg.gen_mechanical_plant.__defaults__ or [])]
                c["mech"] = {"plant": m["plant"], "inp": {**m["inp"], "comps": [ci for d, ci in zip(m["plant"]["mech"], m["inp"]["comps"])]}}
                # inputs were generated before PTI/PTOs were dropped: regenerate consistently
                c["mech"]["inp"] = pg.gen_mechanical_inputs(rng, c["mech"]["plant"], n=c["inp"]["n"])
            # a main engine with the name AND node number of a genset (shaft-line ids and switchboard ids are
            # separate numberings)
            if c["mech"] and rng.random() < 0.5:
                gs = [d for d in comps if d["cls"] in ("genset", "genset_rect", "genset_df")]
                me = [d for d in c["mech"]["plant"]["mech"] if d["cls"] in ("main_engine", "main_engine_gb")]
                if gs and me:
                    g, m = rng.choice(gs), rng.choice(me)
                    lines = {d["line"] for d in c["mech"]["plant"]["mech"]}
                    if g["swb"] == m["line"] or g["swb"] not in lines:
                        old_line = m["line"]
                        for d in c["mech"]["plant"]["mech"]:
                            if d["line"] == old_line:
                                d["line"] = g["swb"]
                        c["mech"]["plant"]["lines"] = sorted({d["line"] for d in c["mech"]["plant"]["mech"]})
                        m["name"] = g["name"]
                        c["same_name_across_subsystems"] = True
            # hybrid plant: the PTI/PTOs of the switchboards sit on the shaft lines as well
            c["hybrid"] = False
            ptis = [d for d in comps if d["cls"] == "ptipto"]
            if c["mech"] and ptis and rng.random() < 0.7:
                lines = c["mech"]["plant"]["lines"]
                for k, d in enumerate(ptis):
                    d["line"] = lines[k % len(lines)]
                c["hybrid"] = True
            c["series"] = rng.random() < 0.6
            c["scalar_dt"] = rng.random() < 0.3 and c["inp"]["n"] >= 2
            if c["scalar_dt"]:
                # also steps that are not whole seconds, with series lengths at which a float arange overshoots
                dt0 = rng.choice([c["inp"]["dt"][0], Fraction(1, 10), Fraction(1, 5), Fraction(3, 10), Fraction(7, 10), Fraction(6, 5)])
                c["inp"]["dt"] = [dt0] * c["inp"]["n"]
            c["with_ts_message"] = rng.random() < 0.3
            c["repeat_stamp"] = rng.randrange(c["inp"]["n"]) if (c["with_ts_message"] and rng.random() < 0.5) else None
            c["inp"]["int_dt"] = rng.random() < 0.3          # whole-second intervals as an integer array
            c["reuse_converter"] = rng.random() < 0.3        # one converter object, re-targeted through its setters, exports twice
            c["fuel_spec"] = rng.choice(["IMO", "IMO", "FUEL_EU_MARITIME"])
            out.append(c)
        return out

    def run(self, case):
        import MachSysS.feems_result_pb2 as rp
        import MachSysS.gymir_result_pb2 as gp
        from MachSysS.convert_feems_result_to_proto import FEEMSResultConverter
        from feems.components_model.utility import IntegrationMethod
        from feems.exceptions import InputError
        from feems.fuel import FuelSpecifiedBy
        from feems.system_model import (FEEMSResultForMachinerySystem, MechanicalPropulsionSystem,
                                        MechanicalPropulsionSystemWithElectricPowerSystem)
        plant, inp, n = case["plant"], case["inp"], case["inp"]["n"]
        spec = FuelSpecifiedBy[case["fuel_spec"]]
        try:
            with np.errstate(all="ignore"):
                esys, eobjs = pg.build_electric_system(plant)
                pg.apply_electric_inputs(esys, eobjs, plant, inp)
                if case["scalar_dt"]:
                    esys.set_time_interval(float(inp["dt"][0]), IntegrationMethod.trapezoid)
                esys.do_power_balance_calculation()
                eres = esys.get_fuel_energy_consumption_running_time(fuel_specified_by=spec)
                system, result, mres, mobjs = esys, eres, None, []
                if case["mech"] and case.get("hybrid"):
                    from feems.system_model import HybridPropulsionSystem
                    mplant = case["mech"]["plant"]
                    mobjs = [pg.build_mechanical_component(d) for d in mplant["mech"]]
                    ptis = [o for d, o in zip(plant["comps"], eobjs) if d["cls"] == "ptipto"]
                    msys = MechanicalPropulsionSystem("mech", mobjs + ptis)
                    system = HybridPropulsionSystem("hyb", esys, msys)
                    pg.apply_mechanical_inputs(msys, mobjs, mplant, case["mech"]["inp"])
                    for o in ptis:
                        o.full_pti_mode = np.zeros(n, dtype=bool)
                    if case["scalar_dt"]:
                        tis, meth = float(inp["dt"][0]), IntegrationMethod.trapezoid
                    else:
                        tis, meth = np.array([float(x) for x in inp["dt"]]), IntegrationMethod.sum_with_time
                    msys.set_time_interval(tis, meth)
                    system.do_power_balance_calculation()
                    result = system.get_fuel_energy_consumption_running_time(time_interval_s=tis, integration_method=meth, fuel_specified_by=spec)
                    eres, mres = result.electric_system, result.mechanical_system
                    mobjs = mobjs + ptis
                elif case["mech"]:
                    msys, mobjs = pg.build_mechanical_system(case["mech"]["plant"])
                    pg.apply_mechanical_inputs(msys, mobjs, case["mech"]["plant"], case["mech"]["inp"])
                    if case["scalar_dt"]:
                        msys.set_time_interval(float(inp["dt"][0]), IntegrationMethod.trapezoid)
                    else:
                        msys.set_time_interval(np.array([float(x) for x in inp["dt"]]), IntegrationMethod.sum_with_time)
                    msys.do_power_balance()
                    mres = msys.get_fuel_energy_consumption_running_time(fuel_specified_by=spec)
                    system = MechanicalPropulsionSystemWithElectricPowerSystem("ship", esys, msys)
                    result = FEEMSResultForMachinerySystem(electric_system=eres, mechanical_system=mres)
                tsm = None
                if case["with_ts_message"]:
                    tsm = gp.TimeSeriesResult(propulsion_power_timeseries=[gp.PropulsionPowerInstance(epoch_s=e_, propulsion_power_kw=1.0)
                                                                           for e_ in epochs_of(case)])
                conv = FEEMSResultConverter(feems_result=result, system_feems=system, time_series_input=tsm, fuel_specified_by=spec)
                try:
                    if case.get("reuse_converter"):
                        conv.get_feems_result_proto(include_time_series_for_components=True)
                        conv.feems_result = result
                        conv.system_feems = system
                    msg = conv.get_feems_result_proto(include_time_series_for_components=case["series"])
                except NotImplementedError as e:
                    return {"not_implemented": str(e)[:120], "classes": sorted({d["cls"] for d in plant["comps"]})}
                msg = rp.FeemsResultForMachinerySystem.FromString(msg.SerializeToString())
        except (InputError, ValueError, StopIteration) as e:
            return {"rejected": type(e).__name__ + ": " + str(e)[:80]}
        snaps = [sysrun.snap(eres)] + ([sysrun.snap(mres)] if mres is not None else [])
        flat = [x for s in snaps for x in s["scalars"] + s["co2"] + [m for _, m in s["fuel"]]]
        if any(isinstance(x, float) and (math.isnan(x) or math.isinf(x)) for x in flat):
            return {"rejected": "non-finite: a bus without balancing capacity"}
        out = {"snaps": snaps, "details": [sysrun.snap_detail(eres)] + ([sysrun.snap_detail(mres)] if mres is not None else []),
               "parsed": [parse_sub(msg.electric_system)] + ([parse_sub(msg.mechanical_system)] if mres is not None else []),
               "has_mech_msg": msg.HasField("mechanical_system")}
        comp = {}
        for d, o in zip(plant["comps"], eobjs):
            comp[(o.name, int(o.switchboard_id), 0)] = [float(x) for x in np.atleast_1d(o.power_output)]
        for o in mobjs:
            if type(o).__name__ == "PTIPTO":
                continue      # the series of a PTI/PTO travel with its electric-side record; the property asks for the main engines' here
            comp[(o.name, int(o.shaft_line_id), 1)] = [float(x) for x in np.atleast_1d(o.power_output)]
        out["component_power"] = [[k[0], k[1], v, k[2]] for k, v in comp.items()]
        return out

    def term(self, case, obs):
        if "rejected" in obs or "not_implemented" in obs:
            return "true"
        names = core.coq_list([core.coq_string(x) for x in scalar_fields()])
        pf = core.coq_list([core.coq_string(x) for x in msg_scalar_fields()])
        parts = []
        for s, p in zip(obs["snaps"], obs["parsed"]):
            s2 = dict(s)
            r = coq_res_obs(s2).replace("r_detail := None", "r_detail := " + ("None" if s["detail"] is None else "(Some " + core.coq_nat_list(list(range(len(p["rows"])))) + ")"))
            sc = core.coq_list([f"({core.coq_string(n)}, {core.coq_fl(v)})" for n, v in p["scalars"]])
            fuel = core.coq_list([f"({k}%nat, {core.coq_fl(m)})" for k, m in p["fuel"]])
            scale = core.coq_q(Fraction(max(1.0, max(abs(v) for _, v in p["scalars"]))))
            parts.append(f"check_export {pf} {names} {r} {scale} {sc} {fuel} {core.coq_fl_list(p['co2'])} {core.coq_fl(p['nox'])} {len(p['rows'])}%nat")
        if case["series"]:
            n = case["inp"]["n"]
            ep = "None" if not case["with_ts_message"] else "(Some " + core.coq_q_list([Fraction(e_) for e_ in epochs_of(case)]) + ")"
            dt = f"(DtScalar {core.coq_q(case['inp']['dt'][0])})" if case["scalar_dt"] else f"(DtSeries {core.coq_q_list(case['inp']['dt'])})"
            for p in obs["parsed"]:
                for row in p["rows"]:
                    if row["time"]:
                        parts.append(f"check_time_base {ep} {dt} {n}%nat {core.coq_fl_list(row['time'])}")
        return "(" + "\n && ".join(parts) + ")%bool"

    def oracle(self, case, obs):
        if "rejected" in obs:
            return None
        if "not_implemented" in obs:
            return ("per-component series requested: the export fails with NotImplementedError for a plant with " + ", ".join(obs["classes"])
                    + " (" + obs["not_implemented"] + ")")
        power = {(r[0], r[1], r[3] if len(r) > 3 else 0): r[2] for r in obs["component_power"]}   # (name, node number, electric/mechanical)
        n = case["inp"]["n"]
        for part, (s, det, p) in enumerate(zip(obs["snaps"], obs["details"], obs["parsed"])):
            # fuel per kind (type, origin, specification): what the message lists against what the result lists
            want, got = {}, {}
            for k, m in s["fuel"]:
                want[k] = want.get(k, 0.0) + m
            for k, m in p["fuel"]:
                got[k] = got.get(k, 0.0) + m
            for k in sorted(set(want) | set(got)):
                a_, b_ = got.get(k), want.get(k)
                if a_ is None or b_ is None or abs(a_ - b_) > 1e-9 * max(1.0, abs(b_)):
                    return (f"exported fuel of kind type/origin/specification {k // 100}/{k // 10 % 10}/{k % 10}: {a_} kg, "
                            f"the result lists {b_} kg")
            if len(p["rows"]) != len(det):
                return f"{len(p['rows'])} detail records for {len(det)} detail rows"
            for row, d in zip(p["rows"], det):
                if row["name"] != d["name"] or row["node"] != d["node"]:
                    return f"detail record {row['name']}@{row['node']} at the place of row {d['name']}@{d['node']}"
                for k, a, b in (("fuel", row["fuel_total"], d["fuel_total"]), ("CO2 tank-to-wake", row["co2_ttw"], d["co2_ttw"] or 0.0),
                                ("NOx", row["nox"], d["nox"] or 0.0), ("running hours", row["hours"], d["hours"])):
                    if abs(a - b) > 1e-9 * max(1.0, abs(b)):
                        return f"detail record {row['name']}@{row['node']}: {k} {a}, the result's row has {b}"
                if abs(row["co2_wtw_noslip"] - row["co2_ttw_noslip"] - row["co2_wtt"]) > 1e-9 * max(1.0, abs(row["co2_wtw_noslip"])):
                    return (f"detail record {row['name']}@{row['node']}: well-to-wake without slip {row['co2_wtw_noslip']} is not tank-to-wake without slip "
                            f"{row['co2_ttw_noslip']} + well-to-tank {row['co2_wtt']}")
                if case["series"] and (row["name"], row["node"], part) in power:
                    pw = power[(row["name"], row["node"], part)]
                    if len(row["power"]) != len(pw) or any(abs(a - b) > 1e-9 * max(1.0, abs(b)) for a, b in zip(row["power"], pw)):
                        return f"detail record {row['name']}@{row['node']}: power series {row['power']} is not the component's {pw}"
                    if len(row["time"]) != n:
                        return f"detail record {row['name']}@{row['node']}: time base of length {len(row['time'])} for {n} input points"
                    for kind, fs in row["fuel_series"]:
                        if len(fs) != n:
                            return f"detail record {row['name']}@{row['node']}: fuel-rate series of length {len(fs)} for {n} input points"
                    if not case["scalar_dt"] and row["fuel_series"] and all(len(fs) == n for _, fs in row["fuel_series"]):
                        # per-interval sums: the fuel-rate series of a record integrate to the fuel mass of the same record
                        tot = sum(r_ * float(d_) for _, fs in row["fuel_series"] for r_, d_ in zip(fs, case["inp"]["dt"]))
                        if abs(tot - row["fuel_total"]) > 1e-9 * max(1.0, abs(row["fuel_total"])):
                            return (f"detail record {row['name']}@{row['node']}: its fuel-rate series integrate to {tot} kg over the "
                                    f"intervals, the record itself says {row['fuel_total']} kg")
                if not case["series"] and (row["time"] or row["power"]):
                    return "series present although not requested"
        return None

    @staticmethod
    def pred_not_impl(case, obs, params):
        return isinstance(obs, dict) and "not_implemented" in obs and any(c in params["classes"] for c in obs.get("classes", []))

    PREDICATES = {"series_export_not_implemented_for_source_class": pred_not_impl.__func__}

    def nontrivial(self, case, obs):
        return sum(1 for d in case["plant"]["comps"] if d["cls"] in ("genset", "genset_df", "genset_rect", "fuelcell", "coges")) >= 2

    def tags(self, case, obs):
        t = ["plant=" + ("hybrid" if case.get("hybrid") else "mechanical+electric" if case["mech"] else "electric"), "series" if case["series"] else "no-series",
             "time-base=" + ("input-message" if case["with_ts_message"] else "scalar-interval" if case["scalar_dt"] else "interval-array"),
             "spec=" + case["fuel_spec"]] + (["input-time-series-with-a-repeated-stamp"] if case.get("repeat_stamp") is not None else [])
        if case.get("same_name"):
            t.append("two-components-with-the-same-name")
        if case.get("reuse_converter"):
            t.append("converter-object-re-targeted-and-used-twice")
        if case["inp"].get("int_dt") and not case["scalar_dt"]:
            t.append("intervals-as-integer-array")
        if case.get("same_name_across_subsystems"):
            t.append("main-engine-with-name-and-node-number-of-a-genset")
        if case["scalar_dt"] and case["inp"]["dt"][0] != int(case["inp"]["dt"][0]):
            t.append("scalar-interval-not-whole-seconds")
        if "rejected" in obs:
            t.append("rejected:" + obs["rejected"].split(":")[0])
        if "not_implemented" in obs:
            t.append("series-export-not-implemented")
        for d in case["plant"]["comps"]:
            t.append("cls:" + d["cls"])
        return sorted(set(t))

    def search(self, rng, near=None):
        return self.gen(rng, "quick", 40)
