"""C10 — system totals equal the sum of component figures, in any order."""
from __future__ import annotations

from fractions import Fraction

import numpy as np

import core
import plantgen as pg
import sysrun
from props.base import Prop
from props.C19 import coq_ores, scalar_fields


def coq_res_obs(s):
    """a per-component result observed as floats, as an exact Gallina res"""
    q = lambda x: core.coq_q(Fraction(x))
    sp = "None" if s["species"] is None else "(Some " + core.coq_list([f"({k}%nat, {q(v)})" for k, v in s["species"]]) + ")"
    fuel = core.coq_list([f"({k}%nat, {q(m)})" for k, m in s["fuel"]])
    return ("{| r_duration := " + core.coq_option(s["duration"], q) + "; r_load := " + core.coq_option(s["load"], q)
            + "; r_scalars := " + core.coq_list([q(x) for x in s["scalars"]]) + "; r_species := " + sp + "; r_fuel := " + fuel
            + "; r_co2 := " + core.coq_list([q(x) for x in s["co2"]]) + "; r_detail := None |}")


class P(Prop):
    ID = "C10"
    THEOREMS = ["C10_total_is_sum", "C10_system_is_sum_of_groups", "C10_order_free"]
    MAKE_TARGETS = ["theories/Props/C10.vo", "theories/Check/Check_C10.vo"]
    CHECK_REQUIRE = ("From Coq Require Import QArith List Bool.\nFrom Feems Require Import Base.Num Model.FuelRecord Model.Result "
                     "Model.SysResult Check.Check_C18 Check.Check_C19 Check.Check_C10.\nOpen Scope Q_scope.")
    RULE = ("electric plants (1-3 switchboards, every source class, storage, PTI/PTO, consumers; engines on diesel, HFO, VLSFO, "
            "methanol, natural gas in three cycles, dual fuel incl. pilot of the main fuel's kind; 1-2 extra emission species on "
            "some engines), mechanical plants (1-3 shaft lines) and mechanical propulsion with an independent electric plant asked through "
            "the combined system (its two parts against the subsystems' own totals, fuel labels against the requested specification): after the balance the system result is compared, figure by "
            "figure, with the model's accumulation of the implementation's own per-component results; the detail table is "
            "compared row by row; each plant is built a second time with its component list permuted. IMO and FuelEU factors. "
            "Non-trivial = >= 2 fuel consumers")
    QUICK_N = 140
    THOROUGH_N = 3000
    SHARD = 30

    def gen(self, rng, tier, override=None):
        out = []
        for _ in range(self.n_cases(tier, override)):
            kind = rng.choice(["electric", "electric", "electric", "mechanical", "mechanical", "combined"])
            if kind == "combined":
                # mechanical propulsion with an independent electric plant, asked for its result through the combined system
                e = sysrun.gen_electric_case(rng, max_swb=2)
                for d in e["plant"]["comps"]:
                    if pg.kind_of(d["cls"]) == "PtiPto":
                        d["cls"] = "battery"
                m = sysrun.gen_mechanical_case(rng, n=e["inp"]["n"])
                m["plant"]["mech"] = [d for d in m["plant"]["mech"] if d["cls"] != "ptipto"]
                m["inp"]["comps"] = [ci for ci in m["inp"]["comps"] if "shaft" not in ci]
                m["inp"]["dt"] = e["inp"]["dt"]
                out.append({"kind": kind, "elec": e, "mech": m, "fuel_spec": rng.choice(["IMO", "FUEL_EU_MARITIME", "FUEL_EU_MARITIME"])})
                continue
            c = sysrun.gen_electric_case(rng) if kind == "electric" else sysrun.gen_mechanical_case(rng)
            c["kind"] = kind
            if kind == "electric" and rng.random() < 0.3:
                # two machines of the same name in different categories of one switchboard (names are unique per category only)
                for d in c["plant"]["comps"]:
                    if pg.kind_of(d["cls"]) in ("Storage", "PtiPto"):
                        src = [e for e in c["plant"]["comps"] if e["swb"] == d["swb"] and pg.kind_of(e["cls"]) == "Source"]
                        if src:
                            d["name"] = rng.choice(src)["name"]
                            c["same_name_across_categories"] = True
                            break
            if kind == "electric" and rng.random() < 0.5:
                # two gensets of the same rating on one switchboard (they share the load equally, so their outputs coincide)
                # that burn different fuels / have different curves
                gs = [d for d in c["plant"]["comps"] if d["cls"] in ("genset", "genset_rect")]
                if gs and not any(b_ is not a_ and b_["swb"] == a_["swb"] for a_ in gs for b_ in gs):
                    import copy as _copy
                    a_ = gs[0]
                    j_ = c["plant"]["comps"].index(a_)
                    twin = _copy.deepcopy(a_)
                    twin["name"] = a_["name"] + "_twin"
                    c["plant"]["comps"].append(twin)
                    c["inp"]["comps"].append(_copy.deepcopy(c["inp"]["comps"][j_]))
                    gs.append(twin)
                for a_ in gs:
                    tw = [b_ for b_ in gs if b_ is not a_ and b_["swb"] == a_["swb"]]
                    if tw:
                        b_ = tw[0]
                        b_["rated"], b_["cls"] = a_["rated"], a_["cls"]
                        b_["eff"] = a_.get("eff", b_.get("eff"))
                        if "eff" in b_ and b_["eff"] is None:
                            b_.pop("eff")
                        b_["engine"] = dict(b_.get("engine") or {}, rated=Fraction(a_["rated"]) * Fraction(11, 10), fuel="NATURAL_GAS", cycle="OTTO")
                        a_["engine"] = dict(a_.get("engine") or {}, rated=Fraction(a_["rated"]) * Fraction(11, 10), fuel="DIESEL", cycle="DIESEL")
                        c["look_alike_gensets"] = True
                        break
            c["fuel_spec"] = rng.choice(["IMO", "IMO", "FUEL_EU_MARITIME"])
            comps = c["plant"]["comps" if kind == "electric" else "mech"]
            perm = list(range(len(comps)))
            rng.shuffle(perm)
            c["perm"] = perm
            out.append(c)
        return out

    def run_one(self, case, plant, inp):
        kind = case["kind"]
        if kind == "electric":
            sysm, objs, res = sysrun.run_electric(plant, inp, case["fuel_spec"])
            groups = [(sid, [o for o in sw.components]) for sid, sw in sysm.switchboards.items()]
            rowed = lambda sw_obj, o: o.power_type.name in ("POWER_SOURCE", "PTI_PTO", "ENERGY_STORAGE")
        else:
            sysm, objs, res = sysrun.run_mechanical(plant, inp, case["fuel_spec"])
            from feems.types_for_feems import TypePower
            groups = [(sl.id, [*sl.component_by_power_type[TypePower.POWER_SOURCE], *sl.component_by_power_type[TypePower.PTI_PTO],
                               *sl.component_by_power_type[TypePower.POWER_CONSUMER]]) for sl in sysm.shaft_line]
            rowed = lambda g, o: o.power_type.name in ("POWER_SOURCE", "PTI_PTO")
        total = sysrun.snap(res)
        detail = sysrun.snap_detail(res)
        no_detail = None
        if kind == "electric":       # the entry point without the detail table must give the same totals
            from feems.fuel import FuelSpecifiedBy
            import numpy as np
            with np.errstate(all="ignore"):
                no_detail = sysrun.snap(sysm.get_fuel_energy_consumption_running_time_scalar(fuel_specified_by=FuelSpecifiedBy[case["fuel_spec"]]))
        per = []
        for gid, comps in groups:
            rs = sysrun.component_results(comps, inp["dt"], case["fuel_spec"])
            per.append({"id": gid, "names": [o.name for o in comps], "res": rs, "rowed": [bool(rowed(None, o)) for o in comps]})
        return {"total": total, "detail": detail, "groups": per, "no_detail": no_detail}

    def run_combined(self, case):
        import numpy as np
        from feems.components_model.utility import IntegrationMethod
        from feems.exceptions import InputError
        from feems.fuel import FuelSpecifiedBy
        from feems.system_model import MechanicalPropulsionSystemWithElectricPowerSystem
        spec = FuelSpecifiedBy[case["fuel_spec"]]
        e, m = case["elec"], case["mech"]
        dt = np.array([float(x) for x in e["inp"]["dt"]])
        try:
            with np.errstate(all="ignore"):
                es, _ = pg.build_electric_system(e["plant"])
                ms, mo = pg.build_mechanical_system(m["plant"])
                pg.apply_electric_inputs(es, _, e["plant"], e["inp"])
                pg.apply_mechanical_inputs(ms, mo, m["plant"], m["inp"])
                ship = MechanicalPropulsionSystemWithElectricPowerSystem("ship", es, ms)
                ship.do_power_balance_calculation()
                res = ship.get_fuel_energy_consumption_running_time(time_interval_s=dt, integration_method=IntegrationMethod.sum_with_time,
                                                                    fuel_specified_by=spec)
                # the two subsystems asked directly (their totals are what the electric / mechanical streams check)
                de = es.get_fuel_energy_consumption_running_time(fuel_specified_by=spec)
                dm = ms.get_fuel_energy_consumption_running_time(fuel_specified_by=spec)
        except (InputError, StopIteration, ValueError) as ex:
            return {"rejected": type(ex).__name__ + ": " + str(ex)[:100]}
        lab = lambda r: sorted({f.fuel_specified_by.name for f in r.multi_fuel_consumption_total_kg.fuels})
        return {"combined": {"elec": sysrun.snap(res.electric_system), "mech": sysrun.snap(res.mechanical_system),
                             "labels": lab(res.electric_system) + lab(res.mechanical_system)},
                "direct": {"elec": sysrun.snap(de), "mech": sysrun.snap(dm)}}

    def run(self, case):
        from feems.exceptions import InputError
        kind = case["kind"]
        if kind == "combined":
            return self.run_combined(case)
        key = "comps" if kind == "electric" else "mech"
        try:
            a = self.run_one(case, case["plant"], case["inp"])
            p2 = dict(case["plant"])
            p2[key] = [case["plant"][key][i] for i in case["perm"]]
            i2 = dict(case["inp"])
            i2["comps"] = [case["inp"]["comps"][i] for i in case["perm"]]
            b = self.run_one(case, p2, i2)
        except (InputError, StopIteration, ValueError) as e:
            return {"rejected": type(e).__name__ + ": " + str(e)[:100]}
        import math
        flat = [x for g in a["groups"] for r in g["res"] for x in r["scalars"] + r["co2"] + [m for _, m in r["fuel"]]]
        if any(isinstance(x, float) and (math.isnan(x) or math.isinf(x)) for x in flat):
            return {"rejected": "non-finite: a bus without balancing capacity (outside C01's premise)"}
        return {"a": a, "b_total": b["total"], "b_detail": b["detail"]}

    def term(self, case, obs):
        if "rejected" in obs or case["kind"] == "combined":
            return "true"
        n = len(scalar_fields())
        a = obs["a"]
        dur = core.coq_q(sum(case["inp"]["dt"]))
        groups = []
        for g in a["groups"]:
            rows = [k for k, r in enumerate(g["rowed"]) if r]
            groups.append("(" + core.coq_list([coq_res_obs(r) for r in g["res"]], sep=";\n   ") + ", " + core.coq_nat_list(rows) + ")")
        t = dict(a["total"])
        t["detail"] = None
        return f"check_system {n}%nat {dur} {core.coq_list(groups, sep=';' + chr(10) + '  ')} {coq_ores(t)}"

    def oracle(self, case, obs):
        if "rejected" in obs:
            return None
        if case["kind"] == "combined":
            import math
            for side in ("elec", "mech"):
                a_, b_ = obs["combined"][side], obs["direct"][side]
                if any(isinstance(x, float) and (math.isnan(x) or math.isinf(x)) for x in b_["scalars"] + b_["co2"]):
                    continue
                d = sysrun.figures_diff(a_, b_)
                if d:
                    return (f"the {side} part of the combined system's result differs from the totals of that subsystem's switchboards / "
                            f"shaft lines: {d[:3]}")
            bad = [l for l in obs["combined"]["labels"] if l != case["fuel_spec"]]
            if bad:
                return f"combined system asked for {case['fuel_spec']} factors reports fuels specified by {bad}"
            return None
        a = obs["a"]
        tot = sysrun.figures(a["total"])
        # totals = sum of the per-component figures
        acc = {}
        for g in a["groups"]:
            for r in g["res"]:
                for k, v in sysrun.figures(r).items():
                    if k != "duration" and v is not None:
                        acc[k] = acc.get(k, 0.0) + v
        for k in sorted(set(acc) | set(tot)):
            if k in ("duration",):
                continue
            x, y = tot.get(k, 0.0) or 0.0, acc.get(k, 0.0)
            if abs(x - y) > 1e-9 * max(1.0, abs(x), abs(y)):
                return f"system total {k} = {x} but the per-component figures add up to {y}"
            if k.startswith("species:") and k not in tot and y != 0:
                return f"species {k} emitted by a component is missing from the system total"
        if a.get("no_detail") is not None:
            d = sysrun.figures_diff(a["total"], a["no_detail"])
            if d:
                return f"the totals of the entry point without detail table differ from those with it: {d[:3]}"
        # order-free
        d = sysrun.figures_diff(a["total"], obs["b_total"])
        if d:
            return f"totals depend on the order of the component list: {d[:3]}"
        # detail rows: one per reported component, same figures (names only have to be unique within one category of
        # a node, so rows are matched as a multiset, not through a dictionary)
        want = []
        for g in a["groups"]:
            for name, r, rowed in zip(g["names"], g["res"], g["rowed"]):
                if rowed:
                    want.append((name, g["id"], r))
        rows = list(a["detail"])
        if sorted((r["name"], r["node"]) for r in rows) != sorted((n, g) for n, g, _ in want):
            return (f"detail rows {sorted((r['name'], r['node']) for r in rows)} but the reported components are "
                    f"{sorted((n, g) for n, g, _ in want)}")

        def mismatch(row, r):
            ft = sum(m for _, m in r["fuel"])
            if abs(row["fuel_total"] - ft) > 1e-9 * max(1.0, ft):
                return f"fuel {row['fuel_total']} kg, component result {ft} kg"
            if row["co2_ttw"] is not None and abs(row["co2_ttw"] - r["co2"][0]) > 1e-9 * max(1.0, abs(r["co2"][0])):
                return f"CO2 {row['co2_ttw']} kg, component result {r['co2'][0]} kg"
            hrs = sum(v for name_, v in zip(scalar_fields(), r["scalars"]) if name_.startswith("running_hours"))
            if abs(row["hours"] - hrs) > 1e-9 * max(1.0, hrs):
                return f"running hours {row['hours']} h, component result {hrs} h"
            nox = dict(map(tuple, r["species"] or [])).get(2)
            if (row["nox"] or 0.0) != (nox or 0.0) and abs((row["nox"] or 0.0) - (nox or 0.0)) > 1e-9:
                return f"NOx {row['nox']} kg, component result {nox} kg"
            return None
        for name, gid, r in want:
            cands = [i for i, row in enumerate(rows) if (row["name"], row["node"]) == (name, gid)]
            ok = next((i for i in cands if mismatch(rows[i], r) is None), None)
            if ok is None:
                return f"detail row {(name, gid)}: {mismatch(rows[cands[0]], r)}"
            rows.pop(ok)
        return None

    def nontrivial(self, case, obs):
        if case["kind"] == "combined":
            return True
        comps = case["plant"]["comps" if case["kind"] == "electric" else "mech"]
        return sum(1 for d in comps if d["cls"] in ("genset", "genset_df", "genset_rect", "fuelcell", "coges", "main_engine", "main_engine_gb")) >= 2

    def tags(self, case, obs):
        t = ["kind=" + case["kind"], "spec=" + case["fuel_spec"]]
        if case["kind"] == "combined":
            if "rejected" in obs:
                t.append("rejected:" + obs["rejected"].split(":")[0])
            return t
        if case.get("look_alike_gensets"):
            t.append("two-gensets-of-equal-rating-and-output-with-different-fuels")
        if case.get("same_name_across_categories"):
            t.append("source-and-storage-of-the-same-name-on-one-switchboard")
        if "rejected" in obs:
            t.append("rejected:" + obs["rejected"].split(":")[0])
            return t
        comps = case["plant"]["comps" if case["kind"] == "electric" else "mech"]
        fuels = {(d.get("engine") or {}).get("fuel", "DIESEL") for d in comps if "engine" in d}
        t.append(f"fuel-kinds={len(fuels)}")
        if any((d.get("engine") or {}).get("emissions") for d in comps):
            t.append("extra-emission-species")
        if any(d["cls"] == "genset_df" for d in comps):
            t.append("dual-fuel")
        for d in comps:
            t.append("cls:" + d["cls"])
        sps = [tuple(sorted(k for k, _ in (r["species"] or []))) for g in obs["a"]["groups"] for r in g["res"] if r["species"]]
        if len(set(sps)) > 1:
            t.append("components-with-different-species-sets")
        return sorted(set(t))

    def search(self, rng, near=None):
        return self.gen(rng, "quick", 60)
