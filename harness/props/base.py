"""Base class of the per-property plug-ins."""
from __future__ import annotations

import json
import sys
from pathlib import Path

import core

_REPO = core.REPO
for sub in ("feems", "machinery-system-structure", "RunFEEMSSim"):
    p = str(_REPO / sub)
    if p not in sys.path:
        sys.path.insert(0, p)


class Prop:
    ID = "C00"
    THEOREMS: list = []
    ALLOWED_AXIOMS: list = []
    MAKE_TARGETS: list = []
    CHECK_REQUIRE = ""
    RULE = ""
    TRUSTED: list = []
    ASSUMPTIONS: list = []
    PREDICATES: dict = {}
    QUICK_N = 300
    THOROUGH_N = 5000

    def theorem_sets(self):
        return [(f"Feems.Props.{self.ID}", self.THEOREMS, self.ALLOWED_AXIOMS)]

    def n_cases(self, tier, override=None):
        if override:
            return override
        return self.THOROUGH_N if tier == "thorough" else self.QUICK_N

    def corpus(self):
        d = core.CORPUS / self.ID
        out = []
        if d.exists():
            for f in sorted(d.glob("*.json")):
                out.append(core.unjson(json.loads(f.read_text())["input"]))
        return out

    def tags(self, case, obs):
        return []

    def nontrivial(self, case, obs):
        return True

    def oracle(self, case, obs):
        return None
