"""C20 — invalid configurations are rejected; supported ones are accepted."""
from __future__ import annotations

import copy
import math
from fractions import Fraction

import numpy as np

import core
import plantgen as pg
import sysrun
from props.base import Prop
from props.C06 import coq_curve, gen_curve

PT = {"Source": 1, "Consumer": 2, "PtiPto": 3, "Storage": 4}
FAMILIES = ["valid", "valid", "unfed", "nonpos_id", "no_breakers", "dup_name", "wrong_class", "rated", "rated_engine", "nonmono",
            "fuel_spec", "length", "hybrid", "dup_shaft", "unknown_breaker"]


def finite_snapshot(s):
    xs = s["scalars"] + s["co2"] + [m for _, m in s["fuel"]]
    return all(not (isinstance(x, float) and (math.isnan(x) or math.isinf(x))) for x in xs)


class P(Prop):
    ID = "C20"
    THEOREMS = ["C20_rejects_unfed_switchboard", "C20_rejects_nonpositive_id", "C20_rejects_missing_breakers", "C20_rejects_wrong_class",
                "C20_rejects_duplicate_names", "C20_rejects_duplicate_names_shaft", "C20_rejects_hybrid_mismatch", "C20_rejects_component",
                "C20_rejects_fuel_spec", "C20_rejects_length_mismatch", "C20_accepts"]
    MAKE_TARGETS = ["theories/Props/C20.vo", "theories/Check/Check_C20.vo"]
    CHECK_REQUIRE = ("From Coq Require Import ZArith QArith List Bool.\nFrom Feems Require Import Base.Num Base.Pchip Model.Component "
                     "Model.Validate Check.Check_C06 Check.Check_C20.\nOpen Scope Q_scope.")
    RULE = ("valid stream: electric plants with all units running (must be accepted with finite results); invalid stream: for a valid "
            "base, ONE invalidating change of a family at a random place: switchboard without source/storage, non-positive "
            "switchboard id, breakers removed, breaker to an unknown switchboard, duplicate name in a category (switchboard and shaft "
            "line), component of the wrong class for its role, non-positive rated power (efficiency components and engines), "
            "non-monotonic efficiency map (loads, generators alone or in a genset, converters of fuel-cell / battery / supercapacitor systems, "
            "single-stage drives; in mechanical plants the gearbox of a geared main engine or a mechanical load), fuel specification with missing/superfluous data, one series of another length (not 1), "
            "hybrid system with a copied / renamed / missing PTI/PTO; the implementation's accept/reject is compared with the model's "
            "verdict evaluated in Coq. Non-trivial = every invalid case")
    QUICK_N = 240
    THOROUGH_N = 5000
    SHARD = 20

    # ---- generation ------------------------------------------------------------------------------
    def gen(self, rng, tier, override=None):
        out = []
        # the families with a handful of fixed variants are enumerated first, whatever the seed
        forced = [("dup_shaft", v) for v in ("engine", "load", "cross-category", "other-line", "load-engine-load")] + \
                 [("hybrid", v) for v in ("same", "copy", "renamed", "none_mech", "none_elec", "extra")]
        for it in range(self.n_cases(tier, override)):
            fam = rng.choice(FAMILIES + ["mech", "mech"])
            force = forced[it] if (it < len(forced) and not override) else None
            if force:
                fam = force[0]
            if fam == "mech":
                # mechanical plants: valid ones, and ones with ONE efficiency curve made non-monotonic - the gearbox of a geared
                # main engine or a mechanical load
                m = sysrun.gen_mechanical_case(rng)
                m["plant"]["mech"] = [d for d in m["plant"]["mech"] if d["cls"] != "ptipto"]
                m["inp"]["comps"] = [ci for ci in m["inp"]["comps"] if "shaft" not in ci]
                for ci in m["inp"]["comps"]:
                    if "status" in ci:
                        ci["status"] = [True] * m["inp"]["n"]
                case = {"family": "mech", "plant": m["plant"], "inp": m["inp"], "what": "valid"}
                lines_ = sorted({d["line"] for d in m["plant"]["mech"]})
                if len(lines_) >= 2 and rng.random() < 0.35:
                    # every series of ONE shaft line is given another length: consistent within each line, not across the plant
                    ln = rng.choice(lines_)
                    k2 = rng.choice([k_ for k_ in range(2, m["inp"]["n"] + 4) if k_ != m["inp"]["n"]])
                    for d, ci in zip(m["plant"]["mech"], m["inp"]["comps"]):
                        if d["line"] == ln:
                            for key in list(ci):
                                if isinstance(ci[key], list):
                                    ci[key] = (ci[key] * k2)[:k2]
                    case["what"] = "length-differs-between-shaft-lines"
                    out.append(case)
                    continue
                if rng.random() < 0.6:
                    bad = rng.choice([[[Fraction(1, 8), Fraction(1, 16)], [Fraction(1, 4), Fraction(1)]],
                                      [[Fraction(1, 2), Fraction(1, 4)], [Fraction(5, 8), Fraction(1)]]])
                    idx = [i for i, d in enumerate(m["plant"]["mech"]) if d["cls"] in ("main_engine_gb", "propeller", "mech_load")]
                    d = m["plant"]["mech"][rng.choice(idx)]
                    d["gb_eff" if d["cls"] == "main_engine_gb" else "eff"] = bad
                    case["what"] = "non-monotonic:" + ("gearbox" if d["cls"] == "main_engine_gb" else "load")
                    case["bad"] = [d["rated"], bad]
                out.append(case)
                continue
            c = sysrun.gen_electric_case(rng, rich=False)
            plant, inp = c["plant"], c["inp"]
            n = inp["n"]
            for d, ci in zip(plant["comps"], inp["comps"]):
                if "status" in ci:
                    ci["status"] = [True] * n
                    if pg.kind_of(d["cls"]) != "Source":
                        ci["lsm"] = [Fraction(1)] * n      # given-power mode: keeps every plant within capacity
                        ci["pin"] = [Fraction(0)] * n
            case = {"family": fam, "plant": plant, "inp": inp, "what": None}
            comps, swbs = plant["comps"], plant["swbs"]
            if fam == "unfed":
                new = max(swbs) + 1
                who = rng.choice(["load", "load", "pti", "pti+load"])     # a PTI/PTO is neither a source nor a storage
                if "pti" in who:
                    comps.append({"name": "lonely_pti", "cls": "ptipto", "swb": new, "rated": Fraction(500)})
                    inp["comps"].append({"status": [True] * n, "lsm": [Fraction(1)] * n, "pin": [Fraction(0)] * n})
                if "load" in who:
                    comps.append({"name": "lonely", "cls": "load", "swb": new, "rated": Fraction(500)})
                    inp["comps"].append({"pin": [Fraction(10)] * n, "set": "from_output"})
                plant["breakers"].append([swbs[0], new])
                if inp.get("sts") is not None:
                    inp["sts"] = [r + [True] for r in inp["sts"]]
                else:
                    inp["sts"] = [[True] for _ in range(n)]
                plant["swbs"] = swbs + [new]
            elif fam == "nonpos_id":
                old, new = rng.choice(swbs), rng.choice([0, -1, -3])
                for d in comps:
                    if d["swb"] == old:
                        d["swb"] = new
                plant["breakers"] = [[new if x == old else x for x in b] for b in plant["breakers"]]
                plant["swbs"] = sorted(new if x == old else x for x in swbs)
            elif fam == "no_breakers":
                plant["breakers"] = []
                inp["sts"] = None
                # every switchboard but one fed by storage units only (no genset there): still two unconnected switchboards
                if len(swbs) >= 2 and rng.random() < 0.5:
                    keep = rng.choice(swbs)
                    for d, ci in zip(comps, inp["comps"]):
                        if d["swb"] != keep and pg.kind_of(d["cls"]) == "Source":
                            for k_ in [k_ for k_ in d if k_ not in ("name", "swb", "rated")]:
                                del d[k_]
                            d["cls"] = "battery"
                            ci.clear()
                            ci.update({"status": [True] * n, "lsm": [Fraction(1)] * n, "pin": [Fraction(0)] * n})
                    case["what"] = "gensets-on-one-switchboard-only"
            elif fam == "unknown_breaker":
                ghost = max(swbs) + 5
                plant["breakers"].append([swbs[0], ghost])
                case["ghost"] = True
            elif fam == "dup_name":
                i = rng.randrange(len(comps))
                twin = copy.deepcopy(comps[i])
                comps.append(twin)
                inp["comps"].append(copy.deepcopy(inp["comps"][i]))
                u = rng.random()
                if u < 0.35:                    # same name, same category, but ANOTHER component class/type: still a duplicate
                    alt = {"Source": ["genset", "generator", "fuelcell", "coges"], "Consumer": ["drive", "load"],
                           "Storage": ["battery", "supercap", "battery_sys"], "PtiPto": ["ptipto"]}[pg.kind_of(twin["cls"])]
                    twin["cls"] = rng.choice([a for a in alt if a != twin["cls"]] or alt)
                    twin.pop("engine", None)
                    twin["bat"] = {"kwh": 1000, "wh": 5000}
                    case["what"] = "same-category-other-class"
                elif u < 0.6:                   # same name in ANOTHER category is allowed: not a defect
                    twin["cls"] = "load" if pg.kind_of(twin["cls"]) != "Consumer" else "generator"
                    inp["comps"][-1] = ({"pin": [Fraction(0)] * n, "set": "from_output"} if twin["cls"] == "load"
                                        else {"status": [True] * n, "lsm": [Fraction(0)] * n, "pin": [Fraction(0)] * n})
            elif fam == "wrong_class":
                loads_ = [j for j, d in enumerate(comps) if d["cls"] == "load"]
                if loads_ and rng.random() < 0.4:
                    # a plain component typed PTI/PTO system but declared a consumer: the role follows the component type
                    comps[rng.choice(loads_)]["cls"] = "bad_pti_load"
                    case["what"] = "pti-typed-consumer"
                else:
                    idx = [i for i, d in enumerate(comps) if pg.kind_of(d["cls"]) in ("Source", "Storage", "PtiPto")]
                    i = rng.choice(idx)
                    comps[i]["cls"] = {"Source": "bad_source", "Storage": "bad_storage", "PtiPto": "bad_pti"}[pg.kind_of(comps[i]["cls"])]
            elif fam == "rated":
                idx = [i for i, d in enumerate(comps) if d["cls"] in ("load", "drive", "generator", "battery", "supercap")]
                if idx:
                    d = comps[rng.choice(idx)]
                    if d["cls"] == "drive":
                        # the drive's own rating is not positive while its stages are fine
                        d["stages"] = [{"rated": Fraction(d["rated"]), "eff": d.get("eff", [Fraction(95, 100)])}]
                    d["rated"] = Fraction(rng.choice([0, 0, -100]))
                else:
                    case["family"] = "valid"
            elif fam == "rated_engine":
                idx = [i for i, d in enumerate(comps) if d["cls"] == "genset"]
                if idx:
                    i = rng.choice(idx)
                    comps[i]["engine"] = {"rated": Fraction(rng.choice([0, -100]))}
                else:
                    case["family"] = "valid"
            elif fam == "nonmono":
                # any component whose own efficiency curve the description carries: loads, generators (alone or in a genset),
                # the converter of a fuel-cell / battery / supercapacitor system, a single-stage drive
                idx = [i for i, d in enumerate(comps) if d["cls"] in ("load", "generator", "genset", "fuelcell", "battery_sys", "supercap_sys")
                       or (d["cls"] == "drive" and not d.get("stages"))]
                if idx:
                    # an efficiency rising faster than the load makes the input FALL while the output rises
                    comps[rng.choice(idx)]["eff"] = rng.choice([[[Fraction(1, 8), Fraction(1, 16)], [Fraction(1, 4), Fraction(1)]],
                                                                [[Fraction(1, 2), Fraction(1, 4)], [Fraction(5, 8), Fraction(1)]]])
                else:
                    case["family"] = "valid"
            elif fam == "fuel_spec":
                case["fuel"] = {"user": rng.random() < 0.5, "lhv": rng.random() < 0.5, "wtt": rng.random() < 0.5, "ttw": rng.random() < 0.5}
            elif fam == "length":
                m = rng.choice([k for k in range(2, n + 4) if k != n])
                where = rng.choice(["status", "lsm", "pin_consumer", "dt", "pin_consumer_one"])
                if where == "dt":
                    inp["dt"] = [Fraction(60)] * m
                elif where.startswith("pin_consumer"):
                    idx = [i for i, d in enumerate(comps) if pg.kind_of(d["cls"]) == "Consumer"] or [0]
                    i = rng.choice(idx)
                    mm = 1 if where.endswith("one") else m
                    inp["comps"][i]["pin"] = [Fraction(10)] * mm
                else:
                    idx = [i for i, d in enumerate(comps) if pg.kind_of(d["cls"]) == "Source"] or \
                          [i for i, d in enumerate(comps) if pg.kind_of(d["cls"]) in ("Storage", "PtiPto")]     # a plant fed by storage only
                    i = rng.choice(idx)
                    inp["comps"][i][where] = [True] * m if where == "status" else [Fraction(0)] * m
                case["what"] = where
            elif fam == "hybrid":
                case["hybrid"] = rng.choice(["same", "copy", "renamed", "none_mech", "none_elec", "extra"])
                if force:
                    case["hybrid"] = force[1]
            elif fam == "dup_shaft":
                case["shaft_dup"] = rng.choice(["engine", "load", "cross-category", "other-line", "load-engine-load"])
                if force:
                    case["shaft_dup"] = force[1]
            out.append(case)
        return out

    # ---- implementation ----------------------------------------------------------------------------
    def run(self, case):
        fam = case["family"]
        errs = (TypeError, NameError, KeyError, ValueError, IndexError, AssertionError, AttributeError)
        from feems.components_model.utility import IntegrationError
        from feems.exceptions import ConfigurationError, InputError
        errs = errs + (ConfigurationError, InputError, IntegrationError)
        try:
            with np.errstate(all="ignore"):
                if fam == "fuel_spec":
                    from feems.fuel import Fuel, FuelOrigin, FuelSpecifiedBy, GhgEmissionFactorTankToWake as G, TypeFuel
                    f = case["fuel"]
                    Fuel(TypeFuel.DIESEL, FuelOrigin.FOSSIL, FuelSpecifiedBy.USER if f["user"] else FuelSpecifiedBy.IMO,
                         lhv_mj_per_g=0.0427 if f["lhv"] else None,
                         ghg_emission_factor_well_to_tank_gco2eq_per_mj=14.4 if f["wtt"] else None,
                         ghg_emission_factor_tank_to_wake=[G(3.2, 0.0, 0.0, 0.0)] if f["ttw"] else None)
                    return {"accepted": True}
                if fam == "hybrid":
                    return self.run_hybrid(case)
                if fam == "dup_shaft":
                    return self.run_shaft(case)
                if fam == "mech" and case["what"] == "length-differs-between-shaft-lines":
                    # the power balance is where inconsistent series must be refused: its outputs are results already
                    sysm, objs = pg.build_mechanical_system(case["plant"])
                    pg.apply_mechanical_inputs(sysm, objs, case["plant"], case["inp"])
                    sysm.do_power_balance()
                    return {"accepted": True}
                if fam == "mech":
                    sysm, objs, res = sysrun.run_mechanical(case["plant"], case["inp"])
                    return {"accepted": True, "finite": finite_snapshot(sysrun.snap(res))}
                sysm, objs, res = sysrun.run_electric(case["plant"], case["inp"])
                s = sysrun.snap(res)
                return {"accepted": True, "finite": finite_snapshot(s)}
        except errs as e:
            return {"accepted": False, "error": type(e).__name__, "msg": str(e)[:100]}

    def hybrid_parts(self):
        elec = {"comps": [{"name": "g", "cls": "genset", "swb": 1, "rated": Fraction(2000)},
                          {"name": "ptipto", "cls": "ptipto", "swb": 1, "line": 1, "rated": Fraction(1000), "eff": [Fraction(15, 16)]},
                          {"name": "c", "cls": "load", "swb": 1, "rated": Fraction(1000)}], "breakers": [], "swbs": [1]}
        mech = [{"name": "me", "cls": "main_engine", "line": 1, "rated": Fraction(4000)},
                {"name": "prop", "cls": "propeller", "line": 1, "rated": Fraction(6000)}]
        return elec, mech

    def run_hybrid(self, case):
        from feems.system_model import HybridPropulsionSystem, MechanicalPropulsionSystem
        elec, mech = self.hybrid_parts()
        how = case["hybrid"]
        if how == "none_elec":
            elec["comps"] = [c for c in elec["comps"] if c["cls"] != "ptipto"]
        esys, eobjs = pg.build_electric_system(elec)
        pti = next((o for d, o in zip(elec["comps"], eobjs) if d["cls"] == "ptipto"), None)
        mobjs = [pg.build_mechanical_component(d) for d in mech]
        d = {"name": "ptipto", "cls": "ptipto", "swb": 1, "line": 1, "rated": Fraction(1000), "eff": [Fraction(15, 16)]}
        if how == "same":
            mobjs.append(pti)
        elif how == "copy":
            mobjs.append(copy.deepcopy(pti))
        elif how == "renamed":
            mobjs.append(pg.build_electric_component({**d, "name": "other"}))
        elif how == "none_elec":
            mobjs.append(pg.build_electric_component(d))
        elif how == "extra":
            mobjs += [pti, pg.build_electric_component({**d, "name": "second", "line": 1})]
        HybridPropulsionSystem("h", esys, MechanicalPropulsionSystem("m", mobjs))
        return {"accepted": True}

    def run_shaft(self, case):
        from feems.system_model import MechanicalPropulsionSystem
        mech = [{"name": "me1", "cls": "main_engine", "line": 1, "rated": Fraction(4000)},
                {"name": "me2", "cls": "main_engine", "line": 1, "rated": Fraction(3000)},
                {"name": "prop", "cls": "propeller", "line": 1, "rated": Fraction(6000)},
                {"name": "me3", "cls": "main_engine", "line": 2, "rated": Fraction(3000)},
                {"name": "prop2", "cls": "propeller", "line": 2, "rated": Fraction(6000)}]
        how = case["shaft_dup"]
        if how == "engine":
            mech[1]["name"] = "me1"
        elif how == "load":
            mech.append({"name": "prop", "cls": "mech_load", "line": 1, "rated": Fraction(100)})
        elif how == "load-engine-load":
            # three components of one name on one line, listed load, engine, load: the two loads are duplicates of each other
            mech = [{"name": "stbd", "cls": "propeller", "line": 1, "rated": Fraction(6000)},
                    {"name": "stbd", "cls": "main_engine", "line": 1, "rated": Fraction(4000)},
                    {"name": "stbd", "cls": "mech_load", "line": 1, "rated": Fraction(100)}] + mech[3:]
        elif how == "cross-category":
            mech[2]["name"] = "me1"        # a load named like an engine: other category, allowed
        else:
            mech[3]["name"] = "me1"        # same name on another line: allowed
        case["_shaft"] = mech
        MechanicalPropulsionSystem("m", [pg.build_mechanical_component(d) for d in mech])
        return {"accepted": True}

    # ---- model ---------------------------------------------------------------------------------------
    def term(self, case, obs):
        fam = case["family"]
        acc = core.coq_bool(obs["accepted"])
        if fam == "length" and case["what"] == "pin_consumer_one":
            return "true"       # a single value standing for a constant: the property makes no claim either way
        if fam == "fuel_spec":
            f = case["fuel"]
            return f"agree (construct_fuel {core.coq_bool(f['user'])} {core.coq_bool(f['lhv'])} {core.coq_bool(f['wtt'])} {core.coq_bool(f['ttw'])}) {acc}"
        if fam == "hybrid":
            e, m = {"same": ([1], [1]), "copy": ([1], [2]), "renamed": ([1], [3]), "none_mech": ([1], []), "none_elec": ([], [1]),
                    "extra": ([1], [1, 4])}[case["hybrid"]]
            return f"agree (construct_hybrid {core.coq_nat_list(e)} {core.coq_nat_list(m)}) {acc}"
        if fam == "dup_shaft":
            names = {}
            ptype = lambda d: 1 if d["cls"].startswith("main_engine") else 2
            trip = core.coq_list([f"({d['line']}%Z, {ptype(d)}%nat, {names.setdefault(d['name'], len(names))}%nat)" for d in case["_shaft"]])
            # every line is its own ShaftLine object: the check is per line (the line id is part of the key)
            return f"agree (construct_mechanical {trip}) {acc}"
        if fam == "mech":
            if case["what"] == "length-differs-between-shaft-lines":
                ls = sorted({len(v) for ci in case["inp"]["comps"] for v in ci.values() if isinstance(v, list)})
                return f"agree (all_accepted [series_ok {ls[0]}%nat {core.coq_nat_list(ls)} []]) {acc}"
            if "bad" not in case:
                return f"agree (all_accepted []) {acc}"
            return f"agree (all_accepted [component_verdict {core.coq_q(case['bad'][0])} {coq_curve(case['bad'][1])}]) {acc}"
        plant, inp = case["plant"], case["inp"]
        names = {}
        comps = []
        verdicts = []
        for d in plant["comps"]:
            k = pg.kind_of(d["cls"])
            ok = not d["cls"].startswith("bad_")
            comps.append(f"mkc {names.setdefault(d['name'], len(names))}%nat {PT[k]}%nat {core.coq_bool(ok)} ({int(d['swb'])})%Z")
            if d["cls"] in ("load", "generator", "battery", "supercap", "genset", "genset_df", "genset_rect", "fuelcell", "coges",
                            "battery_sys", "supercap_sys") or (d["cls"] == "drive" and not d.get("stages")):
                verdicts.append(f"component_verdict {core.coq_q(d['rated'])} {coq_curve(d.get('eff', [Fraction(95, 100)]))}")
            elif d["cls"] == "drive" and len(d.get("stages") or []) == 1:
                # one stage with its own (valid) rating: the verdict on the serial system is that on its own rating
                verdicts.append(f"component_verdict {core.coq_q(d['rated'])} {coq_curve(d['stages'][0]['eff'])}")
        brk = core.coq_list([f"(({int(a)})%Z, ({int(b)})%Z)" for a, b in plant["breakers"]])
        verdicts.append(f"construct_electric {{| e_comps := {core.coq_list(comps)}; e_breakers := {brk} |}}")
        n = inp["n"]
        strict, one = [len(inp["dt"])], []
        if inp.get("sts") is not None:
            strict.append(len(inp["sts"]))
        for d, ci in zip(plant["comps"], inp["comps"]):
            if pg.kind_of(d["cls"]) == "Consumer":
                one.append(len(ci["pin"]))
            else:
                strict += [len(ci["status"]), len(ci["lsm"])]
                if pg.kind_of(d["cls"]) != "Source":
                    strict.append(len(ci["pin"]))
        verdicts.append(f"series_ok {n}%nat {core.coq_nat_list(strict)} {core.coq_nat_list(one)}")
        return f"agree (all_accepted {core.coq_list(verdicts)}) {acc}"

    def oracle(self, case, obs):
        fam = case["family"]
        if fam == "valid":
            if not obs["accepted"]:
                return f"a configuration built only from supported components with consistent inputs was rejected: {obs['error']}: {obs['msg']}"
            if not obs.get("finite", True):
                return "a valid configuration was accepted but its result is not finite"
            return None
        invalid = True
        if fam == "mech":
            invalid = case["what"] != "valid"
            if not invalid and obs["accepted"] and not obs.get("finite", True):
                return None      # engines all running but no load etc.: finiteness of mechanical results is C04's premise
        if fam == "dup_name":
            invalid = pg.kind_of(case["plant"]["comps"][-1]["cls"]) == next(
                pg.kind_of(d["cls"]) for d in case["plant"]["comps"][:-1] if d["name"] == case["plant"]["comps"][-1]["name"])
        if fam == "fuel_spec":
            f = case["fuel"]
            invalid = (f["user"] and not (f["lhv"] and f["wtt"] and f["ttw"])) or (not f["user"] and (f["lhv"] or f["wtt"] or f["ttw"]))
        if fam == "hybrid":
            invalid = case["hybrid"] != "same"
        if fam == "dup_shaft":
            invalid = case["shaft_dup"] in ("engine", "load", "load-engine-load")
        if fam == "length" and case["what"] == "pin_consumer_one":
            return None         # a single value standing for a constant is excepted: no claim either way
        if fam == "no_breakers":
            invalid = len(case["plant"]["swbs"]) >= 2
        if invalid and obs["accepted"]:
            return f"structurally invalid configuration ({fam}{'/' + str(case.get('what') or case.get('hybrid') or case.get('shaft_dup') or '')}) was accepted and yields a result"
        if not invalid and not obs["accepted"]:
            return f"a supported configuration ({fam}) was rejected: {obs['error']}: {obs['msg']}"
        return None

    @staticmethod
    def pred_engine(case, obs, params):
        return isinstance(case, dict) and case.get("family") == "rated_engine" and obs.get("accepted") is True

    PREDICATES = {"engine_nonpositive_rated_power_accepted": pred_engine.__func__}

    def nontrivial(self, case, obs):
        return case["family"] != "valid"

    def tags(self, case, obs):
        t = ["family=" + case["family"], "accepted" if obs["accepted"] else "rejected:" + obs.get("error", "?")]
        for k in ("what", "hybrid", "shaft_dup"):
            if case.get(k):
                t.append(f"{case['family']}:{case[k]}")
        return t

    def search(self, rng, near=None):
        return self.gen(rng, "quick", 100)
