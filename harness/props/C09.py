"""C09 — NOx and curve-based emissions follow the IMO limits and the given curves."""
from __future__ import annotations

import re
from fractions import Fraction

import numpy as np

import core
import regen
from props.base import Prop

TIERS = ["TIER_1", "TIER_2", "TIER_3"]
SPEC = {"TIER_1": (17.0, 45.0, -0.2), "TIER_2": (14.4, 44.0, -0.23), "TIER_3": (3.4, 9.0, -0.2)}
SPECIES = ["SOX", "CO", "PM", "HC", "CH4", "N2O", "NOX"]


def r_lit(x: Fraction) -> str:
    n, d = x.numerator, x.denominator
    s = f"{abs(n)}" if d == 1 else f"({abs(n)} / {d})"
    return f"(- {s})" if n < 0 else s


class P(Prop):
    ID = "C09"
    THEOREMS = ["C09_limit_values", "C09_positive", "C09_never_increases", "C09_junction", "C09_tier_order",
                "C09_species_mass", "C09_tier_mass", "C09_tier_limit_replaces_a_given_nox_curve", "C09_tier_method_never_refuses",
                "C09_other_species_use_the_last_given_curve", "C09_curve_method_needs_a_nox_curve", "C09_curve_method_uses_the_nox_curve"]
    ALLOWED_AXIOMS = ["ClassicalDedekindReals.", "Classical_Prop.classic", "FunctionalExtensionality.functional_extensionality_dep",
                      "FloatAxioms.", "PrimFloat.", "PrimInt63.", "Uint63."]
    MAKE_TARGETS = ["theories/Props/C09.vo", "theories/Check/Check_C09.vo"]
    CHECK_REQUIRE = ("From Coq Require Import QArith List Bool.\n"
                     "From Feems Require Import Base.Num Base.Pchip Model.Nox Model.Emis Check.Check_C09.\nOpen Scope Q_scope.")
    RULE = ("(constants) tier dictionaries and the 130 rpm bound regenerated from feems.constant, theorem C09_constants re-proved; "
            "(limit) engines and COGAS of every tier at sampled rated speeds incl. 1, 129, 130, 131, 1999, 2000 (thorough: every "
            "integer rpm 1-2000 x 3 tiers): the observed g/kWh is enclosed within 1e-9 of the model's limit by an Interval-checked "
            "lemma per case (Qed); (curve) species given as single values or 2-5 point curves evaluated at loads inside, at and "
            "outside the points; (rate) run points with an explicit power different from the stored one, fresh engines; "
            "(mass) integration to kg through get_fuel_emission_energy_balance_for_component with irregular intervals. "
            "Non-trivial = every case (each has a distinct tier/speed/curve)")
    QUICK_N = 220
    THOROUGH_N = 2500
    SHARD = 60
    TRUSTED = ["C09 only: Coq Reals axioms (ClassicalDedekindReals.sig_forall_dec, sig_not_dec, Classical_Prop.classic, "
               "FunctionalExtensionality.functional_extensionality_dep) and the PrimFloat/PrimInt63 primitives with their "
               "FloatAxioms/Uint63 specification axioms used by Interval's floating-point back end",
               "tier limits are tied to the implementation by Interval-proved enclosure lemmas |model - observed| <= 1e-9, not by vm_compute"]
    exhaustive = False

    def regen(self):
        info = regen.gen_constants()
        ok, log = regen.compile_gen([core.GEN / "Gen_constants.v", "C09_gen.v"])
        info["theorems"] = ["C09_constants"]
        if ok:
            return True, None, 1, 1, info
        import feems.constant as K
        from feems.types_for_feems import NOxCalculationMethod as M
        for t in TIERS:
            c = K.nox_factor_imo_slow_speed_g_kWh[M[t].value]
            a, b = K.nox_factor_imo_medium_speed_g_hWh[M[t].value]
            if (float(c), float(a), float(b)) != SPEC[t]:
                n = 720.0
                return False, {"kind": "failing-input", "broken": "C09_constants",
                               "input": {"tier": t, "rated_speed_rpm": n},
                               "observed": {"slow": c, "factor": a, "exponent": b, "limit_at_720rpm": a * n ** b},
                               "why": f"{t}: constants in feems.constant are {c}, ({a}, {b}); Regulation 13 has {SPEC[t]}: "
                                      f"at 720 rpm the code's limit is {a * n ** b} g/kWh, the regulation's {SPEC[t][1] * n ** SPEC[t][2]}"}, 1, 0, info
        if float(K.nox_tier_slow_speed_max_rpm) != 130.0:
            return False, {"kind": "failing-input", "broken": "C09_constants", "input": {"bound": "slow speed max rpm"},
                           "observed": {"value": K.nox_tier_slow_speed_max_rpm}, "why": "the slow-speed bound is not 130 rpm"}, 1, 0, info
        return False, {"kind": "no-failing-input-found", "broken": "C09_constants", "why": log[-800:]}, 1, 0, info

    def gen(self, rng, tier, override=None):
        out = []
        speeds = [1, 50, 100, 129, 130, 131, 200, 514, 720, 900, 1200, 1800, 1999, 2000]
        if tier == "thorough" and not override:
            speeds = list(range(1, 2001))
            self.exhaustive = True
        if not override:
            for t in TIERS:
                for n in speeds:
                    out.append({"stream": "limit", "tier": t, "speed": n, "kind": "engine" if (n + len(t)) % 3 else "cogas"})
                    if n % 5 == 0:      # a NOx curve handed over as well: with a tier method the limit still applies
                        out[-1]["curves"] = [["NOX", [[Fraction(1, 4), Fraction(9)], [Fraction(1), Fraction(7)]]], ["CO", [[Fraction(1, 2), Fraction(2)]]]]
        n = self.n_cases(tier, override)
        for _ in range(n):
            u = rng.random()
            if u < 0.12:
                # which characteristic each species ends up with: curves in any order, a species twice, curves without points, a NOx
                # curve next to a tier method, the method "curve" with and without a NOx curve
                curves = []
                for _k in range(rng.randint(0, 5)):
                    npt = rng.choice([0, 1, 1, 2, 3])
                    loads = sorted(rng.sample([Fraction(k, 8) for k in range(0, 9)], npt))
                    curves.append([rng.choice(SPECIES + ["NOX"]), [[l, Fraction(rng.randint(1, 160), 16)] for l in loads]])
                out.append({"stream": "setup", "tier": rng.choice(TIERS + ["CURVE", "CURVE"]), "speed": rng.choice([100, 720, 1500, rng.randint(1, 2000)]),
                            "curves": curves, "kind": rng.choice(["engine", "engine", "cogas"]), "rated": 1000,
                            "loads": sorted(rng.sample([Fraction(k, 16) for k in range(0, 17)], 3))})
                continue
            if u < 0.25:
                out.append({"stream": "limit", "tier": rng.choice(TIERS), "speed": rng.choice([rng.randint(1, 2000), rng.randint(1, 16000) / 8]),
                            "kind": rng.choice(["engine", "cogas"])})
                if rng.random() < 0.4:
                    pts = [[Fraction(k, 8), Fraction(rng.randint(1, 320), 16)] for k in sorted(rng.sample(range(0, 9), rng.randint(1, 4)))]
                    out[-1]["curves"] = [["NOX", pts]] + ([["CH4", [[Fraction(1, 2), Fraction(3)]]]] if rng.random() < 0.5 else [])
            else:
                ncur = rng.randint(1, 3)
                curves = []
                for sp in rng.sample(SPECIES[:-1], ncur):
                    npt = rng.choice([1, 1, 2, 3, 4, 5])
                    loads = sorted(rng.sample([Fraction(k, 8) for k in range(0, 9)] + [Fraction(11, 10), Fraction(5, 4)], npt))   # incl. overload points
                    pts = [[l, Fraction(rng.randint(1, 160), 16)] for l in loads]
                    pass  # emission curve points must be given in increasing load order (the code does not sort them)
                    curves.append([sp, pts])
                nst = rng.randint(1, 5)
                power = [Fraction(rng.randint(0, 80), 8) * 100 for _ in range(nst)]
                stored = [Fraction(rng.randint(0, 80), 8) * 100 for _ in range(rng.randint(1, 5))]
                out.append({"stream": rng.choice(["curve", "rate", "rate", "mass"]), "tier": rng.choice(TIERS),
                            "speed": rng.choice([100, 720, 1500]), "curves": curves, "rated": 1000,
                            "loads": [Fraction(rng.randint(0, 20), 16) for _ in range(5)],
                            "power": power, "stored": stored, "fresh": rng.random() < 0.4,
                            "dt": [Fraction(rng.randint(1, 40) * 15) for _ in range(nst)], "kind": rng.choice(["engine", "engine", "cogas"]),
                            # the rule the masses are integrated with: per-interval sums, or trapezoid / Simpson on a fixed step
                            "method": rng.choice(["sum_with_time", "sum_with_time", "trapezoid", "simpson"]),
                            "split": rng.random() < 0.5,                                   # COGAS with turbine power curves
                            "spec": rng.choice(["IMO", "IMO", "FUEL_EU_MARITIME"])})       # GHG bookkeeping of the same calculation
                if out[-1]["method"] != "sum_with_time" and out[-1]["stream"] == "mass":
                    nst2 = rng.choice([1, 1, 2] + list(range(3, 10)))       # a single operating point included
                    out[-1]["power"] = [Fraction(rng.randint(0, 80), 8) * 100 for _ in range(nst2)]
                    out[-1]["dt"] = [Fraction(rng.randint(1, 40) * 15)] * nst2
        return out

    def build(self, case):
        from feems.components_model.component_mechanical import COGAS, Engine
        from feems.types_for_feems import (EmissionCurve, EmissionCurvePoint, EmissionType, NOxCalculationMethod, TypeComponent)
        em = None
        if case.get("curves") or case["stream"] == "setup":
            em = [EmissionCurve(points_per_kwh=[EmissionCurvePoint(load_ratio=float(l), emission_g_per_kwh=float(v)) for l, v in pts],
                                emission=EmissionType[sp]) for sp, pts in case["curves"]]
        if case["kind"] == "engine":
            return Engine(type_=TypeComponent.MAIN_ENGINE, name="e", rated_power=float(case.get("rated", 1000)),
                          rated_speed=float(case["speed"]), bsfc_curve=np.array([[0.25, 220.0], [1.0, 190.0]]),
                          nox_calculation_method=NOxCalculationMethod[case["tier"]], emissions_curves=em)
        kw = {}
        if case.get("split"):        # gas / steam turbine power curves given (the split of the output, not of the emissions)
            kw = dict(gas_turbine_power_curve=np.array([[0.25, 180.0], [0.5, 340.0], [1.0, 650.0]]),
                      steam_turbine_power_curve=np.array([[0.25, 70.0], [0.5, 160.0], [1.0, 350.0]]))
        return COGAS(name="c", rated_power=float(case.get("rated", 1000)), eff_curve=np.array([[0.25, 0.35], [1.0, 0.5]]),
                     rated_speed=float(case["speed"]), nox_calculation_method=NOxCalculationMethod[case["tier"]], emissions_curves=em, **kw)

    def run(self, case):
        from feems.components_model.utility import IntegrationMethod
        from feems.types_for_feems import EmissionType
        st = case["stream"]
        if st == "setup":
            try:
                eng = self.build(case)
            except AssertionError:
                return {"accepted": False}
            loads = np.array([float(l) for l in case["loads"]])
            tab = {}
            for sp in SPECIES:
                v = eng.emissions_g_per_kwh(EmissionType[sp], loads)
                tab[sp] = None if v is None else [float(x) for x in np.broadcast_to(np.atleast_1d(np.asarray(v, dtype=float)), loads.shape)]
            out = {"accepted": True, "table": tab}
            if case["tier"] != "CURVE":
                out["gkwh"] = float(eng.emissions_g_per_kwh(EmissionType.NOX, 0.5))
            return out
        eng = self.build(case)
        if st == "limit":
            return {"gkwh": float(eng.emissions_g_per_kwh(EmissionType.NOX, 0.5))}
        species = [sp for sp, _ in case["curves"]] + ["NOX"]
        if st == "curve":
            return {"species": species[:-1],
                    "values": [[float(eng.emissions_g_per_kwh(EmissionType[sp], float(l))) for l in case["loads"]] for sp in species[:-1]]}
        power = np.array([float(x) for x in case["power"]])
        if not case["fresh"]:
            eng.power_output = np.array([float(x) for x in case["stored"]])
        if st == "rate":
            rp = (eng.get_engine_run_point_from_power_out_kw(power_kw=power) if case["kind"] == "engine"
                  else eng.get_gas_turbine_run_point_from_power_output_kw(power_kw=power))
            load = np.abs(power) / float(case["rated"])
            return {"species": species,
                    "gkwh": [[float(x) for x in np.broadcast_to(np.atleast_1d(eng.emissions_g_per_kwh(EmissionType[sp], load)), load.shape)] for sp in species],
                    "rates": [[float(x) for x in np.atleast_1d(rp.emissions_g_per_s[EmissionType[sp]])] for sp in species]}
        # mass: through the public per-component result function, on a main engine wrapper / COGES
        from feems.components_model.node import get_fuel_emission_energy_balance_for_component
        if case["kind"] == "engine":
            from feems.components_model.component_mechanical import MainEngineForMechanicalPropulsion
            comp = MainEngineForMechanicalPropulsion("me", eng)
        else:
            from feems.components_model.component_electric import COGES, ElectricMachine
            from feems.types_for_feems import TypeComponent, TypePower
            gen = ElectricMachine(type_=TypeComponent.GENERATOR, name="g", rated_power=float(case["rated"]), rated_speed=3000.0,
                                  power_type=TypePower.POWER_SOURCE, switchboard_id=1, eff_curve=np.array([1.0]))
            comp = COGES("coges", eng, gen)
        comp.power_output = power
        from feems.fuel import FuelSpecifiedBy
        # the species masses do not depend on the GHG bookkeeping the same call is asked for (COGAS has no FuelEU factors)
        spec_kw = {"fuel_specified_by": FuelSpecifiedBy[case.get("spec", "IMO")]} if case["kind"] == "engine" else {}
        method = case.get("method", "sum_with_time")
        if method == "sum_with_time":
            res = get_fuel_emission_energy_balance_for_component(
                component=comp, time_interval_s=np.array([float(x) for x in case["dt"]]), integration_method=IntegrationMethod.sum_with_time,
                **spec_kw)
        else:
            res = get_fuel_emission_energy_balance_for_component(
                component=comp, time_interval_s=float(case["dt"][0]), integration_method=IntegrationMethod[method], **spec_kw)
        load = np.abs(power) / float(case["rated"])
        return {"species": species,
                "gkwh": [[float(x) for x in np.broadcast_to(np.atleast_1d(eng.emissions_g_per_kwh(EmissionType[sp], load)), load.shape)] for sp in species],
                "mass": [float(res.total_emission_kg[EmissionType[sp]]) for sp in species]}

    def term(self, case, obs):
        st = case["stream"]
        if st == "setup":
            cs = core.coq_list([f"({SPECIES.index(sp)}%nat, " + core.coq_list([f"({core.coq_q(l)}, {core.coq_q(v)})" for l, v in pts]) + ")"
                                for sp, pts in case["curves"]])
            m = "MCurve" if case["tier"] == "CURVE" else f"(MTier {TIERS.index(case['tier'])}%nat)"
            rows = []
            if obs["accepted"]:
                for sp in SPECIES:
                    v = obs["table"][sp]
                    rows.append(f"({SPECIES.index(sp)}%nat, ({core.coq_q_list(case['loads'])}, " + ("None" if v is None else "Some " + core.coq_fl_list(v)) + "))")
            return f"check_setup {cs} {m} {core.coq_bool(obs['accepted'])} {core.coq_list(rows)}"
        if st == "limit":
            return "true"           # decided by the enclosure lemmas (post_eval)
        if st == "curve":
            parts = []
            for (sp, pts), vals in zip(case["curves"], obs["values"]):
                c = (f"(Const {core.coq_q(pts[0][1])})" if len(pts) == 1 else
                     "(Points " + core.coq_list([f"({core.coq_q(l)}, {core.coq_q(v)})" for l, v in pts]) + ")")
                parts.append(f"check_curve {c} {core.coq_q_list(case['loads'])} {core.coq_fl_list(vals)}")
            return "(" + " && ".join(parts) + ")%bool"
        if st == "rate":
            parts = [f"check_rates {core.coq_fl_list(g)} {core.coq_q_list(case['power'])} {core.coq_fl_list(r)}"
                     for g, r in zip(obs["gkwh"], obs["rates"])]
            return "(" + " && ".join(parts) + ")%bool"
        if case.get("method", "sum_with_time") != "sum_with_time":
            return "true"           # trapezoid / Simpson on a fixed step: decided by the oracle (the model has the per-interval rule)
        parts = [f"check_mass {core.coq_fl_list(g)} {core.coq_q_list(case['power'])} {core.coq_q_list(case['dt'])} {core.coq_fl(m)}"
                 for g, m in zip(obs["gkwh"], obs["mass"])]
        return "(" + " && ".join(parts) + ")%bool"

    def post_eval(self, cases, obs_list):
        """Interval-checked enclosures for the tier limits, with the constants read from the code."""
        import feems.constant as K
        from feems.types_for_feems import NOxCalculationMethod as M
        idx = [i for i, c in enumerate(cases) if c["stream"] in ("limit", "setup") and c["tier"] != "CURVE" and "gkwh" in obs_list[i]]
        if not idx:
            return {}
        core.CASES.mkdir(parents=True, exist_ok=True)

        def goal(i):
            c, o = cases[i], obs_list[i]
            t = M[c["tier"]].value
            n = Fraction(c["speed"])
            if float(c["speed"]) > float(K.nox_tier_slow_speed_max_rpm):
                a, b = K.nox_factor_imo_medium_speed_g_hWh[t]
                model = f"{r_lit(Fraction(repr(float(a))))} * Rpower {r_lit(n)} {r_lit(Fraction(repr(float(b))))}"
            else:
                model = r_lit(Fraction(repr(float(K.nox_factor_imo_slow_speed_g_kWh[t]))))
            x = o["gkwh"]
            if x != x or abs(x) == float("inf"):
                return "False"
            tol = Fraction(1, 10 ** 9) * max(Fraction(1), abs(Fraction(x)).limit_denominator(10 ** 6))
            return f"Rabs ({model} - {r_lit(Fraction(x))}) <= {r_lit(tol)}"
        hdr = "From Coq Require Import Reals.\nFrom Interval Require Import Tactic.\nOpen Scope R_scope.\n"
        res = {}
        B = 100
        batches = [idx[k:k + B] for k in range(0, len(idx), B)]

        def run_batch(bi):
            b = batches[bi]
            f = core.CASES / f"encl_C09_{core.os.getpid()}_{bi}.v"
            f.write_text(hdr + "\n".join(f"Lemma e{i} : {goal(i)}.\nProof. interval with (i_prec 80). Qed." for i in b) + "\n")
            rc, out, _ = core.coqc_file(f, timeout=900)
            r = {}
            if rc == 0:
                r = {i: True for i in b}
            else:
                # diagnose which lemmas fail
                g = core.CASES / f"encld_C09_{core.os.getpid()}_{bi}.v"
                g.write_text(hdr + "\n".join(
                    f'Goal {goal(i)}.\nProof. first [assert_succeeds (interval with (i_prec 80)); idtac "@@OK {i}" | idtac "@@BAD {i}"]. Abort.'
                    for i in b) + "\n")
                rc2, out2, _ = core.coqc_file(g, timeout=900)
                okset = set(int(x) for x in re.findall(r"@@OK (\d+)", out2))
                r = {i: (i in okset) for i in b}
                for ext in (".v", ".vo", ".glob", ".vok", ".vos"):
                    g.with_suffix(ext).unlink(missing_ok=True)
            for ext in (".v", ".vo", ".glob", ".vok", ".vos"):
                f.with_suffix(ext).unlink(missing_ok=True)
            return r
        import concurrent.futures as cf
        with cf.ThreadPoolExecutor(max_workers=16) as ex:
            for r in ex.map(run_batch, range(len(batches))):
                res.update(r)
        self._encl = {"enclosure_lemmas": len(idx), "enclosure_lemmas_proved": sum(1 for v in res.values() if v)}
        return res

    def extra_coverage(self):
        return getattr(self, "_encl", {})

    def oracle(self, case, obs):
        """the property with the Regulation 13 constants, on the implementation's numbers"""
        st = case["stream"]
        if st == "setup":
            if case["tier"] != "CURVE":
                if not obs["accepted"]:
                    return f"an engine with NOx method {case['tier']} was refused"
                c, a, b = SPEC[case["tier"]]
                n = float(case["speed"])
                want = c if n <= 130 else a * n ** b
                got = obs["table"]["NOX"]
                if got is None or any(abs(g - want) > 1e-9 * max(1.0, want) for g in got):
                    return (f"{case['tier']} at {n} rpm ({case['kind']}) with curves for {[sp for sp, _ in case['curves']]}: NOx {got} g/kWh, "
                            f"Regulation 13 gives {want}")
            if not obs["accepted"]:
                return None
            for sp in SPECIES:
                if sp == "NOX" and case["tier"] != "CURVE":
                    continue
                given = [pts for s_, pts in case["curves"] if s_ == sp and pts]
                got = obs["table"][sp]
                if not given:
                    if got is not None:
                        return f"species {sp}: no curve with points was given, the engine reports {got}"
                    continue
                if got is None:
                    return f"species {sp}: a curve was given, the engine reports nothing"
                pts = given[-1]
                for l, v in pts:
                    for ql, g in zip(case["loads"], got):
                        if (len(pts) == 1 or ql == l) and abs(g - float(v)) > 1e-9 * max(1, float(v)):
                            return f"species {sp}: value at load {float(ql)} is {g}, the (last) given curve says {float(v)}"
            return None
        if st == "limit":
            c, a, b = SPEC[case["tier"]]
            n = float(case["speed"])
            want = c if n <= 130 else a * n ** b
            if not abs(obs["gkwh"] - want) <= 1e-9 * max(1.0, want):
                return f"{case['tier']} at {n} rpm ({case['kind']}): NOx {obs['gkwh']} g/kWh, Regulation 13 gives {want}"
            return None
        if st == "curve":
            # at a given point the curve must return the given value; a single value is constant
            for (sp, pts), vals in zip(case["curves"], obs["values"]):
                for l, v in pts:
                    for ql, got in zip(case["loads"], vals):
                        if (len(pts) == 1 or ql == l) and abs(got - float(v)) > 1e-9 * max(1, float(v)):
                            return f"species {sp}: curve value at load {float(ql)} is {got}, the given point says {float(v)}"
            return None
        if st == "rate":
            for sp, g, r in zip(obs["species"], obs["gkwh"], obs["rates"]):
                if len(r) != len(case["power"]):
                    return f"species {sp}: rate series of length {len(r)} for a power series of length {len(case['power'])}"
                for k, p in enumerate(case["power"]):
                    want = g[k] * float(p) / 3600
                    if abs(r[k] - want) > 1e-9 * max(1.0, abs(want)):
                        return f"species {sp} step {k}: {r[k]} g/s, but g/kWh {g[k]} x {float(p)} kW / 3600 = {want}"
            return None
        method = case.get("method", "sum_with_time")
        for sp, g, m in zip(obs["species"], obs["gkwh"], obs["mass"]):
            if method != "sum_with_time":
                from scipy.integrate import simpson, trapezoid
                rate = [g[k] * float(p) / 3600 / 1000 for k, p in enumerate(case["power"])]      # kg/s
                if len(rate) == 1:       # one operating point held for the interval (what fuel and energy of the same machine get)
                    want = rate[0] * float(case["dt"][0])
                else:
                    want = float((trapezoid if method == "trapezoid" else simpson)(rate, dx=float(case["dt"][0])))
                if abs(m - want) > 1e-9 * max(1.0, abs(want)):
                    return (f"species {sp}: {m} kg, but the {method} integral of curve value x power over the fixed step "
                            f"{float(case['dt'][0])} s is {want} kg (the rule the fuel and the energy of the same machine use)")
                continue
            want = sum(g[k] * float(p) / 3600 * float(d) / 1000 for k, (p, d) in enumerate(zip(case["power"], case["dt"])))
            if abs(m - want) > 1e-9 * max(1.0, abs(want)):
                return f"species {sp}: {m} kg, but curve value x brake energy summed over the intervals is {want} kg"
        return None

    def tags(self, case, obs):
        t = ["stream=" + case["stream"], "kind=" + case["kind"], case["tier"]]
        if case["stream"] == "setup":
            sps = [sp for sp, _ in case["curves"]]
            if len(set(sps)) < len(sps):
                t.append("species-given-twice")
            if any(not pts for _, pts in case["curves"]):
                t.append("curve-without-points")
            if "NOX" in sps:
                t.append("nox-curve-given")
            t.append("accepted" if obs.get("accepted") else "refused")
            return t
        if case["stream"] == "mass":
            t.append("integration=" + case.get("method", "sum_with_time"))
            t.append("spec=" + case.get("spec", "IMO"))
        if case.get("kind") == "cogas" and case.get("split") and case["stream"] in ("rate", "mass"):
            t.append("cogas-with-turbine-power-curves")
        if case["stream"] == "limit":
            t.append("slow(<=130)" if float(case["speed"]) <= 130 else "power-law(>130)")
            if case.get("curves"):
                t.append("tier-method-with-a-nox-curve-given-too")
        else:
            if any(len(p) == 1 for _, p in case["curves"]):
                t.append("single-value-curve")
            if len(case["curves"]) > 1:
                t.append("several-species")
            if case["fresh"]:
                t.append("fresh-engine(stored power [0])")
            elif len(case["stored"]) != len(case["power"]):
                t.append("stored-power-of-other-length")
        return t

    def search(self, rng, near=None):
        return self.gen(rng, "quick", 150)
