"""C03 — equal load fraction, exact fixed shares, off means zero (shares C01's model and stream)."""
from __future__ import annotations

import plantgen as pg
from props.C01 import P as P01


class P(P01):
    ID = "C03"
    THEOREMS = ["C03_equal_fraction", "C03_same_bus_same_fraction", "C03_fixed_exact", "C03_off_zero", "C03_fixed_removed"]
    MAKE_TARGETS = ["theories/Props/C03.vo", "theories/Check/Check_C01.vo"]
    CHECK_FN = "check_case_fraction"

    def oracle(self, case, obs):
        plant, inp = case["plant"], case["inp"]
        for t in range(inp["n"]):
            comp = self.groups(plant, inp, t)
            fr = {}
            for i, (d, ci) in enumerate(zip(plant["comps"], inp["comps"])):
                k = pg.kind_of(d["cls"])
                if k == "Consumer":
                    continue
                v, r = obs["res"][i][t], obs["rated"][i]
                on, l = ci["status"][t], float(ci["lsm"][t])
                if k == "Source" and not on and not (v == 0.0):
                    return f"step {t}: source {d['name']} is switched off but delivers {v} kW"
                if k == "Source" and on and l != 0 and not (abs(v - r * l) <= self.TOL * r):
                    return f"step {t}: source {d['name']} fixed share {l} of {r} kW but delivers {v} kW"
                if on and l == 0:
                    f = (v if k == "Source" else -v) / r
                    fr.setdefault(comp[d["swb"]], []).append((d["name"], f))
                if k != "Source" and l == 0 and not on and v == v and abs(v) != float("inf") and v != 0.0:
                    return f"step {t}: balancing {d['name']} is switched off but its input is {v} kW"
            for g, lst in fr.items():
                vals = [f for _, f in lst if f == f and abs(f) != float("inf")]
                if vals and max(vals) - min(vals) > self.TOL * max(1.0, max(abs(x) for x in vals)):
                    return f"step {t}: unequal load fractions on one bus: {lst}"
        return None
