"""C12 — a calculation depends only on its own inputs, not on earlier runs."""
from __future__ import annotations

import copy
from fractions import Fraction

import numpy as np

import core
import plantgen as pg
import sysrun
from props.base import Prop
from props.C01 import P as P01
from props.C04 import P as P04

_p01, _p04 = P01(), P04()


def finite(s):
    import math
    return all(not (isinstance(x, float) and (math.isnan(x) or math.isinf(x))) for x in s["scalars"] + s["co2"] + [m for _, m in s["fuel"]])


class P(Prop):
    ID = "C12"
    THEOREMS = ["C12_history_free", "C12_repeatable", "C12_queries_read_only", "C12_balance_keeps_inputs"]
    MAKE_TARGETS = ["theories/Props/C12.vo", "theories/Check/Check_C01.vo", "theories/Check/Check_C04.vo"]
    CHECK_REQUIRE = ("From Coq Require Import QArith List Bool.\nFrom Feems Require Import Base.Num Base.Pchip Model.Bus Model.ElecBalance "
                     "Model.Component Model.Shaft Model.Hybrid Check.Check_C01 Check.Check_C06 Check.Check_C04.\nOpen Scope Q_scope.")
    RULE = ("histories of 2-4 calculations on ONE system object with loads, statuses, sharing modes, breaker positions and the "
            "SERIES LENGTH changed between them, every input supplied afresh before each run, result queries (result, total fuel, "
            "mass fractions, CO2 emissions) interleaved and the run repeated: (electric) outputs after every run are compared in Coq "
            "with the balance model of THAT run's inputs, (mechanical) likewise with the shaft model, (front end) one "
            "MachineryCalculation object used for 2-3 operating profiles of different length; in every stream run k is also "
            "performed on a freshly built object and the results compared. Non-trivial = the series length changes")
    QUICK_N = 60
    THOROUGH_N = 1500
    SHARD = 6

    def gen(self, rng, tier, override=None):
        out = []
        for _ in range(self.n_cases(tier, override)):
            stream = rng.choice(["electric", "electric", "mechanical", "frontend"])
            K = rng.randint(2, 4)
            if stream == "electric":
                c = sysrun.gen_electric_case(rng)
                runs = [c["inp"]]
                for _k in range(K - 1):
                    i2 = pg.gen_electric_inputs(rng, c["plant"])
                    for d, ci in zip(c["plant"]["comps"], i2["comps"]):
                        if pg.kind_of(d["cls"]) == "Source":
                            ci["lsm"] = [Fraction(0)] * i2["n"]
                        if pg.kind_of(d["cls"]) == "Consumer":
                            # drives need their delivered power; plain loads may be set the way the front end does
                            ci["set"] = "from_output" if d["cls"] == "drive" else rng.choice(["from_output", "input"])
                    i2["dt"] = [Fraction(rng.randint(1, 40) * 15) for _ in range(i2["n"])]
                    runs.append(i2)
                out.append({"stream": stream, "plant": c["plant"], "runs": runs,
                            "specs": [rng.choice(["IMO", "IMO", "FUEL_EU_MARITIME"]) for _ in runs],     # an IMO report, then a FuelEU one ...
                            "queries": [rng.sample(["result", "total", "fractions", "emissions"], rng.randint(0, 3)) for _ in runs]})
            elif stream == "mechanical":
                c = sysrun.gen_mechanical_case(rng)
                runs = [c["inp"]]
                for _k in range(K - 1):
                    i2 = pg.gen_mechanical_inputs(rng, c["plant"])
                    i2["dt"] = [Fraction(rng.randint(1, 40) * 15) for _ in range(i2["n"])]
                    runs.append(i2)
                out.append({"stream": stream, "plant": c["plant"], "runs": runs,
                            "specs": [rng.choice(["IMO", "IMO", "FUEL_EU_MARITIME"]) for _ in runs],
                            "queries": [rng.sample(["result", "total", "emissions"], rng.randint(0, 2)) for _ in runs]})
            else:
                nswb = rng.choice([1, 2])
                swbs = [1, 2][:nswb]
                comps = []
                for s in swbs:
                    for k in range(rng.randint(1, 2)):
                        comps.append({"name": f"g{s}{k}", "cls": "genset", "swb": s, "rated": Fraction(rng.randint(4, 12) * 250)})
                comps.append({"name": "drive", "cls": "drive", "swb": rng.choice(swbs), "rated": Fraction(6000), "eff": [Fraction(15, 16)]})
                comps.append({"name": "aux", "cls": "load", "swb": rng.choice(swbs), "rated": Fraction(2000), "eff": [1]})
                total = sum(c["rated"] for c in comps if c["cls"] == "genset")
                mech = None
                if rng.random() < 0.5:      # conventional mechanical propulsion with an independent electric plant
                    comps = [c for c in comps if c["cls"] != "drive"]
                    mech = [{"name": f"me{k}", "cls": rng.choice(["main_engine", "main_engine_gb"]), "line": 1, "rated": Fraction(rng.randint(8, 24) * 250)}
                            for k in range(rng.randint(1, 2))]
                    mech.append({"name": "prop", "cls": "propeller", "line": 1, "rated": Fraction(12000), "eff": [1]})
                    total = sum(c["rated"] for c in mech if c["cls"] != "propeller")
                runs = []
                same_len = rng.random() < 0.5
                n0 = rng.randint(2, 6)
                for _k in range(rng.randint(2, 3)):
                    n = n0 if same_len else rng.randint(2, 6)
                    runs.append({"prop": [Fraction(rng.randint(0, 40), 64) * total if rng.random() < 0.75 else Fraction(0) for _ in range(n)],
                                 "aux": Fraction(rng.randint(1, 8), 64) * 1000,
                                 "dur": [Fraction(rng.randint(1, 40) * 15) for _ in range(n)]})
                out.append({"stream": stream, "plant": {"comps": comps, "breakers": [[1, 2]] if nswb == 2 else [], "swbs": swbs}, "mech": mech, "runs": runs})
        return out

    # ------------------------------------------------------------------------------------------
    def do_queries(self, res, qs):
        from feems.fuel import FuelConsumerClassFuelEUMaritime as C
        for q in qs:
            fc = res.multi_fuel_consumption_total_kg
            if q == "total":
                _ = fc.total_fuel_consumption
            elif q == "fractions":
                _ = fc.fuel_by_mass_fraction
            elif q == "emissions":
                try:
                    _ = fc.get_total_co2_emissions(fuel_consumer_class=C.ICE)
                except (ValueError, StopIteration, AssertionError):
                    pass
            else:
                _ = res.fuel_consumption_total_kg

    def run(self, case):
        from feems.exceptions import InputError
        st = case["stream"]
        obs = {"runs": []}
        held = []
        try:
            with np.errstate(all="ignore"):
                if st == "electric":
                    sysm, objs = pg.build_electric_system(case["plant"])
                    for k, inp in enumerate(case["runs"]):
                        pg.apply_electric_inputs(sysm, objs, case["plant"], inp)
                        pin_set = [[float(x) for x in np.atleast_1d(o.power_input)] for o in objs]
                        sysm.do_power_balance_calculation()
                        outs = [[float(x) for x in np.atleast_1d(o.power_output if pg.kind_of(d["cls"]) == "Source" else o.power_input)]
                                for d, o in zip(case["plant"]["comps"], objs)]
                        from feems.fuel import FuelSpecifiedBy
                        spec = (case.get("specs") or ["IMO"] * len(case["runs"]))[k]
                        res = sysm.get_fuel_energy_consumption_running_time(fuel_specified_by=FuelSpecifiedBy[spec])
                        s1 = sysrun.snap(res)
                        self.do_queries(res, case["queries"][k])
                        s2 = sysrun.snap(res)
                        sysm.do_power_balance_calculation()
                        s3 = sysrun.snap(sysm.get_fuel_energy_consumption_running_time(fuel_specified_by=FuelSpecifiedBy[spec]))
                        _, _, fres = sysrun.run_electric(case["plant"], inp, spec)
                        obs["runs"].append({"pin_set": pin_set, "res": outs, "rated": [float(o.rated_power) for o in objs],
                                            "first": s1, "after_queries": s2, "repeat": s3, "fresh": sysrun.snap(fres)})
                        held.append(res)
                    self.combine_held(held, obs)
                elif st == "mechanical":
                    from feems.components_model.utility import IntegrationMethod
                    sysm, objs = pg.build_mechanical_system(case["plant"])
                    for k, inp in enumerate(case["runs"]):
                        pg.apply_mechanical_inputs(sysm, objs, case["plant"], inp)
                        sysm.set_time_interval(np.array([float(x) for x in inp["dt"]]), IntegrationMethod.sum_with_time)
                        c4 = {"plant": case["plant"], "inp": inp}
                        o4 = self.snap_mech(sysm, objs, case["plant"], inp)
                        from feems.fuel import FuelSpecifiedBy
                        spec = (case.get("specs") or ["IMO"] * len(case["runs"]))[k]
                        res = sysm.get_fuel_energy_consumption_running_time(fuel_specified_by=FuelSpecifiedBy[spec])
                        s1 = sysrun.snap(res)
                        self.do_queries(res, case["queries"][k])
                        s2 = sysrun.snap(res)
                        _, _, fres = sysrun.run_mechanical(case["plant"], inp, spec)
                        obs["runs"].append({"c4": o4, "first": s1, "after_queries": s2, "fresh": sysrun.snap(fres)})
                        held.append(res)
                    self.combine_held(held, obs)
                else:
                    from RunFeemsSim.machinery_calculation import MachineryCalculation
                    from feems.system_model import MechanicalPropulsionSystem, MechanicalPropulsionSystemWithElectricPowerSystem

                    def build():
                        es, _ = pg.build_electric_system(case["plant"])
                        if case.get("mech"):
                            ms = MechanicalPropulsionSystem("mech", [pg.build_mechanical_component(d) for d in case["mech"]])
                            return MechanicalPropulsionSystemWithElectricPowerSystem("ship", es, ms)
                        return es

                    def snap2(r):
                        if hasattr(r, "electric_system"):
                            a, b = sysrun.snap(r.electric_system), sysrun.snap(r.mechanical_system)
                            # one flat snapshot: mechanical figures appended to the electric ones
                            return {"duration": a["duration"], "load": a["load"], "scalars": a["scalars"] + b["scalars"],
                                    "species": sorted([[k, v] for k, v in (a["species"] or [])] + [[100 + k, v] for k, v in (b["species"] or [])]),
                                    "fuel": a["fuel"] + [[100000 + k, m] for k, m in b["fuel"]], "co2": a["co2"] + b["co2"], "detail": None}
                        return sysrun.snap(r)
                    mc = MachineryCalculation(build(), maximum_allowed_power_source_load_percentage=75)
                    for r in case["runs"]:
                        kw = dict(propulsion_power=np.array([float(x) for x in r["prop"]]), frequency=np.array([float(x) for x in r["dur"]]),
                                  auxiliary_power_kw=float(r["aux"]))
                        s1 = snap2(mc.calculate_machinery_system_output_from_statistics(**kw))
                        fmc = MachineryCalculation(build(), maximum_allowed_power_source_load_percentage=75)
                        s2 = snap2(fmc.calculate_machinery_system_output_from_statistics(**kw))
                        obs["runs"].append({"first": s1, "fresh": s2})
        except InputError as e:
            return {"rejected": str(e)[:80]}
        except ValueError as e:
            if "not available for COGAS" in str(e):      # FuelEU factors requested for a plant with a COGES: refused by the implementation
                return {"rejected": str(e)[:80]}
            raise
        return obs

    @staticmethod
    def combine_held(held, obs):
        """the results of all runs are still held by the caller, who now adds them up (consecutive periods, then the same
        period): forming the totals only reads the held results"""
        if len(held) < 2:
            return
        tot = held[0]
        for r in held[1:]:
            tot = tot.sum_and_extend_duration(r)
        held[-1].sum_with_freeze_duration(held[-1])     # two machines' results over the same period
        for k, r in enumerate(held):
            obs["runs"][k]["after_combining"] = sysrun.snap(r)

    def snap_mech(self, sysm, objs, plant, inp):
        loads_before = {i: np.array(o.power_input, dtype=float).copy() for i, (d, o) in enumerate(zip(plant["mech"], objs))
                        if d["cls"] in ("propeller", "mech_load")}
        pti_set = {i: np.array(o.power_output, dtype=float).copy() for i, (d, o) in enumerate(zip(plant["mech"], objs)) if d["cls"] == "ptipto"}
        sysm.do_power_balance()
        res = {"out": [], "status": [], "load_in": {}, "pti_set": {}, "load_after": {}}
        for i, (d, o) in enumerate(zip(plant["mech"], objs)):
            res["out"].append([float(x) for x in np.atleast_1d(o.power_output)])
            res["status"].append([bool(x) for x in np.atleast_1d(o.status)] if d["cls"] in ("main_engine", "main_engine_gb") else None)
            if i in loads_before:
                res["load_in"][str(i)] = [float(x) for x in loads_before[i]]
                res["load_after"][str(i)] = [float(x) for x in np.atleast_1d(o.power_input)]
            if i in pti_set:
                res["pti_set"][str(i)] = [float(x) for x in pti_set[i]]
        res["rated"] = [float(o.rated_power) for o in objs]
        return res

    def term(self, case, obs):
        if "rejected" in obs:
            return "true"
        st = case["stream"]
        parts = []
        if st == "electric":
            for inp, r in zip(case["runs"], obs["runs"]):
                parts.append(_p01.term({"plant": case["plant"], "inp": inp}, r))
        elif st == "mechanical":
            for inp, r in zip(case["runs"], obs["runs"]):
                parts.append(_p04.term({"plant": case["plant"], "inp": inp}, r["c4"]))
        else:
            return "true"
        return "(" + "\n && ".join(parts) + ")%bool"

    def oracle(self, case, obs):
        if "rejected" in obs:
            return None
        for k, r in enumerate(obs["runs"]):
            if not finite(r["first"]) or not finite(r["fresh"]):
                continue
            d = sysrun.figures_diff(r["first"], r["fresh"])
            if d:
                return f"calculation no. {k + 1} on the reused object differs from the same calculation on a fresh object: {d[:3]}"
            if "after_queries" in r and r["after_queries"] != r["first"]:
                return f"calculation no. {k + 1}: reading results changed them"
            if "repeat" in r:
                d = sysrun.figures_diff(r["first"], r["repeat"])
                if d:
                    return f"calculation no. {k + 1}: repeating it with the same inputs changes {d[:3]}"
            if "after_combining" in r:
                d = sysrun.figures_diff(r["first"], r["after_combining"])
                if d:
                    return f"the result of calculation no. {k + 1}, still held, changed when the results were added up: {d[:3]}"
        return None

    def nontrivial(self, case, obs):
        ns = [r["n"] if "n" in r else len(r["prop"]) for r in case["runs"]]
        return len(set(ns)) > 1

    def tags(self, case, obs):
        t = ["stream=" + case["stream"], f"runs={len(case['runs'])}"]
        ns = [r["n"] if "n" in r else len(r["prop"]) for r in case["runs"]]
        if len(set(ns)) > 1:
            t.append("series-length-changes")
        if "rejected" in obs:
            t.append("rejected")
        if len(set(case.get("specs") or [])) > 1:
            t.append("fuel-specification-changes-between-calculations")
        for q in case.get("queries", []):
            for x in q:
                t.append("query:" + x)
        if case["stream"] == "frontend":
            t.append("front-end:" + ("mechanical+electric" if case.get("mech") else "electric"))
            if any(p == 0 for r in case["runs"] for p in r["prop"]):
                t.append("zero-propulsion-step")
        if case["stream"] == "electric" and any(ci.get("set") == "input" for r in case["runs"][1:] for ci in r["comps"]):
            t.append("load-set-by-attribute(as the front end does)")
        return sorted(set(t))

    def search(self, rng, near=None):
        return self.gen(rng, "quick", 30)
