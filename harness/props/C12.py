"""C12 — a calculation depends only on its own inputs, not on earlier runs."""
from __future__ import annotations

import copy
from fractions import Fraction

import numpy as np

import core
import plantgen as pg
import sysrun
from props.base import Prop
from props.C01 import P as P01
from props.C04 import P as P04

_p01, _p04 = P01(), P04()


def finite(s):
    import math
    return all(not (isinstance(x, float) and (math.isnan(x) or math.isinf(x))) for x in s["scalars"] + s["co2"] + [m for _, m in s["fuel"]])


class P(Prop):
    ID = "C12"
    THEOREMS = ["C12_history_free", "C12_repeatable", "C12_queries_read_only", "C12_balance_keeps_inputs",
                "C12_electric_reads_only", "C12_electric_history_free", "C12_stale_balancing_input_masked",
                "C12_electric_repeatable", "C12_shaft_repeatable", "C12_shaft_reads_only", "C12_shaft_history_free"]
    MAKE_TARGETS = ["theories/Props/C12.vo", "theories/Check/Check_C01.vo", "theories/Check/Check_C04.vo", "theories/Check/Check_C12.vo"]
    CHECK_REQUIRE = ("From Coq Require Import QArith List Bool.\nFrom Feems Require Import Base.Num Base.Pchip Model.Bus Model.ElecBalance "
                     "Model.Component Model.Shaft Model.Hybrid Model.Machine Check.Check_C01 Check.Check_C06 Check.Check_C04 Check.Check_C12.\nOpen Scope Q_scope.")
    RULE = ("histories of 2-4 calculations on ONE system object with loads, statuses, sharing modes, breaker positions and the "
            "SERIES LENGTH changed between them, every input supplied afresh before each run, result queries (result, total fuel, "
            "mass fractions, CO2 emissions) interleaved and the run repeated: (electric) outputs after every run are compared in Coq "
            "with the balance model of THAT run's inputs, (mechanical) likewise with the shaft model, (front end) one "
            "MachineryCalculation object used for 2-3 operating profiles of different length; in every stream run k is also "
            "performed on a freshly built object and the results compared; (emachine / lmachine) field-level histories "
            "on one electric system / one shaft line: single-field setters (status, sharing mode, input of one component; breaker matrix; "
            "engine status, load, PTI/PTO shaft power, full-PTI flags), PARTIAL supplies between balances, balances repeated at once, complete "
            "re-supplies with another series length - the whole operation list is run through the state machine of Model/Machine.v in Coq "
            "(erun / lrun) and its observation after EVERY balance compared with what the object holds (source outputs, inputs of "
            "PTI/PTO and storage, engine outputs and rewritten statuses, PTI/PTO shaft power); the oracle re-runs each balance on a fresh "
            "object given the fields the reused object holds. Non-trivial = the series length changes / a partial supply occurs")
    QUICK_N = 100
    THOROUGH_N = 1500
    SHARD = 6

    def gen(self, rng, tier, override=None):
        out = []
        for _ in range(self.n_cases(tier, override)):
            stream = rng.choice(["electric", "electric", "mechanical", "frontend", "emachine", "emachine", "lmachine", "hybrid"])
            K = rng.randint(2, 4)
            if stream == "hybrid":
                out.append(self.gen_hybrid_history(rng))
            elif stream == "emachine":
                out.append(self.gen_emachine(rng))
            elif stream == "lmachine":
                out.append(self.gen_lmachine(rng))
            elif stream == "electric":
                c = sysrun.gen_electric_case(rng)
                runs = [c["inp"]]
                for _k in range(K - 1):
                    i2 = pg.gen_electric_inputs(rng, c["plant"])
                    for d, ci in zip(c["plant"]["comps"], i2["comps"]):
                        if pg.kind_of(d["cls"]) == "Source":
                            ci["lsm"] = [Fraction(0)] * i2["n"]
                        if pg.kind_of(d["cls"]) == "Consumer":
                            # drives need their delivered power; plain loads may be set the way the front end does
                            ci["set"] = "from_output" if d["cls"] == "drive" else rng.choice(["from_output", "input"])
                    i2["dt"] = [Fraction(rng.randint(1, 40) * 15) for _ in range(i2["n"])]
                    runs.append(i2)
                out.append({"stream": stream, "plant": c["plant"], "runs": runs,
                            "specs": [rng.choice(["IMO", "IMO", "FUEL_EU_MARITIME"]) for _ in runs],     # an IMO report, then a FuelEU one ...
                            "queries": [rng.sample(["result", "total", "fractions", "emissions"], rng.randint(0, 3)) for _ in runs]})
            elif stream == "mechanical":
                c = sysrun.gen_mechanical_case(rng)
                runs = [c["inp"]]
                for _k in range(K - 1):
                    i2 = pg.gen_mechanical_inputs(rng, c["plant"])
                    i2["dt"] = [Fraction(rng.randint(1, 40) * 15) for _ in range(i2["n"])]
                    runs.append(i2)
                out.append({"stream": stream, "plant": c["plant"], "runs": runs,
                            "specs": [rng.choice(["IMO", "IMO", "FUEL_EU_MARITIME"]) for _ in runs],
                            "queries": [rng.sample(["result", "total", "emissions"], rng.randint(0, 2)) for _ in runs]})
            else:
                nswb = rng.choice([1, 2])
                swbs = [1, 2][:nswb]
                comps = []
                for s in swbs:
                    for k in range(rng.randint(1, 2)):
                        comps.append({"name": f"g{s}{k}", "cls": "genset", "swb": s, "rated": Fraction(rng.randint(4, 12) * 250)})
                comps.append({"name": "drive", "cls": "drive", "swb": rng.choice(swbs), "rated": Fraction(6000), "eff": [Fraction(15, 16)]})
                comps.append({"name": "aux", "cls": "load", "swb": rng.choice(swbs), "rated": Fraction(2000), "eff": [1]})
                total = sum(c["rated"] for c in comps if c["cls"] == "genset")
                mech = None
                if rng.random() < 0.5:      # conventional mechanical propulsion with an independent electric plant
                    comps = [c for c in comps if c["cls"] != "drive"]
                    mech = [{"name": f"me{k}", "cls": rng.choice(["main_engine", "main_engine_gb"]), "line": 1, "rated": Fraction(rng.randint(8, 24) * 250)}
                            for k in range(rng.randint(1, 2))]
                    mech.append({"name": "prop", "cls": "propeller", "line": 1, "rated": Fraction(12000), "eff": [1]})
                    total = sum(c["rated"] for c in mech if c["cls"] != "propeller")
                runs = []
                same_len = rng.random() < 0.5
                n0 = rng.randint(2, 6)
                for _k in range(rng.randint(2, 3)):
                    n = n0 if same_len else rng.randint(2, 6)
                    runs.append({"prop": [Fraction(rng.randint(0, 40), 64) * total if rng.random() < 0.75 else Fraction(0) for _ in range(n)],
                                 "aux": Fraction(rng.randint(1, 8), 64) * 1000,
                                 "dur": [Fraction(rng.randint(1, 40) * 15) for _ in range(n)]})
                out.append({"stream": stream, "plant": {"comps": comps, "breakers": [[1, 2]] if nswb == 2 else [], "swbs": swbs}, "mech": mech, "runs": runs})
        return out


    # ------------------------------------------------------------------------------------------
    # field-level histories (Model/Machine.v): single-field setters, partial supplies, balances
    def gen_emachine(self, rng):
        plant = pg.gen_electric_plant(rng, max_swb=3, allow_ps=True, source_classes=["genset", "generator"])
        for d in plant["comps"]:
            if pg.kind_of(d["cls"]) == "Consumer":
                d["cls"] = "load"
        n = rng.randint(2, 5)

        def full(n_):
            inp = pg.gen_electric_inputs(rng, plant, n_)
            return ["supply_all", {"n": n_, "sts": inp["sts"], "comps": [{k: v for k, v in ci.items() if k != "set"} for ci in inp["comps"]]}]
        ops = [full(n), ["balance"]]
        for _r in range(rng.randint(1, 3)):
            kind = rng.choice(["partial", "partial", "partial", "full", "repeat"])
            if kind == "full":
                n = rng.randint(2, 5)
                ops.append(full(n))
            elif kind == "partial":
                inp = pg.gen_electric_inputs(rng, plant, n)
                for j, (d, ci) in enumerate(zip(plant["comps"], inp["comps"])):
                    k = pg.kind_of(d["cls"])
                    fields = ["pin"] if k == "Consumer" else ["status", "lsm"] if k == "Source" else ["status", "lsm", "pin"]
                    for f in fields:
                        if rng.random() < 0.35:
                            ops.append(["set", j, f, ci[f]])
                if plant["breakers"] and rng.random() < 0.4:
                    ops.append(["breakers", inp["sts"]])
            ops.append(["balance"])
            if rng.random() < 0.3:
                ops.append(["query"])
            if rng.random() < 0.25:
                ops.append(["balance"])
        return {"stream": "emachine", "plant": plant, "ops": ops}

    def gen_hybrid_history(self, rng):
        """two calculations of the same length on ONE hybrid plant object (the generator of C05): the second one compared with the
        same calculation on a freshly built plant.  With two machines, one may drive its shaft alone (full PTI) for the whole
        series while the other shares the electric load as a shaft generator."""
        import copy as _copy
        from props.C05 import P as P05
        base = P05().gen(rng, "quick", 1)[0]
        if rng.random() < 0.7:             # mostly twin-screw plants (two machines)
            for _try in range(8):
                if len(base["machines"]) == 2:
                    break
                base = P05().gen(rng, "quick", 1)[0]
        base.pop("second", None)
        n = base["n"]
        runs = [base]
        b = {"cons": {k: [Fraction(rng.randint(0, 16), 16) * 1000 for _ in range(n)] for k in base["cons"]},
             "machines": _copy.deepcopy(base["machines"]), "share_array": False}
        rated = max(abs(x) for m in base["machines"] for x in m["e0"]) or Fraction(500)
        for m in b["machines"]:
            m["e0"] = [Fraction(rng.randint(-28, 28), 32) * rated for _ in range(n)]
        if len(b["machines"]) == 2 and rng.random() < 0.8:
            a_, s_ = b["machines"]
            a_["full"] = [True] * n                     # drives its shaft alone throughout
            a_["load"] = [min(l, rated) if l > 0 else rated / 2 for l in a_["load"]]
            a_.pop("lsm", None)
            s_["full"] = [False] * n                    # shaft generator sharing the electric load throughout
            s_["lsm"] = [0] * n
            s_["e0"] = [Fraction(0)] * n
        runs.append(b)
        return {"stream": "hybrid", "base": base, "runs": runs}

    def run_hybrid(self, case):
        from feems.exceptions import ConfigurationError, InputError
        from props.C05 import P as P05
        p5 = P05()
        base = case["base"]
        errs = (InputError, ConfigurationError, ValueError, IndexError)

        def go(inputs):
            ctx = p5.build(base)
            out = None
            for inp in inputs:
                p5.supply(ctx, base, inp)
                ctx["hyb"].do_power_balance_calculation()
                out = p5.observe(ctx, base)
            return out
        with np.errstate(all="ignore"):
            try:
                p5.build(base)
            except errs:
                return {"rejected": "plant"}
            try:
                reused = go(case["runs"])
            except errs as e:
                reused = {"raised": type(e).__name__}
            try:
                fresh = go(case["runs"][-1:])
            except errs as e:
                fresh = {"raised": type(e).__name__}
        return {"reused": reused, "fresh": fresh}

    def oracle_hybrid(self, case, obs):
        if "rejected" in obs:
            return None
        a, b = obs["reused"], obs["fresh"]
        if "raised" in a or "raised" in b:
            if a.get("raised") != b.get("raised"):
                return f"the second calculation on the reused hybrid plant ends with {a.get('raised', 'a result')}, on a fresh plant with {b.get('raised', 'a result')}"
            return None

        def flat(o):
            rows = [("source", k, s_) for k, s_ in enumerate(o["sources"])]
            for j, m in enumerate(o["machines"]):
                rows += [("machine electrical", j, m["elec"]), ("machine shaft", j, m["shaft"])] + [("engine", (j, k), e) for k, e in enumerate(m["engines"])]
            return rows
        scale = max([1.0] + a["src_rated"])
        for (what, k, x), (_, _, y) in zip(flat(a), flat(b)):
            for t, (u, v) in enumerate(zip(x, y)):
                fu, fv = (u == u and abs(u) != float("inf")), (v == v and abs(v) != float("inf"))
                if fu != fv or (fu and abs(u - v) > 1e-9 * scale):
                    return (f"second calculation on the reused hybrid plant: {what} {k} step {t} is {u}; the same calculation on a freshly built "
                            f"plant gives {v}")
        return None

    def gen_lmachine(self, rng):
        has_pti = rng.random() < 0.6
        mech = [{"name": f"me{k}", "cls": rng.choice(["main_engine", "main_engine_gb"]), "line": 1,
                 "rated": Fraction(rng.randint(4, 40) * 250), "gb_eff": [Fraction(rng.randint(60, 64), 64)]} for k in range(rng.randint(1, 3))]
        if has_pti:
            mech.append({"name": "pti", "cls": "ptipto", "line": 1, "swb": 1, "rated": Fraction(rng.randint(2, 12) * 250), "eff": [Fraction(rng.randint(56, 64), 64)]})
        for k in range(rng.randint(1, 2)):
            mech.append({"name": f"ld{k}", "cls": rng.choice(["propeller", "mech_load"]), "line": 1,
                         "rated": Fraction(rng.randint(8, 60) * 250), "eff": [Fraction(rng.randint(56, 64), 64)]})
        rng.shuffle(mech)
        plant = {"mech": mech, "lines": [1]}
        n = rng.randint(2, 5)

        def full(n_):
            inp = pg.gen_mechanical_inputs(rng, plant, n_)
            if rng.random() < 0.3:       # a profile with idle steps: the balance switches the engines off there
                for d, ci in zip(mech, inp["comps"]):
                    if "out" in ci:
                        ci["out"] = [Fraction(0) if (t % 2 == 0) else x for t, x in enumerate(ci["out"])]
            return ["supply_all", {"n": n_, "comps": [{k: v for k, v in ci.items() if k != "set"} for ci in inp["comps"]]}]
        ops = [full(n), ["balance"]]
        for _r in range(rng.randint(1, 3)):
            kind = rng.choice(["partial", "partial", "partial", "full", "repeat"])
            if kind == "full":
                n = rng.randint(2, 5)
                ops.append(full(n))
            elif kind == "partial":
                inp = pg.gen_mechanical_inputs(rng, plant, n)
                for j, (d, ci) in enumerate(zip(mech, inp["comps"])):
                    for f in ci:
                        if f != "set" and rng.random() < 0.4:
                            ops.append(["set", j, f, ci[f]] + (["in_place"] if rng.random() < 0.35 else []))
            ops.append(["balance"])
            if rng.random() < 0.25:
                ops.append(["balance"])
        return {"stream": "lmachine", "plant": plant, "ops": ops}

    @staticmethod
    def _nonfinite(rows):
        import math
        return any(isinstance(x, float) and (math.isnan(x) or math.isinf(x)) for r in rows for x in r)

    def e_apply(self, sysm, objs, plant, op, eff):
        """one operation on the real object; `eff` keeps the last value SET for every field"""
        from feems.components_model.utility import IntegrationMethod

        def setf(j, f, v):
            o = objs[j]
            eff[j][f] = v
            if f == "status":
                o.status = np.array(v, dtype=bool)
            elif f == "lsm":
                o.load_sharing_mode = np.array([float(x) for x in v], dtype=float)
            else:
                o.power_input = np.array([float(x) for x in v], dtype=float)
        if op[0] == "supply_all":
            a = op[1]
            sysm.set_time_interval(np.full(a["n"], 60.0), IntegrationMethod.sum_with_time)
            if plant["breakers"]:
                eff["sts"] = a["sts"]
                sysm.set_bus_tie_status_all(np.array(a["sts"], dtype=bool).reshape(a["n"], len(plant["breakers"])))
            for j, (d, ci) in enumerate(zip(plant["comps"], a["comps"])):
                k = pg.kind_of(d["cls"])
                for f in (["pin"] if k == "Consumer" else ["status", "lsm"] if k == "Source" else ["status", "lsm", "pin"]):
                    setf(j, f, ci[f])
            eff["n"] = a["n"]
        elif op[0] == "set":
            setf(op[1], op[2], op[3])
        elif op[0] == "breakers":
            eff["sts"] = op[1]
            sysm.set_bus_tie_status_all(np.array(op[1], dtype=bool).reshape(len(op[1]), len(plant["breakers"])))

    @staticmethod
    def e_observe(plant, objs):
        return [[float(x) for x in np.atleast_1d(o.power_output if pg.kind_of(d["cls"]) == "Source" else o.power_input)]
                if pg.kind_of(d["cls"]) != "Consumer" else [] for d, o in zip(plant["comps"], objs)]

    def run_emachine(self, case):
        from feems.exceptions import InputError
        plant = case["plant"]
        sysm, objs = pg.build_electric_system(plant)
        eff = {j: {} for j in range(len(objs))}
        obs = {"balances": [], "fresh": [], "raised": False, "ops_done": 0, "rated": [float(o.rated_power) for o in objs]}
        for k, op in enumerate(case["ops"]):
            try:
                if op[0] == "balance":
                    # the same calculation on a freshly built object that is given the fields as the reused object HOLDS them
                    # now (what an earlier balance wrote into the inputs of balancing units included): the state machine
                    # says a balance reads exactly these fields, and of the held inputs of balancing units nothing
                    held = [{"status": [bool(x) for x in np.atleast_1d(o_.status)], "lsm": [float(x) for x in np.atleast_1d(o_.load_sharing_mode)],
                             "pin": [float(x) for x in np.atleast_1d(o_.power_input)]} if pg.kind_of(d["cls"]) != "Consumer"
                            else {"pin": [float(x) for x in np.atleast_1d(o_.power_input)]} for d, o_ in zip(plant["comps"], objs)]
                    for d, h in zip(plant["comps"], held):      # ... so those are blanked
                        if pg.kind_of(d["cls"]) in ("PtiPto", "Storage"):
                            h["pin"] = [0.0 if l == 0 else x for l, x in zip(h["lsm"], h["pin"])]
                    sysm.do_power_balance_calculation()
                    o = self.e_observe(plant, objs)
                    obs["balances"].append(o)
                    fs, fo = pg.build_electric_system(plant)
                    feff = {j: {} for j in range(len(fo))}
                    self.e_apply(fs, fo, plant, ["supply_all", {"n": eff["n"], "sts": eff.get("sts"), "comps": held}], feff)
                    fs.do_power_balance_calculation()
                    obs["fresh"].append(self.e_observe(plant, fo))
                    if self._nonfinite(o):          # a bus without capacity: what it leaves behind is outside the model
                        obs["ops_done"] = k + 1
                        obs["poisoned"] = True
                        return obs
                elif op[0] == "query":
                    res = sysm.get_fuel_energy_consumption_running_time()
                    self.do_queries(res, ["total", "fractions", "emissions"])
                else:
                    self.e_apply(sysm, objs, plant, op, eff)
            except (InputError, ValueError, IndexError) as e:
                obs["raised"] = type(e).__name__
                obs["ops_done"] = k + 1
                return obs
            obs["ops_done"] = k + 1
        return obs

    def l_apply(self, sysm, objs, plant, op, eff):
        def setf(j, f, v, in_place=False):
            d, o = plant["mech"][j], objs[j]
            eff[j][f] = v
            # the caller edits the array the object holds (engine.status[...] = ..., load.power_input[...] = ...) instead of handing
            # over a new one: the same single-field write in the state machine
            if in_place and f in ("status", "out"):
                cur = o.status if f == "status" else o.power_input
                if isinstance(cur, np.ndarray) and cur.shape == (len(v),):
                    cur[...] = np.array(v, dtype=bool) if f == "status" else np.array([float(x) for x in v])
                    return
            if f == "status":
                sysm.set_status_main_engine_for_name_shaft_line_id(d["name"], d["line"], np.array(v, dtype=bool))
            elif f == "shaft":
                sysm.set_power_input_pti_pto_by_power_output_value_for_name_shaft_line_id(d["name"], d["line"], np.array([float(x) for x in v]))
            elif f == "full":
                sysm.set_full_pti_mode_for_name_shaft_line_id(d["name"], d["line"], np.array(v, dtype=bool))
            else:
                sysm.set_power_consumer_load_by_value_for_given_name_shaft_line_id(d["name"], d["line"], np.array([float(x) for x in v]))
        if op[0] == "supply_all":
            for j, (d, ci) in enumerate(zip(plant["mech"], op[1]["comps"])):
                if d["cls"] == "ptipto":
                    objs[j].status = np.ones(op[1]["n"], dtype=bool)
                for f, v in ci.items():
                    setf(j, f, v)
            eff["n"] = op[1]["n"]
        elif op[0] == "set":
            setf(op[1], op[2], op[3], in_place=len(op) > 4 and op[4] == "in_place")

    @staticmethod
    def l_observe(plant, objs):
        eng = [([float(x) for x in np.atleast_1d(o.power_output)], [bool(x) for x in np.atleast_1d(o.status)])
               for d, o in zip(plant["mech"], objs) if d["cls"] in ("main_engine", "main_engine_gb")]
        pti = [[float(x) for x in np.atleast_1d(o.power_output)] for d, o in zip(plant["mech"], objs) if d["cls"] == "ptipto"]
        return {"engines": eng, "pti": pti[0] if pti else None}

    def run_lmachine(self, case):
        from feems.exceptions import ConfigurationError, InputError
        plant = case["plant"]
        sysm, objs = pg.build_mechanical_system(plant)
        eff = {j: {} for j in range(len(objs))}
        obs = {"balances": [], "fresh": [], "raised": False, "rated": [float(o.rated_power) for o in objs]}
        for k, op in enumerate(case["ops"]):
            try:
                if op[0] == "balance":
                    # what a fresh object computes from the fields as the reused object HOLDS them now (statuses as written
                    # back by earlier balances included): the state machine says exactly these fields are read
                    held = {j: {"status": [bool(x) for x in np.atleast_1d(o.status)]} if d["cls"] in ("main_engine", "main_engine_gb")
                            else {"shaft": [float(x) for x in np.atleast_1d(o.power_output)], "full": [bool(x) for x in np.atleast_1d(o.full_pti_mode)]}
                            if d["cls"] == "ptipto" else {"out": [float(x) for x in np.atleast_1d(o.power_input)]}
                            for j, (d, o) in enumerate(zip(plant["mech"], objs))}
                    sysm.do_power_balance()
                    obs["balances"].append(self.l_observe(plant, objs))
                    fs, fo = pg.build_mechanical_system(plant)
                    self.l_apply(fs, fo, plant, ["supply_all", {"n": eff["n"], "comps": [held[j] for j in range(len(fo))]}], {j: {} for j in range(len(fo))})
                    fs.do_power_balance()
                    obs["fresh"].append(self.l_observe(plant, fo))
                else:
                    self.l_apply(sysm, objs, plant, op, eff)
            except (InputError, ConfigurationError, ValueError, IndexError) as e:
                obs["raised"] = type(e).__name__
                return obs
        return obs

    def term_emachine(self, case, obs):
        plant = case["plant"]
        comps = core.coq_list([f"ex_mk {d['swb']}%nat {pg.kind_of(d['cls'])} {core.coq_q(Fraction(r))}" for d, r in zip(plant["comps"], obs["rated"])])
        s0 = f"{{| e_comps := {comps}; e_edges := {core.coq_edges(plant['breakers'])}; e_swbs := {core.coq_nat_list(plant['swbs'])}; e_sts := [] |}}"
        ops = []

        def setf(j, f, v):
            if f == "status":
                ops.append(f"ESetStatus {j}%nat {core.coq_bool_list(v)}")
            elif f == "lsm":
                ops.append(f"ESetLsm {j}%nat {core.coq_q_list(v)}")
            else:
                ops.append(f"ESetPin {j}%nat {core.coq_q_list(v)}")
        for op in case["ops"][: obs["ops_done"]]:
            if op[0] == "supply_all":
                a = op[1]
                for j, (d, ci) in enumerate(zip(plant["comps"], a["comps"])):
                    k = pg.kind_of(d["cls"])
                    for f in (["pin"] if k == "Consumer" else ["status", "lsm"] if k == "Source" else ["status", "lsm", "pin"]):
                        setf(j, f, ci[f])
                rows = a["sts"] if plant["breakers"] else [[] for _ in range(a["n"])]
                ops.append("ESetBreakers " + core.coq_list([core.coq_bool_list(r) for r in rows]))
            elif op[0] == "set":
                setf(op[1], op[2], op[3])
            elif op[0] == "breakers":
                ops.append("ESetBreakers " + core.coq_list([core.coq_bool_list(r) for r in op[1]]))
            elif op[0] == "balance":
                ops.append("EBalance")
            else:
                ops.append("EQuery")
        o = core.coq_list([core.coq_list([core.coq_fl_list(r) for r in b]) for b in obs["balances"]])
        return f"check_emachine {s0}\n  {core.coq_list(ops)}\n  {o} {core.coq_bool(bool(obs['raised']))}"

    def term_lmachine(self, case, obs):
        plant = case["plant"]
        mech = plant["mech"]
        loads = [j for j, d in enumerate(mech) if d["cls"] in ("propeller", "mech_load")]
        engs = [j for j, d in enumerate(mech) if d["cls"] in ("main_engine", "main_engine_gb")]
        pti = [j for j, d in enumerate(mech) if d["cls"] == "ptipto"]
        if obs["raised"]:
            return "false"
        s0 = ("{| l_lds := " + core.coq_list(["[]" for _ in loads]) + "; l_machine := "
              + ("Some {| p_shaft := []; p_full := []; p_elec := [] |}" if pti else "None") + "; l_engs := "
              + core.coq_list([f"{{| g_rated := {core.coq_q(Fraction(obs['rated'][j]))}; g_status := []; g_pout := [] |}}" for j in engs]) + " |}")
        ops = []

        def setf(j, f, v):
            if f == "status":
                ops.append(f"LSetEngineStatus {engs.index(j)}%nat {core.coq_bool_list(v)}")
            elif f == "shaft":
                ops.append(f"LSetPtiShaft {core.coq_q_list(v)}")
            elif f == "full":
                ops.append(f"LSetFull {core.coq_bool_list(v)}")
            else:
                ops.append(f"LSetLoad {loads.index(j)}%nat {core.coq_q_list(v)}")
        for op in case["ops"]:
            if op[0] == "supply_all":
                for j, ci in enumerate(op[1]["comps"]):
                    for f, v in ci.items():
                        setf(j, f, v)
            elif op[0] == "set":
                setf(op[1], op[2], op[3])
            elif op[0] == "balance":
                ops.append("LBalance")
        scale = core.coq_q(Fraction(max(obs["rated"])))
        items = []
        for b in obs["balances"]:
            e = core.coq_list([f"({core.coq_fl_list(p)}, {core.coq_bool_list(st)})" for p, st in b["engines"]])
            items.append(f"({e}, {'Some ' + core.coq_fl_list(b['pti']) if b['pti'] is not None else 'None'})")
        return f"check_lmachine {s0}\n  {core.coq_list(ops)} {scale}\n  {core.coq_list(items)}"

    def oracle_machine(self, case, obs):
        if obs.get("raised"):
            return f"an operation of a consistent history raised {obs['raised']}"
        for k, (a, b) in enumerate(zip(obs["balances"], obs["fresh"])):
            if case["stream"] == "emachine":
                rows = list(zip(a, b))
            else:
                rows = [(x[0], y[0]) for x, y in zip(a["engines"], b["engines"])] + ([(a["pti"], b["pti"])] if a["pti"] is not None else [])
                if [x[1] for x in a["engines"]] != [y[1] for y in b["engines"]]:
                    return f"balance no. {k + 1} on the reused shaft line leaves other engine statuses than on a fresh object given the same fields"
            for j, (x, y) in enumerate(rows):
                for t, (u, v) in enumerate(zip(x, y)):
                    fu, fv = (u == u and abs(u) != float("inf")), (v == v and abs(v) != float("inf"))
                    if fu != fv or (fu and abs(u - v) > 1e-9 * max(1.0, abs(v), max(obs["rated"]))):
                        return (f"balance no. {k + 1} on the reused object gives {u} for component {j} at step {t}; a freshly built object "
                                f"given the same fields gives {v}")
        return None

    # ------------------------------------------------------------------------------------------
    @staticmethod
    def read_series_records(objs):
        """the per-point fuel record of every genset (what the series export reads): total, mass fractions, CO2, again"""
        out = []
        for o in objs:
            if type(o).__name__ != "Genset":
                continue
            try:
                rec = o.get_fuel_cons_load_bsfc_from_power_out_generator_kw().engine.fuel_flow_rate_kg_per_s
                before = [float(x) for x in np.atleast_1d(rec.total_fuel_consumption)]
                f1 = [[float(x) for x in np.atleast_1d(f.mass_or_mass_fraction)] for f in rec.fuel_by_mass_fraction.fuels]
                _ = rec.get_total_co2_emissions()
                f2 = [[float(x) for x in np.atleast_1d(f.mass_or_mass_fraction)] for f in rec.fuel_by_mass_fraction.fuels]
                after = [float(x) for x in np.atleast_1d(rec.total_fuel_consumption)]
            except (ValueError, StopIteration, AttributeError):
                continue
            out.append({"name": o.name, "before": before, "after": after, "frac1": f1, "frac2": f2})
        return out

    def do_queries(self, res, qs):
        from feems.fuel import FuelConsumerClassFuelEUMaritime as C
        for q in qs:
            fc = res.multi_fuel_consumption_total_kg
            if q == "total":
                _ = fc.total_fuel_consumption
            elif q == "fractions":
                _ = fc.fuel_by_mass_fraction
            elif q == "emissions":
                try:
                    _ = fc.get_total_co2_emissions(fuel_consumer_class=C.ICE)
                except (ValueError, StopIteration, AssertionError):
                    pass
            else:
                _ = res.fuel_consumption_total_kg

    def run(self, case):
        from feems.exceptions import InputError
        st = case["stream"]
        if st == "emachine":
            with np.errstate(all="ignore"):
                return self.run_emachine(case)
        if st == "lmachine":
            with np.errstate(all="ignore"):
                return self.run_lmachine(case)
        if st == "hybrid":
            return self.run_hybrid(case)
        obs = {"runs": []}
        held = []
        try:
            with np.errstate(all="ignore"):
                if st == "electric":
                    sysm, objs = pg.build_electric_system(case["plant"])
                    for k, inp in enumerate(case["runs"]):
                        pg.apply_electric_inputs(sysm, objs, case["plant"], inp)
                        pin_set = [[float(x) for x in np.atleast_1d(o.power_input)] for o in objs]
                        sysm.do_power_balance_calculation()
                        outs = [[float(x) for x in np.atleast_1d(o.power_output if pg.kind_of(d["cls"]) == "Source" else o.power_input)]
                                for d, o in zip(case["plant"]["comps"], objs)]
                        from feems.fuel import FuelSpecifiedBy
                        spec = (case.get("specs") or ["IMO"] * len(case["runs"]))[k]
                        res = sysm.get_fuel_energy_consumption_running_time(fuel_specified_by=FuelSpecifiedBy[spec])
                        s1 = sysrun.snap(res)
                        self.do_queries(res, case["queries"][k])
                        s2 = sysrun.snap(res)
                        reads = self.read_series_records(objs) if case["queries"][k] else []
                        sysm.do_power_balance_calculation()
                        s3 = sysrun.snap(sysm.get_fuel_energy_consumption_running_time(fuel_specified_by=FuelSpecifiedBy[spec]))
                        _, _, fres = sysrun.run_electric(case["plant"], inp, spec)
                        obs["runs"].append({"pin_set": pin_set, "res": outs, "rated": [float(o.rated_power) for o in objs],
                                            "first": s1, "after_queries": s2, "repeat": s3, "fresh": sysrun.snap(fres), "series_reads": reads})
                        held.append(res)
                    self.combine_held(held, obs)
                elif st == "mechanical":
                    from feems.components_model.utility import IntegrationMethod
                    sysm, objs = pg.build_mechanical_system(case["plant"])
                    for k, inp in enumerate(case["runs"]):
                        pg.apply_mechanical_inputs(sysm, objs, case["plant"], inp)
                        sysm.set_time_interval(np.array([float(x) for x in inp["dt"]]), IntegrationMethod.sum_with_time)
                        c4 = {"plant": case["plant"], "inp": inp}
                        o4 = self.snap_mech(sysm, objs, case["plant"], inp)
                        from feems.fuel import FuelSpecifiedBy
                        spec = (case.get("specs") or ["IMO"] * len(case["runs"]))[k]
                        res = sysm.get_fuel_energy_consumption_running_time(fuel_specified_by=FuelSpecifiedBy[spec])
                        s1 = sysrun.snap(res)
                        self.do_queries(res, case["queries"][k])
                        s2 = sysrun.snap(res)
                        _, _, fres = sysrun.run_mechanical(case["plant"], inp, spec)
                        obs["runs"].append({"c4": o4, "first": s1, "after_queries": s2, "fresh": sysrun.snap(fres)})
                        held.append(res)
                    self.combine_held(held, obs)
                else:
                    from RunFeemsSim.machinery_calculation import MachineryCalculation
                    from feems.system_model import MechanicalPropulsionSystem, MechanicalPropulsionSystemWithElectricPowerSystem

                    def build():
                        es, _ = pg.build_electric_system(case["plant"])
                        if case.get("mech"):
                            ms = MechanicalPropulsionSystem("mech", [pg.build_mechanical_component(d) for d in case["mech"]])
                            return MechanicalPropulsionSystemWithElectricPowerSystem("ship", es, ms)
                        return es

                    def snap2(r):
                        if hasattr(r, "electric_system"):
                            a, b = sysrun.snap(r.electric_system), sysrun.snap(r.mechanical_system)
                            # one flat snapshot: mechanical figures appended to the electric ones
                            return {"duration": a["duration"], "load": a["load"], "scalars": a["scalars"] + b["scalars"],
                                    "species": sorted([[k, v] for k, v in (a["species"] or [])] + [[100 + k, v] for k, v in (b["species"] or [])]),
                                    "fuel": a["fuel"] + [[100000 + k, m] for k, m in b["fuel"]], "co2": a["co2"] + b["co2"], "detail": None}
                        return sysrun.snap(r)
                    mc = MachineryCalculation(build(), maximum_allowed_power_source_load_percentage=75)
                    for r in case["runs"]:
                        kw = dict(propulsion_power=np.array([float(x) for x in r["prop"]]), frequency=np.array([float(x) for x in r["dur"]]),
                                  auxiliary_power_kw=float(r["aux"]))
                        s1 = snap2(mc.calculate_machinery_system_output_from_statistics(**kw))
                        fmc = MachineryCalculation(build(), maximum_allowed_power_source_load_percentage=75)
                        s2 = snap2(fmc.calculate_machinery_system_output_from_statistics(**kw))
                        obs["runs"].append({"first": s1, "fresh": s2})
        except InputError as e:
            return {"rejected": str(e)[:80]}
        except ValueError as e:
            if "not available for COGAS" in str(e):      # FuelEU factors requested for a plant with a COGES: refused by the implementation
                return {"rejected": str(e)[:80]}
            raise
        return obs

    @staticmethod
    def combine_held(held, obs):
        """the results of all runs are still held by the caller, who now adds them up (consecutive periods, then the same
        period): forming the totals only reads the held results"""
        if len(held) < 2:
            return
        tot = held[0]
        for r in held[1:]:
            tot = tot.sum_and_extend_duration(r)
        held[-1].sum_with_freeze_duration(held[-1])     # two machines' results over the same period
        for k, r in enumerate(held):
            obs["runs"][k]["after_combining"] = sysrun.snap(r)

    def snap_mech(self, sysm, objs, plant, inp):
        loads_before = {i: np.array(o.power_input, dtype=float).copy() for i, (d, o) in enumerate(zip(plant["mech"], objs))
                        if d["cls"] in ("propeller", "mech_load")}
        pti_set = {i: np.array(o.power_output, dtype=float).copy() for i, (d, o) in enumerate(zip(plant["mech"], objs)) if d["cls"] == "ptipto"}
        sysm.do_power_balance()
        res = {"out": [], "status": [], "load_in": {}, "pti_set": {}, "load_after": {}}
        for i, (d, o) in enumerate(zip(plant["mech"], objs)):
            res["out"].append([float(x) for x in np.atleast_1d(o.power_output)])
            res["status"].append([bool(x) for x in np.atleast_1d(o.status)] if d["cls"] in ("main_engine", "main_engine_gb") else None)
            if i in loads_before:
                res["load_in"][str(i)] = [float(x) for x in loads_before[i]]
                res["load_after"][str(i)] = [float(x) for x in np.atleast_1d(o.power_input)]
            if i in pti_set:
                res["pti_set"][str(i)] = [float(x) for x in pti_set[i]]
        res["rated"] = [float(o.rated_power) for o in objs]
        return res

    def term(self, case, obs):
        if "rejected" in obs:
            return "true"
        st = case["stream"]
        if st == "emachine":
            return self.term_emachine(case, obs)
        if st == "lmachine":
            return self.term_lmachine(case, obs)
        if st == "hybrid":
            return "true"        # the model of the combined balance is C05's; here the reused object is compared with a fresh one
        parts = []
        if st == "electric":
            for inp, r in zip(case["runs"], obs["runs"]):
                parts.append(_p01.term({"plant": case["plant"], "inp": inp}, r))
        elif st == "mechanical":
            for inp, r in zip(case["runs"], obs["runs"]):
                parts.append(_p04.term({"plant": case["plant"], "inp": inp}, r["c4"]))
        else:
            return "true"
        return "(" + "\n && ".join(parts) + ")%bool"

    def oracle(self, case, obs):
        if "rejected" in obs:
            return None
        if case["stream"] in ("emachine", "lmachine"):
            return self.oracle_machine(case, obs)
        if case["stream"] == "hybrid":
            return self.oracle_hybrid(case, obs)
        for k, r in enumerate(obs["runs"]):
            if not finite(r["first"]) or not finite(r["fresh"]):
                continue
            d = sysrun.figures_diff(r["first"], r["fresh"])
            if d:
                return f"calculation no. {k + 1} on the reused object differs from the same calculation on a fresh object: {d[:3]}"
            if "after_queries" in r and r["after_queries"] != r["first"]:
                return f"calculation no. {k + 1}: reading results changed them"
            for rd in r.get("series_reads") or []:
                if rd["before"] != rd["after"] and not any(x != x for x in rd["before"] + rd["after"]):
                    return (f"calculation no. {k + 1}: reading mass fractions / CO2 of the per-point fuel record of {rd['name']} changed "
                            f"its fuel flow series from {rd['before']} to {rd['after']}")
                if rd["frac1"] != rd["frac2"] and not any(x != x for f_ in rd["frac1"] + rd["frac2"] for x in f_):
                    return f"calculation no. {k + 1}: two reads of the mass fractions of {rd['name']}'s per-point record differ"
            if "repeat" in r:
                d = sysrun.figures_diff(r["first"], r["repeat"])
                if d:
                    return f"calculation no. {k + 1}: repeating it with the same inputs changes {d[:3]}"
            if "after_combining" in r:
                d = sysrun.figures_diff(r["first"], r["after_combining"])
                if d:
                    return f"the result of calculation no. {k + 1}, still held, changed when the results were added up: {d[:3]}"
        return None

    def nontrivial(self, case, obs):
        if case["stream"] == "hybrid":
            return True
        if case["stream"] in ("emachine", "lmachine"):
            return any(op[0] == "set" for op in case["ops"])
        ns = [r["n"] if "n" in r else len(r["prop"]) for r in case["runs"]]
        return len(set(ns)) > 1

    def tags(self, case, obs):
        if case["stream"] == "hybrid":
            t = ["stream=hybrid", f"machines={len(case['base']['machines'])}"]
            b = case["runs"][-1]["machines"]
            if len(b) == 2 and all(b[0]["full"]) and b[1].get("lsm") and not any(b[1]["lsm"]):
                t.append("one machine in full PTI throughout, the other a load-sharing shaft generator")
            if "rejected" in obs:
                t.append("rejected")
            return t
        if case["stream"] in ("emachine", "lmachine"):
            t = ["stream=" + case["stream"], f"balances={sum(1 for op in case['ops'] if op[0] == 'balance')}"]
            t += sorted({"partial-set:" + str(op[2]) for op in case["ops"] if op[0] == "set"})
            if any(op[0] == "set" and len(op) > 4 for op in case["ops"]):
                t.append("held-array-edited-in-place")
            if obs.get("poisoned"):
                t.append("history-cut-at-a-balance-on-a-bus-without-capacity")
            if any(a[0] == "balance" and b[0] == "balance" for a, b in zip(case["ops"], case["ops"][1:])):
                t.append("balance-repeated-at-once")
            if sum(1 for op in case["ops"] if op[0] == "supply_all") > 1:
                t.append("complete-re-supply")
            return t
        t = ["stream=" + case["stream"], f"runs={len(case['runs'])}"]
        ns = [r["n"] if "n" in r else len(r["prop"]) for r in case["runs"]]
        if len(set(ns)) > 1:
            t.append("series-length-changes")
        if "rejected" in obs:
            t.append("rejected")
        if len(set(case.get("specs") or [])) > 1:
            t.append("fuel-specification-changes-between-calculations")
        for q in case.get("queries", []):
            for x in q:
                t.append("query:" + x)
        if case["stream"] == "frontend":
            t.append("front-end:" + ("mechanical+electric" if case.get("mech") else "electric"))
            if any(p == 0 for r in case["runs"] for p in r["prop"]):
                t.append("zero-propulsion-step")
        if case["stream"] == "electric" and any(ci.get("set") == "input" for r in case["runs"][1:] for ci in r["comps"]):
            t.append("load-set-by-attribute(as the front end does)")
        return sorted(set(t))

    def search(self, rng, near=None):
        return self.gen(rng, "quick", 30)
