"""C01 — electric power balance on every bus at every time step (C03 reuses the stream)."""
from __future__ import annotations

from fractions import Fraction

import numpy as np

import core
import plantgen as pg
from props.base import Prop
from props.C02 import components_at


def coq_plant(plant, inp, obs_pin):
    """Gallina list (comp * cin); consumer inputs are the floats observed after input setting."""
    items = []
    for d, ci, op in zip(plant["comps"], inp["comps"], obs_pin):
        k = pg.kind_of(d["cls"])
        if k == "Consumer":
            st, lsm = "[]", "[]"
            pin = "(map flq " + core.coq_fl_list(op) + ")"
        else:
            st = core.coq_bool_list(ci["status"])
            lsm = core.coq_q_list(ci["lsm"])
            pin = core.coq_q_list(ci["pin"])
        items.append(f"mk_comp {d['swb']}%nat {k} {core.coq_q(d['rated_obs'] if 'rated_obs' in d else d['rated'])} {st} {lsm} {pin}")
    return core.coq_list(items, sep=";\n   ")


def coq_sts(plant, inp):
    if not plant["breakers"]:
        return "[[]]"
    return core.coq_list([core.coq_bool_list(r) for r in inp["sts"]])


class P(Prop):
    ID = "C01"
    THEOREMS = ["C01_balance", "C01_unique_fraction", "C01_bus_is_connected_group", "C01_pointwise"]
    MAKE_TARGETS = ["theories/Props/C01.vo", "theories/Check/Check_C01.vo"]
    CHECK_REQUIRE = ("From Coq Require Import QArith List Bool.\n"
                     "From Feems Require Import Base.Num Model.Bus Model.ElecBalance Check.Check_C01.\nOpen Scope Q_scope.")
    CHECK_FN = "check_case"
    RULE = ("random plants: 1-5 switchboards (ids from 1..8), per switchboard 0-3 sources of every accepted class "
            "(genset, dual-fuel/rectifier genset, generator, fuel-cell system, COGES), optional battery / battery system / "
            "supercapacitor (system), optional PTI/PTO, 0-2 consumers (loads, serial drives); breaker graphs chain/star/ring/"
            "random multigraph in random order and orientation; n=1-8 with per-step status, sharing mode (equal, fixed 1/8..1, "
            "mixed per step; storage/PTI balancing, given, mixed per step) and breaker flips; exact (dyadic) inputs. "
            "Distinct by hash of the canonical case; non-trivial = >=2 switchboards or a status/mode change within the series")
    QUICK_N = 300
    THOROUGH_N = 6000
    SHARD = 60
    TOL = 1e-7

    def gen(self, rng, tier, override=None):
        out = []
        for _ in range(self.n_cases(tier, override)):
            plant = pg.gen_electric_plant(rng)
            inp = pg.gen_electric_inputs(rng, plant)
            # the caller hands ONE array object to every component whose series has the same values
            inp["alias"] = rng.random() < 0.3
            inp["numeric_sts"] = rng.random() < 0.4
            inp["matrix_api"] = rng.random() < 0.35       # statuses and sharing modes through the [N x n] matrix setters
            inp["int_lsm"] = rng.random() < 0.3           # 0/1 sharing modes as integer arrays
            inp["unset_balancing_input"] = rng.random() < 0.5   # units balancing throughout: input never assigned
            for d, ci in zip(plant["comps"], inp["comps"]):
                if pg.kind_of(d["cls"]) in ("PtiPto", "Storage") and not any(ci["pin"]):
                    ci["set"] = rng.choice(["input", "from_output"])
            case = {"plant": plant, "inp": inp}
            # a second balance on the same object after ONLY statuses changed (power set-points and sharing modes stay)
            if rng.random() < 0.3:
                import copy
                inp2 = copy.deepcopy(inp)
                for d, ci in zip(plant["comps"], inp2["comps"]):
                    if pg.kind_of(d["cls"]) != "Consumer":
                        p_on = rng.choice([1.0, 0.8, 0.5])
                        ci["status"] = [rng.random() < p_on for _ in range(inp["n"])]
                case["inp2"] = inp2
            out.append(case)
        return out

    def run(self, case):
        plant, inp = case["plant"], case["inp"]
        with np.errstate(all="ignore"):
            sysm, objs = pg.build_electric_system(plant)
            pg.apply_electric_inputs(sysm, objs, plant, inp)
            out = self.balance_and_observe(plant, sysm, objs)
            # (a first balance on a bus without capacity leaves nan/inf set-points behind - outside the premise)
            finite = all(x == x and abs(x) != float("inf") for r in out["res"] for x in r)
            if case.get("inp2") and finite:
                for d, o, ci in zip(plant["comps"], objs, case["inp2"]["comps"]):
                    if pg.kind_of(d["cls"]) != "Consumer":
                        o.status = np.array(ci["status"], dtype=bool)
                out["second"] = self.balance_and_observe(plant, sysm, objs)
        return out

    def balance_and_observe(self, plant, sysm, objs):
        pin_before = [np.array(o.power_input, dtype=float).copy() for o in objs]
        sysm.do_power_balance_calculation()
        res = []
        for d, o in zip(plant["comps"], objs):
            k = pg.kind_of(d["cls"])
            v = o.power_output if k == "Source" else o.power_input
            res.append([float(x) for x in np.atleast_1d(v)])
        return {"res": res, "pin_set": [[float(x) for x in np.atleast_1d(p)] for p in pin_before],
                "rated": [float(o.rated_power) for o in objs],
                "out_ps": [[float(x) for x in np.atleast_1d(o.power_output)] for o in objs]}

    def term(self, case, obs):
        t = self.term_one(case["plant"], case["inp"], obs)
        if case.get("inp2") and "second" in obs:
            # the set-points of storage and PTI/PTO in the second balance are what the object holds then
            inp2 = {**case["inp2"], "comps": [dict(ci) for ci in case["inp2"]["comps"]]}
            for d, ci, p in zip(case["plant"]["comps"], inp2["comps"], obs["second"]["pin_set"]):
                if pg.kind_of(d["cls"]) in ("PtiPto", "Storage"):
                    ci["pin"] = [Fraction(x) for x in p]
            t = "(" + t + "\n && " + self.term_one(case["plant"], inp2, obs["second"]) + ")%bool"
        return t

    def term_one(self, plant, inp, obs):
        for d, r in zip(plant["comps"], obs["rated"]):
            d["rated_obs"] = Fraction(r)
        t = (f"{self.CHECK_FN} [{coq_plant(plant, inp, obs['pin_set'])[1:-1]}]\n  "
             + core.coq_edges(plant["breakers"]) + " "
             + core.coq_nat_list(plant["swbs"]) + " " + coq_sts(plant, inp) + f" {inp['n']}%nat "
             + core.coq_list([core.coq_fl_list(r) for r in obs["res"]]))
        for d in plant["comps"]:
            d.pop("rated_obs", None)
        return t

    def groups(self, plant, inp, t):
        swbs = plant["swbs"]
        if not plant["breakers"]:
            return {s: s for s in swbs}
        return components_at(swbs, [tuple(b) for b in plant["breakers"]], inp["sts"][t])

    def oracle(self, case, obs):
        why = self.oracle_one(case["plant"], case["inp"], obs)
        if why is None and case.get("inp2") and "second" in obs:
            why = self.oracle_one(case["plant"], case["inp2"], obs["second"])
            if why:
                why = "second balance on the same object after only statuses changed: " + why
        return why

    def oracle_one(self, plant, inp, obs):
        n = inp["n"]
        for t in range(n):
            comp = self.groups(plant, inp, t)
            for g in set(comp.values()):
                members = [i for i, d in enumerate(plant["comps"]) if comp[d["swb"]] == g]
                has_cap = False
                for i in members:
                    d, ci = plant["comps"][i], inp["comps"][i]
                    if pg.kind_of(d["cls"]) != "Consumer" and ci["status"][t] and ci["lsm"][t] == 0:
                        has_cap = True
                if not has_cap:
                    continue
                deliv = sum(obs["res"][i][t] for i in members if pg.kind_of(plant["comps"][i]["cls"]) == "Source")
                drawn = sum(obs["res"][i][t] for i in members if pg.kind_of(plant["comps"][i]["cls"]) != "Source")
                scale = max(1.0, sum(obs["rated"][i] for i in members))
                if not (abs(deliv - drawn) <= self.TOL * scale):
                    return (f"step {t}, connected group of switchboards "
                            f"{sorted(s for s in comp if comp[s] == g)}: sources deliver {deliv} kW, consumers+PTI/PTO+storage draw {drawn} kW")
        return None

    def nontrivial(self, case, obs):
        plant, inp = case["plant"], case["inp"]
        if len(plant["swbs"]) >= 2:
            return True
        return any(len(set(map(str, ci.get("status", [])))) > 1 or len(set(ci.get("lsm", []))) > 1 for ci in inp["comps"])

    def tags(self, case, obs):
        plant, inp = case["plant"], case["inp"]
        t = [f"nswb={len(plant['swbs'])}", f"n={inp['n']}"]
        for d in plant["comps"]:
            t.append("cls:" + d["cls"])
        for d, ci in zip(plant["comps"], inp["comps"]):
            k = pg.kind_of(d["cls"])
            if k == "Source" and any(l != 0 for l in ci["lsm"]):
                t.append("fixed-share-source")
                if any(l != 0 and not s for l, s in zip(ci["lsm"], ci["status"])):
                    t.append("fixed-share-source-off-at-some-step")
            if k in ("Storage", "PtiPto") and any(l == 0 for l in ci["lsm"]):
                t.append("balancing-" + k)
                if len(set(ci["lsm"])) > 1:
                    t.append("mixed-mode-" + k)
            if k != "Consumer" and len(set(ci["status"])) > 1:
                t.append("status-change")
        if inp.get("alias"):
            t.append("equal series handed over as one array object")
        if inp.get("matrix_api"):
            t.append("status set through the matrix setters")
            if any(inp["n"] == sum(1 for d in plant["comps"] if d["swb"] == s_ and pg.kind_of(d["cls"]) == k_) for s_ in plant["swbs"] for k_ in ("Source", "Storage", "PtiPto")):
                t.append("square status matrix (steps = components of a kind on a switchboard)")
        if inp.get("numeric_sts") and plant["breakers"]:
            t.append("breaker status as numeric 0/1 matrix")
        if inp.get("int_lsm"):
            t.append("0/1 sharing modes as integer arrays")
        if inp.get("unset_balancing_input") and any(pg.kind_of(d["cls"]) in ("Storage", "PtiPto") and not any(ci["lsm"]) and not any(ci["pin"])
                                                    for d, ci in zip(plant["comps"], inp["comps"])):
            t.append("input of a throughout-balancing unit never assigned" + (" (single step)" if inp["n"] == 1 else ""))
        if any(d.get("bat", {}).get("pack_factor", 1) != 1 for d in plant["comps"] if d["cls"] == "battery_sys"):
            t.append("battery pack power unlike its converter rating")
        if case.get("inp2") and "second" in obs:
            t.append("second-balance-after-status-change-only")
        if inp.get("sts") and any(inp["sts"][i] != inp["sts"][i - 1] for i in range(1, inp["n"])):
            t.append("bus-reconfiguration")
        if any(x != x or abs(x) == float("inf") for r in obs.get("res", []) for x in r):
            t.append("non-finite(no capacity)")
        return sorted(set(t))

    def shrink(self, case):
        plant, inp = case["plant"], case["inp"]
        n = inp["n"]
        if n > 1:
            for t in range(n):
                ni = {"n": n - 1, "sts": None if inp["sts"] is None else inp["sts"][:t] + inp["sts"][t + 1:],
                      "comps": [{k: (v[:t] + v[t + 1:] if isinstance(v, list) else v) for k, v in ci.items()} for ci in inp["comps"]]}
                yield {"plant": plant, "inp": ni}
        for i, d in enumerate(plant["comps"]):
            rest = plant["comps"][:i] + plant["comps"][i + 1:]
            # keep the system constructible: every switchboard keeps a source or storage
            ok = all(any(pg.kind_of(c["cls"]) in ("Source", "Storage") and c["swb"] == s for c in rest) for s in plant["swbs"])
            if ok:
                yield {"plant": {**plant, "comps": rest}, "inp": {**inp, "comps": inp["comps"][:i] + inp["comps"][i + 1:]}}

    def search(self, rng, near=None):
        return self.gen(rng, "quick", 300)
