"""C15 — load-dependent start/stop picks a sufficient, minimal generator set."""
from __future__ import annotations

import itertools
from fractions import Fraction

import numpy as np

import core
import plantgen as pg
from props.base import Prop

EXACT_F = [Fraction(1, 2), Fraction(3, 4), Fraction(13, 16), Fraction(1), Fraction(1, 4), Fraction(7, 8), Fraction(5, 8)]
REAL_F = [0.8, 0.85, 0.9, 0.95, 0.6, 0.7]


def thresholds(rs, f):
    n = len(rs)
    return sorted({f * sum(r for r, b in zip(rs, p) if b) for p in itertools.product([False, True], repeat=n)})


def brute_ok(rs, f, x, pat):
    """the property restated by brute force over all patterns (exact arithmetic)"""
    n = len(rs)
    cap = lambda p: sum(r for r, b in zip(rs, p) if b)
    if len(pat) != n:
        return f"pattern length {len(pat)} for {n} sources"
    if not any(pat):
        return "no source runs"
    nonempty = [p for p in itertools.product([False, True], repeat=n) if any(p)]
    suff = [p for p in nonempty if f * cap(p) > x]
    if suff:
        if not f * cap(pat) > x:
            return f"selected rating {cap(pat)} x {f} does not exceed load {x} although {cap(suff[0])} would"
        m = min(cap(p) for p in suff)
        if cap(pat) > m:
            return f"selected rating {cap(pat)} but {m} would do for load {x}"
    elif not all(pat):
        return f"no set suffices for load {x} but not all sources are on"
    return None


class P(Prop):
    ID = "C15"
    THEOREMS = ["C15_at_least_one", "C15_sufficient", "C15_all_on_otherwise", "C15_minimal", "C15_monotone",
                "C15_consequence", "C15_equal_size", "C15_table_is_select"]
    MAKE_TARGETS = ["theories/Props/C15.vo", "theories/Check/Check_C15.vo"]
    CHECK_REQUIRE = ("From Coq Require Import QArith ZArith List Bool.\n"
                     "From Feems Require Import Base.Num Model.Pms Check.Check_C15.\nOpen Scope Q_scope.")
    RULE = ("three streams: (table) 1-6 ratings (equal, different, equal subset sums; k*50 kW), allowed fraction from an exact "
            "dyadic set or realistic decimals, loads from below 0 to above capacity INCLUDING every threshold exactly and +-1/8 "
            "(exact stream) or away from thresholds (realistic stream), looked up through PmsLoadTable.on_pattern; (equal) the "
            "equal-size rule _ideal_number_of_gensets_on incl. exact multiples; (run) MachineryCalculation."
            "calculate_machinery_system_output_from_statistics on 1-2 switchboard plants with gensets of different ratings listed "
            "in arbitrary order: per step the statuses must be a valid selection for the step's total load; (sim) feems.runsimulation."
            "run_simulation with the load-table interface, the load of one switchboard given as a single value or as a series. "
            "Non-trivial = at least 2 sources")
    QUICK_N = 260
    THOROUGH_N = 3000
    SHARD = 40
    TRUSTED = ["the table/digitize formulation of the code equals the recursion `select` by theorem C15_table_is_select (all rating lists, fractions, loads); every correspondence case still evaluates both inside Coq"]

    def gen(self, rng, tier, override=None):
        out = []
        n = self.n_cases(tier, override)
        for k in range(n):
            u = rng.random()
            if u < 0.62:
                out.append(self.gen_table(rng))
            elif u < 0.78:
                out.append(self.gen_equal(rng))
            elif u < 0.88:
                out.append(self.gen_run(rng))
            elif u < 0.94:
                out.append(self.gen_equal_sim(rng))
            else:
                out.append(self.gen_sim(rng))
        if tier == "thorough" and not override:
            # all rating multisets from {1,2,3,4} x 250 kW up to 4 units x every threshold and +-1/8
            for nn in range(1, 5):
                for ms in itertools.combinations_with_replacement([1, 2, 3, 4], nn):
                    rs = [Fraction(m * 250) for m in ms]
                    for f in (Fraction(1, 2), Fraction(13, 16), Fraction(1)):
                        th = thresholds(rs, f)
                        loads = sorted({t + d for t in th for d in (Fraction(-1, 8), 0, Fraction(1, 8))})
                        out.append({"stream": "table", "rs": rs, "f": f, "exact": True, "loads": loads})
        return out

    def gen_table(self, rng):
        n = rng.choice([1, 2, 2, 3, 3, 3, 4, 4, 5, 6])
        style = rng.choice(["equal", "diff", "subset", "diff"])
        if style == "equal":
            rs = [Fraction(rng.randint(2, 40) * 50)] * n
        elif style == "subset":
            base = rng.randint(2, 10) * 50
            rs = [Fraction(base * rng.choice([1, 1, 2, 3])) for _ in range(n)]
        else:
            rs = [Fraction(rng.randint(2, 60) * 50) for _ in range(n)]
        exact = rng.random() < 0.7
        f = rng.choice(EXACT_F) if exact else Fraction(rng.choice(REAL_F))
        th = thresholds(rs, f)
        top = th[-1]
        loads = []
        if exact:
            for t in rng.sample(th, min(len(th), 6)):
                loads += [t, t - Fraction(1, 8), t + Fraction(1, 8)]
            loads += [Fraction(rng.randint(-64, 640), 512) * top for _ in range(6)]
            loads += [Fraction(-100), Fraction(0), top, top * 2]
        else:
            while len(loads) < 14:
                x = Fraction(rng.randint(-64, 640), 512) * top
                if all(abs(x - t) > Fraction(1, 10 ** 6) * max(1, abs(t)) for t in th):
                    loads.append(x)
        return {"stream": "table", "rs": rs, "f": f, "exact": exact, "loads": loads}

    def gen_equal(self, rng):
        N = rng.randint(1, 6)
        r = Fraction(rng.randint(2, 40) * 50)
        f = rng.choice(EXACT_F)
        loads = [Fraction(k) * r * f for k in range(0, N + 2)]
        loads += [l + d for l in loads[:4] for d in (Fraction(-1, 8), Fraction(1, 8))]
        loads += [Fraction(rng.randint(-64, 900), 128) * r for _ in range(6)]
        return {"stream": "equal", "N": N, "r": r, "f": f, "loads": loads}

    def gen_run(self, rng):
        nswb = rng.choice([1, 2, 2])
        swbs = [1, 2][:nswb]
        comps = []
        ns = rng.randint(2, 4)
        for i in range(ns):
            comps.append({"name": f"g{i}", "cls": rng.choice(["genset", "genset", "generator", "fuelcell"]),
                          "swb": rng.choice(swbs), "rated": Fraction(rng.randint(2, 30) * 100)})
        for c in comps:
            if c["cls"] == "fuelcell":       # 1-3 modules; the stack may be larger or smaller than the converter rating
                c["fc"] = {"modules": rng.choice([1, 2, 3]), "stack_factor": rng.choice([1, Fraction(6, 5), Fraction(3, 4), Fraction(3, 2)])}
        for s in swbs:  # every switchboard needs a source
            if not any(c["swb"] == s for c in comps):
                comps.append({"name": f"gx{s}", "cls": "genset", "swb": s, "rated": Fraction(rng.randint(2, 30) * 100)})
        rng.shuffle(comps)
        comps.append({"name": "drive", "cls": "drive", "swb": rng.choice(swbs), "rated": Fraction(6000), "eff": [1.0]})
        comps.append({"name": "aux", "cls": "load", "swb": rng.choice(swbs), "rated": Fraction(2000), "eff": [1.0]})
        rng.shuffle(comps)
        breakers = [[1, 2]] if nswb == 2 else []
        pct = rng.choice([50, 75, 62.5, 100, 87.5])
        total = sum(c["rated"] for c in comps if pg.kind_of(c["cls"]) == "Source")
        n = rng.randint(2, 6)
        prop = [Fraction(rng.randint(0, 72), 64) * total * Fraction(pct) / 100 for _ in range(n)]
        aux = Fraction(rng.randint(0, 8), 64) * total
        dur = [Fraction(rng.randint(1, 40) * 15) for _ in range(n)]
        return {"stream": "run", "plant": {"comps": comps, "breakers": breakers, "swbs": swbs}, "pct": pct,
                "prop": prop, "aux": aux, "dur": dur}

    def gen_equal_sim(self, rng):
        """run_simulation with the equal-size interface on a plant of N equal gensets over 1-2 switchboards (tie closed); the
        series is short, so its length often equals the number of gensets on a switchboard"""
        nswb = rng.choice([1, 2, 2])
        per = [rng.randint(1, 3) for _ in range(nswb)]
        r = Fraction(rng.randint(2, 20) * 50)
        comps = [{"name": f"g{s}{k}", "cls": "genset", "swb": s + 1, "rated": r} for s in range(nswb) for k in range(per[s])]
        comps += [{"name": f"l{s + 1}", "cls": "load", "swb": s + 1, "rated": Fraction(20000), "eff": [1.0]} for s in range(nswb)]
        f = rng.choice(EXACT_F)
        N = sum(per)
        n = rng.choice([2, 3, per[0], per[-1], rng.randint(2, 6)])
        n = max(n, 2)
        loads = [[Fraction(rng.randint(0, 64), 64) * N * r * f / nswb for _ in range(n)] for _s in range(nswb)]
        return {"stream": "equal_sim", "plant": {"comps": comps, "breakers": [[1, 2]] if nswb == 2 else [], "swbs": list(range(1, nswb + 1))},
                "per": per, "r": r, "f": f, "loads": loads, "tie_left_open": rng.random() < 0.4}

    def gen_sim(self, rng):
        """run_simulation with the load-table interface: two switchboards, one load each; the load of one switchboard may be
        given as a single value (a constant) while the other carries a series"""
        comps = []
        for i in range(rng.randint(2, 4)):
            comps.append({"name": f"g{i}", "cls": "genset", "swb": 1 + i % 2, "rated": Fraction(rng.randint(2, 14) * 50)})
        total = sum(c["rated"] for c in comps)
        comps += [{"name": "l1", "cls": "load", "swb": 1, "rated": Fraction(20000), "eff": [1.0]},
                  {"name": "l2", "cls": "load", "swb": 2, "rated": Fraction(20000), "eff": [1.0]}]
        f = rng.choice(EXACT_F)          # dyadic fractions only: thresholds and loads are exact in binary64
        n = rng.randint(2, 8)
        const = Fraction(rng.randint(0, 24), 64) * total * f
        series = [Fraction(rng.randint(0, 64), 64) * total * f for _ in range(n)]
        return {"stream": "sim", "plant": {"comps": comps, "breakers": [[1, 2]], "swbs": [1, 2]}, "f": f, "series": series, "const": const,
                "const_as": rng.choice(["single-value", "single-value", "series"]), "const_on": rng.choice([1, 2]),
                "tie_left_open": rng.random() < 0.4}

    # ------------------------------------------------------------------------------------------
    def run(self, case):
        st = case["stream"]
        if st == "sim":
            from feems.components_model.utility import IntegrationMethod
            from feems.runsimulation import run_simulation
            from RunFeemsSim.pms_basic import PmsLoadTable, PmsLoadTableSimulationInterface, min_load_table_dict
            sysm, objs = pg.build_electric_system(case["plant"])
            byname = {d["name"]: o for d, o in zip(case["plant"]["comps"], objs)}
            n = len(case["series"])
            ser = np.array([float(x) for x in case["series"]])
            cst = np.array([float(case["const"])]) if case["const_as"] == "single-value" else np.full(n, float(case["const"]))
            a, b = ("l2", "l1") if case["const_on"] == 2 else ("l1", "l2")
            byname[a].power_input = cst
            byname[b].power_input = ser
            sysm.set_time_interval(np.ones(n), IntegrationMethod.sum_with_time)
            if case.get("tie_left_open"):      # an earlier split-bus study on the same plant object left the tie open (same series length)
                sysm.set_bus_tie_status_all(np.zeros((n, 1)))
            srcs = list(sysm.power_sources)
            table = PmsLoadTable(min_load2on_pattern=min_load_table_dict([float(s.rated_power) for s in srcs], float(case["f"])))
            with np.errstate(all="ignore"):
                run_simulation(electric_power_system=sysm, simulation_interface=PmsLoadTableSimulationInterface(n_bus_ties=1, pms_load_table=table))
            status = np.array([np.broadcast_to(np.asarray(s.status, dtype=bool), (n,)) for s in srcs])
            outp = np.array([np.broadcast_to(np.asarray(s.power_output, dtype=float), (n,)) for s in srcs])
            return {"rs": [float(s.rated_power) for s in srcs], "status": [[bool(x) for x in status[:, t]] for t in range(n)],
                    "out": [[float(x) for x in outp[:, t]] for t in range(n)], "load": [float(x) + float(case["const"]) for x in case["series"]],
                    "f": float(case["f"])}
        if st == "equal_sim":
            from feems.components_model.utility import IntegrationMethod
            from feems.runsimulation import EqualEngineSizeAllClosedSimulationInterface, run_simulation
            sysm, objs = pg.build_electric_system(case["plant"])
            byname = {d["name"]: o for d, o in zip(case["plant"]["comps"], objs)}
            n = len(case["loads"][0])
            for s_, l in enumerate(case["loads"]):
                byname[f"l{s_ + 1}"].power_input = np.array([float(x) for x in l])
            for d, o in zip(case["plant"]["comps"], objs):
                if d["cls"] == "genset":
                    o.load_sharing_mode = np.zeros(n)
            sysm.set_time_interval(np.ones(n), IntegrationMethod.sum_with_time)
            if case.get("tie_left_open") and case["plant"]["breakers"]:
                sysm.set_bus_tie_status_all(np.zeros((n, 1)))
            pms = EqualEngineSizeAllClosedSimulationInterface(swb2n_gensets={s_ + 1: k for s_, k in enumerate(case["per"])},
                                                              rated_power_gensets=float(case["r"]), n_bus_ties=len(case["plant"]["breakers"]),
                                                              maximum_allowable_genset_load_percentage=float(case["f"]))
            with np.errstate(all="ignore"):
                run_simulation(electric_power_system=sysm, simulation_interface=pms)
            srcs = list(sysm.power_sources)
            status = np.array([np.broadcast_to(np.asarray(s_.status, dtype=bool), (n,)) for s_ in srcs])
            outp = np.array([np.broadcast_to(np.asarray(s_.power_output, dtype=float), (n,)) for s_ in srcs])
            return {"numbers": [int(status[:, t].sum()) for t in range(n)], "out": [[float(x) for x in outp[:, t]] for t in range(n)],
                    "status": [[bool(x) for x in status[:, t]] for t in range(n)]}
        if st == "table":
            from RunFeemsSim.pms_basic import PmsLoadTable, min_load_table_dict
            t = PmsLoadTable(min_load_table_dict([float(r) for r in case["rs"]], float(case["f"])))
            pats = t.on_pattern(np.array([float(x) for x in case["loads"]]))
            return {"patterns": [[bool(b) for b in p] for p in pats]}
        if st == "equal":
            from feems.runsimulation import EqualEngineSizeAllClosedSimulationInterface
            pms = EqualEngineSizeAllClosedSimulationInterface(
                swb2n_gensets={1: case["N"]}, rated_power_gensets=float(case["r"]), n_bus_ties=0,
                maximum_allowable_genset_load_percentage=float(case["f"]))
            arr = np.array([float(x) for x in case["loads"]])
            return {"numbers": [int(v) for v in pms._ideal_number_of_gensets_on(len(arr), arr)]}
        from RunFeemsSim.machinery_calculation import MachineryCalculation
        sysm, objs = pg.build_electric_system(case["plant"])
        mc = MachineryCalculation(sysm, maximum_allowed_power_source_load_percentage=case["pct"])
        mc.calculate_machinery_system_output_from_statistics(
            propulsion_power=np.array([float(x) for x in case["prop"]]),
            frequency=np.array([float(x) for x in case["dur"]]), auxiliary_power_kw=float(case["aux"]))
        srcs = list(sysm.power_sources)
        n = len(case["prop"])
        load = np.zeros(n)
        for c in list(sysm.propulsion_drives) + list(sysm.other_load):
            load = load + np.asarray(c.power_input, dtype=float)
        return {"rs": [float(s.rated_power) for s in srcs],
                "status": [[bool(s.status[t]) for s in srcs] for t in range(n)],
                "out": [[float(s.power_output[t]) for s in srcs] for t in range(n)],
                "load": [float(x) for x in load], "f": float(case["pct"]) / 100}

    def term(self, case, obs):
        st = case["stream"]
        if st == "table":
            lk = core.coq_list([f"({core.coq_q(x)}, {core.coq_bool_list(p)})" for x, p in zip(case["loads"], obs["patterns"])])
            return f"check_case {core.coq_q_list(case['rs'])} {core.coq_q(case['f'])} {lk}"
        if st == "equal":
            lk = core.coq_list([f"({core.coq_q(x)}, {core.coq_Z(k)})" for x, k in zip(case["loads"], obs["numbers"])])
            return f"check_equal_size {core.coq_Z(case['N'])} {core.coq_q(case['r'])} {core.coq_q(case['f'])} {lk}"
        if st == "equal_sim":
            tot = [sum(l[t] for l in case["loads"]) for t in range(len(case["loads"][0]))]
            lk = core.coq_list([f"({core.coq_q(x)}, {core.coq_Z(k)})" for x, k in zip(tot, obs["numbers"])])
            return f"check_equal_size {core.coq_Z(sum(case['per']))} {core.coq_q(case['r'])} {core.coq_q(case['f'])} {lk}"
        rs = core.coq_q_list([Fraction(r) for r in obs["rs"]])
        f = core.coq_q(Fraction(obs["f"]))
        parts = [f"check_run_step {rs} {f} {core.coq_q(Fraction(l))} {core.coq_bool_list(s)}"
                 for l, s in zip(obs["load"], obs["status"])]
        return "(" + " && ".join(parts) + ")%bool"

    def oracle(self, case, obs):
        st = case["stream"]
        if st == "table":
            rs, f = case["rs"], case["f"]
            prev = None
            for x, p in sorted(zip(case["loads"], obs["patterns"]), key=lambda t: t[0]):
                why = brute_ok(rs, f, x, p)
                if why:
                    return f"ratings {list(map(str, rs))}, fraction {f}: load {x}: {why}"
                cap = sum(r for r, b in zip(rs, p) if b)
                if prev is not None and cap < prev[1]:
                    return f"selected capacity fell from {prev[1]} (load {prev[0]}) to {cap} (load {x})"
                prev = (x, cap)
            return None
        if st == "equal_sim":
            tot = [sum(l[t] for l in case["loads"]) for t in range(len(case["loads"][0]))]
            r_, f_ = float(case["r"]), float(case["f"])
            for t, (x, st_, o) in enumerate(zip(tot, obs["status"], obs["out"])):
                for b, out in zip(st_, o):
                    if not b and out != 0:
                        return f"run_simulation (equal-size) step {t}: a stopped genset delivers {out} kW"
                    if b and x <= sum(case["per"]) * case["r"] * case["f"] and out / r_ > f_ * (1 + 1e-9):
                        return f"run_simulation (equal-size) step {t}: a running genset is loaded to {out / r_} > {f_} at a total load of {float(x)} kW"
                if abs(sum(o) - float(x)) > 1e-9 * max(1.0, float(x)) and any(st_):
                    return f"run_simulation (equal-size) step {t}: the gensets deliver {sum(o)} kW for a load of {float(x)} kW"
            case = {**case, "N": sum(case["per"]), "loads": tot}
            st = "equal"
        if st == "equal":
            N, c = case["N"], case["r"] * case["f"]
            prev = None
            for x, k in sorted(zip(case["loads"], obs["numbers"]), key=lambda t: t[0]):
                if not 1 <= k <= N:
                    return f"load {x}: {k} sources of {N}"
                if x <= N * c and not x <= k * c:
                    return f"load {x}: {k} units of {case['r']} at fraction {case['f']} cannot carry it"
                if k > 1 and not (k - 1) * c < x:
                    return f"load {x}: {k} units but {k - 1} would do"
                if prev is not None and k < prev:
                    return f"number of units fell to {k} at load {x}"
                prev = k
            return None
        rs = [Fraction(r) for r in obs["rs"]]
        f = Fraction(obs["f"])
        for t, (l, s, o) in enumerate(zip(obs["load"], obs["status"], obs["out"])):
            why = brute_ok(rs, f, Fraction(l), s)
            if why:
                return f"{'run_simulation' if st == 'sim' else 'MachineryCalculation'} step {t}: sources {list(map(float, rs))}, status {s}: {why}"
            can_avoid = any(f * sum(r for r, b in zip(rs, p) if b) > Fraction(l)
                            for p in itertools.product([False, True], repeat=len(rs)) if any(p))
            for r, b, out in zip(rs, s, o):
                if b and can_avoid and out / float(r) > float(f) * (1 + 1e-9):
                    return f"step {t}: a running source of {float(r)} kW is loaded to {out / float(r)} > {float(f)}"
                if not b and out != 0:
                    return f"step {t}: a stopped source delivers {out}"
        return None

    def nontrivial(self, case, obs):
        if case["stream"] == "table":
            return len(case["rs"]) >= 2
        if case["stream"] == "equal":
            return case["N"] >= 2
        return True

    def tags(self, case, obs):
        t = ["stream=" + case["stream"]]
        if case["stream"] == "table":
            t += [f"nsrc={len(case['rs'])}", "exact" if case["exact"] else "realistic"]
            th = set(thresholds(case["rs"], case["f"]))
            if any(x in th for x in case["loads"]):
                t.append("load-exactly-on-threshold")
            if any(x < 0 for x in case["loads"]):
                t.append("negative-load")
            if len(set(case["rs"])) < len(case["rs"]):
                t.append("equal-ratings-present")
        if case.get("tie_left_open"):
            t.append("bus-tie-left-open-by-an-earlier-study-on-the-same-object")
        if case["stream"] == "sim":
            t.append("constant-load-given-as-" + case["const_as"])
        if case["stream"] == "equal_sim":
            if len(case["loads"][0]) in case["per"]:
                t.append("series-length-equals-gensets-on-a-switchboard")
        if case["stream"] == "run":
            t.append(f"nswb={len(case['plant']['swbs'])}")
            src = [c for c in case["plant"]["comps"] if pg.kind_of(c["cls"]) == "Source"]
            if [c["swb"] for c in src] != sorted(c["swb"] for c in src):
                t.append("sources-not-listed-in-switchboard-order")
        return t

    def search(self, rng, near=None):
        return self.gen(rng, "quick", 200)
