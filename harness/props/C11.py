"""C11 — results are additive over time, order-free and linear in interval length."""
from __future__ import annotations

from fractions import Fraction

import numpy as np

import core
import sysrun
from props.base import Prop
from props.C10 import coq_res_obs
from props.C19 import coq_ores, scalar_fields


def take(inp, idx, scale=Fraction(1)):
    """the inputs restricted to / reordered by the steps idx, with the intervals scaled"""
    out = {"n": len(idx), "dt": [inp["dt"][i] * scale for i in idx]}
    if inp.get("sts") is not None:
        out["sts"] = [inp["sts"][i] for i in idx]
    elif "sts" in inp:
        out["sts"] = None
    out["comps"] = [{k: ([v[i] for i in idx] if isinstance(v, list) else v) for k, v in ci.items()} for ci in inp["comps"]]
    if inp.get("matrix_api"):
        out["matrix_api"] = True
    return out


class P(Prop):
    ID = "C11"
    THEOREMS = ["C11_split", "C11_permute", "C11_scale", "C11_single_point", "C11_duration", "C11_parts_add",
                "C11_system_split", "C11_system_permute", "C11_system_scale", "C11_system_single_point", "C11_system_duration"]
    MAKE_TARGETS = ["theories/Props/C11.vo", "theories/Check/Check_C11.vo", "theories/Check/Check_C01.vo"]
    CHECK_REQUIRE = ("From Coq Require Import QArith List Bool.\nFrom Feems Require Import Base.Num Model.FuelRecord Model.Result "
                     "Model.SysResult Model.Bus Model.ElecBalance Model.Plant Check.Check_C01 Check.Check_C18 Check.Check_C19 Check.Check_C11.\n"
                     "From Feems Require Import Base.Pchip.\nOpen Scope Q_scope.")
    RULE = ("electric plants (1-3 switchboards with breaker and status changes inside the series, numeric 0/1 breaker status "
            "arrays in half of the cases) and mechanical plants, series of 2-6 steps with irregular intervals: the whole run on one "
            "object; every two-way split, the single steps, a permutation of the steps and a rescaling of the intervals on FRESH "
            "objects, and the parts once more one after the other on ONE object. Coq combines the implementation's results of the two parts / of the single steps as consecutive periods "
            "and compares with the whole; the oracle checks split, single-point, permutation, scaling and duration laws on the "
            "implementation. Non-trivial = series with a breaker or status change")
    QUICK_N = 70
    THOROUGH_N = 1500
    SHARD = 10

    def gen(self, rng, tier, override=None):
        out = []
        for _ in range(self.n_cases(tier, override)):
            kind = rng.choice(["electric", "electric", "mechanical"])
            n = rng.randint(2, 6)
            c = sysrun.gen_electric_case(rng, n=n) if kind == "electric" else sysrun.gen_mechanical_case(rng, n=n)
            c["kind"] = kind
            # a store charged and discharged with the same power for different lengths of time: the samples of its
            # (signed) rate cancel in a plain sum, the energy does not
            if kind == "electric" and rng.random() < 0.35:
                for d, ci in zip(c["plant"]["comps"], c["inp"]["comps"]):
                    if d["cls"] in ("battery", "battery_sys", "supercap", "supercap_sys"):
                        d["cls"] = "battery" if d["cls"].startswith("battery") else "supercap"
                        d["bat"] = {**d.get("bat", {}), "eff_c": 1, "eff_d": 1}
                        x = Fraction(rng.randint(1, 16), 32) * Fraction(d["rated"])
                        sign = rng.choice([1, -1])
                        pin = [x * sign * (1 if t % 2 == 0 else -1) for t in range(n)]
                        if n % 2:
                            pin[-1] = Fraction(0)
                        ci.update({"status": [True] * n, "lsm": [Fraction(1)] * n, "pin": pin})
                        c["cancelling_storage_series"] = True
                        break
            # end to end: every fuel consumer a plain genset with ONE specific-consumption value and ONE efficiency value, so that
            # the whole calculation (balance -> engine power -> fuel, running hours) is a rational function the model evaluates
            if kind == "electric" and rng.random() < 0.5:
                import plantgen as pg
                curves = rng.random() < 0.5       # multi-point generator-efficiency and specific-consumption curves
                for d in c["plant"]["comps"]:
                    if pg.kind_of(d["cls"]) == "Source":
                        d["cls"] = "genset" if curves else rng.choice(["genset", "genset", "genset_rect"])
                        d["eff"] = [Fraction(rng.randint(56, 64), 64)]
                        d["rect_eff"] = [Fraction(rng.randint(60, 64), 64)]
                        d["engine"] = {"rated": Fraction(d["rated"]) * 2, "bsfc": [Fraction(rng.randint(160, 240))],
                                       "fuel": rng.choice(["DIESEL", "DIESEL", "HFO"])}
                        if curves:
                            loads = sorted(rng.sample([Fraction(k, 8) for k in range(1, 9)], rng.randint(2, 4)))
                            d["eff"] = [[l, v] for l, v in zip(loads, sorted(Fraction(rng.randint(52, 63), 64) for _ in loads))]
                            bl = sorted(rng.sample([Fraction(k, 8) for k in range(1, 9)], rng.randint(2, 4)))
                            d["engine"]["bsfc"] = [[l, Fraction(rng.randint(170, 250))] for l in bl]
                        d.pop("fc", None); d.pop("cogas", None)
                c["e2e"] = "curves" if curves else True
            c["split"] = rng.randint(1, n - 1)
            # a periodic breaker schedule (two configurations A and B alternating, held for irregular numbers of steps), cut at
            # a period boundary: both parts run through the same sequence of configurations at different steps
            if kind == "electric" and c["plant"]["breakers"] and n >= 4 and rng.random() < 0.4:
                nb = len(c["plant"]["breakers"])
                A = [rng.random() < 0.7 for _ in range(nb)]
                B = list(A)
                B[rng.randrange(nb)] ^= True
                cutpoints = sorted(rng.sample(range(1, n), 3))
                c["inp"]["sts"] = [list(A if (sum(t >= x for x in cutpoints) % 2 == 0) else B) for t in range(n)]
                c["split"] = cutpoints[1]
                c["periodic_breaker_schedule"] = True
            # a step at which one breaker opens while another closes (numeric 0/1 status, as the front ends pass it)
            if kind == "electric" and len(c["plant"]["breakers"]) >= 2 and not c.get("periodic_breaker_schedule") and rng.random() < 0.4:
                nb = len(c["plant"]["breakers"])
                i_, j_ = rng.sample(range(nb), 2)
                row = [rng.random() < 0.7 for _ in range(nb)]
                row[i_], row[j_] = True, False
                t0 = rng.randint(1, n - 1)
                sw = list(row)
                sw[i_], sw[j_] = False, True
                c["inp"]["sts"] = [list(row) if t < t0 else list(sw) for t in range(n)]
                c["swap_step"] = t0
            # statuses and sharing modes (also) through the per-switchboard [N x n] matrix setters
            if kind == "electric" and rng.random() < 0.3:
                c["matrix_api"] = True
            perm = list(range(n))
            rng.shuffle(perm)
            c["perm"] = perm
            c["scale"] = rng.choice([Fraction(1, 2), Fraction(3), Fraction(5, 4)])
            c["numeric_breaker_status"] = rng.random() < 0.5 or bool(c.get("swap_step"))
            out.append(c)
        return out

    def one(self, case, inp):
        plant = case["plant"]
        if case["kind"] == "electric":
            if case["numeric_breaker_status"] and inp.get("sts") is not None:
                # the front ends pass np.ones(...) floats for breaker status; do the same
                import plantgen as pg
                from feems.fuel import FuelSpecifiedBy
                sysm, objs = pg.build_electric_system(plant)
                pg.apply_electric_inputs(sysm, objs, plant, inp)
                sysm.set_bus_tie_status_all(np.array(inp["sts"], dtype=float).reshape(inp["n"], len(plant["breakers"])))
                with np.errstate(all="ignore"):
                    sysm.do_power_balance_calculation()
                    res = sysm.get_fuel_energy_consumption_running_time()
            else:
                _, _, res = sysrun.run_electric(plant, inp)
        else:
            _, _, res = sysrun.run_mechanical(plant, inp)
        return sysrun.snap(res)

    def one_on(self, holder, case, inp):
        """the same calculation on ONE plant object kept in `holder` (a voyage calculated part after part)"""
        import plantgen as pg
        from feems.components_model.utility import IntegrationMethod
        plant = case["plant"]
        if "sys" not in holder:
            holder["sys"] = pg.build_electric_system(plant) if case["kind"] == "electric" else pg.build_mechanical_system(plant)
        sysm, objs = holder["sys"]
        with np.errstate(all="ignore"):
            if case["kind"] == "electric":
                pg.apply_electric_inputs(sysm, objs, plant, inp)
                if case["numeric_breaker_status"] and inp.get("sts") is not None:
                    sysm.set_bus_tie_status_all(np.array(inp["sts"], dtype=float).reshape(inp["n"], len(plant["breakers"])))
                sysm.do_power_balance_calculation()
            else:
                pg.apply_mechanical_inputs(sysm, objs, plant, inp)
                sysm.set_time_interval(np.array([float(x) for x in inp["dt"]]), IntegrationMethod.sum_with_time)
                sysm.do_power_balance()
            return sysrun.snap(sysm.get_fuel_energy_consumption_running_time())

    def run(self, case):
        import math
        from feems.exceptions import InputError
        inp, n, k = case["inp"], case["inp"]["n"], case["split"]
        if case.get("matrix_api"):
            inp = {**inp, "matrix_api": True}
        try:
            whole = self.one(case, inp)
            e2e = None
            if case.get("e2e"):
                import plantgen as pg
                with np.errstate(all="ignore"):
                    sysm_, objs_, res_ = sysrun.run_electric(case["plant"], {k_: v_ for k_, v_ in inp.items() if k_ != "matrix_api"})
                e2e = {"pin": [[float(x) for x in np.atleast_1d(o.power_input)] if pg.kind_of(d["cls"]) == "Consumer" else []
                               for d, o in zip(case["plant"]["comps"], objs_)],
                       "rated": [float(o.rated_power) for o in objs_],
                       "fuel": float(res_.fuel_consumption_total_kg), "hours": float(res_.running_hours_genset_total_hr),
                       "min_source_output": min([float(np.min(o.power_output)) for d, o in zip(case["plant"]["comps"], objs_)
                                                 if pg.kind_of(d["cls"]) == "Source"] or [0.0])}
            flat = whole["scalars"] + whole["co2"] + [m for _, m in whole["fuel"]]
            if any(isinstance(x, float) and (math.isnan(x) or math.isinf(x)) for x in flat):
                return {"rejected": "non-finite: a bus without balancing capacity"}
            parts = [self.one(case, take(inp, list(range(0, k)))), self.one(case, take(inp, list(range(k, n))))]
            steps = [self.one(case, take(inp, [t])) for t in range(n)]
            # the two parts, and then the second part cut once more, calculated one after the other on ONE plant object
            holder = {}
            k2 = k + max(1, (n - k) // 2)
            cuts = [list(range(0, k)), list(range(k, n))] + ([list(range(k, k2)), list(range(k2, n))] if k2 < n else [])
            reused = [self.one_on(holder, case, take(inp, c)) for c in cuts]
            perm = self.one(case, take(inp, case["perm"]))
            scaled = self.one(case, take(inp, list(range(n)), case["scale"]))
        except (InputError, ValueError, StopIteration) as e:
            return {"rejected": type(e).__name__ + ": " + str(e)[:80]}
        return {"whole": whole, "parts": parts, "steps": steps, "perm": perm, "scaled": scaled, "reused": reused, "e2e": e2e}

    def term(self, case, obs):
        if "rejected" in obs:
            return "true"
        n = len(scalar_fields())
        w = dict(obs["whole"]); w["detail"] = None
        t = (f"(check_parts {n}%nat {core.coq_list([coq_res_obs(r) for r in obs['parts']], sep=';' + chr(10))} {coq_ores(w)} && "
             f"check_parts {n}%nat {core.coq_list([coq_res_obs(r) for r in obs['steps']], sep=';' + chr(10))} {coq_ores(w)})%bool")
        if obs.get("e2e"):
            import plantgen as pg
            from props.C01 import coq_plant, coq_sts
            e, plant, inp = obs["e2e"], case["plant"], case["inp"]
            for d, r in zip(plant["comps"], e["rated"]):
                d["rated_obs"] = Fraction(r)
            if case["e2e"] == "curves":
                from props.C06 import coq_curve
                gl = []
                for d in plant["comps"]:
                    if d["cls"] == "genset":
                        gl.append(f"mk_genset {core.coq_q(d['rated_obs'])} {coq_curve(d['eff'])} {core.coq_q(d['engine']['rated'])} {coq_curve(d['engine']['bsfc'])}")
                    else:
                        gl.append("None")
                sts = coq_sts(plant, inp) if plant["breakers"] else core.coq_list(["[]" for _ in range(inp["n"])])
                t2 = (f"check_run_curves [{coq_plant(plant, inp, e['pin'])[1:-1]}]\n  {core.coq_edges(plant['breakers'])} {core.coq_nat_list(plant['swbs'])} {sts} "
                      f"{core.coq_q_list(inp['dt'])} {core.coq_list(gl)} {core.coq_fl(e['fuel'])}")
                for d in plant["comps"]:
                    d.pop("rated_obs", None)
                return f"({t} && {t2})%bool"
            cs, cn, gs = [], [], []
            for d in plant["comps"]:
                if d["cls"] in ("genset", "genset_rect"):
                    eff = Fraction(d["eff"][0]) * (Fraction(d["rect_eff"][0]) if d["cls"] == "genset_rect" else 1)
                    cs.append(Fraction(d["engine"]["bsfc"][0]) / eff / 3600000)
                    cn.append(Fraction(d["engine"]["bsfc"][0]) * eff / 3600000)
                    gs.append(True)
                else:
                    cs.append(Fraction(0)); cn.append(Fraction(0)); gs.append(False)
            sts = coq_sts(plant, inp) if plant["breakers"] else core.coq_list(["[]" for _ in range(inp["n"])])
            t2 = (f"check_run [{coq_plant(plant, inp, e['pin'])[1:-1]}]\n  {core.coq_edges(plant['breakers'])} {core.coq_nat_list(plant['swbs'])} {sts} "
                  f"{core.coq_q_list(inp['dt'])} {core.coq_q_list(cs)} {core.coq_q_list(cn)} {core.coq_bool_list(gs)} {core.coq_fl(e['fuel'])} {core.coq_fl(e['hours'])}")
            for d in plant["comps"]:
                d.pop("rated_obs", None)
            t = f"({t} && {t2})%bool"
        return t

    def add(self, snaps):
        acc = {}
        for s in snaps:
            for k, v in sysrun.figures(s).items():
                if v is not None:
                    acc[k] = acc.get(k, 0.0) + v
        return acc

    def oracle(self, case, obs):
        if "rejected" in obs:
            return None
        W = sysrun.figures(obs["whole"])
        groups = [("two consecutive parts", obs["parts"]), ("single operating points", obs["steps"])]
        if obs.get("reused"):
            groups.append(("two consecutive parts calculated one after the other on one plant object", obs["reused"][:2]))
            if len(obs["reused"]) == 4:
                groups.append(("three consecutive parts calculated one after the other on one plant object", [obs["reused"][0]] + obs["reused"][2:]))
        for name, parts in groups:
            S = self.add(parts)
            for k in sorted(set(W) | set(S)):
                x, y = W.get(k) or 0.0, S.get(k, 0.0)
                if abs(x - y) > 1e-9 * max(1.0, abs(x), abs(y)):
                    return f"{k}: whole series {x}, sum over {name} {y}"
        d = sysrun.figures_diff(obs["whole"], obs["perm"])
        if d:
            return f"reordering the intervals with their inputs changes {d[:3]}"
        S = sysrun.figures(obs["scaled"])
        kf = float(case["scale"])
        for k in sorted(set(W) | set(S)):
            x, y = (W.get(k) or 0.0) * kf, S.get(k) or 0.0
            if abs(x - y) > 1e-9 * max(1.0, abs(x), abs(y)):
                return f"{k}: intervals scaled by {kf} give {y}, expected {x}"
        dur = float(sum(case["inp"]["dt"]))
        if abs(obs["whole"]["duration"] - dur) > 1e-9 * dur:
            return f"duration {obs['whole']['duration']} s, the intervals sum to {dur} s"
        return None

    def nontrivial(self, case, obs):
        inp = case["inp"]
        if inp.get("sts") and any(inp["sts"][i] != inp["sts"][i - 1] for i in range(1, inp["n"])):
            return True
        return any(len(set(map(str, ci.get("status", [])))) > 1 for ci in inp["comps"])

    def tags(self, case, obs):
        t = ["kind=" + case["kind"], f"n={case['inp']['n']}", f"split-at={case['split']}"]
        inp = case["inp"]
        if "rejected" in obs:
            t.append("rejected:" + obs["rejected"].split(":")[0])
        if case.get("cancelling_storage_series"):
            t.append("storage-charged-and-discharged-with-equal-power")
        if case.get("periodic_breaker_schedule"):
            t.append("periodic-breaker-schedule-cut-at-a-period-boundary")
        if obs.get("e2e"):
            t.append("end-to-end: plant inputs -> fuel and genset hours evaluated by the model" + (" (multi-point curves)" if case.get("e2e") == "curves" else ""))
            if case.get("e2e") == "curves":
                t.append("end-to-end (curves): " + ("compared" if obs["e2e"]["min_source_output"] >= 0 else "outside (a genset pushed below zero)"))
        if case.get("swap_step"):
            t.append("one-breaker-opens-while-another-closes(constructed)")
        if case.get("matrix_api"):
            t.append("statuses-through-matrix-setters")
        if inp.get("sts") and any(inp["sts"][i] != inp["sts"][i - 1] for i in range(1, inp["n"])):
            t.append("breaker-change-in-series")
            ch = [i for i in range(1, inp["n"]) if inp["sts"][i] != inp["sts"][i - 1]]
            if case["split"] in ch:
                t.append("split-exactly-on-a-change-index")
            else:
                t.append("split-inside-a-configuration-period")
            if case["numeric_breaker_status"]:
                t.append("numeric-breaker-status")
                if any(sum(inp["sts"][i]) == sum(inp["sts"][i - 1]) and inp["sts"][i] != inp["sts"][i - 1] for i in range(1, inp["n"])):
                    t.append("one-breaker-opens-while-another-closes")
        if any(len(set(map(str, ci.get("status", [])))) > 1 for ci in inp["comps"]):
            t.append("unit-status-change-in-series")
        return t

    def search(self, rng, near=None):
        return self.gen(rng, "quick", 30)
