"""./bin/check Cxx [--tier quick|thorough] [--replay file] [--cases N]"""
from __future__ import annotations

import argparse
import collections
import importlib
import json
import logging
import os
import sys
import time
import traceback
import warnings
from pathlib import Path

sys.path.insert(0, str(Path(__file__).resolve().parent))
import core  # noqa: E402

logging.disable(logging.CRITICAL)
warnings.filterwarnings("ignore")

BASE_TRUSTED = [
    "Coq 8.16.1 kernel and its vm_compute bytecode VM (native_compute not used)",
    "hand transcription of the anchored Python code into Gallina (Model/*.v), tied to /repo by the "
    "correspondence run of this check (strength bounded by its generators; distribution in coverage)",
    "Python harness: generators, drivers, Gallina literal writer, exact float->rational conversion, "
    "tolerance 1e-9 relative for binary64 rounding (rounding is measured, not proved)",
    "NumPy/SciPy/pandas/protobuf runtimes and IEEE-754 arithmetic are modelled by exact rationals, not verified",
]


def load_prop(pid):
    mod = importlib.import_module(f"props.{pid}")
    return mod.P()


def write_replay(pid, seed, tier, kind, broken, case, obs, detail, n):
    core.REPLAYS.mkdir(exist_ok=True)
    p = core.REPLAYS / f"{pid}_{seed}_{n}.json"
    p.write_text(json.dumps({
        "property": pid, "seed": seed, "tier": tier, "kind": kind, "broken": broken,
        "input": core.jsonable(case), "observed": core.jsonable(obs), "detail": detail,
        "how_to_rerun": f"./bin/check {pid} --replay {p.relative_to(core.VERIF)}",
    }, indent=1, default=str))
    return str(p.relative_to(core.VERIF))


class CaseTimeout(Exception):
    pass


def _alarm(signum, frame):
    raise CaseTimeout()


CASE_TIMEOUT_S = int(os.environ.get("VERIF_CASE_TIMEOUT", "120"))


def run_case(P, case):
    import signal
    try:
        signal.signal(signal.SIGALRM, _alarm)
        signal.alarm(CASE_TIMEOUT_S)
        try:
            return P.run(case)
        finally:
            signal.alarm(0)
    except CaseTimeout:  # e.g. an accumulation that never terminates: reported, not waited for
        return {"error": "Timeout", "msg": f"the implementation did not return within {CASE_TIMEOUT_S} s on this input", "unexpected": True, "tb": ""}
    except Exception as e:  # the implementation raised where the driver did not expect it
        return {"error": type(e).__name__, "msg": str(e)[:300], "unexpected": True,
                "tb": traceback.format_exc()[-1500:]}


def safe_oracle(P, case, obs):
    """the property oracle; a crash on malformed implementation output counts as a failure of the property"""
    if obs.get("unexpected"):
        return obs["msg"]
    try:
        return P.oracle(case, obs)
    except Exception:
        return "the implementation's output cannot be read as the property requires (" + traceback.format_exc().strip().split("\n")[-1][:200] + ")"


def match_known(P, findings, case, obs, what):
    for f in findings:
        if f.get("property") != P.ID or f.get("status") != "open":
            continue
        pred = getattr(P, "PREDICATES", {}).get(f["matcher"]["predicate"])
        if pred is None:
            continue
        # a finding about the ACCURACY the property promises is a failure of the property oracle; it never excuses a
        # disagreement between model and implementation (the model has the same interpolated inverse)
        if what == "correspondence" and f["matcher"].get("applies_to") == "oracle":
            continue
        try:
            if pred(case, obs, f["matcher"].get("params", {})):
                return f
        except Exception:
            continue
    return None


def main():
    ap = argparse.ArgumentParser()
    ap.add_argument("pid")
    ap.add_argument("--tier", default=os.environ.get("VERIF_TIER", "quick"))
    ap.add_argument("--replay")
    ap.add_argument("--cases", type=int)
    a = ap.parse_args()
    pid, tier = a.pid, a.tier
    seed = int(os.environ.get("VERIF_SEED", "0") or 0)
    t0 = time.time()
    P = load_prop(pid)
    findings = core.load_known_findings()
    violations = []   # (kind, broken, case, obs, detail)
    known_lines = []
    notes = []

    # ---- 1. build the model, proofs and the property's theorem file -------------------------
    ok, log = core.make_targets(P.MAKE_TARGETS)
    build_broken = None
    if not ok:
        build_broken = "coq build failed (a proof obligation no longer checks): " + log[-1500:]
    bad = core.grep_forbidden()
    if bad:
        build_broken = (build_broken or "") + " forbidden constructs: " + "; ".join(bad)

    # ---- 2. assumptions of the theorems -------------------------------------------------------
    obligations = 0
    discharged = 0
    axioms_seen = {}
    if not build_broken:
        for module, theorems, allowed in P.theorem_sets():
            res, out = core.print_assumptions(module, theorems)
            obligations += len(theorems)
            if res is None:
                build_broken = f"Print Assumptions failed for {module}: {out[-800:]}"
                break
            for th, axs in res.items():
                axioms_seen[th] = axs
                extra = [x for x in axs if not any(x == al or x.startswith(al) for al in allowed)]
                if extra:
                    build_broken = f"theorem {th} depends on axioms outside the allow-list: {extra}"
                else:
                    discharged += 1

    # ---- 3. regenerated obligations (data read from /repo's working tree) ---------------------
    regen_info = {}
    if hasattr(P, "regen") and not build_broken:
        try:
            r_ok, r_detail, r_obl, r_dis, regen_info = P.regen()
        except Exception:
            r_ok, r_detail, r_obl, r_dis = False, "regeneration crashed: " + traceback.format_exc()[-1500:], 1, 0
        obligations += r_obl
        discharged += r_dis
        if not r_ok:
            for dct in (r_detail if isinstance(r_detail, list) else [r_detail]):
                if not isinstance(dct, dict):
                    dct = {"kind": "no-failing-input-found", "broken": "regenerated theorem", "why": str(dct)}
                k = match_known(P, findings, dct.get("input"), dct.get("observed") or {}, dct.get("why", ""))
                if k:
                    line = f"KNOWN-FINDING: property={pid} {k['id']}: {k['what']}"
                    if line not in known_lines:
                        known_lines.append(line)
                    continue
                violations.append((dct.get("kind", "no-failing-input-found"), dct.get("broken", "regenerated theorem"),
                                   dct.get("input"), dct.get("observed"), dct.get("why", "")))

    # ---- 4. correspondence + oracle ------------------------------------------------------------
    rng = core.Rng(seed * 1000003 + sum(map(ord, pid)))
    if a.replay:
        rp = json.loads(Path(a.replay).read_text())
        cases = [core.unjson(rp["input"])]
    else:
        try:
            cases = list(P.corpus()) + list(P.gen(rng, tier, a.cases))
        except Exception:
            # a defect of the generator, not of the code under test: say so, fall back to the corpus and a fixed seed
            notes.append("case generation crashed for this seed (harness defect, reported, not a violation): " + traceback.format_exc()[-800:])
            print("HARNESS-NOTE: case generation crashed for seed", seed, "- falling back to seed 0 cases", file=sys.stderr)
            rng = core.Rng(sum(map(ord, pid)))
            cases = list(P.corpus()) + list(P.gen(rng, tier, a.cases))
    obs_list = []
    terms = []
    oracle_fail = []
    counters = collections.Counter()
    seen = set()
    distinct_nontrivial = 0
    samples = []
    for i, case in enumerate(cases):
        obs = run_case(P, case)
        obs_list.append(obs)
        if obs.get("unexpected"):
            oracle_fail.append((i, f"implementation raised {obs['error']}: {obs['msg']}"))
            terms.append("false")
            continue
        why = safe_oracle(P, case, obs)
        if why:
            oracle_fail.append((i, why))
        try:
            terms.append(P.term(case, obs))
        except Exception:
            terms.append("false")
            notes.append("term construction failed: " + traceback.format_exc()[-600:])
        try:
            tgs, nt = P.tags(case, obs), P.nontrivial(case, obs)
        except Exception:
            tgs, nt = ["tags-unavailable(malformed output)"], False
        for tg in tgs:
            counters[tg] += 1
        h = core.canonical_hash(core.jsonable(case))
        if h not in seen:
            seen.add(h)
            if nt:
                distinct_nontrivial += 1
        if len(samples) < 3 and nt:
            samples.append({"input": core.jsonable(case), "observed": core.jsonable(obs)})

    coq_results, coq_s, coq_logs = ([], 0.0, [])
    if not build_broken:
        coq_results, coq_s, coq_logs = core.eval_cases_in_coq(
            pid, P.CHECK_REQUIRE, terms, shard=getattr(P, "SHARD", 150), extra_Q=getattr(P, "EXTRA_Q", ()))
    if hasattr(P, "post_eval") and not build_broken:
        for i, okv in P.post_eval(cases, obs_list).items():
            if not okv and i < len(coq_results):
                coq_results[i] = False
    agree = sum(1 for r in coq_results if r is True)
    disagree_idx = [i for i, r in enumerate(coq_results) if r is not True]

    # oracle failures are violations with a concrete failing input
    for i, why in oracle_fail:
        k = match_known(P, findings, cases[i], obs_list[i], why)
        if (k and k["matcher"].get("applies_to") == "oracle" and not build_broken
                and i < len(coq_results) and coq_results[i] is not True):
            # the model has the recorded inaccuracy too, so on the recorded finding it agrees with the implementation;
            # here it does not: a different failure of the property on an input of the same class
            why = f"{why} [not the recorded finding {k['id']}: the model, which has that inaccuracy, predicts other values]"
            k = None
        if k:
            line = f"KNOWN-FINDING: property={pid} {k['id']}: {k['what']}"
            if line not in known_lines:
                known_lines.append(line)
            continue
        violations.append(("failing-input", "property oracle on the implementation", cases[i], obs_list[i], why))

    oracle_idx = {i for i, _ in oracle_fail}
    unexplained = [i for i in disagree_idx if i not in oracle_idx]
    if build_broken:
        # search: did the oracle find anything?  otherwise no-failing-input-found
        if not any(v[0] == "failing-input" for v in violations):
            extra = list(P.search(rng)) if hasattr(P, "search") else []
            found = False
            for case in extra:
                obs = run_case(P, case)
                why = safe_oracle(P, case, obs)
                if why and not match_known(P, findings, case, obs, why):
                    violations.append(("failing-input", build_broken[:300], case, obs, why))
                    found = True
                    break
            if not found:
                violations.append(("no-failing-input-found", build_broken[:2000], None, None, build_broken))
    elif unexplained:
        # model and implementation disagree although the oracle is content on these cases:
        # shrink the first disagreement, search for a failing input around it
        i0 = unexplained[0]
        case0, obs0 = cases[i0], obs_list[i0]
        k = match_known(P, findings, case0, obs0, "correspondence")
        if k and all(match_known(P, findings, cases[i], obs_list[i], "correspondence") for i in unexplained):
            line = f"KNOWN-FINDING: property={pid} {k['id']}: {k['what']}"
            if line not in known_lines:
                known_lines.append(line)
        else:
            unexplained = [i for i in unexplained
                           if not match_known(P, findings, cases[i], obs_list[i], "correspondence")]
            i0 = unexplained[0]
            case0, obs0 = cases[i0], obs_list[i0]
            if hasattr(P, "shrink"):
                case0, obs0 = shrink(P, case0, obs0)
            found = None
            extra = list(P.search(rng, near=case0)) if hasattr(P, "search") else []
            for case in extra:
                obs = run_case(P, case)
                why = safe_oracle(P, case, obs)
                if why and not match_known(P, findings, case, obs, why):
                    found = (case, obs, why)
                    break
            detail = {"disagreeing_cases": len(unexplained), "coq_logs": coq_logs[:2]}
            try:
                detail["model_says"] = P.explain(case0, obs0)
            except Exception:
                pass
            if found:
                violations.append(("failing-input", f"correspondence {pid} (model vs implementation)",
                                   found[0], found[1], found[2]))
            else:
                violations.append(("no-failing-input-found",
                                   f"correspondence stream of {pid}: Check_{pid}.check_case is false on this input "
                                   f"(model and implementation differ)", case0, obs0, detail))

    # ---- 5. evidence + verdict ---------------------------------------------------------------------
    wall = time.time() - t0
    trusted = BASE_TRUSTED + list(getattr(P, "TRUSTED", []))
    allax = sorted({x for v in axioms_seen.values() for x in v})
    trusted.append("axioms reported by Print Assumptions for the theorems of this property: "
                   + (", ".join(allax) if allax else "none (closed under the global context)"))
    cov = {
        "obligations": obligations, "discharged": discharged,
        "checker_cmd": "cd coq && make " + " ".join(P.MAKE_TARGETS) + " ; coqc Print Assumptions per theorem; coqc cases_*.v (vm_compute)",
        "trusted_base": trusted,
        "theorems": axioms_seen,
        "evaluations": len(cases),
        "distinct_nontrivial": distinct_nontrivial,
        "rule": P.RULE,
        "traces_validated_against_impl": agree,
        "correspondence_disagreements": len(disagree_idx),
        "oracle_failures": len(oracle_fail),
        "input_distribution": dict(sorted(counters.items())),
        "coq_eval_seconds": round(coq_s, 1),
        "samples": samples or [{"input": core.jsonable(c)} for c in cases[:2]],
        "regenerated": regen_info,
        "exhaustive": bool(getattr(P, "exhaustive", False) and tier == "thorough"),
        "notes": notes[:5],
    }
    if hasattr(P, "extra_coverage"):
        cov.update(P.extra_coverage())
    ev = {
        "property_id": pid, "tier": tier if tier in ("quick", "thorough") else "quick", "seed": seed,
        "level": "proof", "coverage": cov,
        "assumptions": list(getattr(P, "ASSUMPTIONS", [])),
        "wall_s": round(wall, 2), "violations": len(violations),
    }
    if not a.replay and not os.environ.get("VERIF_NO_EVIDENCE"):     # (set when a check is tried against a patched scratch tree)
        core.EVID.mkdir(exist_ok=True)
        (core.EVID / f"{pid}.json").write_text(json.dumps(ev, indent=1, default=str))
    for line in known_lines:
        print(line)
    if violations:
        seen_v = set()
        n = 0
        for kind, broken, case, obs, detail in violations[:5]:
            path = write_replay(pid, seed, tier, kind, broken, case, obs, detail, n)
            n += 1
            tail = " no-failing-input-found" if kind == "no-failing-input-found" else ""
            print(f"VIOLATION property={pid} replay={path}{tail}")
            d = detail if isinstance(detail, str) else json.dumps(core.jsonable(detail), default=str)[:600]
            print(f"  [{kind}] {str(broken)[:300]} :: {d[:600]}")
        print(f"{pid}: {len(violations)} violation(s); {agree}/{len(cases)} cases agree; {wall:.1f}s")
        sys.exit(1)
    print(f"{pid} OK tier={tier} seed={seed}: {discharged}/{obligations} obligations, "
          f"{agree}/{len(cases)} cases agree with the model in Coq, {distinct_nontrivial} distinct non-trivial, {wall:.1f}s")
    sys.exit(0)


def shrink(P, case, obs, budget=60):
    """Greedy shrinking while model and implementation still disagree."""
    cur, cur_obs = case, obs
    steps = 0
    improved = True
    while improved and steps < budget:
        improved = False
        for cand in P.shrink(cur):
            steps += 1
            if steps > budget:
                break
            o = run_case(P, cand)
            if o.get("unexpected"):
                continue
            try:
                t = P.term(cand, o)
            except Exception:
                continue
            res, _, _ = core.eval_cases_in_coq(P.ID + "s", P.CHECK_REQUIRE, [t], extra_Q=getattr(P, "EXTRA_Q", ()))
            if res and res[0] is False:
                cur, cur_obs = cand, o
                improved = True
                break
    return cur, cur_obs


if __name__ == "__main__":
    main()
