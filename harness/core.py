"""Shared machinery of the FEEMS verification checks.

A check for property Cxx
  1. builds the Coq development (model, proofs, Props/Cxx.v) with `make` — a broken proof fails here;
  2. re-prints the assumptions of every theorem of Props/Cxx.v and compares them with the allow-list;
  3. regenerates data-dependent Gallina files from /repo and compiles the theorems over them;
  4. generates cases (corpus first, then seeded random), runs the real implementation from /repo's
     working tree on them, evaluates the property oracle on the observations, writes the cases AND
     the observations as Gallina terms, and lets `coqc` evaluate `check_case` with vm_compute: the
     model is executed inside the proof assistant and compared there;
  5. writes evidence/Cxx.json and, on failure, replays/…json and a VIOLATION line.
"""
from __future__ import annotations

import concurrent.futures as cf
import hashlib
import json
import math
import os
import random
import re
import subprocess
import sys
import time
import traceback
from fractions import Fraction
from pathlib import Path

VERIF = Path(__file__).resolve().parent.parent
REPO = Path(os.environ.get("FEEMS_VERIF_REPO", "/repo"))
COQ = VERIF / "coq"
BUILD = VERIF / "build"
CASES = BUILD / "cases"
GEN = BUILD / "gen"
EVID = VERIF / "evidence"
REPLAYS = VERIF / "replays"
CORPUS = VERIF / "corpus"

FORBIDDEN = re.compile(
    r"\b(Admitted|admit|Axiom|Axioms|Parameter|Parameters|Conjecture|Admit Obligations|"
    r"Unset Guard Checking|Unset Positivity Checking|Unset Universe Checking|bypass_check|"
    r"type-in-type|impredicative-set)\b"
)

# ---------------------------------------------------------------------------------------------
# Gallina literal writers


def coq_bool(b) -> str:
    return "true" if b else "false"


def coq_nat(n: int) -> str:
    assert 0 <= int(n) < 5000, n
    return str(int(n)) + "%nat"


def coq_Z(n: int) -> str:
    n = int(n)
    return f"({n})%Z" if n < 0 else f"{n}%Z"


def coq_list(items, sep="; ") -> str:
    return "[" + sep.join(items) + "]"


def coq_fl(x) -> str:
    """An IEEE double, exactly: F sign mantissa exponent (mantissa as primitive int)."""
    x = float(x)
    if math.isnan(x) or math.isinf(x):
        return "FNonFinite"
    if x == 0.0:
        return "(F false 0 0)"
    m, e = math.frexp(abs(x))
    mi = int(m * (1 << 53))
    e -= 53
    while mi % 2 == 0:
        mi //= 2
        e += 1
    return f"(F {coq_bool(x < 0)} {mi} ({e}))"


def coq_q(x) -> str:
    """An exact rational (for inputs chosen by the generator): from Fraction / int / float (exact)."""
    fr = Fraction(x)
    n, d = fr.numerator, fr.denominator
    return f"(({n}) # {d})" if n < 0 else f"({n} # {d})"


def coq_fl_list(xs) -> str:
    return coq_list([coq_fl(x) for x in xs])


def coq_q_list(xs) -> str:
    return coq_list([coq_q(x) for x in xs])


def coq_bool_list(xs) -> str:
    return coq_list([coq_bool(x) for x in xs])


def coq_nat_list(xs) -> str:
    return coq_list([coq_nat(x) for x in xs]) + "%nat"


def coq_edges(es) -> str:
    return "[" + "; ".join(f"({int(a)}%nat,{int(b)}%nat)" for a, b in es) + "]"


def coq_pair(a, b) -> str:
    return f"({a}, {b})"


def coq_string(s: str) -> str:
    return '"' + s.replace('"', '""') + '"'


def coq_option(x, f) -> str:
    return "None" if x is None else f"(Some {f(x)})"


# ---------------------------------------------------------------------------------------------
# running things


def sh(cmd, timeout=1200, cwd=None, env=None):
    p = subprocess.run(
        cmd, shell=isinstance(cmd, str), cwd=cwd, env=env, stdout=subprocess.PIPE,
        stderr=subprocess.STDOUT, text=True, timeout=timeout,
    )
    return p.returncode, p.stdout


def coq_env():
    env = dict(os.environ)
    env.pop("COQPATH", None)
    return env


def ensure_makefile():
    mk = COQ / "Makefile"
    cp = COQ / "_CoqProject"
    if not mk.exists() or mk.stat().st_mtime < cp.stat().st_mtime:
        rc, out = sh("coq_makefile -f _CoqProject -o Makefile", cwd=COQ, timeout=120)
        if rc != 0:
            raise RuntimeError("coq_makefile failed:\n" + out)


def make_targets(targets, timeout=1500):
    """Full .vo build of the given targets (paths relative to coq/). Returns (ok, log)."""
    ensure_makefile()
    # serialise concurrent checks on the build directory
    import fcntl

    BUILD.mkdir(exist_ok=True)
    with open(BUILD / ".make.lock", "w") as lk:
        fcntl.flock(lk, fcntl.LOCK_EX)
        rc, out = sh(
            ["timeout", str(timeout), "make", "-j16", "--no-print-directory"] + list(targets),
            cwd=COQ, timeout=timeout + 30, env=coq_env(),
        )
    return rc == 0, out


def coqc_file(path: Path, extra_Q=(), timeout=900):
    args = ["timeout", str(timeout), "coqc", "-q", "-Q", str(COQ / "theories"), "Feems"]
    for d, name in extra_Q:
        args += ["-Q", str(d), name]
    args += ["-w", "-notation-overridden,-deprecated-hint-without-locality,-deprecated-syntactic-definition"]
    args.append(str(path))
    t0 = time.time()
    rc, out = sh(args, timeout=timeout + 30, cwd=path.parent, env=coq_env())
    return rc, out, time.time() - t0


def grep_forbidden():
    bad = []
    for p in sorted((COQ / "theories").rglob("*.v")):
        txt = p.read_text()
        # strip comments (non-nested is enough for our files; nested handled by loop)
        prev = None
        while prev != txt:
            prev = txt
            txt = re.sub(r"\(\*[^*(]*(?:\*(?!\))[^*(]*|\((?!\*)[^*(]*)*\*\)", " ", txt)
        for m in FORBIDDEN.finditer(txt):
            bad.append(f"{p.relative_to(COQ)}: {m.group(0)}")
    return bad


def print_assumptions(module: str, theorems, extra_Q=()):
    """Returns {theorem: [axioms]} as reported by Print Assumptions (empty list = closed)."""
    CASES.mkdir(parents=True, exist_ok=True)
    tag = module.replace(".", "_")
    f = CASES / f"assump_{tag}.v"
    lines = [f"Require Import {module}."]
    for th in theorems:
        lines.append(f'Goal True. idtac "@@BEGIN {th}". exact I. Qed.')
        lines.append(f"Print Assumptions {th}.")
        lines.append(f'Goal True. idtac "@@END {th}". exact I. Qed.')
    f.write_text("\n".join(lines) + "\n")
    rc, out, _ = coqc_file(f, extra_Q=extra_Q, timeout=600)
    res = {}
    if rc != 0:
        return None, out
    for th in theorems:
        m = re.search(r"@@BEGIN " + re.escape(th) + r"\n(.*?)@@END " + re.escape(th), out, re.S)
        if not m:
            return None, out
        body = m.group(1)
        if "Closed under the global context" in body:
            res[th] = []
        else:
            axs = re.findall(r"^([A-Za-z_][\w.']*)\s*:", body, re.M)
            res[th] = sorted(set(a for a in axs if a != "Axioms"))
    for ext in (".vo", ".glob", ".vok", ".vos"):
        try:
            f.with_suffix(ext).unlink()
        except FileNotFoundError:
            pass
    return res, out


# ---------------------------------------------------------------------------------------------
# case evaluation inside Coq


def eval_cases_in_coq(pid: str, requires: str, terms, shard=150, extra_Q=(), timeout=900):
    """terms: list of Gallina terms of type bool.  Returns (list of bool|None, total_seconds, logs).
    None = the shard failed to compile/evaluate (treated as disagreement)."""
    CASES.mkdir(parents=True, exist_ok=True)
    shards = [terms[i:i + shard] for i in range(0, len(terms), shard)]
    files = []
    for k, sh_terms in enumerate(shards):
        f = CASES / f"cases_{pid}_{os.getpid()}_{k}.v"
        body = [requires, "Import ListNotations."]
        for i, t in enumerate(sh_terms):
            body.append(f"Definition c{i} : bool := {t}.")
        names = "; ".join(f"c{i}" for i in range(len(sh_terms)))
        body.append(f"Definition results : list bool := [{names}].")
        body.append("Definition show (l : list bool) := l.")
        body.append("Eval vm_compute in show results.")
        f.write_text("\n".join(body) + "\n")
        files.append(f)
    results = []
    logs = []
    t0 = time.time()
    with cf.ThreadPoolExecutor(max_workers=min(16, max(1, len(files)))) as ex:
        outs = list(ex.map(lambda f: coqc_file(f, extra_Q=extra_Q, timeout=timeout), files))
    for f, sh_terms, (rc, out, dt) in zip(files, shards, outs):
        vals = None
        if rc == 0:
            m = re.search(r"=\s*\[(.*?)\]\s*:\s*list bool", out, re.S)
            if m:
                toks = re.findall(r"true|false", m.group(1))
                if len(toks) == len(sh_terms):
                    vals = [t == "true" for t in toks]
            elif len(sh_terms) == 0:
                vals = []
        if vals is None:
            logs.append(f"{f.name}: rc={rc}\n{out[-3000:]}")
            # find which case breaks: evaluate one by one is expensive; mark all unknown
            vals = [None] * len(sh_terms)
        results.extend(vals)
        for ext in (".v", ".vo", ".glob", ".vok", ".vos"):
            try:
                f.with_suffix(ext).unlink()
            except FileNotFoundError:
                pass
        try:
            (f.parent / ("." + f.stem + ".aux")).unlink()
        except FileNotFoundError:
            pass
    return results, time.time() - t0, logs


def eval_terms_show(pid: str, requires: str, term: str, extra_Q=(), timeout=300):
    """Evaluate one term with vm_compute and return Coq's raw output (for replays/diagnosis)."""
    CASES.mkdir(parents=True, exist_ok=True)
    f = CASES / f"show_{pid}_{os.getpid()}.v"
    f.write_text(f"{requires}\nImport ListNotations.\nEval vm_compute in ({term}).\n")
    rc, out, _ = coqc_file(f, extra_Q=extra_Q, timeout=timeout)
    for ext in (".v", ".vo", ".glob", ".vok", ".vos"):
        try:
            f.with_suffix(ext).unlink()
        except FileNotFoundError:
            pass
    return rc, out


# ---------------------------------------------------------------------------------------------
# known findings


def load_known_findings():
    p = VERIF / "known_findings.json"
    if not p.exists():
        return []
    return json.loads(p.read_text()).get("findings", [])


def canonical_hash(obj) -> str:
    return hashlib.sha256(json.dumps(obj, sort_keys=True, default=str).encode()).hexdigest()[:16]


class Rng(random.Random):
    """All random choices of a run derive from one seeded state."""

    def dyadic(self, lo, hi, den=8):
        return Fraction(self.randint(int(lo * den), int(hi * den)), den)

    def maybe(self, p=0.5):
        return self.random() < p


def to_float(x):
    return float(x)


def jsonable(x):
    import numpy as np

    if isinstance(x, Fraction):
        return {"fr": [x.numerator, x.denominator]}
    if isinstance(x, (np.floating,)):
        return float(x)
    if isinstance(x, (np.integer,)):
        return int(x)
    if isinstance(x, (np.bool_,)):
        return bool(x)
    if isinstance(x, np.ndarray):
        return [jsonable(v) for v in x.tolist()]
    if isinstance(x, dict):
        return {str(k): jsonable(v) for k, v in x.items()}
    if isinstance(x, (list, tuple)):
        return [jsonable(v) for v in x]
    if isinstance(x, float) and (math.isnan(x) or math.isinf(x)):
        return repr(x)
    return x


def unjson(x):
    if isinstance(x, dict):
        if set(x.keys()) == {"fr"}:
            return Fraction(x["fr"][0], x["fr"][1])
        return {k: unjson(v) for k, v in x.items()}
    if isinstance(x, list):
        return [unjson(v) for v in x]
    if x in ("nan", "inf", "-inf"):
        return float(x)
    return x
