"""Regeneration of data-dependent Gallina files from /repo's working tree (run on every check).

The files are written to build/gen/ (logical path FeemsGen); the theorem files over them are the
static coq/gen/*_gen.v, copied next to them and compiled against what the code says NOW."""
from __future__ import annotations

import math
import shutil
from fractions import Fraction
from pathlib import Path

import core


def dec(x):
    """a float cell -> exact decimal rational from its shortest round-tripping text; NaN -> None"""
    if x is None or (isinstance(x, float) and math.isnan(x)):
        return None
    return Fraction(repr(float(x)))


def qopt(x):
    return "None" if x is None else f"(Some {core.coq_q(x)})"


def sopt(x):
    return core.coq_string("" if (x is None or (isinstance(x, float) and math.isnan(x))) else str(x))


def gen_fuel_tables():
    import feems.fuel as F
    out = ["(* GENERATED on every run from feems.fuel as imported from /repo -- do not edit *)",
           "From Coq Require Import QArith String List.", "From Feems Require Import Model.Ghg.",
           "Import ListNotations.", "Open Scope Q_scope.", "Open Scope string_scope.", ""]
    info = {}
    for key in ("eu", "imo"):
        df = F._DF_GHG_FACTORS_DICTIONARY[key]
        rows = []
        for _, r in df.iterrows():
            cons = r["fuel_consumer_unit_class"] if "fuel_consumer_unit_class" in df.columns else None
            rows.append("  mkrow " + " ".join([sopt(r["pathway_name"]), sopt(r["fuel_class"]), qopt(dec(r["LCV"])),
                                               qopt(dec(r["CO2_WtT"])), sopt(cons), qopt(dec(r["Cf_CO2"])),
                                               qopt(dec(r["Cf_CH4"])), qopt(dec(r["Cf_N2O"])), qopt(dec(r["C_slip"]))]))
        out.append(f"Definition {key}_table : list row := [\n" + ";\n".join(rows) + "\n].\n")
        info[key + "_rows"] = len(rows)
    tn = [f"({t.value}%nat, {core.coq_string(n)})" for t, n in F._FUEL_TYPE_FUEL_EU_MARITIME_MAPPING.items()]
    on = [f"({o.value}%nat, {core.coq_string(n)})" for o, n in F._FUEL_CLASS_FUEL_EU_MARITIME_MAPPING.items()]
    cn = [f"({c.value}%nat, {core.coq_string(n)})" for c, n in F._FUEL_CONSUMER_CLASS_FUEL_EU_MARITIME_MAPPING.items()]
    out.append("Definition type_names : list (nat * string) := [" + "; ".join(tn) + "].")
    out.append("Definition origin_names : list (nat * string) := [" + "; ".join(on) + "].")
    out.append("Definition class_names : list (nat * string) := [" + "; ".join(cn) + "].")
    out.append("Definition class_enum_names : list (nat * string) := ["
               + "; ".join(f"({c.value}%nat, {core.coq_string(c.name)})" for c in F.FuelConsumerClassFuelEUMaritime) + "].")
    out.append(f"Definition natural_gas_type : nat := {F.TypeFuel.NATURAL_GAS.value}%nat.")
    out.append(f"Definition ice_class : nat := {F.FuelConsumerClassFuelEUMaritime.ICE.value}%nat.")
    out.append(f"Definition gwp_ch4 : Q := {core.coq_q(Fraction(repr(float(F._GWP100_CH4))))}.")
    out.append(f"Definition gwp_n2o : Q := {core.coq_q(Fraction(repr(float(F._GWP100_N2O))))}.")
    out.append(f"Definition gwp_co2 : Q := {core.coq_q(Fraction(repr(float(F._GWP100_CO2))))}.")
    out.append("Definition tables : ghg_tables := {| t_eu := eu_table; t_imo := imo_table; t_types := type_names; "
               "t_origins := origin_names; t_classes := class_names; t_class_enum := class_enum_names; t_ng := natural_gas_type; "
               "t_ice := ice_class; t_gwp_ch4 := gwp_ch4; t_gwp_n2o := gwp_n2o |}.")
    core.GEN.mkdir(parents=True, exist_ok=True)
    (core.GEN / "Gen_fuel_tables.v").write_text("\n".join(out) + "\n")
    return info


def gen_constants():
    import feems.constant as K
    from feems.types_for_feems import NOxCalculationMethod as M
    tiers = [M.TIER_1, M.TIER_2, M.TIER_3]
    out = ["(* GENERATED on every run from feems.constant as imported from /repo -- do not edit *)",
           "From Coq Require Import QArith List.", "Import ListNotations.", "Open Scope Q_scope.", ""]
    slow = [core.coq_q(Fraction(repr(float(K.nox_factor_imo_slow_speed_g_kWh[t.value])))) for t in tiers]
    fac = [core.coq_q(Fraction(repr(float(K.nox_factor_imo_medium_speed_g_hWh[t.value][0])))) for t in tiers]
    exp = [core.coq_q(Fraction(repr(float(K.nox_factor_imo_medium_speed_g_hWh[t.value][1])))) for t in tiers]
    out.append("Definition nox_slow : list Q := [" + "; ".join(slow) + "].")
    out.append("Definition nox_factor : list Q := [" + "; ".join(fac) + "].")
    out.append("Definition nox_exponent : list Q := [" + "; ".join(exp) + "].")
    out.append(f"Definition nox_slow_max_rpm : Q := {core.coq_q(Fraction(repr(float(K.nox_tier_slow_speed_max_rpm))))}.")
    core.GEN.mkdir(parents=True, exist_ok=True)
    (core.GEN / "Gen_constants.v").write_text("\n".join(out) + "\n")
    return {"tiers": [t.value for t in tiers]}


def compile_gen(files, timeout=900):
    """compile generated data files and the static theorem files over them; returns (ok, log)"""
    logs = []
    for f in files:
        src = Path(f)
        if not src.is_absolute():
            src = core.COQ / "gen" / f
            shutil.copy(src, core.GEN / src.name)
            src = core.GEN / src.name
        rc, out, _ = core.coqc_file(src, extra_Q=[(core.GEN, "FeemsGen")], timeout=timeout)
        logs.append(f"== {src.name} rc={rc}\n{out[-3000:]}")
        if rc != 0:
            return False, "\n".join(logs)
    return True, "\n".join(logs)


def gen_columns():
    """names on both sides of the result export"""
    import dataclasses
    from fractions import Fraction as Fr

    import numpy as np

    import MachSysS.feems_result_pb2 as rp
    import plantgen as pg
    import sysrun
    from MachSysS.convert_feems_result_to_proto import _COLUMN_NAMES
    from feems.types_for_feems import FEEMSResult
    sl = lambda xs: "[" + "; ".join(core.coq_string(x) for x in xs) + "]"
    # the detail tables as the code builds them now: run a tiny electric and a tiny mechanical plant
    ep = {"comps": [{"name": "g", "cls": "genset", "swb": 1, "rated": Fr(1000)}, {"name": "l", "cls": "load", "swb": 1, "rated": Fr(500)}],
          "breakers": [], "swbs": [1]}
    ei = {"n": 2, "sts": None, "dt": [Fr(60), Fr(60)],
          "comps": [{"status": [True, True], "lsm": [Fr(0)] * 2, "pin": [Fr(0)] * 2}, {"pin": [Fr(100), Fr(200)], "set": "from_output"}]}
    _, _, eres = sysrun.run_electric(ep, ei)
    mp = {"mech": [{"name": "me", "cls": "main_engine", "line": 1, "rated": Fr(2000)}, {"name": "p", "cls": "propeller", "line": 1, "rated": Fr(2000)}],
          "lines": [1]}
    mi = {"n": 2, "dt": [Fr(60), Fr(60)], "comps": [{"status": [True, True]}, {"out": [Fr(500), Fr(800)], "set": "by_output"}]}
    _, _, mres = sysrun.run_mechanical(mp, mi)
    out = ["(* GENERATED on every run from the code in /repo -- do not edit *)", "From Coq Require Import String List.",
           "Import ListNotations.", "Open Scope string_scope.", ""]
    out.append("Definition result_dataclass_fields : list string := " + sl([f.name for f in dataclasses.fields(FEEMSResult)]) + ".")
    out.append("Definition feems_result_message_fields : list string := " + sl([f.name for f in rp.FeemsResult.DESCRIPTOR.fields]) + ".")
    out.append("Definition per_component_message_fields : list string := " + sl([f.name for f in rp.ResultPerComponent.DESCRIPTOR.fields]) + ".")
    out.append("Definition column_names : list (string * string) := [" + "; ".join(f"({core.coq_string(k)}, {core.coq_string(v)})" for k, v in _COLUMN_NAMES.items()) + "].")
    out.append("Definition electric_detail_columns : list string := " + sl([str(c) for c in eres.detail_result.columns]) + ".")
    out.append("Definition mechanical_detail_columns : list string := " + sl([str(c) for c in mres.detail_result.columns]) + ".")
    core.GEN.mkdir(parents=True, exist_ok=True)
    (core.GEN / "Gen_columns.v").write_text("\n".join(out) + "\n")
    return {"result_fields": len(dataclasses.fields(FEEMSResult)), "message_fields": len(rp.FeemsResult.DESCRIPTOR.fields)}


# ---- C13: enum numbering on the two sides of the system description -------------------------------

_ENUM_PAIRS = [("TypeFuel", "FuelType"), ("FuelOrigin", "FuelOrigin"), ("EngineCycleType", "EngineCycleType"),
               ("EmissionType", "EmissionType"), ("TypeComponent", "ComponentType"), ("TypePower", "PowerType")]


def _feems_enums():
    from feems.fuel import FuelOrigin, TypeFuel
    from feems.types_for_feems import EmissionType, EngineCycleType, NOxCalculationMethod, TypeComponent, TypePower
    d = {e.__name__: [(m.name, int(m.value)) for m in e] for e in (TypeFuel, FuelOrigin, EngineCycleType, EmissionType, TypeComponent, TypePower)}
    return d, [m.name for m in NOxCalculationMethod]


def _pb_enums():
    import MachSysS.system_structure_pb2 as proto
    found = {}

    def walk(container):
        for e in container.enum_types_by_name.values() if hasattr(container, "enum_types_by_name") else []:
            found[e.name] = [(v.name, int(v.number)) for v in e.values]
        for m in (container.message_types_by_name.values() if hasattr(container, "message_types_by_name") else container.nested_types):
            for e in m.enum_types:
                found[e.name] = [(v.name, int(v.number)) for v in e.values]
            walk(m)
    walk(proto.DESCRIPTOR)
    return found


def _proto_text_enums():
    import re
    text = (core.REPO / "machinery-system-structure" / "proto" / "system_structure.proto").read_text()
    text = re.sub(r"//[^\n]*", "", text)
    out = {}
    for m in re.finditer(r"enum\s+(\w+)\s*\{([^}]*)\}", text):
        out[m.group(1)] = [(a, int(b)) for a, b in re.findall(r"(\w+)\s*=\s*(\d+)\s*;", m.group(2))]
    return out


def gen_enums():
    fe, nox = _feems_enums()
    pb, tx = _pb_enums(), _proto_text_enums()
    pl = lambda l: "[" + "; ".join(f"({core.coq_string(n)}, {v}%nat)" for n, v in l) + "]"
    out = ["(* GENERATED on every run: FEEMS enums as imported from /repo, protobuf enums from the compiled descriptors the",
           "   converters import and from the text of system_structure.proto -- do not edit *)",
           "From Coq Require Import String List.", "Import ListNotations.", "Open Scope string_scope.", ""]
    for f, p in _ENUM_PAIRS:
        out.append(f"Definition feems_{f} : list (string * nat) := {pl(fe[f])}.")
        out.append(f"Definition pb_{p} : list (string * nat) := {pl(pb.get(p, []))}.")
        out.append(f"Definition text_{p} : list (string * nat) := {pl(tx.get(p, []))}.")
    out.append("Definition feems_nox_names : list string := [" + "; ".join(core.coq_string(n) for n in nox) + "].")
    out.append(f"Definition pb_NOx : list (string * nat) := {pl(pb.get('NOxCalculationMethod', []))}.")
    out.append(f"Definition text_NOx : list (string * nat) := {pl(tx.get('NOxCalculationMethod', []))}.")
    core.GEN.mkdir(parents=True, exist_ok=True)
    (core.GEN / "Gen_enums.v").write_text("\n".join(out) + "\n")
    return {"enums": {f: len(fe[f]) for f, _ in _ENUM_PAIRS}, "nox_names": nox}


def enum_mismatches():
    """(enum, member, why) for every member whose number or name differs between the two sides"""
    fe, nox = _feems_enums()
    pb, tx = _pb_enums(), _proto_text_enums()
    bad = []
    none = lambda n: n.startswith("NONE")
    for f, p in _ENUM_PAIRS:
        bynum = {v: n for n, v in pb.get(p, [])}
        for n, v in fe[f]:
            if f == "TypePower" and v > 4:
                continue
            if v not in bynum:
                bad.append((f, n, f"{f}.{n} = {v} has no member with that number in the protobuf enum {p}: the encoder writes a number the decoder cannot name"))
            elif bynum[v] != n and not (none(n) and none(bynum[v])):
                bad.append((f, n, f"{f}.{n} = {v} is {p}.{bynum[v]} in the protobuf description: the value travels by number, so {n} comes back as {bynum[v]}"))
        if pb.get(p) != tx.get(p):
            bad.append((p, "*", f"the compiled descriptors of {p} differ from system_structure.proto"))
    pbn = [n for n, _ in pb.get("NOxCalculationMethod", [])]
    for n in nox:
        if n not in pbn:
            bad.append(("NOxCalculationMethod", n, f"NOx method {n} has no protobuf member of that name: the encoder raises for it"))
    for n in pbn:
        if n not in nox:
            bad.append(("NOxCalculationMethod", n, f"protobuf NOx method {n} has no FEEMS member of that name: the decoder raises for it"))
    return bad
