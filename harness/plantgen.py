"""One plant description feeds both sides: build_*() constructs the real FEEMS objects from /repo's
working tree, the per-property plug-ins write the same description as Gallina terms.

A component description is a dict:
  {"name", "cls", "swb" (electric) / "line" (mechanical), "rated", ... class specific ...}
cls in: genset, genset_df (dual fuel), genset_rect (with rectifier), generator, fuelcell, coges,
        battery, battery_sys, supercap, supercap_sys, ptipto, drive, load,
        main_engine, main_engine_gb, propeller, mech_load
Curves are [[load, value], ...] (2-6 points) or [value].
"""
from __future__ import annotations

from fractions import Fraction

import numpy as np

SOURCE_CLS = ("genset", "genset_df", "genset_rect", "generator", "fuelcell", "coges")
STORAGE_CLS = ("battery", "battery_sys", "supercap", "supercap_sys")
CONSUMER_CLS = ("drive", "load")


def kind_of(cls):
    if cls in SOURCE_CLS or cls == "bad_source":
        return "Source"
    if cls == "bad_storage":
        return "Storage"
    if cls == "bad_pti":
        return "PtiPto"
    if cls in STORAGE_CLS:
        return "Storage"
    if cls == "ptipto":
        return "PtiPto"
    return "Consumer"


def curve(c):
    c = [[float(x) for x in p] if isinstance(p, (list, tuple)) else float(p) for p in c]
    if len(c) == 1 and not isinstance(c[0], list):
        return np.array([c[0]])
    return np.array(c, dtype=float)


def F(x):
    return float(x)


def fuel_enum(name):
    from feems.fuel import TypeFuel
    return TypeFuel[name]


def origin_enum(name):
    from feems.fuel import FuelOrigin
    return FuelOrigin[name]


def build_engine(d, type_name="AUXILIARY_ENGINE"):
    from feems.components_model.component_mechanical import Engine, EngineDualFuel
    from feems.types_for_feems import (EmissionCurve, EmissionCurvePoint, EmissionType,
                                       EngineCycleType, NOxCalculationMethod, TypeComponent)
    e = d.get("engine", {})
    em = None
    if e.get("emissions"):
        em = [EmissionCurve(points_per_kwh=[EmissionCurvePoint(load_ratio=F(p[0]), emission_g_per_kwh=F(p[1]))
                                            for p in pts], emission=EmissionType[sp])
              for sp, pts in e["emissions"].items()]
    kw = dict(
        type_=TypeComponent[type_name], name=d["name"] + "_eng", rated_power=F(e.get("rated", d["rated"])),
        rated_speed=F(e.get("speed", 900)), bsfc_curve=curve(e.get("bsfc", [[0.25, 220], [0.5, 200], [1.0, 190]])),
        fuel_type=fuel_enum(e.get("fuel", "DIESEL")), fuel_origin=origin_enum(e.get("origin", "FOSSIL")),
        nox_calculation_method=NOxCalculationMethod[e.get("nox", "TIER_2")], emissions_curves=em,
        engine_cycle_type=EngineCycleType[e.get("cycle", "DIESEL")],
    )
    if e.get("pilot"):
        return EngineDualFuel(bspfc_curve=curve(e["pilot"]["bspfc"]), pilot_fuel_type=fuel_enum(e["pilot"].get("fuel", "DIESEL")),
                              pilot_fuel_origin=origin_enum(e["pilot"].get("origin", "FOSSIL")), **kw)
    return Engine(**kw)


def build_electric_component(d):
    """Returns the FEEMS object of one electric-side component."""
    from feems.components_model.component_base import BasicComponent
    from feems.components_model.component_electric import (COGES, PTIPTO, Battery, BatterySystem,
                                                           ElectricComponent, ElectricMachine, FuelCell,
                                                           FuelCellSystem, Genset, SerialSystemElectric,
                                                           SuperCapacitor, SuperCapacitorSystem)
    from feems.components_model.component_mechanical import COGAS
    from feems.types_for_feems import NOxCalculationMethod, TypeComponent, TypePower

    cls, name, swb, rated = d["cls"], d["name"], d["swb"], F(d["rated"])
    eff = curve(d.get("eff", [0.95]))
    if cls in ("genset", "genset_df", "genset_rect"):
        eng = build_engine(d)
        # d["gen_speed"]: a generator whose rated speed is not the engine's (geared set, or simply left at 0)
        gen = ElectricMachine(type_=TypeComponent.GENERATOR, name=name + "_gen", rated_power=rated,
                              rated_speed=F(d.get("gen_speed", d.get("engine", {}).get("speed", 900))), power_type=TypePower.POWER_SOURCE,
                              switchboard_id=swb, eff_curve=eff)
        rect = None
        if cls == "genset_rect":
            rect = ElectricComponent(type_=TypeComponent.RECTIFIER, name=name + "_rect", rated_power=rated,
                                     eff_curve=curve(d.get("rect_eff", [0.98])), switchboard_id=swb)
        return Genset(name, eng, gen, rect)
    if cls == "generator":
        return ElectricMachine(type_=TypeComponent.GENERATOR, name=name, rated_power=rated, rated_speed=900.0,
                               power_type=TypePower.POWER_SOURCE, switchboard_id=swb, eff_curve=eff)
    if cls == "fuelcell":
        fc = d.get("fc", {})
        nmod = int(fc.get("modules", 1))
        # fc["stack_factor"]: the stack (modules x module rating) sized unlike the converter that rates the system
        module = FuelCell(name=name + "_mod", rated_power=F(Fraction(d["rated"]) * Fraction(fc.get("stack_factor", 1)) / nmod),
                          eff_curve=curve(fc.get("eff", [[0.1, 0.6], [0.5, 0.55], [1.0, 0.45]])),
                          fuel_type=fuel_enum(fc.get("fuel", "HYDROGEN")),
                          fuel_origin=origin_enum(fc.get("origin", "RENEWABLE_NON_BIO")))
        conv = ElectricComponent(type_=TypeComponent.POWER_CONVERTER, name=name + "_conv", rated_power=rated,
                                 eff_curve=eff, power_type=TypePower.POWER_TRANSMISSION, switchboard_id=swb)
        return FuelCellSystem(name, module, conv, swb, number_modules=nmod)
    if cls == "coges":
        cg = d.get("cogas", {})
        kw = {}
        if cg.get("gt_curve"):
            kw = dict(gas_turbine_power_curve=curve(cg["gt_curve"]), steam_turbine_power_curve=curve(cg["st_curve"]))
        if cg.get("emissions"):
            from feems.types_for_feems import EmissionCurve, EmissionCurvePoint, EmissionType
            kw["emissions_curves"] = [EmissionCurve(points_per_kwh=[EmissionCurvePoint(load_ratio=F(p[0]), emission_g_per_kwh=F(p[1]))
                                                                    for p in pts], emission=EmissionType[sp])
                                      for sp, pts in cg["emissions"].items()]
        cogas = COGAS(name=name + "_cogas", rated_power=F(cg.get("rated", d["rated"])),
                      eff_curve=curve(cg.get("eff", [[0.25, 0.35], [0.5, 0.45], [1.0, 0.52]])),
                      rated_speed=F(cg.get("speed", 3000)), fuel_type=fuel_enum(cg.get("fuel", "NATURAL_GAS")),
                      fuel_origin=origin_enum(cg.get("origin", "FOSSIL")),
                      nox_calculation_method=NOxCalculationMethod[cg.get("nox", "TIER_3")], **kw)
        gen = ElectricMachine(type_=TypeComponent.GENERATOR, name=name + "_gen", rated_power=rated,
                              rated_speed=F(cg.get("speed", 3000)), power_type=TypePower.POWER_SOURCE,
                              switchboard_id=swb, eff_curve=eff)
        return COGES(name, cogas, gen)
    if cls in ("battery", "battery_sys"):
        b = d.get("bat", {})
        cap = F(b.get("kwh", 1000))
        # pack power = pack_factor x rating (a converter sized unlike its pack), charging power = charge_factor x that
        pf = Fraction(b.get("pack_factor", 1)) if cls == "battery_sys" else Fraction(1)
        rate = F(Fraction(d["rated"]) * pf / Fraction(b.get("kwh", 1000)))
        bat = Battery(name=name if cls == "battery" else name + "_bat", rated_capacity_kwh=cap,
                      charging_rate_c=F(Fraction(d["rated"]) * pf * Fraction(b.get("charge_factor", 1)) / Fraction(b.get("kwh", 1000))),
                      discharge_rate_c=rate, soc0=F(b.get("soc0", 0.5)),
                      eff_charging=F(b.get("eff_c", 0.975)), eff_discharging=F(b.get("eff_d", 0.975)),
                      switchboard_id=swb)
        if cls == "battery":
            return bat
        conv = ElectricComponent(type_=TypeComponent.POWER_CONVERTER, name=name + "_conv", rated_power=rated,
                                 eff_curve=eff, power_type=TypePower.POWER_TRANSMISSION, switchboard_id=swb)
        return BatterySystem(name, bat, conv, swb)
    if cls in ("supercap", "supercap_sys"):
        b = d.get("bat", {})
        sc = SuperCapacitor(name=name if cls == "supercap" else name + "_sc", rated_capacity_wh=F(b.get("wh", 5000)),
                            rated_power=rated, soc0=F(b.get("soc0", 0.5)), eff_charging=F(b.get("eff_c", 0.995)),
                            eff_discharging=F(b.get("eff_d", 0.995)), switchboard_id=swb)
        if cls == "supercap":
            return sc
        conv = ElectricComponent(type_=TypeComponent.POWER_CONVERTER, name=name + "_conv", rated_power=rated,
                                 eff_curve=eff, power_type=TypePower.POWER_TRANSMISSION, switchboard_id=swb)
        return SuperCapacitorSystem(name, sc, conv, swb)
    if cls in ("ptipto", "drive"):
        stages = d.get("stages") or [{"rated": d["rated"], "eff": d.get("eff", [0.95])}]
        comps = []
        for k, st in enumerate(stages):
            tc = [TypeComponent.TRANSFORMER, TypeComponent.INVERTER, TypeComponent.ELECTRIC_MOTOR][min(k, 2)]
            if st.get("kind"):           # explicit stage kinds (C13)
                pt = TypePower.PTI_PTO if cls == "ptipto" else TypePower.POWER_CONSUMER
                if st["kind"] == "machine":
                    comps.append(ElectricMachine(type_=TypeComponent[st.get("type", "SYNCHRONOUS_MACHINE")], name=f"{name}_s{k}",
                                                 rated_power=F(st["rated"]), rated_speed=F(st.get("speed", 1000)),
                                                 power_type=pt, switchboard_id=swb, eff_curve=curve(st["eff"])))
                else:
                    default = {"transformer": "TRANSFORMER", "converter": "INVERTER", "breaker": "CIRCUIT_BREAKER"}[st["kind"]]
                    comps.append(ElectricComponent(type_=TypeComponent[st.get("type", default)], name=f"{name}_s{k}",
                                                   rated_power=F(st["rated"]), eff_curve=curve(st["eff"]),
                                                   power_type=TypePower.POWER_TRANSMISSION, switchboard_id=swb))
            elif k == len(stages) - 1:
                comps.append(ElectricMachine(type_=TypeComponent.SYNCHRONOUS_MACHINE, name=f"{name}_s{k}",
                                             rated_power=F(st["rated"]), rated_speed=1000.0,
                                             power_type=TypePower.PTI_PTO if cls == "ptipto" else TypePower.POWER_CONSUMER,
                                             switchboard_id=swb, eff_curve=curve(st["eff"])))
            else:
                comps.append(ElectricComponent(type_=tc, name=f"{name}_s{k}", rated_power=F(st["rated"]),
                                               eff_curve=curve(st["eff"]), power_type=TypePower.POWER_TRANSMISSION,
                                               switchboard_id=swb))
        if cls == "ptipto":
            return PTIPTO(name, comps, swb, rated, F(d.get("speed", 1000)), shaft_line_id=int(d.get("line", 1)))
        return SerialSystemElectric(TypeComponent.PROPULSION_DRIVE, name, TypePower.POWER_CONSUMER, comps, swb, rated,
                                    F(d.get("speed", 1000)))
    if cls == "bad_source":      # declared a power source but not one of the classes allowed for that role
        return ElectricComponent(type_=TypeComponent.GENERATOR, name=name, rated_power=rated, eff_curve=eff,
                                 power_type=TypePower.POWER_SOURCE, switchboard_id=swb)
    if cls == "bad_storage":     # declared energy storage but not a battery / supercapacitor class
        return ElectricComponent(type_=TypeComponent.BATTERY_SYSTEM, name=name, rated_power=rated, eff_curve=eff,
                                 power_type=TypePower.ENERGY_STORAGE, switchboard_id=swb)
    if cls == "bad_pti":         # typed PTI/PTO system but not a PTIPTO instance
        return ElectricComponent(type_=TypeComponent.PTI_PTO_SYSTEM, name=name, rated_power=rated, eff_curve=eff,
                                 power_type=TypePower.PTI_PTO, switchboard_id=swb)
    if cls == "bad_pti_load":    # typed PTI/PTO system, not a PTIPTO instance, and declared a consumer
        return ElectricComponent(type_=TypeComponent.PTI_PTO_SYSTEM, name=name, rated_power=rated, eff_curve=eff,
                                 power_type=TypePower.POWER_CONSUMER, switchboard_id=swb)
    if cls == "load":
        return ElectricComponent(type_=TypeComponent.OTHER_LOAD, name=name, rated_power=rated, eff_curve=eff,
                                 power_type=TypePower.POWER_CONSUMER, switchboard_id=swb)
    raise ValueError(cls)


def build_mechanical_component(d):
    from feems.components_model.component_base import BasicComponent
    from feems.components_model.component_mechanical import (MainEngineForMechanicalPropulsion,
                                                             MainEngineWithGearBoxForMechanicalPropulsion,
                                                             MechanicalPropulsionComponent)
    from feems.types_for_feems import TypeComponent, TypePower
    cls, name, line, rated = d["cls"], d["name"], int(d["line"]), F(d["rated"])
    if cls == "main_engine":
        return MainEngineForMechanicalPropulsion(name, build_engine(d, "MAIN_ENGINE"), shaft_line_id=line)
    if cls == "main_engine_gb":
        gb = BasicComponent(type_=TypeComponent.GEARBOX, power_type=TypePower.POWER_TRANSMISSION, name=name + "_gb",
                            rated_power=rated, eff_curve=curve(d.get("gb_eff", [0.98])))
        return MainEngineWithGearBoxForMechanicalPropulsion(name, build_engine(d, "MAIN_ENGINE"), gb, shaft_line_id=line)
    if cls in ("propeller", "mech_load"):
        tc = TypeComponent.PROPELLER_LOAD if cls == "propeller" else TypeComponent.OTHER_MECHANICAL_LOAD
        return MechanicalPropulsionComponent(tc, TypePower.POWER_CONSUMER, name, rated, curve(d.get("eff", [1.0])),
                                             shaft_line_id=line)
    raise ValueError(cls)


def build_electric_system(plant):
    """plant = {"comps": [...], "breakers": [[a,b],...]} -> (system, [objects in comps order])"""
    from feems.system_model import ElectricPowerSystem
    objs = [build_electric_component(d) for d in plant["comps"]]
    sysm = ElectricPowerSystem("sys", objs, [tuple(b) for b in plant["breakers"]])
    return sysm, objs


def apply_electric_inputs(sysm, objs, plant, inp):
    """inp = {"n", "sts": rows or None, "comps": [{"status","lsm","pin","set"}...]}.
    Every array handed over is a fresh float/bool array."""
    from feems.components_model.utility import IntegrationMethod
    n = inp["n"]
    dt = inp.get("dt")
    # inp["alias"]: series with equal values are handed over as ONE ndarray object (a caller reusing e.g. its
    # zero profile for several components); otherwise every array is fresh
    cache = {}

    def arr_of(values, dtype):
        a = np.array(values, dtype=dtype)
        if not inp.get("alias"):
            return a
        key = (np.dtype(dtype).str, a.tobytes())
        return cache.setdefault(key, a)
    if dt is None:
        sysm.set_time_interval(np.full(n, 60.0), IntegrationMethod.sum_with_time)
    else:
        # inp["int_dt"]: whole-second intervals handed over as an integer array
        sysm.set_time_interval(np.array([int(x) for x in dt], dtype=int) if inp.get("int_dt") and all(x == int(x) for x in dt)
                               else np.array([float(x) for x in dt], dtype=float), IntegrationMethod.sum_with_time)
    if plant["breakers"] and inp.get("sts") is not None:
        # the front ends pass numeric 0/1 matrices (np.ones(...)); inp["numeric_sts"] does the same
        sysm.set_bus_tie_status_all(np.array(inp["sts"], dtype=float if inp.get("numeric_sts") else bool).reshape(n, len(plant["breakers"])))
    for d, o, ci in zip(plant["comps"], objs, inp["comps"]):
        k = kind_of(d["cls"])
        if k == "Consumer":
            arr = arr_of([float(x) for x in ci["pin"]], float)
            how = ci.get("set", "input")
            if how == "from_output":
                o.set_power_input_from_output(arr)
            else:
                o.power_input = arr
        else:
            o.status = arr_of(ci["status"], bool)
            # inp["int_lsm"]: sharing modes that are all 0/1 handed over as an integer array (np.zeros(n, dtype=int))
            if inp.get("int_lsm") and all(x == int(x) for x in ci["lsm"]):
                o.load_sharing_mode = arr_of([int(x) for x in ci["lsm"]], int)
            else:
                o.load_sharing_mode = arr_of([float(x) for x in ci["lsm"]], float)
            if k in ("PtiPto", "Storage"):
                # a unit that balances over the whole series needs no input: inp["unset_balancing_input"] leaves it as constructed
                if inp.get("unset_balancing_input") and not any(ci["lsm"]) and not any(ci["pin"]):
                    continue
                arr = arr_of([float(x) for x in ci["pin"]], float)
                if ci.get("set") == "from_output":
                    o.set_power_input_from_output(arr)
                else:
                    o.power_input = arr
    if inp.get("matrix_api"):
        set_status_through_matrix_api(sysm, objs, plant, inp)


def set_status_through_matrix_api(sysm, objs, plant, inp):
    """the statuses (and sharing modes) set once more, this time through the per-switchboard matrix setters
    ([N x n]: one column per component of the power type, in the switchboard's own order)"""
    from feems.types_for_feems import TypePower
    by_obj = {id(o): ci for o, ci in zip(objs, inp["comps"])}
    for sid, swb in sysm.switchboards.items():
        for pt in (TypePower.POWER_SOURCE, TypePower.PTI_PTO, TypePower.ENERGY_STORAGE):
            comps = swb.component_by_power_type[pt.value]
            if not comps:
                continue
            st = np.array([by_obj[id(c)]["status"] for c in comps], dtype=bool).T
            lsm = np.array([[float(x) for x in by_obj[id(c)]["lsm"]] for c in comps], dtype=float).T
            if inp.get("int_lsm") and (lsm == lsm.astype(int)).all():
                lsm = lsm.astype(int)
            sysm.set_status_by_switchboard_id_power_type(sid, pt, st)
            sysm.set_load_sharing_mode_power_sources_by_switchboard_id_power_type(sid, pt, lsm)


# ---------------------------------------------------------------------------------------------
# random plants (exact stream: small dyadic numbers so that sums and comparisons are exact in binary64)


def gen_electric_plant(rng, max_swb=5, allow_ps=True, source_classes=SOURCE_CLS, rich=False):
    nswb = rng.choice([1, 1, 2, 2, 3, 3, 4, 5][: max(2, max_swb + 3)])
    nswb = min(nswb, max_swb)
    swbs = sorted(rng.sample(range(1, 9), nswb))
    comps = []
    idx = 0
    for s in swbs:
        nsrc = rng.choice([1, 1, 2, 2, 3])
        has_storage = allow_ps and rng.random() < 0.45
        if has_storage and rng.random() < 0.15:
            nsrc = 0  # a switchboard fed by storage only
        for _ in range(nsrc):
            idx += 1
            comps.append({"name": f"src{idx}", "cls": rng.choice(source_classes), "swb": s,
                          "rated": Fraction(rng.randint(2, 40) * 50)})
        if has_storage:
            idx += 1
            cls = rng.choice(STORAGE_CLS)
            comps.append({"name": f"sto{idx}", "cls": cls, "swb": s, "rated": Fraction(rng.randint(2, 20) * 50),
                          "bat": {"kwh": 1000, "wh": 5000, "pack_factor": rng.choice([1, 1, Fraction(1, 2), 2, Fraction(5, 4)]),
                                  "charge_factor": rng.choice([1, 1, Fraction(1, 2), 2])}})
        if allow_ps and rng.random() < 0.3:
            idx += 1
            comps.append({"name": f"pti{idx}", "cls": "ptipto", "swb": s, "rated": Fraction(rng.randint(2, 20) * 50)})
        for _ in range(rng.choice([0, 1, 1, 2])):
            idx += 1
            comps.append({"name": f"con{idx}", "cls": rng.choice(CONSUMER_CLS), "swb": s,
                          "rated": Fraction(rng.randint(4, 60) * 50)})
    if not any(kind_of(c["cls"]) == "Consumer" for c in comps):
        idx += 1
        comps.append({"name": f"con{idx}", "cls": rng.choice(CONSUMER_CLS), "swb": rng.choice(swbs),
                      "rated": Fraction(rng.randint(4, 60) * 50)})
    # breakers: arbitrary multigraph, arbitrary order and orientation; a system with several
    # switchboards needs at least one breaker (C20)
    breakers = []
    if nswb > 1:
        shape = rng.choice(["chain", "star", "ring", "random", "random"])
        if shape == "chain":
            order = swbs[:]
            rng.shuffle(order)
            breakers = [[order[i], order[i + 1]] for i in range(nswb - 1)]
        elif shape == "star":
            hub = rng.choice(swbs)
            breakers = [[hub, s] for s in swbs if s != hub]
        elif shape == "ring":
            order = swbs[:]
            rng.shuffle(order)
            breakers = [[order[i], order[(i + 1) % nswb]] for i in range(nswb if nswb > 2 else 1)]
        else:
            breakers = [rng.sample(swbs, 2) for _ in range(rng.randint(1, nswb + 1))]
        rng.shuffle(breakers)
        breakers = [[b, a] if rng.random() < 0.5 else [a, b] for a, b in breakers]
    rng.shuffle(comps)
    return {"comps": comps, "breakers": breakers, "swbs": swbs}


def gen_electric_inputs(rng, plant, n=None, mixed_modes=True):
    n = n or rng.randint(1, 8)
    nb = len(plant["breakers"])
    sts = None
    if nb:
        row = [rng.random() < 0.7 for _ in range(nb)]
        sts = []
        pf = rng.choice([0.0, 0.15, 0.4])
        for t in range(n):
            if t:
                row = [(not c) if rng.random() < pf else c for c in row]
            sts.append(list(row))
    comps = []
    for d in plant["comps"]:
        k = kind_of(d["cls"])
        rated = Fraction(d["rated"])
        if k == "Consumer":
            mode = rng.choice(["const", "series", "series", "zero"])
            if mode == "zero":
                pin = [Fraction(0)] * n
            elif mode == "const":
                pin = [Fraction(rng.randint(0, 64), 64) * rated] * n
            else:
                pin = [Fraction(rng.randint(0, 64), 64) * rated if rng.random() < 0.85 else Fraction(0) for _ in range(n)]
            comps.append({"pin": pin, "set": rng.choice(["input", "input", "from_output"])})
            continue
        p_on = rng.choice([1.0, 0.9, 0.7, 0.4])
        status = [rng.random() < p_on for _ in range(n)]
        if k == "Source":
            m = rng.choice(["sym", "sym", "sym", "fixed", "mixed"]) if mixed_modes else "sym"
            if m == "sym":
                lsm = [Fraction(0)] * n
            elif m == "fixed":
                v = rng.choice([Fraction(1, 4), Fraction(1, 2), Fraction(3, 4), Fraction(1)])
                lsm = [v] * n
            else:
                lsm = [rng.choice([Fraction(0), Fraction(0), Fraction(1, 2), Fraction(3, 4), Fraction(1, 8)]) for _ in range(n)]
            comps.append({"status": status, "lsm": lsm, "pin": [Fraction(0)] * n})
        else:
            m = rng.choice(["balancing", "given", "mixed"]) if mixed_modes else "given"
            if m == "balancing":
                lsm = [Fraction(0)] * n
            elif m == "given":
                lsm = [Fraction(1)] * n
            else:
                lsm = [Fraction(rng.randint(0, 1)) for _ in range(n)]
            pin = [Fraction(rng.randint(-32, 32), 32) * rated if l == 1 else Fraction(0) for l in lsm]
            if rng.random() < 0.2:
                pin = [Fraction(0)] * n        # held at zero whenever its power is given
            comps.append({"status": status, "lsm": lsm, "pin": pin})
    return {"n": n, "sts": sts, "comps": comps}


# ---------------------------------------------------------------------------------------------
# mechanical systems


def build_mechanical_system(plant):
    """plant = {"mech": [component dicts with "line"]} -> (system, objects)"""
    from feems.system_model import MechanicalPropulsionSystem
    objs = []
    for d in plant["mech"]:
        objs.append(build_electric_component(d) if d["cls"] == "ptipto" else build_mechanical_component(d))
    return MechanicalPropulsionSystem("mech", objs), objs


def gen_mechanical_plant(rng, max_lines=3, pti_prob=0.6):
    nl = rng.randint(1, max_lines)
    lines = sorted(rng.sample(range(1, 6), nl))
    comps = []
    k = 0
    for ln in lines:
        for _ in range(rng.randint(1, 3)):
            k += 1
            comps.append({"name": f"me{k}", "cls": rng.choice(["main_engine", "main_engine_gb"]), "line": ln,
                          "rated": Fraction(rng.randint(4, 40) * 250), "gb_eff": [Fraction(rng.randint(60, 64), 64)]})
        if rng.random() < pti_prob:
            k += 1
            comps.append({"name": f"pti{k}", "cls": "ptipto", "line": ln, "swb": 1, "rated": Fraction(rng.randint(2, 12) * 250),
                          "eff": [Fraction(rng.randint(56, 64), 64)]})
        for _ in range(rng.randint(1, 2)):
            k += 1
            comps.append({"name": f"ld{k}", "cls": rng.choice(["propeller", "mech_load"]), "line": ln,
                          "rated": Fraction(rng.randint(8, 60) * 250), "eff": [Fraction(rng.randint(56, 64), 64)]})
    rng.shuffle(comps)
    return {"mech": comps, "lines": lines}


def gen_mechanical_inputs(rng, plant, n=None):
    n = n or rng.randint(1, 8)
    out = []
    for d in plant["mech"]:
        rated = Fraction(d["rated"])
        if d["cls"] in ("main_engine", "main_engine_gb"):
            p_on = rng.choice([1.0, 0.8, 0.5])
            out.append({"status": [rng.random() < p_on for _ in range(n)]})
        elif d["cls"] == "ptipto":
            full = [rng.random() < 0.25 for _ in range(n)] if rng.random() < 0.6 else [False] * n
            out.append({"shaft": [Fraction(rng.randint(-32, 32), 32) * rated for _ in range(n)], "full": full,
                        "set": rng.choice(["by_output", "by_output", "by_input"])})
        else:
            out.append({"out": [Fraction(rng.randint(0, 48), 64) * rated if rng.random() < 0.9 else Fraction(0) for _ in range(n)],
                        "set": rng.choice(["by_output", "by_input"])})
    return {"n": n, "comps": out}


def apply_mechanical_inputs(sysm, objs, plant, inp):
    from feems.types_for_feems import TypePower
    n = inp["n"]
    for d, o, ci in zip(plant["mech"], objs, inp["comps"]):
        if d["cls"] in ("main_engine", "main_engine_gb"):
            sysm.set_status_main_engine_for_name_shaft_line_id(d["name"], d["line"], np.array(ci["status"], dtype=bool))
        elif d["cls"] == "ptipto":
            arr = np.array([float(x) for x in ci["shaft"]], dtype=float)
            # the machine's own on/off series: the shaft balance does not read it (the electric side uses it for load sharing only)
            o.status = np.array(ci["pti_status"], dtype=bool) if ci.get("pti_status") else np.ones(n, dtype=bool)
            if ci["set"] == "by_output":
                sysm.set_power_input_pti_pto_by_power_output_value_for_name_shaft_line_id(d["name"], d["line"], arr)
            else:
                sysm.set_power_input_pti_pto_by_value_for_name_shaft_line_id(d["name"], d["line"], arr)
            sysm.set_full_pti_mode_for_name_shaft_line_id(d["name"], d["line"], np.array(ci["full"], dtype=bool))
        else:
            arr = np.array([float(x) for x in ci["out"]], dtype=float)
            if inp.get("int_loads") and all(x == int(x) for x in ci["out"]):
                arr = np.array([int(x) for x in ci["out"]], dtype=int)       # whole-kW loads as an integer array
            if ci["set"] == "by_output":
                sysm.set_power_consumer_load_by_power_output_for_given_name_shaft_line_id(d["name"], d["line"], arr)
            else:
                sysm.set_power_consumer_load_by_value_for_given_name_shaft_line_id(d["name"], d["line"], arr)
