"""Shared helpers to run whole systems on the implementation and snapshot results (C10-C14, C16)."""
from __future__ import annotations

from fractions import Fraction

import numpy as np

import plantgen as pg
from props.C19 import scalar_fields, snap


def enrich(rng, d):
    """give a fuel consumer a richer engine description: other fuels, emission curves, pilot fuel"""
    cls = d["cls"]
    if cls in ("genset", "genset_rect", "main_engine", "main_engine_gb"):
        e = {"rated": Fraction(d["rated"]) * Fraction(11, 10), "speed": rng.choice([100, 720, 900, 1500]),
             "nox": rng.choice(["TIER_1", "TIER_2", "TIER_3"])}
        u = rng.random()
        if u < 0.3:
            e.update({"fuel": "NATURAL_GAS", "cycle": rng.choice(["OTTO", "DIESEL", "LEAN_BURN_SPARK_IGNITION"])})
        elif u < 0.4:
            e.update({"fuel": rng.choice(["HFO", "VLSFO", "METHANOL"])})
        # the same kind of fuel from another origin (bio-diesel next to fossil diesel, e-methanol, bio-LNG)
        if e.get("fuel", "DIESEL") in ("DIESEL", "NATURAL_GAS", "METHANOL") and rng.random() < 0.35:
            e["origin"] = rng.choice(["BIO", "RENEWABLE_NON_BIO"])
        if cls in ("genset", "genset_rect") and rng.random() < 0.3:
            d["gen_speed"] = rng.choice([0, 150, 1800])       # generator speed unlike the engine's (other side of 200 rpm included)
        if rng.random() < 0.4:
            em = {}
            for sp in rng.sample(["CO", "PM", "HC", "CH4", "SOX"], rng.randint(1, 2)):
                npt = rng.choice([1, 2, 3])
                loads = sorted(rng.sample([0.1, 0.25, 0.5, 0.75, 1.0], npt))
                em[sp] = [[l, rng.randint(1, 80) / 16] for l in loads]
            e["emissions"] = em
        if rng.random() < 0.2 and cls == "genset":
            d["cls"] = "genset_df"
            e["pilot"] = {"bspfc": [[0.25, 6.0], [1.0, 3.0]], "fuel": "DIESEL"}
            if rng.random() < 0.5:
                e["fuel"] = "DIESEL"      # pilot of the main fuel's kind
            else:
                e.update({"fuel": "NATURAL_GAS", "cycle": "DIESEL"})
        d["engine"] = e
    return d


def gen_electric_case(rng, n=None, rich=True, max_swb=3):
    plant = pg.gen_electric_plant(rng, max_swb=max_swb)
    if rich:
        for d in plant["comps"]:
            enrich(rng, d)
    inp = pg.gen_electric_inputs(rng, plant, n=n)
    # results need capacity everywhere: make one source per bus-capable switchboard run in equal-sharing mode
    for d, ci in zip(plant["comps"], inp["comps"]):
        if pg.kind_of(d["cls"]) == "Source":
            ci["lsm"] = [Fraction(0)] * inp["n"]
        if pg.kind_of(d["cls"]) == "Consumer" and (d["cls"] != "load" or rng.random() < 0.5):
            ci["set"] = "from_output"      # the result integrates the delivered power of drives: set loads the public way
        elif pg.kind_of(d["cls"]) == "Consumer":
            ci["set"] = "input"            # a hotel load given on its input side only (what the front end does)
    inp["dt"] = [Fraction(rng.randint(1, 40) * 15) for _ in range(inp["n"])]
    return {"plant": plant, "inp": inp}


def gen_mechanical_case(rng, n=None):
    plant = pg.gen_mechanical_plant(rng)
    for d in plant["mech"]:
        enrich(rng, d)
    inp = pg.gen_mechanical_inputs(rng, plant, n=n)
    inp["dt"] = [Fraction(rng.randint(1, 40) * 15) for _ in range(inp["n"])]
    return {"plant": plant, "inp": inp}


def run_electric(plant, inp, fuel_spec="IMO"):
    from feems.fuel import FuelSpecifiedBy
    sysm, objs = pg.build_electric_system(plant)
    pg.apply_electric_inputs(sysm, objs, plant, inp)
    with np.errstate(all="ignore"):
        sysm.do_power_balance_calculation()
        res = sysm.get_fuel_energy_consumption_running_time(fuel_specified_by=FuelSpecifiedBy[fuel_spec])
    return sysm, objs, res


def run_mechanical(plant, inp, fuel_spec="IMO"):
    from feems.components_model.utility import IntegrationMethod
    from feems.fuel import FuelSpecifiedBy
    sysm, objs = pg.build_mechanical_system(plant)
    pg.apply_mechanical_inputs(sysm, objs, plant, inp)
    sysm.set_time_interval(np.array([float(x) for x in inp["dt"]]), IntegrationMethod.sum_with_time)
    with np.errstate(all="ignore"):
        sysm.do_power_balance()
        res = sysm.get_fuel_energy_consumption_running_time(fuel_specified_by=FuelSpecifiedBy[fuel_spec])
    return sysm, objs, res


def component_results(objs, dt, fuel_spec="IMO"):
    from feems.components_model.node import get_fuel_emission_energy_balance_for_component
    from feems.components_model.utility import IntegrationMethod
    from feems.fuel import FuelSpecifiedBy
    out = []
    with np.errstate(all="ignore"):
        for o in objs:
            r = get_fuel_emission_energy_balance_for_component(
                component=o, time_interval_s=np.array([float(x) for x in dt]), integration_method=IntegrationMethod.sum_with_time,
                fuel_specified_by=FuelSpecifiedBy[fuel_spec])
            out.append(snap(r))
    return out


def snap_detail(res):
    """the detail table as rows of plain figures"""
    from feems.types_for_feems import EmissionType
    rows = []
    df = res.detail_result
    if df is None:
        return rows
    for name, row in df.iterrows():
        fc = row.get("multi fuel consumption [kg]")
        co2 = row.get("CO2 emission [kg]")
        rows.append({
            "name": str(name),
            "fuel_total": float(np.sum(fc.total_fuel_consumption)) if hasattr(fc, "total_fuel_consumption") and fc.fuels else 0.0,
            "co2_ttw": float(co2.tank_to_wake_kg_or_gco2eq_per_gfuel) if hasattr(co2, "tank_to_wake_kg_or_gco2eq_per_gfuel") else None,
            "nox": None if row.get("NOx emission [kg]") is None else float(row.get("NOx emission [kg]")),
            "hours": float(row.get("running hours [h]")),
            "type": str(row.get("component type")),
            "node": int(row["switchboard id"]) if "switchboard id" in row and row["switchboard id"] == row["switchboard id"] else
                    (int(row["shaftline id"]) if "shaftline id" in row and row["shaftline id"] == row["shaftline id"] else None),
        })
    return rows


def figures(s):
    """all figures of a snapshot as a flat dict (fuel per kind, species absent = 0)"""
    d = {"duration": s["duration"]}
    for name, v in zip(scalar_fields(), s["scalars"]):
        d[name] = v
    for k, m in s["fuel"]:
        d[f"fuel:{k}"] = d.get(f"fuel:{k}", 0.0) + m
    for k, v in (s["species"] or []):
        d[f"species:{k}"] = v
    for i, v in enumerate(s["co2"]):
        d[f"co2:{i}"] = v
    return d


def figures_diff(a, b, tol=1e-9, skip=()):
    fa, fb = figures(a), figures(b)
    out = []
    for k in sorted(set(fa) | set(fb)):
        if k in skip:
            continue
        x, y = fa.get(k, 0.0), fb.get(k, 0.0)
        if x is None or y is None:
            if x != y:
                out.append((k, x, y))
            continue
        if abs(x - y) > tol * max(1.0, abs(x), abs(y)):
            out.append((k, x, y))
    return out
