(* Check/Check_C18.v — one time step of a history on shared fuel records: after EVERY operation the
   implementation's dump of ALL live records is compared with the model environment. *)
From Coq Require Import QArith List Bool Arith.
From Feems Require Import Base.Num Model.FuelRecord.
Import ListNotations.
Open Scope Q_scope.

Definition orec := list (nat * fl).            (* observed record: (kind, mass) *)
Definition kinds_of (r : frec) : list nat := map fst r.
Definition o2f (r : orec) : frec := map (fun e => (fst e, flq (snd e))) r.

Definition rec_close (obs : orec) (model : frec) : bool :=
  forallb fl_finite (map snd obs) &&
  forallb (fun k => close_sc (total model) (mass_of k (o2f obs)) (mass_of k model))
          (kinds_of (o2f obs) ++ kinds_of model).
Definition env_close (obs : list orec) (model : list frec) : bool := all2 rec_close obs model.

(* dumps: the environment observed after each operation *)
Fixpoint check_hist (m : bool) (env : list frec) (ops : list op) (dumps : list (list orec)) : bool :=
  match ops, dumps with
  | [], [] => true
  | o :: ops', d :: dumps' => let env' := step m env o in env_close d env' && check_hist m env' ops' dumps'
  | _, _ => false
  end.
