(* Check/Check_C09.v — the Q side of the C09 correspondence (curve-based species, rates, masses).
   The tier limits themselves are tied to the implementation by interval-checked enclosures that
   the harness writes as lemmas (see harness/props/C09.py). *)
From Coq Require Import QArith List Bool.
From Feems Require Import Base.Num Base.Pchip Model.Nox.
Import ListNotations.
Open Scope Q_scope.

(* curve-based species: observed g/kWh at the given loads *)
Definition check_curve (c : curve) (loads : list Q) (obs : list fl) : bool :=
  all2 (fun l o => match fl2q o with Some x => close x (curve_eval c l) | None => false end) loads obs.

(* run point: rate g/s = g/kWh x kW / 3600, per step, from the observed g/kWh *)
Definition check_rates (gkwh : list fl) (p_kw : list Q) (obs : list fl) : bool :=
  all2 (fun gp o => match fl2q o with Some x => close x (rate_g_per_s (flq (fst gp)) (snd gp)) | None => false end)
       (combine gkwh p_kw) obs && Nat.eqb (length obs) (length p_kw) && Nat.eqb (length gkwh) (length p_kw).

(* integration to kg *)
Definition check_mass (gkwh : list fl) (p_kw dt : list Q) (obs : fl) : bool :=
  match fl2q obs with Some x => close x (mass_kg (map flq gkwh) p_kw dt) | None => false end.
