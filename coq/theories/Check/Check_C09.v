(* Check/Check_C09.v — the Q side of the C09 correspondence (curve-based species, rates, masses).
   The tier limits themselves are tied to the implementation by interval-checked enclosures that
   the harness writes as lemmas (see harness/props/C09.py). *)
From Coq Require Import QArith List Bool.
From Feems Require Import Base.Num Base.Pchip Model.Nox.
Import ListNotations.
Open Scope Q_scope.

(* curve-based species: observed g/kWh at the given loads *)
Definition check_curve (c : curve) (loads : list Q) (obs : list fl) : bool :=
  all2 (fun l o => match fl2q o with Some x => close x (curve_eval c l) | None => false end) loads obs.

(* run point: rate g/s = g/kWh x kW / 3600, per step, from the observed g/kWh *)
Definition check_rates (gkwh : list fl) (p_kw : list Q) (obs : list fl) : bool :=
  all2 (fun gp o => match fl2q o with Some x => close x (rate_g_per_s (flq (fst gp)) (snd gp)) | None => false end)
       (combine gkwh p_kw) obs && Nat.eqb (length obs) (length p_kw) && Nat.eqb (length gkwh) (length p_kw).

(* integration to kg *)
Definition check_mass (gkwh : list fl) (p_kw dt : list Q) (obs : fl) : bool :=
  match fl2q obs with Some x => close x (mass_kg (map flq gkwh) p_kw dt) | None => false end.

(* ---- which characteristic each species uses (Model/Emis.v): the engine is built from the curve list and the NOx method;
   one row per species asked: (species, (loads, observed g/kWh at those loads, or None when the engine has no figure)) ---- *)
From Feems Require Import Model.Emis.
Definition all_equal (l : list fl) : bool :=
  match l with
  | [] => true
  | a :: r => forallb (fun b => match fl2q a, fl2q b with Some x, Some y => Qeq_bool x y | _, _ => false end) r
  end.
Definition check_row (tab : table) (row : nat * (list Q * option (list fl))) : bool :=
  match tab (fst row), snd (snd row) with
  | None, None => true
  | Some (SCurve c), Some vals => check_curve c (fst (snd row)) vals && Nat.eqb (length vals) (length (fst (snd row)))
  | Some (SLimit _), Some vals => all_equal vals && negb (Nat.eqb (length vals) 0)   (* the value: enclosure lemma of the limit stream *)
  | _, _ => false
  end.
Definition check_setup (cs : list (nat * list (Q * Q))) (m : nox_method) (accepted : bool)
                       (rows : list (nat * (list Q * option (list fl)))) : bool :=
  match setup cs m with
  | None => negb accepted
  | Some tab => accepted && forallb (check_row tab) rows
  end.
