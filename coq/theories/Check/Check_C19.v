(* Check/Check_C19.v — compares FEEMSResult merges with the model, figure by figure. *)
From Coq Require Import QArith List Bool Arith.
From Feems Require Import Base.Num Model.FuelRecord Model.Result Check.Check_C18.
Import ListNotations.
Open Scope Q_scope.

(* observed result *)
Record ores := {
  o_duration : option fl; o_load : option fl; o_scalars : list fl;
  o_species : option (list (nat * fl)); o_fuel : orec; o_co2 : list fl; o_detail : option (list nat) }.

Definition optfl_close (o : option fl) (m : option Q) : bool :=
  match o, m with
  | None, None => true
  | Some f, Some q => match fl2q f with Some x => close x q | None => false end
  | _, _ => false end.
Definition vec_close (o : list fl) (m : list Q) : bool :=
  all2 (fun f q => match fl2q f with Some x => close x q | None => false end) o m.
Fixpoint nat_list_eqb (a b : list nat) : bool :=
  match a, b with [], [] => true | x :: a', y :: b' => Nat.eqb x y && nat_list_eqb a' b' | _, _ => false end.
Definition species_close (o : option (list (nat * fl))) (m : option (list (nat * Q))) : bool :=
  match o, m with
  | None, None => true
  | Some ol, Some ml =>
      let oq := map (fun e => (fst e, flq (snd e))) ol in
      forallb (fun k => close (getd k oq) (getd k ml) &&
                        Bool.eqb (match lookup_s k oq with Some _ => true | None => false end)
                                 (match lookup_s k ml with Some _ => true | None => false end))
              (map fst oq ++ map fst ml)
  | _, _ => false end.
Definition detail_eq (o m : option (list nat)) : bool :=
  match o, m with None, None => true | Some a, Some b => nat_list_eqb a b | _, _ => false end.

Definition res_close (o : ores) (m : res) : bool :=
  optfl_close (o_duration o) (r_duration m) && optfl_close (o_load o) (r_load m) &&
  vec_close (o_scalars o) (r_scalars m) && species_close (o_species o) (r_species m) &&
  rec_close (o_fuel o) (r_fuel m) && vec_close (o_co2 o) (r_co2 m) && detail_eq (o_detail o) (r_detail m).

(* outcome codes from the driver: 0 merged, 1 AssertionError, 2 ZeroDivisionError *)
Definition check_merge (fz : bool) (a b : res) (code : nat) (o : ores) : bool :=
  match merge fz a b, code with
  | Merged r, 0%nat => res_close o r
  | AssertionFailed, 1%nat => true
  | DivisionByZero, 2%nat => true
  | _, _ => false
  end.

(* both groupings of a triple; the intermediate results are the MODEL's *)
Definition check_triple (fz : bool) (a b c : res)
    (code_ab : nat) (o_ab : ores) (code_l : nat) (o_l : ores)
    (code_bc : nat) (o_bc : ores) (code_r : nat) (o_r : ores) : bool :=
  check_merge fz a b code_ab o_ab &&
  match merge fz a b with Merged ab => check_merge fz ab c code_l o_l | _ => true end &&
  check_merge fz b c code_bc o_bc &&
  match merge fz b c with Merged bc => check_merge fz a bc code_r o_r | _ => true end.
