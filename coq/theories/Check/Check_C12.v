(* Check/Check_C12.v — the field-level state machines of Model/Machine.v run against operation
   histories performed on one real system object (partial supplies included): after every balance
   the model's observation is compared with what the object holds. *)
From Coq Require Import QArith Qabs List Bool Arith.
From Feems Require Import Base.Num Model.Bus Model.ElecBalance Model.Shaft Model.Machine.
Import ListNotations.
Open Scope Q_scope.

Definition id_conv (j : nat) (x : num) : num := x.

Fixpoint erun_obs (s : estate) (ops : list eop) : option (list (list (list num * list num))) :=
  match ops with
  | [] => Some []
  | o :: r =>
      match estep id_conv s o with
      | None => None
      | Some s' =>
          match erun_obs s' r with
          | None => None
          | Some l => Some (match o with EBalance => eobs s' :: l | _ => l end)
          end
      end
  end.

Fixpoint all3 {A B C} (f : A -> B -> C -> bool) (a : list A) (b : list B) (c : list C) : bool :=
  match a, b, c with
  | [], [], [] => true
  | x :: a', y :: b', z :: c' => f x y z && all3 f a' b' c'
  | _, _, _ => false
  end.

(* observed per component: power_output of a source, power_input of a PTI/PTO or storage unit, nothing for a consumer *)
Definition check_eobs (comps : list mcomp) (model : list (list num * list num)) (obs : list (list fl)) : bool :=
  all3 (fun m mo o =>
          let sc := c_rated (m_c m) in
          match c_kind (m_c m) with
          | Consumer => true
          | Source => all2 (fun x y => close_num sc y x) (snd mo) o
          | _ => all2 (fun x y => close_num sc y x) (fst mo) o
          end) comps model obs.

Definition check_emachine (s0 : estate) (ops : list eop) (obs : list (list (list fl))) (raised : bool) : bool :=
  match erun_obs s0 ops with
  | None => raised
  | Some l => negb raised && all2 (check_eobs (e_comps s0)) l obs
  end.

(* ---- shaft line ---- *)
Definition id_elec (x : Q) : Q := x.
Fixpoint lrun_obs (s : lstate) (ops : list lop) : list (list (list Q * list bool) * option (list Q * list Q)) :=
  match ops with
  | [] => []
  | o :: r => let s' := lstep id_elec s o in
              match o with LBalance => lobs s' :: lrun_obs s' r | _ => lrun_obs s' r end
  end.

(* observed after a balance: per engine (outputs, statuses), the PTI/PTO's shaft power *)
Definition check_lobs (rated : list Q) (scale : Q) (model : list (list Q * list bool) * option (list Q * list Q))
    (obs : list (list fl * list bool) * option (list fl)) : bool :=
  all3 (fun r mo o =>
          all2 (fun x y => close_num scale y (Fin x)) (fst mo) (fst o) &&
          all3 (fun x b c => Bool.eqb b c || Qle_bool (Qabs x) ((1 # 1000000000) * scale)) (fst mo) (snd mo) (snd o))
       rated (fst model) (fst obs) &&
  match snd model, snd obs with
  | Some (sh, _), Some o => all2 (fun x y => close_num scale y (Fin x)) sh o
  | None, None => true
  | _, _ => false
  end.

Definition check_lmachine (s0 : lstate) (ops : list lop) (scale : Q)
    (obs : list (list (list fl * list bool) * option (list fl))) : bool :=
  all2 (check_lobs (map g_rated (l_engs s0)) scale) (lrun_obs s0 ops) obs.

Definition ex_mk (swb : nat) (k : kind) (rated : Q) : mcomp :=
  {| m_c := {| c_swb := swb; c_kind := k; c_rated := rated |}; m_status := []; m_lsm := []; m_pin := []; m_pout := [] |}.
