(* Check/Check_C11.v — the whole-run result against the model's combination (consecutive periods) of
   the implementation's results for the parts / the single steps *)
From Coq Require Import QArith List Bool Arith.
From Feems Require Import Base.Num Model.FuelRecord Model.Result Model.SysResult Check.Check_C18 Check.Check_C19.
Import ListNotations.
Open Scope Q_scope.

Definition strip (r : res) : res :=
  {| r_duration := r_duration r; r_load := None; r_scalars := r_scalars r; r_species := r_species r;
     r_fuel := r_fuel r; r_co2 := r_co2 r; r_detail := None |}.
(* parts: results of consecutive parts; whole: the result of the whole series (generator load and
   detail table are not compared: the load is only reported for single points) *)
Definition check_parts (n : nat) (parts : list res) (whole : ores) : bool :=
  match accumulate_periods (strip (group_start n)) (map strip parts) with
  | Merged r =>
      res_close {| o_duration := o_duration whole; o_load := None; o_scalars := o_scalars whole; o_species := o_species whole;
                   o_fuel := o_fuel whole; o_co2 := o_co2 whole; o_detail := None |} r
  | _ => false
  end.
