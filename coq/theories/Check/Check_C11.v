(* Check/Check_C11.v — the whole-run result against the model's combination (consecutive periods) of
   the implementation's results for the parts / the single steps *)
From Coq Require Import QArith List Bool Arith.
From Feems Require Import Base.Num Model.FuelRecord Model.Result Model.SysResult Check.Check_C18 Check.Check_C19.
Import ListNotations.
Open Scope Q_scope.

Definition strip (r : res) : res :=
  {| r_duration := r_duration r; r_load := None; r_scalars := r_scalars r; r_species := r_species r;
     r_fuel := r_fuel r; r_co2 := r_co2 r; r_detail := None |}.
(* parts: results of consecutive parts; whole: the result of the whole series (generator load and
   detail table are not compared: the load is only reported for single points) *)
Definition check_parts (n : nat) (parts : list res) (whole : ores) : bool :=
  match accumulate_periods (strip (group_start n)) (map strip parts) with
  | Merged r =>
      res_close {| o_duration := o_duration whole; o_load := None; o_scalars := o_scalars whole; o_species := o_species whole;
                   o_fuel := o_fuel whole; o_co2 := o_co2 whole; o_detail := None |} r
  | _ => false
  end.

(* ---- the whole calculation from the plant's inputs (Model/Plant.v) against the implementation's totals:
   fuel mass with constant specific consumption and constant generator (x rectifier) efficiency per genset
   (kg per second per kW given per component, 0 for the others), genset running hours ---- *)
From Feems Require Import Model.Bus Model.ElecBalance Model.Plant.
(* a genset pushed below zero output by a storage unit is read through the generator the other way round: the
   coefficient for negative outputs is consumption x efficiency instead of consumption / efficiency *)
Definition lin_rate (cs cn : list Q) (j : nat) (p : Q) : Q := if Qle_bool 0 p then nth j cs 0 * p else nth j cn 0 * p.
Definition hours_rate (gs : list bool) (j : nat) (p : Q) : Q :=
  if nth j gs false && negb (qzero p) then 1 # 3600 else 0.
Definition finite_run (plant : list (comp * cin)) (es : list edge) (swbs : list nat) (sts : list (list bool)) (n : nat) : bool :=
  forallb (fun t => forallb (fun x => match x with Fin _ => true | NonFinite => false end) (balance_step plant es swbs sts t)) (seq 0 n).
Definition check_run (plant : list (comp * cin)) (es : list edge) (swbs : list nat) (sts : list (list bool)) (dt : list Q)
    (cs cn : list Q) (gs : list bool) (obs_fuel obs_hours : fl) : bool :=
  negb (finite_run plant es swbs sts (length dt)) ||
  (close_num 1 obs_fuel (Fin (run_figure (lin_rate cs cn) plant es swbs sts dt)) &&
   close_num 1 obs_hours (Fin (run_figure (hours_rate gs) plant es swbs sts dt))).

(* ---- the same with multi-point characteristics: every genset has a generator efficiency CURVE and a specific
   consumption CURVE (PCHIP over Q, Base/Pchip.v); fuel rate = bsfc(engine load) x engine power / 3.6e6 with
   engine power = output / efficiency(generator load) (Model/FuelRun.v, Model/Component.v).  Steps at which a
   genset is pushed below zero output are outside this check. ---- *)
From Feems Require Import Base.Pchip Model.Component Model.FuelRun Check.Check_C06.
Definition genset_rate (gr : Q) (ge : Q -> Q) (er : Q) (bs : Q -> Q) (p : Q) : Q :=
  if Qle_bool p 0 then 0 else engine_fuel er bs (fwd gr ge p).
Definition curve_rate (gs : list (option (Q * (Q -> Q) * Q * (Q -> Q)))) (j : nat) (p : Q) : Q :=
  match nth j gs None with Some (gr, ge, er, bs) => genset_rate gr ge er bs p | None => 0 end.
Definition mk_genset (gr : Q) (ge : curve) (er : Q) (bs : curve) : option (Q * (Q -> Q) * Q * (Q -> Q)) :=
  Some (gr, curve_fn ge, er, curve_fn bs).
Definition nonneg_sources (plant : list (comp * cin)) (es : list Bus.edge) (swbs : list nat) (sts : list (list bool)) (n : nat) : bool :=
  forallb (fun t => all2 (fun ci x => match c_kind (fst ci), x with
                                       | Source, Fin q => Qle_bool 0 q
                                       | _, Fin _ => true
                                       | _, NonFinite => false end) plant (balance_step plant es swbs sts t)) (seq 0 n).
Definition check_run_curves (plant : list (comp * cin)) (es : list Bus.edge) (swbs : list nat) (sts : list (list bool)) (dt : list Q)
    (gs : list (option (Q * (Q -> Q) * Q * (Q -> Q)))) (obs_fuel : fl) : bool :=
  negb (nonneg_sources plant es swbs sts (length dt)) ||
  close_num 1 obs_fuel (Fin (run_figure (curve_rate gs) plant es swbs sts dt)).
