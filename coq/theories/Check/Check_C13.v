(* Check/Check_C13.v — executable comparison of the converters' model with the implementation:
   the encoder's model must produce the message the real encoder produced (as parsed back from its
   serialised bytes), the decoder's model must produce the system the real decoder built (read back from
   the objects' attributes), or fail where it raised. *)
From Coq Require Import QArith List Bool Arith String.
From Feems Require Import Model.ProtoSys.
Import ListNotations.

Definition Q_dec (a b : Q) : {a = b} + {a <> b}.
Proof. decide equality; [apply Pos.eq_dec | apply Z.eq_dec]. Defined.
Definition pts_dec (a b : pts) : {a = b} + {a <> b}.
Proof. repeat decide equality. Defined.
Definition f_system_dec (a b : f_system) : {a = b} + {a <> b}.
Proof. repeat decide equality. Defined.
Definition p_system_dec (a b : p_system) : {a = b} + {a <> b}.
Proof. repeat decide equality. Defined.

(* the subsystem-level rated power and speed of the kinds whose decoder never reads them are derived
   attributes computed in floating point (battery capacity times rate, modules times module power):
   they are left out of the comparison of messages *)
Definition reads_rating (ct : nat) : bool :=
  ((ct =? T_PTI_PTO_SYSTEM) || (ct =? T_PROPULSION_DRIVE) || (ct =? T_PROPELLER_LOAD))%nat.
Definition blank_sub (s : p_sub) : p_sub :=
  if reads_rating (s_ctype s) then s else
  {| s_gear := s_gear s; s_engine := s_engine s; s_machine := s_machine s; s_transformer := s_transformer s;
     s_conv1 := s_conv1 s; s_conv2 := s_conv2 s; s_battery := s_battery s; s_fuelcell := s_fuelcell s;
     s_propeller := s_propeller s; s_supercap := s_supercap s; s_other_load := s_other_load s; s_cogas := s_cogas s;
     s_ptype := s_ptype s; s_ctype := s_ctype s; s_name := s_name s; s_rated := 0; s_speed := 0; s_uid := s_uid s |}.
Definition blank (y : p_system) : p_system :=
  {| y_name := y_name y; y_ptype := y_ptype y;
     y_swbs := map (fun w => (fst w, map blank_sub (snd w))) (y_swbs y);
     y_lines := map (fun w => (fst w, map blank_sub (snd w))) (y_lines y) |}.

Definition check_enc (s : f_system) (p : p_system) : bool :=
  if p_system_dec (blank (enc_system s)) (blank p) then true else false.

Definition check_dec (fresh : string) (p : p_system) (s2 : f_system) : bool :=
  match dec_system fresh p with
  | Some s => if f_system_dec s s2 then true else false
  | None => false
  end.

(* Subsystems whose decoding the model describes.  For the other shapes (a generic serial system of some other
   component type, a drive that is not a consumer, a genset with a rectifier in the description) the real decoder
   may well succeed; the model makes no statement about them and the malformed stream skips them. *)
Definition isnone {A} (o : option A) : bool := match o with None => true | Some _ => false end.
Definition in_model_sub (s : p_sub) : bool :=
  let ct := s_ctype s in
  let only_machine := negb (isnone (s_machine s)) && isnone (s_transformer s) && isnone (s_conv1 s) && isnone (s_conv2 s)
                      && isnone (s_other_load s) && isnone (s_propeller s) in
  let only_load := isnone (s_machine s) && isnone (s_transformer s) && isnone (s_conv1 s) && isnone (s_conv2 s)
                   && negb (isnone (s_other_load s)) && isnone (s_propeller s) in
  ((ct =? T_FUEL_CELL_SYSTEM) || (ct =? T_COGES) || (ct =? T_BATTERY_SYSTEM) || (ct =? T_BATTERY) ||
   (ct =? T_SUPERCAPACITOR_SYSTEM) || (ct =? T_SUPERCAPACITOR) || (ct =? T_PTI_PTO_SYSTEM) || (MAX_CTYPE <? ct) ||
   (MAX_PTYPE <? s_ptype s) ||
   ((ct =? T_GENSET) && isnone (s_conv1 s)) ||
   ((ct =? T_PROPULSION_DRIVE) && (s_ptype s =? P_CONSUMER)) ||
   ((ct =? T_GENERATOR) && (s_ptype s =? P_SOURCE) && only_machine) ||
   ((ct =? T_OTHER_LOAD) && (s_ptype s =? P_CONSUMER) && only_load))%nat.
Definition in_model (y : p_system) : bool :=
  forallb (fun w => forallb in_model_sub (snd w)) (y_swbs y).

Definition check_dec_fails (p : p_system) : bool :=
  match dec_system "" p with None => true | Some _ => false end.
