(* Check/Check_C14.v *)
From Coq Require Import QArith String List Bool Arith.
From Feems Require Import Base.Num Model.FuelRecord Model.Result Model.ProtoResult Check.Check_C18 Check.Check_C19.
Import ListNotations.
Open Scope Q_scope.

Definition getq (n : string) (l : list (string * Q)) : Q := match sassoc n l with Some v => v | None => 0 end.
(* obs_scalars: every double field of the parsed message (proto3: unset = 0) *)
Definition check_export (pf names : list string) (r : res) (scale : Q)
    (obs_scalars : list (string * fl)) (obs_fuel : orec) (obs_co2 : list fl) (obs_nox : fl) (obs_rows : nat) : bool :=
  let m := export pf names r in
  let oq := map (fun e => (fst e, flq (snd e))) obs_scalars in
  forallb (fun e => fl_finite (snd e)) obs_scalars &&
  forallb (fun n => close_sc scale (getq n oq) (getq n (m_scalars m))) (map fst oq ++ map fst (m_scalars m)) &&
  rec_close obs_fuel (m_fuel m) && vec_close obs_co2 (m_co2 m) &&
  close_num scale obs_nox (Fin (m_nox m)) && Nat.eqb obs_rows (m_rows m).

Definition check_time_base (epochs : option (list Q)) (dt : interval) (n : nat) (obs : list fl) : bool :=
  all2 (fun o t => close_num 1 o (Fin t)) obs (time_base epochs dt n).
