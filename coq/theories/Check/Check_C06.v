(* Check/Check_C06.v — executable comparisons for C06 (and C17's conversion part) *)
From Coq Require Import QArith Qabs List Bool.
From Feems Require Import Base.Num Base.Pchip Model.Component Model.Storage.
Import ListNotations.
Open Scope Q_scope.

(* a query: (direction, scalar?, input) ; directions: 0 = input from output, 1 = output from input *)
Definition query := (nat * bool * Q)%type.

(* the curve function with its sorted points and slopes computed ONCE (vm_compute is strict, the
   closure keeps them); equal to curve_eval by unfolding *)
Definition curve_fn (c : curve) : Q -> Q :=
  match c with
  | Const v => fun _ => v
  | Points pts => let sp := sort_pts pts in let ds := map Qred (derivs sp) in fun x => Qred (eval_aux sp ds x)
  end.
Lemma curve_fn_eq c x : curve_fn c x = curve_eval c x.
Proof. destruct c; reflexivity. Qed.

(* a component prepared once: its table and the slopes of the inverse *)
Record prepared := { p_rated : Q; p_f : Q -> Q; p_tab : list (Q * Q); p_ds : list Q }.
Definition prepare (rated : Q) (f : Q -> Q) : prepared :=
  let tab := table rated f in {| p_rated := rated; p_f := f; p_tab := tab; p_ds := map Qred (derivs tab) |}.
Definition p_inv (p : prepared) (x : Q) : Q := Qred (eval_aux (p_tab p) (p_ds p) x).
Lemma p_inv_eq rated f x : p_inv (prepare rated f) x = inv rated f x.
Proof. reflexivity. Qed.
Definition p_accepted (p : prepared) : bool :=
  Qle_bool 0 (p_rated p) && negb (qzero (p_rated p)) && increasing (map fst (p_tab p)).
Lemma p_accepted_eq rated f : p_accepted (prepare rated f) = accepted rated f.
Proof. reflexivity. Qed.

Definition answer (p : prepared) (q : query) : Q :=
  let '(d, sc, x) := q in
  match d with
  | 0%nat => if sc then (if Qle_bool 0 x then fwd (p_rated p) (p_f p) x else p_inv p x)
             else (if Qle_bool x 0 then p_inv p x else fwd (p_rated p) (p_f p) x)
  | _ => if Qle_bool x 0 then fwd (p_rated p) (p_f p) x else p_inv p x
  end.

(* obs_accepted: the constructor accepted the component *)
Definition check_basic (rated : Q) (c : curve) (obs_accepted : bool) (qs : list query) (obs : list fl) : bool :=
  let p := prepare rated (curve_fn c) in
  Bool.eqb (p_accepted p) obs_accepted &&
  (if obs_accepted then all2 (fun q o => close_num rated o (Fin (answer p q))) qs obs else true).

(* efficiency look-ups *)
Definition check_eff (f : Q -> Q) (loads : list Q) (obs : list fl) : bool :=
  all2 (fun l o => close_num 1 o (Fin (eff f l))) loads obs.

(* serial system: stages = (rated, curve) *)
Definition mk_stages (l : list (Q * curve)) : list stage := map (fun rc => (fst rc, curve_fn (snd rc))) l.
Definition serial_fn (st : list stage) : Q -> Q :=
  let pts := serial_points st in let ds := map Qred (derivs pts) in fun x => Qred (eval_aux pts ds x).
Lemma serial_fn_eq st x : serial_fn st x = serial_curve st x.
Proof. reflexivity. Qed.
(* SerialSystem.__init__: the rating of the chain, when the caller leaves it out, is the rating of the FIRST stage - the
   one the chain's efficiency curve is referred to *)
Definition serial_rating (given : option Q) (st : list (Q * curve)) : Q :=
  match given with Some r => r | None => match st with rc :: _ => fst rc | [] => 0 end end.
Definition serial_accepted (rated : Q) (st : list (Q * curve)) : bool :=
  forallb (fun rc => p_accepted (prepare (fst rc) (curve_fn (snd rc)))) st &&
  p_accepted (prepare rated (serial_fn (mk_stages st))).
Definition check_serial (rated : Q) (st : list (Q * curve)) (loads : list Q) (obs_eff : list fl)
    (qs : list query) (obs : list fl) : bool :=
  let f := serial_fn (mk_stages st) in
  check_eff f loads obs_eff &&
  (let p := prepare rated f in all2 (fun q o => close_num rated o (Fin (answer p q))) qs obs).

(* electric machine: direction 0 = shaft from electric, 1 = electric from shaft *)
Definition check_machine (ro : role) (rated : Q) (c : curve) (qs : list query) (obs : list fl) : bool :=
  let p := prepare rated (curve_fn c) in
  all2 (fun q o =>
          let '(d, sc, x) := q in
          (* dispatch by role onto the two basic conversions *)
          let q' := match d, ro with
                    | 0%nat, RSource => (0%nat, sc, x) | 0%nat, _ => (1%nat, sc, x)
                    | _, RSource => (1%nat, sc, x) | _, _ => (0%nat, sc, x) end in
          close_num rated o (Fin (answer p q'))) qs obs.

(* storage: direction 0 = terminal from cell (input from output), 1 = cell from terminal; with an
   optional converter (rated, curve) in front *)
Definition check_storage (s : store) (conv : option (Q * curve)) (scale : Q) (qs : list query) (obs : list fl) : bool :=
  match conv with
  | None => all2 (fun q o => let '(d, sc, x) := q in
                             close_num scale o (Fin (match d with 0%nat => terminal_from_cell s x | _ => cell_from_terminal s x end)))
                 qs obs
  | Some (r, c) =>
      let p := prepare r (curve_fn c) in
      all2 (fun q o => let '(d, sc, x) := q in
                       close_num scale o
                         (Fin (match d with
                               | 0%nat => answer p (0%nat, sc, terminal_from_cell s x)
                               | _ => cell_from_terminal s (answer p (1%nat, sc, x)) end)))
           qs obs
  end.
