(* Check/Check_C02.v — executable comparison of the Bus model with what the implementation stored. *)
From Coq Require Import List Arith Bool.
From Feems Require Import Model.Bus.
Import ListNotations.

Fixpoint nat_list_eqb (a b : list nat) : bool :=
  match a, b with
  | [], [] => true
  | x :: a', y :: b' => Nat.eqb x y && nat_list_eqb a' b'
  | _, _ => false
  end.

(* two labellings of the same positions induce the same partition *)
Definition same_partition (a b : list nat) : bool :=
  Nat.eqb (length a) (length b) &&
  forallb (fun i => forallb (fun j =>
     Bool.eqb (Nat.eqb (nth i a 0) (nth j a 0)) (Nat.eqb (nth i b 0) (nth j b 0)))
     (seq 0 (length a))) (seq 0 (length a)).

Fixpoint all2b {A B} (f : A -> B -> bool) (l : list A) (m : list B) : bool :=
  match l, m with
  | [], [] => true
  | a :: l', b :: m' => f a b && all2b f l' m'
  | _, _ => false
  end.

(* observed: change indices, one bus map per period (bus number per switchboard, in the order of
   swbs), one bus count per period.  Bus NUMBERS are not compared, only the partition. *)
Definition check_case (swbs : list nat) (es : list edge) (sts : list (list bool))
    (obs_change : list nat) (obs_maps : list (list nat)) (obs_nobus : list nat) : bool :=
  let cfg := config es swbs sts in
  nat_list_eqb obs_change (change_index sts) &&
  all2b (fun om c => same_partition om (fst c)) obs_maps cfg &&
  all2b (fun on c => Nat.eqb on (snd c)) obs_nobus cfg.
