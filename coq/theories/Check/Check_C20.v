(* Check/Check_C20.v *)
From Coq Require Import ZArith QArith List Bool.
From Feems Require Import Base.Num Base.Pchip Model.Component Model.Validate Check.Check_C06.
Import ListNotations.

Definition agree (v : verdict) (accepted : bool) : bool :=
  match v with Accepted => accepted | Rejected _ => negb accepted end.
Definition mkc (name ptype : nat) (ok : bool) (swb : Z) : ecomp :=
  {| ec_name := name; ec_ptype := ptype; ec_class_ok := ok; ec_swb := swb |}.
(* a component with an efficiency curve: accepted iff rated power > 0 and the map is monotonic *)
Definition component_verdict (rated : Q) (c : curve) : verdict :=
  if p_accepted (prepare rated (curve_fn c)) then Accepted else Rejected (if Qle_bool rated 0 then 8 else 9).
(* the whole: every part must be accepted *)
Definition all_accepted (l : list verdict) : verdict :=
  match filter (fun v => match v with Accepted => false | _ => true end) l with [] => Accepted | v :: _ => v end.
