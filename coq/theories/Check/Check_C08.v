(* Check/Check_C08.v — comparisons for C08, parametric in the (regenerated) tables *)
From Coq Require Import QArith String List Bool Arith.
From Feems Require Import Base.Num Model.Ghg.
Import ListNotations.
Open Scope Q_scope.

Definition close3 (scale : Q) (o : list fl) (m : Q * Q * Q) : bool :=
  match o with
  | [a; b; c] => let '(x, y, z) := m in
      close_num scale a (Fin x) && close_num scale b (Fin y) && close_num scale c (Fin z)
  | _ => false end.

(* single-fuel factors: obs = Some [ttw; wtt; ttw without slip] or None when the code raised *)
Definition check_factors (T : ghg_tables) (s : spec) (ty o cls : nat) (obs : option (list fl)) : bool :=
  match factors T s ty o cls, obs with
  | Some m, Some l => close3 0 l m
  | None, None => true
  | None, Some l => negb (forallb fl_finite l)   (* a row without factors: the code reports NaN, never a number *)
  | _, _ => false end.

(* a mix at one time step *)
(* a prescribed fuel whose (type, origin) the table does not list cannot even be constructed *)
Definition constructible (T : ghg_tables) (s : spec) (m : list entry) : bool :=
  forallb (fun e => match fst e with
                    | Prescribed ty o => match rows_for T s ty o with Some _ => true | None => false end
                    | User _ _ _ => true end) m.
Definition check_total (series : bool) (T : ghg_tables) (s : spec) (cls : nat) (m : list entry) (obs : option (list fl)) : bool :=
  if negb (constructible T s m) then match obs with None => true | Some _ => false end else
  match (if series then total_emissions_step T s cls m else total_emissions T s cls m), obs with
  | Some t, Some l => close3 (total_mass m) l t
  | None, None => true
  | None, Some l => negb (forallb fl_finite l)
  | _, _ => false end.

Definition check_class (ng ftype cycle : nat) (speed : Q) (obs : option nat) : bool :=
  match engine_class ng ftype cycle speed, obs with
  | Some a, Some b => Nat.eqb a b
  | None, None => true
  | _, _ => false end.
