(* Check/Check_C17.v *)
From Coq Require Import QArith List Bool.
From Feems Require Import Base.Num Base.Pchip Model.Component Model.Storage Check.Check_C06.
Import ListNotations.
Open Scope Q_scope.

(* cell power series of a store, optionally behind a converter (array dispatch) *)
Definition cell_series (s : store) (conv : option (Q * curve)) (ps : list Q) : list Q :=
  match conv with
  | None => map (cell_from_terminal s) ps
  | Some (r, c) => let p := prepare r (curve_fn c) in
                   map (fun x => cell_from_terminal s (answer p (1%nat, false, x))) ps
  end.

(* kind: true = battery (capacity kWh), false = supercapacitor (capacity Wh) *)
Definition check_case (battery : bool) (s : store) (conv : option (Q * curve)) (soc0 cap : Q)
    (ps dt : list Q) (scale : Q)
    (obs_total : fl) (obs_acc : list fl) (obs_soc : fl) (obs_soc_acc : list fl) (obs_result_mj : fl) : bool :=
  let cell := cell_series s conv ps in
  let e := energy_kj cell dt in
  let acc := accumulated_kj cell dt in
  let soc := fun x => if battery then soc_battery soc0 cap x else soc_supercap soc0 cap x in
  close_num scale obs_total (Fin e) &&
  all2 (fun o m => close_num scale o (Fin m)) obs_acc acc &&
  close_num 1 obs_soc (Fin (soc e)) &&
  all2 (fun o m => close_num 1 o (Fin (soc m))) obs_soc_acc acc &&
  close_num scale obs_result_mj (Fin (e / 1000)).
