(* Check/Check_C10.v — the implementation's system result against the accumulation of the
   implementation's own per-component results, computed by the model *)
From Coq Require Import QArith List Bool Arith.
From Feems Require Import Base.Num Model.FuelRecord Model.Result Model.SysResult Check.Check_C18 Check.Check_C19.
Import ListNotations.
Open Scope Q_scope.

(* groups: per switchboard / shaft line: (component results, ids of the components with a detail row) *)
Definition check_system (n : nat) (dur : Q) (groups : list (list res * list nat)) (obs : ores) : bool :=
  let gs := map (fun g => group_total n dur (fst g) (snd g)) groups in
  match system_total n gs with
  | Merged r =>
      (* the detail table is compared as a multiset of row ids by the harness; here the figures *)
      res_close {| o_duration := o_duration obs; o_load := o_load obs; o_scalars := o_scalars obs; o_species := o_species obs;
                   o_fuel := o_fuel obs; o_co2 := o_co2 obs; o_detail := r_detail r |} r
  | _ => false
  end.
