(* Check/Check_C16.v *)
From Coq Require Import QArith List Bool Arith.
From Feems Require Import Base.Num Model.Routes.
Import ListNotations.
Open Scope Q_scope.

Definition ser_close (scale : Q) (o : list fl) (m : list Q) : bool :=
  all2 (fun a b => close_num scale a (Fin b)) o m.
(* what the calculation was fed, as observed on the components after input setting: delivered power
   per propulsor, input per auxiliary load, the interval vector *)
Definition check_fed (f : fed) (nprop naux : nat) (scale : Q) (obs_prop obs_aux : list (list fl)) (obs_dt : list fl) : bool :=
  forallb (fun o => ser_close scale o (per_unit nprop (f_power f))) obs_prop &&
  forallb (fun o => ser_close scale o (per_unit naux (f_aux f))) obs_aux &&
  ser_close scale obs_dt (f_dt f) &&
  Nat.eqb (length obs_prop) nprop && Nat.eqb (length obs_aux) naux.
Definition check_interp (xs ys q : list Q) (obs : list fl) : bool :=
  ser_close 1 obs (map (interp xs ys) q).
