(* Check/Check_C01.v — executable comparison of the electric balance model with the implementation
   (used by the C01 and C03 checks). *)
From Coq Require Import QArith Qabs List Bool Arith.
From Feems Require Import Base.Num Model.Bus Model.ElecBalance.
Import ListNotations.
Open Scope Q_scope.

Definition mk_comp (swb : nat) (k : kind) (rated : Q) (st : list bool) (lsm pin : list Q) : comp * cin :=
  ({| c_swb := swb; c_kind := k; c_rated := rated |}, {| i_status := st; i_lsm := lsm; i_pin := pin |}).

(* obs : per component, the observed series (power_output of sources, power_input of the others) *)
Definition check_series (scale : Q) (model : list num) (obs : list fl) : bool :=
  all2 (fun m o => close_num scale o m) model obs.

Fixpoint transpose_aux {A} (d : A) (n : nat) (rows : list (list A)) (k : nat) : list (list A) :=
  match n with O => [] | S n' => map (fun r => nth k r d) rows :: transpose_aux d n' rows (S k) end.
(* rows indexed by t, columns by component -> per component series *)
Definition per_component (ncomp : nat) (rows : list (list num)) : list (list num) :=
  transpose_aux NonFinite ncomp rows 0.

Definition check_case (plant : list (comp * cin)) (es : list edge) (swbs : list nat)
    (sts : list (list bool)) (n : nat) (obs : list (list fl)) : bool :=
  let rows := balance plant es swbs sts n in
  let cols := per_component (length plant) rows in
  all2 (fun ci mo => check_series (c_rated (fst ci)) (fst mo) (snd mo)) plant (combine cols obs)
  && Nat.eqb (length obs) (length plant).

(* C03: compare load fractions, i.e. observed / rated against model / rated, per unit and step *)
Definition check_case_fraction (plant : list (comp * cin)) (es : list edge) (swbs : list nat)
    (sts : list (list bool)) (n : nat) (obs : list (list fl)) : bool :=
  let rows := balance plant es swbs sts n in
  let cols := per_component (length plant) rows in
  all2 (fun ci mo =>
          let r := c_rated (fst ci) in
          all2 (fun m o => match m, fl2q o with
                           | Fin q, Some oq => close (oq / r) (q / r)
                           | NonFinite, None => true
                           | _, _ => false end) (fst mo) (snd mo))
       plant (combine cols obs)
  && Nat.eqb (length obs) (length plant).

(* is the case inside the domain of theorem C01_balance at every step? (for the evidence) *)
Definition in_theorem_domain (plant : list (comp * cin)) (swbs : list nat) (n : nat) : bool :=
  forallb (fun t => let cs := map (view_at t) plant in wf_b cs swbs && admissible_b cs swbs) (seq 0 n).
