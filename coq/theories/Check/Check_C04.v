(* Check/Check_C04.v — shaft lines (C04) and hybrid composition (C05) against the implementation *)
From Coq Require Import QArith Qabs Qround List Bool.
From Feems Require Import Base.Num Base.Pchip Model.Component Model.Shaft Model.Hybrid Check.Check_C06.
Import ListNotations.
Open Scope Q_scope.

Fixpoint bool_list_eqb (a b : list bool) : bool :=
  match a, b with [], [] => true | x :: a', y :: b' => Bool.eqb x y && bool_list_eqb a' b' | _, _ => false end.

(* one shaft line at one step: observed engine outputs, PTI/PTO shaft power (if any), statuses after *)
Definition check_line (s : line) (scale : Q) (obs_engines : list fl) (obs_pti : option fl) (obs_status : list bool) : bool :=
  all2 (fun e o => close_num scale o (Fin (engine_out s e))) (l_engines s) obs_engines &&
  match l_pti s, obs_pti with
  | Some _, Some o => close_num scale o (Fin (pti_out s))
  | None, None => true
  | _, _ => false end &&
  all2 (fun e o => Bool.eqb (status_after s e) o
                   (* an output that is zero only up to rounding (loads summed in binary64 against the exact sum) *)
                   || Qle_bool (Qabs (engine_out s e)) ((1 # 1000000000) * scale)) (l_engines s) obs_status.

(* a rational rounded down to a multiple of 2^-40 (error < 1e-12): keeps the numbers the interpolant is evaluated at
   small when a balancing power is a quotient of sums; far inside the 1e-9 comparison tolerance *)
Definition dy (x : Q) : Q := inject_Z (Qfloor (x * inject_Z (2 ^ 40))) / inject_Z (2 ^ 40).

(* the machine's two conversions as the comparison uses them: the prepared component's answers rounded to 2^-40 kW, so that
   chains of up to four conversions (electric -> shaft -> electric -> shaft -> electric) stay small rationals *)
Definition conv_ts (p : prepared) (e : Q) : Q := dy (answer p (1%nat, false, e)).
Definition conv_te (p : prepared) (sf : Q) : Q := dy (answer p (0%nat, false, sf)).

(* hybrid, one step: the PTI/PTO machine is a prepared component (serial system curve); the engines
   of its shaft line; the sources of the (single) bus share the load equally *)
Definition check_hybrid_step (p : prepared) (i : hin) (engines : list eng) (src_rated : list Q) (cons_total : Q)
    (scale : Q) (obs_elec obs_shaft : fl) (obs_engines : list fl) (obs_sources : list fl) : bool :=
  let ts := conv_ts p in          (* shaft from electric: output from input *)
  let te := conv_te p in          (* electric from shaft: input from output *)
  let ln := {| l_loads := [h_load i]; l_pti := Some (shaft_balanced_with ts te i, h_full i); l_engines := engines |} in
  let net := cons_total + elec_balanced_with ts te i in
  let cap := qsum src_rated in
  close_num scale obs_elec (Fin (elec_final ts te i)) &&
  close_num scale obs_shaft (Fin (shaft_final ts te i)) &&
  all2 (fun e o => close_num scale o (Fin (engine_out ln e))) engines obs_engines &&
  all2 (fun r o => close_num scale o (Fin (if qzero net then 0 else r * (net / cap)))) src_rated obs_sources.

(* several PTI/PTO machines: each machine separately, and the sources against the sum *)
Definition machine_ok (p : prepared) (i : hin) (engines : list eng) (scale : Q)
    (obs_elec obs_shaft : fl) (obs_engines : list fl) : bool :=
  let ts := conv_ts p in
  let te := conv_te p in
  let ln := {| l_loads := [h_load i]; l_pti := Some (shaft_balanced_with ts te i, h_full i); l_engines := engines |} in
  close_num scale obs_elec (Fin (elec_final ts te i)) &&
  close_num scale obs_shaft (Fin (shaft_final ts te i)) &&
  all2 (fun e o => close_num scale o (Fin (engine_out ln e))) engines obs_engines.
Definition ebal (p : prepared) (i : hin) : Q :=
  elec_balanced_with (conv_ts p) (conv_te p) i.
Definition sources_ok (src_rated : list Q) (net scale : Q) (obs_sources : list fl) : bool :=
  let cap := qsum src_rated in
  all2 (fun r o => close_num scale o (Fin (if qzero net then 0 else r * (net / cap)))) src_rated obs_sources.
(* the same with an explicit capacity (a PTI/PTO that shares the load with the sources at this step counts in it) *)
Definition sources_ok_cap (src_rated : list Q) (cap net scale : Q) (obs_sources : list fl) : bool :=
  all2 (fun r o => close_num scale o (Fin (if qzero net then 0 else r * (net / cap)))) src_rated obs_sources.
