(* Check/Check_C15.v — compares PmsLoadTable.on_pattern (implementation) with BOTH formulations of the
   model: the table as the code builds it, and the recursion `select` the theorems are about. *)
From Coq Require Import QArith Qround ZArith List Bool.
From Feems Require Import Base.Num Model.Pms.
Import ListNotations.
Open Scope Q_scope.

Definition nonempty (p : list bool) : bool := existsb (fun b => b) p.

(* obs_pattern : the implementation's on/off tuple for load x.  Compared by combined rating and
   non-emptiness (another tie-break among equal-capacity sets stays quiet). *)
Definition check_lookup (rs : list Q) (f x : Q) (obs_pattern : list bool) : bool :=
  match select rs f x with
  | None => false
  | Some e =>
      Qeq_bool (fst e) (f * capq rs obs_pattern) &&
      Qeq_bool (fst e) (f * capq rs (on_pattern_table rs f x)) &&
      nonempty obs_pattern && Nat.eqb (length obs_pattern) (length rs)
  end.

Definition check_case (rs : list Q) (f : Q) (lookups : list (Q * list bool)) : bool :=
  forallb (fun l => check_lookup rs f (fst l) (snd l)) lookups.

(* equal-size variant *)
Definition check_equal_size (N : Z) (r f : Q) (lookups : list (Q * Z)) : bool :=
  forallb (fun l => Z.eqb (ideal_number N r f (fst l)) (snd l)) lookups.

(* after a MachineryCalculation run: statuses per step must be a selection for the total load of the
   step, and the observed load fraction must equal load / running rating *)
Definition check_run_step (rs : list Q) (f load : Q) (status : list bool) : bool :=
  check_lookup rs f load status.
