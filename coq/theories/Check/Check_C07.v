(* Check/Check_C07.v *)
From Coq Require Import QArith Qabs List Bool.
From Feems Require Import Base.Num Base.Pchip Model.Component Model.FuelRun Check.Check_C06.
Import ListNotations.
Open Scope Q_scope.

Definition cl (scale : Q) (o : fl) (m : Q) : bool := close_num scale o (Fin m).

(* engine (optionally dual fuel): per power value: load, bsfc, main fuel kg/s, pilot kg/s *)
Definition check_engine (rated : Q) (bsfc : curve) (bspfc : option curve) (ps : list Q)
    (obs_load obs_bsfc obs_fuel : list fl) (obs_pilot : list fl) : bool :=
  let f := curve_fn bsfc in
  all2 (fun p o => cl 1 o (engine_load rated p)) ps obs_load &&
  all2 (fun p o => cl 1 o (f (engine_load rated p))) ps obs_bsfc &&
  all2 (fun p o => cl 1 o (engine_fuel rated f p)) ps obs_fuel &&
  match bspfc with
  | None => match obs_pilot with [] => true | _ => false end
  | Some c => let g := curve_fn c in all2 (fun p o => cl 1 o (pilot_fuel rated g p)) ps obs_pilot
  end.

(* engine power behind a generator (prepared component) or a gearbox *)
Definition check_genset_power (gen : prepared) (scalar : bool) (ps : list Q) (obs : list fl) : bool :=
  all2 (fun p o => cl (p_rated gen) o (answer gen (0%nat, scalar, p))) ps obs.
Definition check_geared_power (rated : Q) (gear : curve) (ps : list Q) (obs : list fl) : bool :=
  let g := curve_fn gear in all2 (fun p o => cl rated o (geared_engine_power rated g p)) ps obs.

(* fuel-cell system *)
Definition check_fuel_cell (m : Q) (conv modu : prepared) (lhv : Q) (scalar : bool) (ps : list Q) (obs : list fl) : bool :=
  all2 (fun p o =>
          let p_fc := answer conv (0%nat, scalar, p) in
          cl 1 o (answer modu (0%nat, scalar, p_fc / m) / lhv / 1000000 * m)) ps obs.

(* COGAS: fuel and turbine split *)
Definition check_cogas (rated : Q) (ceff : curve) (share : option curve) (lhv : Q) (ps : list Q)
    (obs_fuel obs_gt obs_st : list fl) : bool :=
  let e := curve_fn ceff in
  all2 (fun p o => cl 1 o (cogas_fuel rated e lhv p)) ps obs_fuel &&
  match share with
  | None => true
  | Some c => let sh := curve_fn c in
              all2 (fun p o => cl rated o (gas_turbine_power rated sh p)) ps obs_gt &&
              all2 (fun p o => cl rated o (steam_turbine_power rated sh p)) ps obs_st
  end.

Definition check_hours (out dt : list Q) (obs : fl) : bool := cl 1 obs (running_hours out dt).
