(* (intermediate results are kept reduced with Qred: same rational numbers, bounded size) *)
(* Base/Pchip.v — SciPy's PchipInterpolator over Q (scipy/interpolate/_cubic.py): Fritsch-Carlson
   harmonic-mean interior slopes, the three-point end rule with its two sign guards, cubic Hermite
   evaluation, extrapolation with the end polynomials.  All operations are rational, so the model
   is exact.  Note: SciPy's code weights with w1/m_{k-1} + w2/m_k (its comment says the opposite);
   the model follows the code.  Definitions only. *)
From Coq Require Import QArith Qabs List Bool ZArith.
Import ListNotations.
Open Scope Q_scope.

Definition qsgn (x : Q) : Z := match Qcompare x 0 with Lt => (-1)%Z | Eq => 0%Z | Gt => 1%Z end.

Fixpoint hs (xs : list Q) : list Q :=
  match xs with a :: ((b :: _) as r) => Qred (b - a) :: hs r | _ => [] end.
Fixpoint ms (pts : list (Q * Q)) : list Q :=
  match pts with (x0, y0) :: (((x1, y1) :: _) as r) => Qred ((y1 - y0) / (x1 - x0)) :: ms r | _ => [] end.

(* _edge_case(h0, h1, m0, m1) *)
Definition edge (h0 h1 m0 m1 : Q) : Q :=
  let d := Qred (((2 * h0 + h1) * m0 - h0 * m1) / (h0 + h1)) in
  if negb (Z.eqb (qsgn d) (qsgn m0)) then 0
  else if negb (Z.eqb (qsgn m0) (qsgn m1)) && Qle_bool (3 * Qabs m0) (Qabs d) && negb (Qeq_bool (3 * Qabs m0) (Qabs d))
       then 3 * m0 else d.

Definition interior (hkm1 hk mkm1 mk : Q) : Q :=
  if negb (Z.eqb (qsgn mk) (qsgn mkm1)) || Qeq_bool mk 0 || Qeq_bool mkm1 0 then 0
  else let w1 := 2 * hk + hkm1 in let w2 := hk + 2 * hkm1 in
       Qred (1 / ((w1 / mkm1 + w2 / mk) / (w1 + w2))).

Fixpoint interiors (h m : list Q) : list Q :=
  match h, m with
  | h0 :: ((h1 :: _) as hr), m0 :: ((m1 :: _) as mr) => interior h0 h1 m0 m1 :: interiors hr mr
  | _, _ => []
  end.

Definition derivs (pts : list (Q * Q)) : list Q :=
  let h := hs (map fst pts) in let m := ms pts in
  match h, m with
  | [_], [m0] => [m0; m0]
  | h0 :: h1 :: _, m0 :: m1 :: _ =>
      match rev h, rev m with
      | hl :: hl' :: _, ml :: ml' :: _ => edge h0 h1 m0 m1 :: interiors h m ++ [edge hl hl' ml ml']
      | _, _ => []
      end
  | _, _ => []
  end.

(* cubic Hermite piece on [x0, x1] in SciPy's power-basis form *)
Definition hermite (x0 y0 d0 x1 y1 d1 x : Q) : Q :=
  let dx := x1 - x0 in let slope := (y1 - y0) / dx in
  let t := (d0 + d1 - 2 * slope) / dx in
  let c0 := t / dx in let c1 := (slope - d0) / dx - t in
  let s := x - x0 in ((c0 * s + c1) * s + d0) * s + y0.

Fixpoint eval_aux (pts : list (Q * Q)) (ds : list Q) (x : Q) : Q :=
  match pts, ds with
  | (x0, y0) :: (((x1, y1) :: pr) as r), d0 :: ((d1 :: _) as dr) =>
      match pr with
      | [] => hermite x0 y0 d0 x1 y1 d1 x                     (* last piece, also extrapolates right *)
      | _ => if Qle_bool x1 x then eval_aux r dr x else hermite x0 y0 d0 x1 y1 d1 x
      end
  | _, _ => 0
  end.

(* pts sorted by strictly increasing abscissa, at least two points *)
Definition pchip (pts : list (Q * Q)) (x : Q) : Q := Qred (eval_aux pts (map Qred (derivs pts)) x).

(* FEEMS' get_efficiency_curve_from_points: a single value is a constant function, otherwise PCHIP
   through the points sorted by load *)
Fixpoint insert_pt (p : Q * Q) (l : list (Q * Q)) : list (Q * Q) :=
  match l with [] => [p] | q :: r => if Qle_bool (fst p) (fst q) then p :: l else q :: insert_pt p r end.
Definition sort_pts (l : list (Q * Q)) : list (Q * Q) := fold_right insert_pt [] l.

Inductive curve := Const (v : Q) | Points (pts : list (Q * Q)).
Definition curve_eval (c : curve) (x : Q) : Q :=
  match c with Const v => v | Points pts => pchip (sort_pts pts) x end.
