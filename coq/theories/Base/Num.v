(* Base/Num.v — exact rationals, the encoding of IEEE doubles observed from the implementation,
   and the tolerance comparison used by the correspondence check.  Definitions only. *)
From Coq Require Import QArith Qabs ZArith List Bool.
From Coq Require Export Uint63.
Import ListNotations.
Open Scope Q_scope.

(* A double as observed from the implementation: sign, integer mantissa (< 2^53, primitive int so
   that case files parse fast), binary exponent; or a non-finite value. *)
Inductive fl : Type :=
| F (neg : bool) (m : int) (e : Z)
| FNonFinite.
Arguments F neg m%uint63 e%Z.

Definition pow2 (e : Z) : positive := Z.to_pos (Z.pow 2 e).

Definition fl2q (f : fl) : option Q :=
  match f with
  | F neg m e =>
      let mz := Uint63.to_Z m in
      let mz := if neg then Z.opp mz else mz in
      Some (if (0 <=? e)%Z then Qmake (mz * Z.pow 2 e) 1 else Qmake mz (pow2 (- e)))
  | FNonFinite => None
  end.

(* exact value of a finite double; non-finite read as 0 only where the caller has excluded it *)
Definition flq (f : fl) : Q := match fl2q f with Some q => q | None => 0 end.
Definition fl_finite (f : fl) : bool := match f with F _ _ _ => true | FNonFinite => false end.

Definition tol : Q := 1 # 1000000000.

Definition qmax (a b : Q) : Q := if Qle_bool a b then b else a.
Definition qmin (a b : Q) : Q := if Qle_bool a b then a else b.

(* |impl - model| <= 1e-9 * max(1, |model|, scale) *)
Definition close_sc (scale impl model : Q) : bool :=
  Qle_bool (Qabs (impl - model)) (tol * qmax 1 (qmax (Qabs model) (Qabs scale))).
Definition close (impl model : Q) : bool := close_sc 0 impl model.

(* model values that may be non-finite (division by zero in the implementation gives inf/nan) *)
Inductive num : Type := Fin (q : Q) | NonFinite.

Definition close_num (scale : Q) (impl : fl) (model : num) : bool :=
  match fl2q impl, model with
  | Some i, Fin m => close_sc scale i m
  | None, NonFinite => true
  | _, _ => false
  end.

Definition b2q (b : bool) : Q := if b then 1 else 0.
Definition qeqb (a b : Q) : bool := Qeq_bool a b.
Definition qzero (a : Q) : bool := Qeq_bool a 0.

Fixpoint all2 {A B} (f : A -> B -> bool) (l : list A) (m : list B) : bool :=
  match l, m with
  | [], [] => true
  | a :: l', b :: m' => f a b && all2 f l' m'
  | _, _ => false
  end.

Fixpoint qsum (l : list Q) : Q := match l with [] => 0 | x :: r => x + qsum r end.
Fixpoint qdot (a b : list Q) : Q :=
  match a, b with x :: a', y :: b' => x * y + qdot a' b' | _, _ => 0 end.
