(* Props/C13.v — C13: converting a machinery system to its protobuf description and back gives an identically
   described system; a second pass changes nothing.  Theorems only; proofs in Proofs/ProtoProofs.v. *)
From Coq Require Import QArith List Bool Arith String Permutation.
From Feems Require Import Model.ProtoSys Proofs.ProtoProofs.
Import ListNotations.

(* every component kind the switchboard converters branch on: decoding the encoding gives the component back
   (a PTI/PTO's shaft line is not part of a switchboard's description: it restarts at 1) *)
Theorem C13_component_roundtrip : forall fresh c, wf_comp c = true -> dec_comp fresh (enc_comp c) = Some (reset_line c).
Proof. exact dec_enc_comp. Qed.
Print Assumptions C13_component_roundtrip.

(* a switchboard comes back with the same components, listed by power type *)
Theorem C13_switchboard_roundtrip : forall fresh w, forallb wf_comp (snd w) = true ->
  dec_swb fresh (enc_swb w) = Some (norm_swb w) /\ fst (norm_swb w) = fst w /\
  Permutation (snd (norm_swb w)) (map reset_line (snd w)).
Proof.
  intros fresh w H. split; [apply dec_enc_swb, H|]. split; [reflexivity|]. apply group_pt_perm.
Qed.
Print Assumptions C13_switchboard_roundtrip.

(* the electric system: same switchboards, same breakers - for the topologies the description can carry *)
Theorem C13_electric_roundtrip : forall fresh e, wf_electric e = true -> representable e ->
  dec_electric fresh (enc_electric e) = Some (norm_electric e).
Proof. exact dec_enc_electric. Qed.
Print Assumptions C13_electric_roundtrip.

(* shaft lines: main engines with and without gearbox, propellers, PTI/PTOs *)
Theorem C13_line_roundtrip : forall fresh w, forallb wf_mcomp (snd w) = true ->
  dec_line fresh None (enc_line w) = Some (norm_line w).
Proof. exact dec_enc_line. Qed.
Print Assumptions C13_line_roundtrip.

Theorem C13_system_roundtrip : forall fresh name e ls, wf_electric e = true -> representable e -> wf_lines ls = true ->
  dec_system fresh (enc_system (SElectric name e)) = Some (norm_system (SElectric name e)) /\
  dec_system fresh (enc_system (SMech name e ls)) = Some (norm_system (SMech name e ls)).
Proof.
  intros fresh name e ls W R WL. split; [apply dec_enc_system_electric; assumption|apply dec_enc_system_mech; assumption].
Qed.
Print Assumptions C13_system_roundtrip.

(* description -> system -> description is stable after the first pass: the system obtained from a description
   is a fixed point of the round trip *)
Theorem C13_stable : forall fresh name e ls, wf_electric e = true -> representable e -> wf_lines ls = true ->
  forall s, (s = SElectric name e \/ s = SMech name e ls) ->
  forall s1, dec_system fresh (enc_system s) = Some s1 -> dec_system fresh (enc_system s1) = Some s1.
Proof.
  intros fresh name e ls W R WL s Hs s1 H1.
  destruct Hs as [-> | ->].
  - rewrite (dec_enc_system_electric fresh name e W R) in H1. injection H1 as <-. cbn [norm_system].
    rewrite (dec_enc_system_electric fresh _ _ (wf_norm_electric _ W) (representable_norm _ R)). cbn [norm_system].
    rewrite norm_electric_idem. reflexivity.
  - rewrite (dec_enc_system_mech fresh name e ls W R WL) in H1. injection H1 as <-. cbn [norm_system].
    rewrite (dec_enc_system_mech fresh _ _ _ (wf_norm_electric _ W) (representable_norm _ R) (wf_norm_lines _ WL)).
    cbn [norm_system]. rewrite norm_electric_idem, map_map.
    rewrite (map_ext _ norm_line) by (intros w; apply norm_line_idem). reflexivity.
Qed.
Print Assumptions C13_stable.

(* hybrid plants: the shaft lines come back as they were, their PTI/PTOs are again the very objects the
   switchboards list (found by uid and name), and each of those gets its shaft line back; the second pass
   changes nothing *)
Theorem C13_hybrid_roundtrip : forall fresh name e ls, hybrid_ok e ls ->
  dec_system fresh (enc_system (SHybrid name e ls)) = Some (SHybrid name (group_electric e) ls) /\
  dec_system fresh (enc_system (SHybrid name (group_electric e) ls)) = Some (SHybrid name (group_electric e) ls).
Proof.
  intros fresh name e ls H. split; [apply dec_enc_system_hybrid, H|].
  rewrite (dec_enc_system_hybrid fresh name _ ls (hybrid_ok_group e ls H)), group_electric_idem. reflexivity.
Qed.
Print Assumptions C13_hybrid_roundtrip.

(* the edges of the domain, stated rather than hidden *)
Theorem C13_short_uid_replaced : forall fresh u, (String.length u <= 5)%nat -> dec_uid fresh u = fresh.
Proof.
  intros fresh u H. unfold dec_uid. destruct (Nat.ltb_spec 5 (String.length u)) as [L|L]; [exfalso; apply (Nat.lt_irrefl 5); eapply Nat.lt_le_trans; eassumption|reflexivity].
Qed.
Print Assumptions C13_short_uid_replaced.

(* whatever the description says, the decoded system has the breakers 1-2, 2-3, ...: any other topology cannot
   come back (known finding F-C13-1) *)
Theorem C13_breakers_are_the_chain : forall fresh l e, dec_electric fresh l = Some e ->
  x_breakers e = chain 1 (List.length l - 1).
Proof.
  intros fresh l e H. unfold dec_electric in H. destruct (all_some (map (dec_swb fresh) l)) as [ws|]; [|discriminate].
  unfold construct in H. match type of H with (if ?c then _ else _) = _ => destruct c end; [|discriminate].
  injection H as <-. reflexivity.
Qed.
Print Assumptions C13_breakers_are_the_chain.

(* the hypotheses are satisfiable: a two-switchboard plant *)
Open Scope string_scope.
Open Scope Q_scope.
Definition ex_eng : f_engine :=
  {| e_name := "eng"; e_rated := 1000; e_speed := 900; e_bsfc := [(1#4, 220); (1#2, 200); (1, 190)]; e_fuel := 2; e_origin := 1;
     e_nox := 0; e_cycle := 2; e_emis := [(6%nat, [(1#2, 3)])]; e_pilot := Some ([(0, 5); (1, 3)], 0%nat, 1%nat); e_uid := "uid-eng-1" |}.
Definition ex_gen : f_mach := {| h_name := "gen"; h_rated := 950; h_speed := 900; h_eff := [(0, 95#100); (1, 97#100)]; h_uid := "uid-gen-1" |}.
Definition ex_load : f_ecomp := {| c_name := "hotel"; c_rated := 300; c_eff := [(0, 1); (1, 1)]; c_uid := "uid-load-1" |}.
Definition ex_drive : f_serial :=
  {| r_pti := false; r_name := "drive"; r_uid := "uid-drive-1"; r_rated := 800; r_speed := 1000; r_line := 1;
     r_stages := [ {| g_kind := KTransformer; g_name := "tr"; g_rated := 800; g_speed := 0; g_eff := [(0, 99#100); (1, 99#100)]; g_uid := "uid-tr-001" |};
                   {| g_kind := KConverter; g_name := "inv"; g_rated := 800; g_speed := 0; g_eff := [(0, 98#100); (1, 98#100)]; g_uid := "uid-inv-01" |};
                   {| g_kind := KMachine; g_name := "mot"; g_rated := 800; g_speed := 1000; g_eff := [(1#4, 94#100); (1, 96#100)]; g_uid := "uid-mot-01" |} ] |}.
Definition ex_bat : f_battery := {| b_name := "bat"; b_kwh := 1000; b_cin := 1; b_cout := 1; b_effc := 97#100; b_effd := 97#100; b_soc0 := 1#2; b_uid := "uid-bat-01" |}.
Definition ex_electric : f_electric :=
  {| x_swbs := [(1%nat, [CLoad ex_load; CGenset "gs1" "uid-gs-001" ex_eng ex_gen]);
                (2%nat, [CSerial ex_drive; CBattery ex_bat; CGenset "gs2" "uid-gs-002" ex_eng ex_gen])];
     x_breakers := [(1%nat, 2%nat)] |}.
Definition ex_lines : list (nat * list m_comp) :=
  [(1%nat, [MPropeller "prop" "uid-prop-1" 5000 100 [(0, 1); (1, 1)]; MEngineGB "me" "uid-me-001" ex_eng ex_gen])].

Definition ex_pti : f_serial :=
  {| r_pti := true; r_name := "pti"; r_uid := "uid-pti-01"; r_rated := 600; r_speed := 1000; r_line := 1;
     r_stages := [ {| g_kind := KConverter; g_name := "afe"; g_rated := 600; g_speed := 0; g_eff := [(0, 98#100); (1, 98#100)]; g_uid := "uid-afe-01" |};
                   {| g_kind := KMachine; g_name := "sg"; g_rated := 600; g_speed := 1000; g_eff := [(1#4, 94#100); (1, 96#100)]; g_uid := "uid-sg-001" |} ] |}.
Definition ex_hybrid_electric : f_electric :=
  {| x_swbs := [(1%nat, [CSerial ex_pti; CLoad ex_load; CGenset "gs1" "uid-gs-001" ex_eng ex_gen])]; x_breakers := [] |}.
Definition ex_hybrid_lines : list (nat * list m_comp) :=
  [(1%nat, [MPropeller "prop" "uid-prop-1" 5000 100 [(0, 1); (1, 1)]; MPti true ex_pti; MEngine "me" "uid-me-001" ex_eng])].

Example C13_hybrid_hypotheses_satisfiable : hybrid_ok ex_hybrid_electric ex_hybrid_lines.
Proof.
  constructor.
  - vm_compute. reflexivity.
  - repeat split; try reflexivity. repeat constructor; discriminate.
  - vm_compute. discriminate.
  - vm_compute. repeat constructor. intros [].
  - vm_compute. repeat constructor. intros [].
  - repeat constructor; vm_compute; auto.
  - reflexivity.
  - vm_compute. reflexivity.
  - intros w c [<-|[]] Hc. cbn [snd ex_hybrid_electric x_swbs] in Hc.
    destruct Hc as [<-|[<-|[<-|[]]]]; try exact I. vm_compute. discriminate.
Qed.

Example C13_hypotheses_satisfiable :
  wf_electric ex_electric = true /\ representable ex_electric /\ wf_lines ex_lines = true /\
  norm_electric ex_electric <> ex_electric.
Proof.
  split; [vm_compute; reflexivity|]. split; [repeat split; try reflexivity; repeat constructor; discriminate|].
  split; [vm_compute; reflexivity|]. vm_compute. discriminate.
Qed.
