(* Props/C08.v — C08: greenhouse-gas emissions = sum over fuels of mass x pathway factor.
   Static statements, valid for ANY tables; the statements about the tables the code ships are in
   coq/gen/C08_gen.v and are re-proved on every run against the regenerated tables. *)
From Coq Require Import QArith String List Bool Arith.
From Feems Require Import Base.Num Model.Ghg Proofs.GhgProofs.
Import ListNotations.
Open Scope Q_scope.

(* the reported total -- total mass x mass-fraction-weighted mix factor -- equals, for each of the
   three figures (tank-to-wake, well-to-tank, tank-to-wake without slip), the sum over the fuels of
   mass x factor, for every mix (any number of fuels, any masses) with a non-zero total *)
Theorem C08_total_is_sum T s cls m t fs :
  ~ total_mass m == 0 ->
  all_some (map (fun e => entry_factors T s cls (fst e)) m) = Some fs ->
  total_emissions T s cls m = Some t -> teq t (sum_mass_factor m fs).
Proof. apply total_is_sum. Qed.

Theorem C08_zero_total T s cls m : total_mass m == 0 -> total_emissions T s cls m = Some (0, 0, 0).
Proof. apply total_zero. Qed.

(* totals computed from scalars and from time series agree: wherever every fuel of the mix has its
   factors, a step of a series record gives exactly what the scalar record of that step gives *)
Theorem C08_scalar_series T s cls m fs :
  all_some (map (fun e => entry_factors T s cls (fst e)) m) = Some fs ->
  total_emissions_step T s cls m = total_emissions T s cls m.
Proof. intros H. unfold total_emissions_step. rewrite H. reflexivity. Qed.

(* tank-to-wake = (1 - slip)(CO2 + GWP_CH4 x CH4 + GWP_N2O x N2O) + GWP_CH4 x slip *)
Theorem C08_formula T co2 ch4 n2o slip :
  ttw_formula T co2 ch4 n2o slip
  == (1 - slip / 100) * (co2 + t_gwp_ch4 T * ch4 + t_gwp_n2o T * n2o) + t_gwp_ch4 T * (slip / 100).
Proof. apply ttw_formula_eq. Qed.

(* non-gas fuels in a gas engine use the generic engine class; natural gas keeps the engine's class *)
Theorem C08_gas_engine_rule T s cls ty o : is_gas_class T cls = true ->
  entry_factors T s cls (Prescribed ty o)
  = if Nat.eqb ty (t_ng T) then factors T s ty o cls else factors T s ty o (t_ice T).
Proof. intros H. unfold entry_factors. rewrite H. destruct (Nat.eqb ty (t_ng T)); reflexivity. Qed.

(* Non-vacuity on a two-row table: 3 kg of a gas with slip 2 % in a gas engine plus 1 kg of user fuel *)
Definition toyT : ghg_tables :=
  {| t_eu := [mkrow "LNG" "Fossil" (Some (1#20)) (Some 18) "LNG otto (medium speed)" (Some (11#4)) (Some 0) (Some (11#100000)) (Some 2)];
     t_imo := []; t_types := [(2%nat, "LNG"%string)]; t_origins := [(1%nat, "Fossil"%string)];
     t_classes := [(2%nat, "LNG otto (medium speed)"%string)]; t_class_enum := [(2%nat, "LNG_OTTO_MEDIUM_SPEED"%string)];
     t_ng := 2%nat; t_ice := 1%nat; t_gwp_ch4 := 25; t_gwp_n2o := 298 |}.
Example C08_example :
  let m := [(Prescribed 2 1, 3); (User 3 (1#2) 3, 1)] in
  match total_emissions toyT EU 2 m with
  | Some (a, b, c) => Qred a = Qred (3 * ttw_formula toyT (11#4) 0 (11#100000) 2 + 1 * 3) /\
                      Qred b = Qred (3 * (18 * (1#20)) + 1 * (1#2)) /\ Qred c = Qred (3 * (11#4) + 3)
  | None => False end.
Proof. vm_compute. repeat split. Qed.

Print Assumptions C08_total_is_sum.
Print Assumptions C08_zero_total.
Print Assumptions C08_scalar_series.
Print Assumptions C08_formula.
Print Assumptions C08_gas_engine_rule.
