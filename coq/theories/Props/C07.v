(* Props/C07.v — C07: fuel mass flow follows the consumption and efficiency characteristics.
   Statements over Model/FuelRun.v for ARBITRARY curve functions (what a curve returns at a load is
   C06/C09's PCHIP model, tied to SciPy by their correspondence). *)
From Coq Require Import QArith Qabs List Bool Lqa.
From Feems Require Import Base.Num Model.Component Model.FuelRun Proofs.ComponentProofs.
Import ListNotations.
Open Scope Q_scope.

(* fuel mass flow = specific consumption at the load x shaft power; one hour at P kW burns bsfc x P
   grams; zero at zero power; non-negative for non-negative power and consumption *)
Theorem C07_engine rated bsfc p :
  engine_fuel rated bsfc p * 3600 * 1000 == bsfc (engine_load rated p) * p /\
  engine_fuel rated bsfc 0 == 0 /\
  (0 <= p -> 0 <= bsfc (engine_load rated p) -> 0 <= engine_fuel rated bsfc p).
Proof.
  unfold engine_fuel. split; [field|]. split; [field|].
  intros Hp Hb. assert (0 <= bsfc (engine_load rated p) * p) by (apply Qmult_le_0_compat; assumption).
  assert (E : bsfc (engine_load rated p) * (p / 3600) / 1000 == bsfc (engine_load rated p) * p * (1 # 3600000)) by field.
  rewrite E. apply Qmult_le_0_compat; [assumption|discriminate].
Qed.

(* the pilot fuel is reported separately from the main fuel: two entries, each its own consumption
   curve x power, never merged *)
Theorem C07_pilot_separate rated bsfc bspfc p :
  dual_fuel_entries rated bsfc bspfc p = [engine_fuel rated bsfc p; pilot_fuel rated bspfc p] /\
  pilot_fuel rated bspfc p * 3600 * 1000 == bspfc (engine_load rated p) * p.
Proof. split; [reflexivity|unfold pilot_fuel; field]. Qed.

(* the engine power behind a conversion stage is the delivered power divided by the stage's
   efficiency at its load (generator of a generating set for p >= 0; gearbox of a geared engine) *)
Theorem C07_chain gen_rated gen_eff rated gear_eff p : 0 <= p ->
  genset_engine_power gen_rated gen_eff true p * eff gen_eff (Qabs p / gen_rated) == p /\
  geared_engine_power rated gear_eff p * eff gear_eff (Qabs p / rated) == p.
Proof.
  intros Hp. split.
  - unfold genset_engine_power, in_from_out_scalar. rewrite (proj2 (Qle_bool_iff 0 p) Hp).
    destruct (fwd_ratio gen_rated gen_eff p) as [E _]. symmetry. exact E.
  - unfold geared_engine_power. pose proof (eff_bounds gear_eff (Qabs p / rated)). field. lra.
Qed.

(* the number of fuel-cell modules scales the result linearly: the system burns m times what one
   module burns at 1/m of the cell power *)
Theorem C07_modules_linear m mod_rated mod_eff lhv sc p_fc :
  fc_system_fuel_from_cell_power m mod_rated mod_eff lhv sc p_fc
  == m * fc_module_fuel mod_rated mod_eff lhv sc (p_fc / m).
Proof. unfold fc_system_fuel_from_cell_power. ring. Qed.

(* fuel-cell and turbine fuel mass is fuel power divided by the lower heating value *)
Theorem C07_fuel_power_over_lhv rated ceff lhv p : ~ lhv == 0 ->
  cogas_fuel rated ceff lhv p * (lhv * 1000000) == p / eff ceff (Qabs p / rated).
Proof. intros H. unfold cogas_fuel. pose proof (eff_bounds ceff (Qabs p / rated)). field. split; [lra|exact H]. Qed.

(* the gas- and steam-turbine powers follow the split curve and add up to the output *)
Theorem C07_turbine_split rated share p :
  gas_turbine_power rated share p == share (p / rated) * p /\
  gas_turbine_power rated share p + steam_turbine_power rated share p == p.
Proof. unfold steam_turbine_power, gas_turbine_power. split; ring. Qed.

(* a machine accrues running hours exactly over the intervals in which it delivers power *)
Theorem C07_running_hours p ps d ds :
  running_hours (p :: ps) (d :: ds) == (if qzero p then 0 else d / 3600) + running_hours ps ds.
Proof. cbn [running_hours]. destruct (qzero p); field. Qed.

Example C07_example : (* bsfc 200 g/kWh at 1800 kW: 0.1 kg/s; hours over [600; 0-power 300; 900] s *)
  Qred (engine_fuel 2000 (fun _ => 200) 1800) = 1 # 10 /\
  Qred (running_hours [1800; 0; 5] [600; 300; 900]) = 5 # 12.
Proof. vm_compute. split; reflexivity. Qed.

Print Assumptions C07_engine.
Print Assumptions C07_pilot_separate.
Print Assumptions C07_chain.
Print Assumptions C07_modules_linear.
Print Assumptions C07_fuel_power_over_lhv.
Print Assumptions C07_turbine_split.
Print Assumptions C07_running_hours.
