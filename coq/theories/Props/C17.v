(* Props/C17.v — C17: stored energy and state of charge follow terminal power and efficiencies.
   Statements over Model/Storage.v; proofs in Proofs/ComponentProofs.v.
   Partial for stores behind a converter: the never-gains statement is proved for the store itself
   (any efficiencies in (0,1]); with a converter in front it needs "interpolated inverse(p) <= p" for
   charging powers, which is measured by the correspondence (C06), not proved. *)
From Coq Require Import QArith List Bool Lqa.
From Feems Require Import Base.Num Model.Component Model.Storage Proofs.ComponentProofs.
Import ListNotations.
Open Scope Q_scope.

(* the energy credited is the interval-weighted sum of terminal power x charging efficiency while
   charging, / discharging efficiency while discharging *)
Theorem C17_energy s p ps d ds :
  energy_kj (map (cell_from_terminal s) (p :: ps)) (d :: ds)
  == (if Qle_bool p 0 then (if qzero p then p else p / eff_d s) else p * eff_c s) * d
     + energy_kj (map (cell_from_terminal s) ps) ds.
Proof. cbn [map energy_kj]. unfold cell_from_terminal. reflexivity. Qed.

(* state of charge = initial value + energy / capacity (battery: kWh, supercapacitor: Wh) *)
Theorem C17_soc soc0 cap e :
  soc_battery soc0 cap e == soc0 + e / (3600 * cap) /\ soc_supercap soc0 cap e == soc0 + e / ((36 # 10) * cap).
Proof. unfold soc_battery, soc_supercap. split; unfold Qdiv; rewrite Qinv_mult_distr; ring. Qed.

(* 1 kW for 3600 s into an ideal 1 kWh battery raises the state of charge by exactly 1 *)
Theorem C17_units : soc_battery 0 1 (energy_kj [1] [3600]) == 1 /\ soc_supercap 0 1000 (energy_kj [1] [3600]) == 1.
Proof. split; vm_compute; reflexivity. Qed.

(* the accumulated series has one more entry than the input and its last value is the total *)
Theorem C17_last_accumulated_is_total cell dt : length cell = length dt ->
  last (accumulated_kj cell dt) 0 == energy_kj cell dt /\ length (accumulated_kj cell dt) = S (length cell).
Proof. apply accumulated_last. Qed.

(* a series whose terminal energy sums to zero (a charge followed by a discharge of the same terminal
   energy, in any order and any number of steps) never ends above the starting state of charge *)
Theorem C17_roundtrip_never_gains s ps dt soc0 cap :
  0 < eff_c s <= 1 -> 0 < eff_d s <= 1 -> length ps = length dt -> (forall d, In d dt -> 0 <= d) ->
  0 < cap -> energy_kj ps dt == 0 ->
  soc_battery soc0 cap (energy_kj (map (cell_from_terminal s) ps) dt) <= soc0 /\
  soc_supercap soc0 cap (energy_kj (map (cell_from_terminal s) ps) dt) <= soc0.
Proof.
  intros Hc Hd Hl Hp Hcap Hz.
  pose proof (energy_never_gains s ps dt Hc Hd Hl Hp) as H. rewrite Hz in H.
  set (e := energy_kj (map (cell_from_terminal s) ps) dt) in *.
  destruct (C17_soc soc0 cap e) as [E1 E2]. rewrite E1, E2.
  assert (A : 0 < / (3600 * cap)) by (apply Qinv_lt_0_compat; lra).
  assert (B : 0 < / ((36 # 10) * cap)) by (apply Qinv_lt_0_compat; lra).
  unfold Qdiv.
  assert (0 <= (- e) * / (3600 * cap)) by (apply Qmult_le_0_compat; lra).
  assert (0 <= (- e) * / ((36 # 10) * cap)) by (apply Qmult_le_0_compat; lra).
  split; lra.
Qed.

Example C17_example : (* 100 kW in for 600 s, then 100 kW out for 600 s, eff 15/16 both ways, 50 kWh *)
  let s := {| eff_c := 15 # 16; eff_d := 15 # 16 |} in
  let cell := map (cell_from_terminal s) [100; -100] in
  map Qred (accumulated_kj cell [600; 600]) = [0; 56250; -7750] /\
  Qred (soc_battery (1 # 2) 50 (energy_kj cell [600; 600])) = 329 # 720.
Proof. vm_compute. split; reflexivity. Qed.

Print Assumptions C17_energy.
Print Assumptions C17_soc.
Print Assumptions C17_units.
Print Assumptions C17_last_accumulated_is_total.
Print Assumptions C17_roundtrip_never_gains.
