(* Props/C12.v — C12: a calculation depends only on its own inputs, not on earlier runs.
   Statements over the state-machine model Model/Stateful.v (electric system; the shaft-line balance
   is the same shape over Model/Shaft.v, whose status write-back is covered by C04_status_writeback).
   In the model the statements are short because the balance is a function of the input fields and
   Supply overwrites all of them; their content is the exact list of fields a COMPLETE assignment
   must cover (record `assignment`) and that Balance reads nothing else.  That the implementation
   behaves like this model on reused objects -- i.e. that no array is aliased, no output survives, no
   query writes -- is what the history correspondence checks after every operation. *)
From Coq Require Import QArith List Bool.
From Feems Require Import Base.Num Model.Bus Model.ElecBalance Model.Stateful.
Import ListNotations.

(* whatever happened to two objects of the same plant before, supplying the same complete inputs and
   balancing gives the same outputs *)
Theorem C12_history_free s1 s2 h1 h2 a : same_plant s1 s2 ->
  s_outputs (run (run s1 h1) [Supply a; Balance]) = s_outputs (run (run s2 h2) [Supply a; Balance]).
Proof.
  intros [E1 [E2 E3]].
  assert (K : forall s h, s_static (run s h) = s_static s /\ s_edges (run s h) = s_edges s /\ s_swbs (run s h) = s_swbs s).
  { intros s h; revert s; induction h as [|o h IH]; intros s; [repeat split|].
    cbn [run fold_left]. fold (run (step s o) h). destruct (IH (step s o)) as [A [B C]].
    rewrite A, B, C. destruct o; repeat split. }
  destruct (K s1 h1) as [A1 [B1 C1]]. destruct (K s2 h2) as [A2 [B2 C2]].
  cbn [run fold_left step s_outputs s_static s_inputs s_edges s_swbs s_sts s_n].
  rewrite A1, B1, C1, A2, B2, C2, E1, E2, E3. reflexivity.
Qed.

(* repeating the calculation gives identical results *)
Theorem C12_repeatable s : s_outputs (run s [Balance; Balance]) = s_outputs (run s [Balance]).
Proof. reflexivity. Qed.

(* reading results changes nothing, wherever the queries are interleaved *)
Theorem C12_queries_read_only s ops : run s (Query :: ops) = run s ops /\ step s Query = s.
Proof. split; reflexivity. Qed.

(* a balance leaves the inputs alone (nothing a later Supply does not overwrite is written) *)
Theorem C12_balance_keeps_inputs s :
  s_inputs (step s Balance) = s_inputs s /\ s_sts (step s Balance) = s_sts s /\ s_n (step s Balance) = s_n s.
Proof. repeat split. Qed.

Example C12_example : (* two histories of different length and breaker state end in the same outputs *)
  let st := [{| c_swb := 1; c_kind := Source; c_rated := 1000 |}; {| c_swb := 1; c_kind := Consumer; c_rated := 800 |}] in
  let mk n p := {| a_inputs := [{| i_status := repeat true n; i_lsm := repeat 0 n; i_pin := [] |};
                               {| i_status := []; i_lsm := []; i_pin := repeat p n |}]; a_sts := repeat [] n; a_n := n |} in
  let s0 := {| s_static := st; s_edges := []; s_swbs := [1%nat]; s_inputs := []; s_sts := []; s_n := 0; s_outputs := [] |} in
  s_outputs (run s0 [Supply (mk 4%nat 300); Balance; Query; Supply (mk 2%nat 500); Balance])
  = s_outputs (run s0 [Supply (mk 2%nat 500); Balance]).
Proof. vm_compute. reflexivity. Qed.

Print Assumptions C12_history_free.
Print Assumptions C12_repeatable.
Print Assumptions C12_queries_read_only.
Print Assumptions C12_balance_keeps_inputs.
