(* Props/C12.v — C12: a calculation depends only on its own inputs, not on earlier runs.
   Statements over the state-machine model Model/Stateful.v (electric system; the shaft-line balance
   is the same shape over Model/Shaft.v, whose status write-back is covered by C04_status_writeback).
   In the model the statements are short because the balance is a function of the input fields and
   Supply overwrites all of them; their content is the exact list of fields a COMPLETE assignment
   must cover (record `assignment`) and that Balance reads nothing else.  That the implementation
   behaves like this model on reused objects -- i.e. that no array is aliased, no output survives, no
   query writes -- is what the history correspondence checks after every operation. *)
From Coq Require Import QArith List Bool.
From Feems Require Import Base.Num Model.Bus Model.ElecBalance Model.Stateful.
Import ListNotations.

(* whatever happened to two objects of the same plant before, supplying the same complete inputs and
   balancing gives the same outputs *)
Theorem C12_history_free s1 s2 h1 h2 a : same_plant s1 s2 ->
  s_outputs (run (run s1 h1) [Supply a; Balance]) = s_outputs (run (run s2 h2) [Supply a; Balance]).
Proof.
  intros [E1 [E2 E3]].
  assert (K : forall s h, s_static (run s h) = s_static s /\ s_edges (run s h) = s_edges s /\ s_swbs (run s h) = s_swbs s).
  { intros s h; revert s; induction h as [|o h IH]; intros s; [repeat split|].
    cbn [run fold_left]. fold (run (step s o) h). destruct (IH (step s o)) as [A [B C]].
    rewrite A, B, C. destruct o; repeat split. }
  destruct (K s1 h1) as [A1 [B1 C1]]. destruct (K s2 h2) as [A2 [B2 C2]].
  cbn [run fold_left step s_outputs s_static s_inputs s_edges s_swbs s_sts s_n].
  rewrite A1, B1, C1, A2, B2, C2, E1, E2, E3. reflexivity.
Qed.

(* repeating the calculation gives identical results *)
Theorem C12_repeatable s : s_outputs (run s [Balance; Balance]) = s_outputs (run s [Balance]).
Proof. reflexivity. Qed.

(* reading results changes nothing, wherever the queries are interleaved *)
Theorem C12_queries_read_only s ops : run s (Query :: ops) = run s ops /\ step s Query = s.
Proof. split; reflexivity. Qed.

(* a balance leaves the inputs alone (nothing a later Supply does not overwrite is written) *)
Theorem C12_balance_keeps_inputs s :
  s_inputs (step s Balance) = s_inputs s /\ s_sts (step s Balance) = s_sts s /\ s_n (step s Balance) = s_n s.
Proof. repeat split. Qed.

Example C12_example : (* two histories of different length and breaker state end in the same outputs *)
  let st := [{| c_swb := 1; c_kind := Source; c_rated := 1000 |}; {| c_swb := 1; c_kind := Consumer; c_rated := 800 |}] in
  let mk n p := {| a_inputs := [{| i_status := repeat true n; i_lsm := repeat 0 n; i_pin := [] |};
                               {| i_status := []; i_lsm := []; i_pin := repeat p n |}]; a_sts := repeat [] n; a_n := n |} in
  let s0 := {| s_static := st; s_edges := []; s_swbs := [1%nat]; s_inputs := []; s_sts := []; s_n := 0; s_outputs := [] |} in
  s_outputs (run s0 [Supply (mk 4%nat 300); Balance; Query; Supply (mk 2%nat 500); Balance])
  = s_outputs (run s0 [Supply (mk 2%nat 500); Balance]).
Proof. vm_compute. reflexivity. Qed.


(* ------------------------------------------------------------------------------------------------
   The same property over the FIELD-LEVEL state machines of Model/Machine.v, where setters write one
   field of one component, a balance writes back into input fields (the input of balancing PTI/PTO and
   storage units; the engines' statuses; the PTI/PTO shaft power in full-PTI steps) and nothing is
   ever reset.  Here the statements are not immediate: they say which fields a calculation reads. *)
From Feems Require Import Model.Shaft Model.Machine Proofs.MachineProofs.

(* electric system: a balance reads the static plant, the breaker matrix and, per component, status,
   sharing mode and -- for consumers and for PTI/PTO / storage units that do not balance over the
   whole series -- the input; no power_output, no source input, no input that validation resets *)
Theorem C12_electric_reads_only conv s1 s2 : Forall2 reads_same (e_comps s1) (e_comps s2) ->
  e_edges s1 = e_edges s2 -> e_swbs s1 = e_swbs s2 -> e_sts s1 = e_sts s2 ->
  option_map eobs (ebalance conv s1) = option_map eobs (ebalance conv s2).
Proof. apply ebalance_reads. Qed.

(* whatever two objects of one plant went through (any operation lists h1, h2, including earlier
   balances on other series lengths), a complete supply followed by a balance gives the same
   observation -- or is rejected on both *)
Theorem C12_electric_history_free conv s1 s2 h1 h2 s1' s2' l sts :
  same_eplant s1 s2 -> erun conv s1 h1 = Some s1' -> erun conv s2 h2 = Some s2' ->
  length l = length (e_comps s1) ->
  supply_ok (map (fun m => c_kind (m_c m)) (e_comps s1)) l ->
  option_map eobs (erun conv s1' (supply l sts ++ [EBalance])) = option_map eobs (erun conv s2' (supply l sts ++ [EBalance])).
Proof. apply e_history_free. Qed.

(* the input a PTI/PTO or storage unit holds at a step where it balances -- e.g. what the previous
   balance wrote there -- is not read: objects that differ only there (and in outputs) calculate alike *)
Theorem C12_stale_balancing_input_masked conv
  (conv_proper : forall j a b, num_eqv a b -> num_eqv (conv j a) (conv j b)) s1 s2 :
  Forall2 meqv (e_comps s1) (e_comps s2) ->
  e_edges s1 = e_edges s2 -> e_swbs s1 = e_swbs s2 -> e_sts s1 = e_sts s2 ->
  match ebalance conv s1, ebalance conv s2 with
  | Some a, Some b => obs_eqv (eobs a) (eobs b)
  | None, None => True
  | _, _ => False
  end.
Proof. apply ebalance_masked, conv_proper. Qed.

(* repeating the calculation on the object as the first calculation left it gives the same results
   (premise: the first one's balancing inputs are finite, i.e. C01's capacity premise held) *)
Theorem C12_electric_repeatable conv
  (conv_proper : forall j a b, num_eqv a b -> num_eqv (conv j a) (conv j b)) s s' :
  ebalance conv s = Some s' -> forallb ps_fin (e_comps s') = true ->
  match ebalance conv s' with Some s'' => obs_eqv (eobs s') (eobs s'') | None => False end.
Proof. apply e_repeatable, conv_proper. Qed.

(* shaft line: the status write-back and the full-PTI overwrite do not change a repeated balance *)
Theorem C12_shaft_repeatable to_elec s :
  map g_status (l_engs (lbalance to_elec (lbalance to_elec s))) = map g_status (l_engs (lbalance to_elec s)) /\
  l_machine (lbalance to_elec (lbalance to_elec s)) = l_machine (lbalance to_elec s) /\
  Forall2 (Forall2 Qeq) (map g_pout (l_engs (lbalance to_elec (lbalance to_elec s)))) (map g_pout (l_engs (lbalance to_elec s))).
Proof. apply l_repeatable. Qed.

Theorem C12_shaft_reads_only to_elec s1 s2 : lreads_same s1 s2 -> lobs (lbalance to_elec s1) = lobs (lbalance to_elec s2).
Proof. apply lbalance_reads. Qed.

Theorem C12_shaft_history_free to_elec s1 s2 h1 h2 loads sts shaft full :
  same_lplant (lrun to_elec s1 h1) (lrun to_elec s2 h2) ->
  length loads = length (l_lds (lrun to_elec s1 h1)) -> length sts = length (l_engs (lrun to_elec s1 h1)) ->
  lobs (lrun to_elec (lrun to_elec s1 h1) (lsupply loads sts shaft full ++ [LBalance]))
  = lobs (lrun to_elec (lrun to_elec s2 h2) (lsupply loads sts shaft full ++ [LBalance])).
Proof. apply l_history_free. Qed.

(* "supplied afresh" must include the engine statuses: after a run with zero load the balance has
   switched the engines off, and a later run that re-supplies only the load finds no engine running
   (this is why the front end re-applies statuses before every run) *)
Example C12_engine_status_must_be_resupplied :
  let s0 := {| l_lds := [[0; 0]]; l_machine := None;
               l_engs := [{| g_rated := 1000; g_status := [true; true]; g_pout := [] |}] |} in
  let te := fun x : Q => x in
  map g_pout (l_engs (lrun te s0 [LBalance; LSetLoad 0 [500; 500]; LBalance])) = [[0; 0]] /\
  map (fun g => map Qred (g_pout g)) (l_engs (lrun te s0 [LBalance; LSetLoad 0 [500; 500]; LSetEngineStatus 0 [true; true]; LBalance]))
  = [[500; 500]].
Proof. vm_compute. split; reflexivity. Qed.

(* Non-vacuity of the electric statements: a genset and a battery that balances at step 0 and follows
   a set-point at step 1 (mixed mode: validation does not reset its input).  First history: another
   calculation with other loads and another length came first, and the battery's input at step 0 was
   NOT re-supplied (it holds what the earlier balance wrote).  Second history: fresh object. *)
Definition ex_conv (j : nat) (x : num) : num := x.
Definition ex_m (k : kind) (r : Q) : mcomp :=
  {| m_c := {| c_swb := 1; c_kind := k; c_rated := r |}; m_status := []; m_lsm := []; m_pin := []; m_pout := [] |}.
Definition ex_s0 : estate :=
  {| e_comps := [ex_m Source 1000; ex_m Storage 500; ex_m Consumer 2000]; e_edges := []; e_swbs := [1%nat]; e_sts := [] |}.
Definition ex_first : list eop :=
  [ESetStatus 0 [true; true; true]; ESetLsm 0 [0; 0; 0]; ESetStatus 1 [true; true; true]; ESetLsm 1 [0; 1; 0];
   ESetPin 1 [0; 100; 0]; ESetPin 2 [300; 600; 900]; ESetBreakers [[]; []; []]; EBalance; EQuery].
Definition ex_second_partial : list eop :=   (* battery input at the balancing step 0 deliberately stale *)
  [ESetStatus 0 [true; true]; ESetLsm 0 [0; 0]; ESetStatus 1 [true; true]; ESetLsm 1 [0; 1];
   ESetPin 2 [600; 700]; ESetBreakers [[]; []]; EBalance].
Example C12_machine_example :
  match erun ex_conv ex_s0 (ex_first ++ [ESetPin 1 [12345; -50]] ++ ex_second_partial),
        erun ex_conv ex_s0 ([ESetPin 1 [0; -50]] ++ ex_second_partial) with
  | Some a, Some b =>
      map (fun o => (map (fun x => match x with Fin q => Some (Qred q) | NonFinite => None end) (fst o),
                     map (fun x => match x with Fin q => Some (Qred q) | NonFinite => None end) (snd o))) (eobs a)
      = map (fun o => (map (fun x => match x with Fin q => Some (Qred q) | NonFinite => None end) (fst o),
                       map (fun x => match x with Fin q => Some (Qred q) | NonFinite => None end) (snd o))) (eobs b)
      /\ map snd (eobs a) <> [[]; []; []]
  | _, _ => False
  end.
Proof. vm_compute. split; [reflexivity|discriminate]. Qed.

Print Assumptions C12_history_free.
Print Assumptions C12_repeatable.
Print Assumptions C12_queries_read_only.
Print Assumptions C12_balance_keeps_inputs.
Print Assumptions C12_electric_reads_only.
Print Assumptions C12_electric_history_free.
Print Assumptions C12_stale_balancing_input_masked.
Print Assumptions C12_electric_repeatable.
Print Assumptions C12_shaft_repeatable.
Print Assumptions C12_shaft_reads_only.
Print Assumptions C12_shaft_history_free.
