(* Props/C01.v — C01: the electric power balance holds on every bus at every time step.
   Statements only; proofs are by the lemmas of Proofs/ElecProofs.v and Proofs/BusProofs.v. *)
From Coq Require Import QArith List Bool Arith.
From Feems Require Import Base.Num Model.Bus Model.ElecBalance Proofs.BusProofs Proofs.ElecProofs Props.C02.
Import ListNotations.
Open Scope Q_scope.

(* For every plant (any list of components on any switchboards), any breaker list and status matrix,
   any input series, every step t and every bus b of the configuration in force at t:
   the power delivered by the sources of the bus equals the power drawn by its consumers plus the
   (signed) inputs of its PTI/PTO and storage units -- provided the bus has balancing capacity or a
   zero net load, and the settings are admissible (PTI/PTO-storage sharing flags 0 or 1, fixed
   source shares within [0,1], capacity sums unaffected by np.round(.,10)). *)
Theorem C01_balance plant es swbs sts t b :
  let cs := map (view_at t) plant in
  let busmap := bus_at es swbs sts t in
  wf cs swbs -> admissible cs swbs ->
  (~ avail_bus cs busmap swbs b == 0 \/ net_bus cs busmap swbs b == 0) ->
  delivered cs busmap swbs b == drawn cs busmap swbs b.
Proof. intros cs busmap. apply balance_bus. Qed.

(* Uniqueness (with C03): let every unit of the bus follow the sharing rules at SOME common load fraction l --
   equal-sharing sources deliver rated x l, balancing storage / PTI-PTO draw -rated x l, fixed-share sources their
   share, given-power units their set-point, stopped units nothing (`contrib l` is the signed power of a unit under
   these rules) -- and let that assignment balance the bus.  Then l is the fraction the calculation uses: the
   balance and the sharing rules together determine the solution. *)
Theorem C01_unique_fraction plant es swbs sts t b l :
  let cs := map (view_at t) plant in
  let busmap := bus_at es swbs sts t in
  wf cs swbs -> admissible cs swbs ->
  qsum (map (contrib l) (filter (in_bus busmap b) cs)) == 0 ->
  ~ avail_bus cs busmap swbs b == 0 ->
  exists l0, load_bus cs busmap swbs b = Fin l0 /\ l == l0.
Proof. intros cs busmap. apply unique_fraction. Qed.

(* "bus" is the electrically connected group: the components summed for the bus of switchboard x are
   exactly those whose switchboard is linked to x by breakers closed AT STEP t (C02). *)
Theorem C01_bus_is_connected_group es swbs sts t x c :
  In x swbs -> In (v_swb c) swbs ->
  (in_bus (bus_at es swbs sts t) (bus_at es swbs sts t x) c = true
   <-> conn (closed es (row sts t)) (v_swb c) x).
Proof.
  intros Hx Hc. unfold in_bus. rewrite Nat.eqb_eq. apply C02_grouping; assumption.
Qed.

(* the result of the whole calculation at step t is the per-step result (no coupling between steps) *)
Theorem C01_pointwise plant es swbs sts n t : (t < n)%nat ->
  nth t (balance plant es swbs sts n) [] = balance_step plant es swbs sts t.
Proof.
  intros H. unfold balance. rewrite nth_indep with (d' := balance_step plant es swbs sts 0%nat)
    by (rewrite map_length, seq_length; exact H).
  rewrite map_nth. rewrite seq_nth by exact H. reflexivity.
Qed.

(* Non-vacuity: three switchboards in a ring, one breaker opens at t = 1; a fixed-share genset (3/4),
   an equally sharing genset that is off at t = 1, a balancing battery, a PTI/PTO with given input. *)
Definition ex_plant : list (comp * cin) :=
  [ ({| c_swb := 1; c_kind := Source;   c_rated := 1000 |}, {| i_status := [true; true];  i_lsm := [3#4; 3#4]; i_pin := [0; 0] |});
    ({| c_swb := 1; c_kind := Source;   c_rated := 600 |},  {| i_status := [true; true];  i_lsm := [0; 0];     i_pin := [0; 0] |});
    ({| c_swb := 2; c_kind := Source;   c_rated := 800 |},  {| i_status := [true; false]; i_lsm := [0; 0];     i_pin := [0; 0] |});
    ({| c_swb := 3; c_kind := Storage;  c_rated := 400 |},  {| i_status := [true; true];  i_lsm := [0; 0];     i_pin := [0; 0] |});
    ({| c_swb := 3; c_kind := PtiPto;   c_rated := 300 |},  {| i_status := [true; true];  i_lsm := [1; 1];     i_pin := [-100; 50] |});
    ({| c_swb := 1; c_kind := Consumer; c_rated := 1500 |}, {| i_status := [];            i_lsm := [];         i_pin := [400; 1000] |});
    ({| c_swb := 2; c_kind := Consumer; c_rated := 2000 |}, {| i_status := [];            i_lsm := [];         i_pin := [1500; 200] |});
    ({| c_swb := 3; c_kind := Consumer; c_rated := 500 |},  {| i_status := [];            i_lsm := [];         i_pin := [200; 100] |}) ].
Definition ex_es : list edge := [(2,3); (3,1); (1,2)]%nat.
Definition ex_sts : list (list bool) := [[true; true; true]; [true; false; false]].

Definition ex_hyp (t b : nat) : Prop :=
  let cs := map (view_at t) ex_plant in
  wf cs [1;2;3]%nat /\ admissible cs [1;2;3]%nat /\
  ~ avail_bus cs (bus_at ex_es [1;2;3]%nat ex_sts t) [1;2;3]%nat b == 0.
Lemma ex_hyp_by_computation t b :
  (let cs := map (view_at t) ex_plant in
   wf_b cs [1;2;3]%nat && admissible_b cs [1;2;3]%nat &&
   negb (Qeq_bool (avail_bus cs (bus_at ex_es [1;2;3]%nat ex_sts t) [1;2;3]%nat b) 0)) = true -> ex_hyp t b.
Proof.
  cbv zeta. intros H. apply andb_true_iff in H as [H H3]. apply andb_true_iff in H as [H1 H2].
  split; [apply wf_b_wf, H1|]. split; [apply admissible_b_admissible, H2|].
  intros E. apply Qeq_bool_iff in E. rewrite E in H3. discriminate.
Qed.
Example C01_example_hypotheses : ex_hyp 0 1 /\ ex_hyp 1 1 /\ ex_hyp 1 2.
Proof. split; [|split]; apply ex_hyp_by_computation; vm_compute; reflexivity. Qed.

Example C01_example_values :
  (* t = 0: one bus; t = 1: buses {1} and {2,3}; delivered = drawn on each, non-trivially *)
  let v t b := let cs := map (view_at t) ex_plant in
               (Qred (delivered cs (bus_at ex_es [1;2;3]%nat ex_sts t) [1;2;3]%nat b),
                Qred (drawn cs (bus_at ex_es [1;2;3]%nat ex_sts t) [1;2;3]%nat b)) in
  v 0%nat 1%nat = (15500 # 9, 15500 # 9) /\ v 1%nat 1%nat = (1000 # 1, 1000 # 1) /\ v 1%nat 2%nat = (0 # 1, 0 # 1).
Proof. vm_compute. repeat split. Qed.

Print Assumptions C01_balance.
Print Assumptions C01_unique_fraction.
Print Assumptions C01_bus_is_connected_group.
Print Assumptions C01_pointwise.
