(* Props/C09.v — C09: NOx and curve-based emissions follow the IMO limits and the given curves.
   The limit involves n^b with non-integer b, so these theorems are over R (Coq Reals, Coquelicot,
   Interval); their axioms are the standard library's real-number axioms and what Interval's
   primitive-float back end brings (listed by Print Assumptions below and in the evidence).
   That the constants IN THE CODE are the ones used here is theorem C09_constants of
   coq/gen/C09_gen.v, re-proved on every run over constants regenerated from feems.constant.

   "Continuous in speed": each branch is continuous; at 130 rpm the two branches differ by less than
   0.05 g/kWh (C09_junction), which is the regulation's own one-decimal rounding -- stated so,
   because 45 x 130^-0.2 = 16.9992 is not exactly 17.0. *)
From Coq Require Import QArith List Reals Lra.
From Feems Require Import Base.Num Base.Pchip Model.Nox Model.Emis Proofs.NoxProofs Proofs.EmisProofs.
Import ListNotations.

Open Scope R_scope.
(* 17.0 / 14.4 / 3.4 g/kWh up to 130 rpm; 45 n^-0.2 / 44 n^-0.23 / 9 n^-0.2 above *)
Theorem C09_limit_values n :
  (n <= 130 -> limit 0 n = 17 /\ limit 1 n = 144 / 10 /\ limit 2 n = 34 / 10) /\
  (130 < n -> limit 0 n = 45 * Rpower n (- (2 / 10)) /\ limit 1 n = 44 * Rpower n (- (23 / 100)) /\
              limit 2 n = 9 * Rpower n (- (2 / 10))).
Proof.
  unfold limit, slow_max. split; intros H; destruct (Rle_dec n 130); cbn; try (exfalso; lra); repeat split; reflexivity.
Qed.

Theorem C09_positive t n : 0 < limit t n.
Proof. apply limit_positive. Qed.

Theorem C09_never_increases t n m : 0 < n <= m -> limit t m <= limit t n.
Proof. apply limit_nonincreasing. Qed.

Theorem C09_junction t : Rabs (tier_c t - tier_a t * Rpower 130 (tier_b t)) <= 5 / 100.
Proof. apply limit_junction_jump. Qed.

Theorem C09_tier_order n : 1 <= n <= 2000 -> limit 2 n <= limit 1 n <= limit 0 n.
Proof. apply tier_order. Qed.
Close Scope R_scope.

Open Scope Q_scope.
(* species mass = sum over the intervals of curve value at the load x brake energy of the interval;
   for a load-independent factor (a tier limit) = factor x total brake energy *)
Theorem C09_species_mass g p d gs ps ds :
  mass_kg (g :: gs) (p :: ps) (d :: ds) == g * (p * d / 3600) / 1000 + mass_kg gs ps ds.
Proof. apply mass_kg_formula. Qed.
Theorem C09_tier_mass g ps ds : length ps = length ds ->
  mass_kg (repeat g (length ps)) ps ds == g * brake_energy_kwh ps ds / 1000.
Proof. apply mass_kg_const. Qed.

Example C09_example : (* 12 g/kWh at 900 kW for 600 s, then 10 g/kWh at 450 kW for 1200 s: 1.8 + 1.5 kg *)
  Qred (mass_kg [12; 10] [900; 450] [600; 1200]) = 33 # 10.
Proof. vm_compute. reflexivity. Qed.

(* ---- which characteristic a species uses (Model/Emis.v = Engine._setup_emissions ; Engine._setup_nox) ---- *)
(* with a tier method the NOx figure is the Regulation 13 limit, whatever curves were handed over - a NOx curve included *)
Theorem C09_tier_limit_replaces_a_given_nox_curve cs t tab : setup cs (MTier t) = Some tab -> tab NOX = Some (SLimit t).
Proof. exact (setup_tier_nox cs t tab). Qed.
Theorem C09_tier_method_never_refuses cs t : setup cs (MTier t) <> None.
Proof. exact (setup_tier_accepts cs t). Qed.
(* every other species: the last curve with points given for it, none if there is none - under either method *)
Theorem C09_other_species_use_the_last_given_curve cs m tab s : setup cs m = Some tab -> s <> NOX -> tab s = last_given cs s.
Proof. exact (setup_other_species cs m tab s). Qed.
(* the method "curve" needs a NOx curve with points, and uses the last one *)
Theorem C09_curve_method_needs_a_nox_curve cs : setup cs MCurve = None <-> last_given cs NOX = None.
Proof. exact (setup_curve_method cs). Qed.
Theorem C09_curve_method_uses_the_nox_curve cs tab : setup cs MCurve = Some tab -> tab NOX = last_given cs NOX /\ last_given cs NOX <> None.
Proof. exact (setup_curve_nox cs tab). Qed.
Example C09_setup_example :   (* NOx curve and two CO curves (the first without points... the second wins) on a Tier II engine *)
  match setup [(NOX, [(1 # 4, 9); (1, 7)]); (1%nat, [(1 # 2, 2)]); (1%nat, []); (1%nat, [(1 # 2, 3)])] (MTier 1) with
  | Some tab => tab NOX = Some (SLimit 1) /\ tab 1%nat = Some (SCurve (Const 3)) /\ tab 2%nat = None
  | None => False
  end.
Proof. vm_compute. repeat split. Qed.

Print Assumptions C09_limit_values.
Print Assumptions C09_positive.
Print Assumptions C09_never_increases.
Print Assumptions C09_junction.
Print Assumptions C09_tier_order.
Print Assumptions C09_species_mass.
Print Assumptions C09_tier_mass.
Print Assumptions C09_tier_limit_replaces_a_given_nox_curve.
Print Assumptions C09_tier_method_never_refuses.
Print Assumptions C09_other_species_use_the_last_given_curve.
Print Assumptions C09_curve_method_needs_a_nox_curve.
Print Assumptions C09_curve_method_uses_the_nox_curve.
