(* Props/C20.v — C20: invalid configurations are rejected; supported ones are accepted.
   Statements over Model/Validate.v (structure), Model/Component.v (`accepted`: rated power and
   monotonic map).  For every family: the invalidating condition, stated declaratively, forces a
   rejection whatever else the configuration contains; and a configuration with none of them is accepted.
   Known finding F-C20-1: the implementation does not reject a non-positive rated power of an ENGINE
   (only of BasicComponent-derived components); the component theorem below is about `accepted`. *)
From Coq Require Import ZArith QArith List Bool Arith Lia.
From Feems Require Import Base.Num Model.Component Model.Validate.
Import ListNotations.

Lemma zmem_In x l : zmem x l = true <-> In x l.
Proof.
  induction l as [|y r IH]; cbn; [split; [discriminate|tauto]|].
  rewrite orb_true_iff, IH, Z.eqb_eq. split; intros [H|H]; auto.
Qed.
Lemma znodup_In x l : In x (znodup l) <-> In x l.
Proof.
  induction l as [|y r IH]; cbn; [tauto|]. destruct (zmem y r) eqn:E.
  - rewrite IH. split; [auto|]. intros [<-|H]; [apply zmem_In, E|exact H].
  - cbn. rewrite IH. tauto.
Qed.

(* a switchboard without source or storage: rejected *)
Theorem C20_rejects_unfed_switchboard c s :
  In s (map ec_swb (e_comps c)) ->
  (forall k, In k (e_comps c) -> ec_swb k = s -> ec_ptype k <> 1%nat /\ ec_ptype k <> 4%nat) ->
  construct_electric c <> Accepted.
Proof.
  intros Hs Hno. unfold construct_electric.
  destruct (all_class_ok c); cbn [negb]; [|discriminate].
  assert (E : every_swb_fed c = false).
  { unfold every_swb_fed. apply not_true_iff_false. intros H. rewrite forallb_forall in H.
    specialize (H s (proj2 (znodup_In s _) Hs)). apply existsb_exists in H as [k [Hk Hb]].
    apply andb_true_iff in Hb as [H1 H2]. apply Z.eqb_eq in H1. destruct (Hno k Hk H1) as [A B].
    unfold feeds in H2. apply orb_true_iff in H2 as [H2|H2]; apply Nat.eqb_eq in H2; contradiction. }
  rewrite E. discriminate.
Qed.

(* a non-positive switchboard number: rejected *)
Theorem C20_rejects_nonpositive_id c k : In k (e_comps c) -> (ec_swb k <= 0)%Z -> construct_electric c <> Accepted.
Proof.
  intros Hk Hz. unfold construct_electric.
  destruct (all_class_ok c); cbn [negb]; [|discriminate].
  destruct (every_swb_fed c); cbn [negb]; [|discriminate].
  assert (E : ids_positive c = false).
  { unfold ids_positive. apply not_true_iff_false. intros H. rewrite forallb_forall in H.
    specialize (H (ec_swb k)). rewrite Z.ltb_lt in H. assert (0 < ec_swb k)%Z; [|lia].
    apply H, znodup_In, in_map, Hk. }
  rewrite E. discriminate.
Qed.

(* several switchboards without breakers: rejected *)
Theorem C20_rejects_missing_breakers c : e_breakers c = [] -> (2 <= length (swb_ids c))%nat -> construct_electric c <> Accepted.
Proof.
  intros Hb Hn. unfold construct_electric.
  destruct (all_class_ok c); cbn [negb]; [|discriminate].
  destruct (every_swb_fed c); cbn [negb]; [|discriminate].
  destruct (ids_positive c); cbn [negb]; [|discriminate].
  destruct (names_unique c); cbn [negb]; [|discriminate].
  destruct (breakers_known c); cbn [negb]; [|discriminate].
  unfold breakers_present. rewrite Hb. destruct (Nat.leb_spec (length (swb_ids c)) 1); [lia|discriminate].
Qed.

(* a component of the wrong kind for its role: rejected *)
Theorem C20_rejects_wrong_class c k : In k (e_comps c) -> ec_class_ok k = false -> construct_electric c <> Accepted.
Proof.
  intros Hk Hc. unfold construct_electric.
  assert (E : all_class_ok c = false).
  { unfold all_class_ok. apply not_true_iff_false. intros H. rewrite forallb_forall in H. rewrite (H k Hk) in Hc. discriminate. }
  rewrite E. discriminate.
Qed.

(* duplicate names within one category of a switchboard (or shaft line): rejected *)
Lemma nodup_names_dup l1 x l2 l3 : nodup_names (l1 ++ x :: l2 ++ x :: l3) = false.
Proof.
  induction l1 as [|y l1 IH]; cbn [app nodup_names].
  - apply andb_false_iff. left. apply negb_false_iff. apply existsb_exists. exists x.
    split; [apply in_or_app; right; left; reflexivity|]. destruct x as [[s p] n].
    rewrite Z.eqb_refl, !Nat.eqb_refl. reflexivity.
  - rewrite IH. apply andb_false_r.
Qed.
Theorem C20_rejects_duplicate_names c l1 k1 l2 k2 l3 :
  e_comps c = l1 ++ k1 :: l2 ++ k2 :: l3 ->
  ec_swb k1 = ec_swb k2 -> ec_ptype k1 = ec_ptype k2 -> ec_name k1 = ec_name k2 ->
  construct_electric c <> Accepted.
Proof.
  intros Hc Hs Hp Hn. unfold construct_electric.
  destruct (all_class_ok c); cbn [negb]; [|discriminate].
  destruct (every_swb_fed c); cbn [negb]; [|discriminate].
  destruct (ids_positive c); cbn [negb]; [|discriminate].
  assert (E : names_unique c = false).
  { unfold names_unique. rewrite Hc, map_app. cbn [map]. rewrite map_app. cbn [map].
    rewrite Hs, Hp, Hn. apply nodup_names_dup. }
  rewrite E. discriminate.
Qed.
Theorem C20_rejects_duplicate_names_shaft l1 x l2 l3 : construct_mechanical (l1 ++ x :: l2 ++ x :: l3) <> Accepted.
Proof. unfold construct_mechanical. rewrite nodup_names_dup. discriminate. Qed.

(* a hybrid system whose two sides do not share the same PTI/PTO: rejected *)
Theorem C20_rejects_hybrid_mismatch e m p : In p e -> ~ In p m -> construct_hybrid e m <> Accepted.
Proof.
  intros He Hm. unfold construct_hybrid. destruct e as [|e0 e']; [destruct He|]. destruct m as [|m0 m']; [discriminate|].
  destruct (Nat.eqb (length (e0 :: e')) (length (m0 :: m'))); cbn [negb]; [|discriminate].
  assert (E : forallb (fun q => nmem q (m0 :: m')) (e0 :: e') = false).
  { apply not_true_iff_false. intros H. rewrite forallb_forall in H. specialize (H p He).
    assert (K : forall l, nmem p l = true -> In p l).
    { induction l as [|y r IH]; cbn; [discriminate|]. intros X. apply orb_true_iff in X as [X|X];
      [left; symmetry; apply Nat.eqb_eq, X|right; apply IH, X]. }
    apply Hm, K, H. }
  rewrite E. discriminate.
Qed.

(* a non-positive rated power, or a non-monotonic input-output map: not accepted *)
Theorem C20_rejects_component rated f :
  ((rated <= 0)%Q -> accepted rated f = false) /\
  (increasing (map fst (table rated f)) = false -> accepted rated f = false).
Proof.
  split.
  - intros H. unfold accepted. destruct (Qle_bool 0 rated) eqn:A; [|reflexivity].
    apply Qle_bool_iff in A. assert (Z0 : (rated == 0)%Q) by (apply Qle_antisym; assumption).
    unfold qzero. rewrite (proj2 (Qeq_bool_iff rated 0) Z0). reflexivity.
  - intros H. unfold accepted. rewrite H. apply andb_false_r.
Qed.

(* a fuel specification with missing or superfluous factors: rejected *)
Theorem C20_rejects_fuel_spec user a b c :
  (user = true -> a && b && c = false -> construct_fuel user a b c <> Accepted) /\
  (user = false -> a || b || c = true -> construct_fuel user a b c <> Accepted).
Proof. split; intros -> H; unfold construct_fuel; rewrite H; discriminate. Qed.

(* series whose lengths disagree (a single value for a consumer excepted): rejected *)
Theorem C20_rejects_length_mismatch n strict one k :
  (In k strict -> k <> n -> series_ok n strict one <> Accepted) /\
  (In k one -> k <> n -> k <> 1%nat -> series_ok n strict one <> Accepted).
Proof.
  split; intros Hin Hk.
  - unfold series_ok. assert (E : forallb (Nat.eqb n) strict = false).
    { apply not_true_iff_false. intros H. rewrite forallb_forall in H. specialize (H k Hin). apply Nat.eqb_eq in H. congruence. }
    rewrite E. discriminate.
  - intros H1. unfold series_ok. assert (E : forallb (fun j => Nat.eqb j n || Nat.eqb j 1) one = false).
    { apply not_true_iff_false. intros H. rewrite forallb_forall in H. specialize (H k Hin).
      apply orb_true_iff in H as [H|H]; apply Nat.eqb_eq in H; congruence. }
    rewrite E, andb_false_r. discriminate.
Qed.

(* every configuration with none of the structural defects is accepted *)
Theorem C20_accepts c :
  all_class_ok c = true -> every_swb_fed c = true -> ids_positive c = true -> names_unique c = true ->
  breakers_known c = true -> breakers_present c = true -> construct_electric c = Accepted.
Proof. intros A B C D E F. unfold construct_electric. rewrite A, B, C, D, E, F. reflexivity. Qed.

Example C20_example :
  let good := {| e_comps := [{| ec_name := 1; ec_ptype := 1; ec_class_ok := true; ec_swb := 1 |};
                             {| ec_name := 1; ec_ptype := 2; ec_class_ok := true; ec_swb := 1 |};
                             {| ec_name := 2; ec_ptype := 4; ec_class_ok := true; ec_swb := 2 |}];
                 e_breakers := [(1, 2)%Z] |} in
  construct_electric good = Accepted /\
  construct_electric {| e_comps := e_comps good; e_breakers := [] |} = Rejected 5 /\
  construct_hybrid [7%nat] [8%nat] = Rejected 7 /\ series_ok 4 [4; 4]%nat [1; 4]%nat = Accepted.
Proof. vm_compute. repeat split. Qed.

Print Assumptions C20_rejects_unfed_switchboard.
Print Assumptions C20_rejects_nonpositive_id.
Print Assumptions C20_rejects_missing_breakers.
Print Assumptions C20_rejects_wrong_class.
Print Assumptions C20_rejects_duplicate_names.
Print Assumptions C20_rejects_duplicate_names_shaft.
Print Assumptions C20_rejects_hybrid_mismatch.
Print Assumptions C20_rejects_component.
Print Assumptions C20_rejects_fuel_spec.
Print Assumptions C20_rejects_length_mismatch.
Print Assumptions C20_accepts.
