(* Props/C16.v — C16: same operating profile, same results, whatever the input route.
   The calculation is a function of what it is fed (C12_history_free, C01_pointwise): equal `fed`
   records give equal results.  Statements over Model/Routes.v. *)
From Coq Require Import QArith List Bool Arith Lia.
From Feems Require Import Base.Num Model.Routes.
Import ListNotations.
Open Scope Q_scope.

Lemma diffs_length ts : length (diffs ts) = (length ts - 1)%nat.
Proof. induction ts as [|a [|b r] IH]; cbn [diffs length] in *; try reflexivity. rewrite IH. cbn. lia. Qed.
Lemma removelast_length {A} (l : list A) : length (removelast l) = (length l - 1)%nat.
Proof. induction l as [|a [|b r] IH]; cbn [removelast length] in *; try reflexivity. rewrite IH. cbn. lia. Qed.

Lemma firstn_repeat {A} (v : A) n m : (n <= m)%nat -> firstn n (repeat v m) = repeat v n.
Proof. revert m; induction n as [|n IH]; intros [|m] H; cbn; try reflexivity; try lia. f_equal. apply IH. lia. Qed.
Lemma aux_for_repeat v n m : (n <= m)%nat -> aux_for n (AuxSeries (repeat v m)) = repeat v n.
Proof.
  intros H. unfold aux_for. destruct m as [|[|m]]; cbn [repeat].
  - assert (n = 0%nat) by lia. subst. reflexivity.
  - reflexivity.
  - change (v :: v :: repeat v m) with (repeat v (S (S m))). apply firstn_repeat, H.
Qed.
Lemma forallb_qzero_repeat0 n : forallb qzero (repeat 0 n) = true.
Proof. induction n; cbn; auto. Qed.

(* the same profile -- stamps ts, samples ps, one auxiliary value a -- through the four routes:
   as a time series, as a Gymir result, as a protobuf time series (per-sample auxiliary power all zero
   and the message-level value a, or per-sample values all a <> 0), and as operating points
   (sample k with duration t_{k+1} - t_k) is fed to the calculation as the SAME record *)
Theorem C16_routes_agree ts ps a :
  let f := from_time_series ts ps (AuxScalar a) in
  from_gymir ts ps a = f /\
  from_proto ts ps (repeat 0 (length ps)) a = f /\
  (qzero a = false -> (1 <= length ps)%nat -> from_proto ts ps (repeat a (length ps)) 0 = f) /\
  from_statistics (drop_last ps) (diffs ts) (AuxScalar a) = f.
Proof.
  cbv zeta.
  assert (L : (length (drop_last ps) <= length ps)%nat) by (unfold drop_last; rewrite removelast_length; lia).
  split; [reflexivity|]. split; [|split].
  - unfold from_proto, from_time_series, proto_aux. rewrite forallb_qzero_repeat0, repeat_length.
    f_equal. apply aux_for_repeat, L.
  - intros Ha Hn. unfold from_proto, from_time_series, proto_aux.
    assert (E : forallb qzero (repeat a (length ps)) = false).
    { destruct (length ps) as [|k]; [lia|]. cbn. rewrite Ha. reflexivity. }
    rewrite E. f_equal. apply aux_for_repeat, L.
  - reflexivity.
Qed.

(* sample k is held until sample k+1; the last sample only closes the last interval *)
Theorem C16_hold ts ps x k : length ts = length ps -> (S k < length ts)%nat ->
  nth k (f_power (from_time_series ts ps x)) 0 = nth k ps 0 /\
  nth k (f_dt (from_time_series ts ps x)) 0 = nth (S k) ts 0 - nth k ts 0 /\
  length (f_power (from_time_series ts ps x)) = (length ps - 1)%nat /\
  length (f_dt (from_time_series ts ps x)) = (length ps - 1)%nat.
Proof.
  intros Hl Hk. cbn [from_time_series f_power f_dt]. unfold drop_last. repeat split.
  - rewrite Hl in Hk. clear Hl. revert k Hk. induction ps as [|a [|b r] IH]; intros k Hk; cbn in Hk; try lia.
    destruct k as [|k]; [reflexivity|]. cbn [removelast]. cbn [nth]. apply IH. cbn. lia.
  - clear Hl. revert k Hk. induction ts as [|a [|b r] IH]; intros k Hk; cbn in Hk; try lia.
    destruct k as [|k]; [reflexivity|]. cbn [diffs nth]. apply IH. cbn. lia.
  - apply removelast_length.
  - rewrite diffs_length, Hl. reflexivity.
Qed.

(* propulsion power is divided equally among the propulsors, auxiliary power among the loads *)
Theorem C16_equal_split n p : (1 <= n)%nat -> inject_Z (Z.of_nat n) * (p / inject_Z (Z.of_nat n)) == p.
Proof.
  intros H. field. intros E. assert (0 < inject_Z (Z.of_nat n)).
  { unfold Qlt; cbn. lia. } rewrite E in H0. apply (Qlt_irrefl 0 H0).
Qed.

(* auxiliary power: per-sample values unless all are zero, then the message-level value *)
Theorem C16_aux_fallback per a :
  (forallb qzero per = true -> proto_aux per a = repeat a (length per)) /\
  (forallb qzero per = false -> proto_aux per a = per).
Proof. unfold proto_aux. split; intros ->; reflexivity. Qed.

Example C16_example :
  let f := from_time_series [0; 60; 180; 200] [1000; 1500; 500; 900] (AuxSeries [100; 110; 120; 130]) in
  (f_power f, f_dt f, f_aux f) = ([1000; 1500; 500], [60 - 0; 180 - 60; 200 - 180], [100; 110; 120]) /\
  per_unit 2 [1000; 1500] = [1000 / 2; 1500 / 2].
Proof. split; reflexivity. Qed.

Print Assumptions C16_routes_agree.
Print Assumptions C16_hold.
Print Assumptions C16_equal_split.
Print Assumptions C16_aux_fallback.
