(* Props/C04.v — C04: shaft-line power balance, equal engine loading, full-PTI mode.
   Statements over Model/Shaft.v (one shaft line, one time step; the code is element-wise in time and
   treats every shaft line independently); proofs in Proofs/ShaftProofs.v. *)
From Coq Require Import QArith List Bool.
From Feems Require Import Base.Num Model.Shaft Proofs.ShaftProofs.
Import ListNotations.
Open Scope Q_scope.

(* engines + PTI/PTO shaft power = load, for any number of loads and engines, with or without a
   PTI/PTO, any sign of its power, whenever running engines exist or no engine power is needed *)
Theorem C04_balance s : (0 < avail s \/ load_sum s == pti_out s) -> engines_sum s + pti_out s == load_sum s.
Proof. apply shaft_balance. Qed.

(* running engines are loaded to the same fraction of their rated power *)
Theorem C04_equal_loading s e1 e2 : e_on e1 = true -> e_on e2 = true -> 0 < e_rated e1 -> 0 < e_rated e2 ->
  engine_out s e1 / e_rated e1 == engine_out s e2 / e_rated e2.
Proof. intros. rewrite !equal_loading by assumption. reflexivity. Qed.

(* stopped engines deliver nothing *)
Theorem C04_off_zero s e : e_on e = false -> engine_out s e == 0.
Proof. apply stopped_delivers_nothing. Qed.

(* in full-PTI mode the PTI alone carries the whole shaft load and every engine delivers nothing *)
Theorem C04_full_pti s : is_full s = true ->
  pti_out s == load_sum s /\ (forall e, engine_out s e == 0) /\ engines_sum s == 0.
Proof. apply full_pti. Qed.

(* an engine marked stopped by the write-back delivered nothing (the write-back is harmless) *)
Theorem C04_status_writeback s e : status_after s e = false -> engine_out s e == 0.
Proof. apply status_after_off. Qed.

Example C04_example : (* PTO of 400 kW (negative shaft power), one engine stopped, then a full-PTI step *)
  let es := [{| e_rated := 3000; e_on := true |}; {| e_rated := 1000; e_on := true |}; {| e_rated := 2000; e_on := false |}] in
  let s1 := {| l_loads := [1500; 100]; l_pti := Some (-400, false); l_engines := es |} in
  let s2 := {| l_loads := [300; 0]; l_pti := Some (55, true); l_engines := es |} in
  map (fun e => Qred (engine_out s1 e)) es = [1500; 500; 0] /\ Qred (pti_out s1) = -400 /\
  map (fun e => Qred (engine_out s2 e)) es = [0; 0; 0] /\ Qred (pti_out s2) = 300 /\
  map (status_after s2) es = [false; false; false].
Proof. vm_compute. repeat split. Qed.

Print Assumptions C04_balance.
Print Assumptions C04_equal_loading.
Print Assumptions C04_off_zero.
Print Assumptions C04_full_pti.
Print Assumptions C04_status_writeback.
