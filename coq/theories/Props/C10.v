(* Props/C10.v — C10: system totals equal the sum of component figures, in any order.
   Statements over Model/SysResult.v (+ Model/Result.v): every figure of an accumulated result --
   every extensive scalar field (running hours per machine class, stored, propulsion and auxiliary
   energy, ...), the mass of every fuel kind, every species (absent = 0), the CO2-equivalent
   components -- is the sum of the components' figures, and so is invariant under permutation. *)
From Coq Require Import QArith List Bool Permutation.
From Feems Require Import Base.Num Model.FuelRecord Model.Result Model.SysResult Proofs.SysResultProofs.
Import ListNotations.
Open Scope Q_scope.

(* a switchboard / shaft-line total is the sum over its components, for every figure *)
Theorem C10_total_is_sum n f comps r : Forall (wf_res n) comps ->
  accumulate (group_start n) comps = Merged r -> fig f r == fig_sum f comps.
Proof.
  intros W H. destruct (accumulate_is_sum n f comps (group_start n) r (group_start_wf n) W H) as [E _].
  rewrite E, fig_group_start. ring.
Qed.

(* the system total is the sum over its switchboards / shaft lines *)
Theorem C10_system_is_sum_of_groups n f groups rs r : all_merged groups = Some rs -> Forall (wf_res n) rs ->
  system_total n groups = Merged r -> fig f r == fig_sum f rs.
Proof.
  intros A W H. unfold system_total in H. rewrite A in H. apply (C10_total_is_sum n f rs r W H).
Qed.

(* the totals do not depend on the order in which the components were listed *)
Theorem C10_order_free n f comps comps' r r' : Forall (wf_res n) comps -> Permutation comps comps' ->
  accumulate (group_start n) comps = Merged r -> accumulate (group_start n) comps' = Merged r' ->
  fig f r == fig f r'.
Proof. intros W P H H'. apply (accumulate_order_free n f comps comps' (group_start n) r r' (group_start_wf n) W P H H'). Qed.

Definition mkc (sc : list Q) (fuel : frec) (sp : option (list (nat * Q))) : res :=
  {| r_duration := Some 0; r_load := None; r_scalars := sc; r_species := sp; r_fuel := fuel; r_co2 := [0;0;0]; r_detail := None |}.
Example C10_example : (* a diesel genset (NOx), an LNG genset with NOx and CO, a battery: two orders *)
  let a := mkc [0; 2] [(12%nat, 40)] (Some [(2%nat, 3)]) in
  let b := mkc [0; 1] [(212%nat, 25)] (Some [(2%nat, 1); (3%nat, 7)]) in
  let c := mkc [5; 0] [] None in
  match accumulate (group_start 2) [a; b; c], accumulate (group_start 2) [c; b; a] with
  | Merged r, Merged r' =>
      map (fun f => (Qred (fig f r), Qred (fig f r'))) [FScalar 0; FScalar 1; FFuel 12; FFuel 212; FSpecies 2; FSpecies 3]
      = [(5, 5); (3, 3); (40, 40); (25, 25); (4, 4); (7, 7)]
  | _, _ => False end.
Proof. vm_compute. reflexivity. Qed.

Print Assumptions C10_total_is_sum.
Print Assumptions C10_system_is_sum_of_groups.
Print Assumptions C10_order_free.
