(* Props/C19.v — C19: combining results adds every quantity present in either operand.
   Statements over Model/Result.v; proofs in Proofs/ResultProofs.v.

   Full statement "combination is associative" is FALSE of the faithful model for the generator load
   of consecutive periods when some operand has no generator load or no duration
   (C19_assoc_load_extend_refuted, finding F-C19-1): the code folds the time-weight of such a period
   into a neighbour.  Proved: associativity of every additive figure, of the duration, of the load for
   same-period merges, and of the load for consecutive periods when every operand carries both. *)
From Coq Require Import QArith List Bool Arith.
From Feems Require Import Base.Num Model.FuelRecord Model.Result Proofs.FuelRecordProofs Proofs.ResultProofs.
Import ListNotations.
Open Scope Q_scope.

(* all extensive quantities are added: every scalar field, every fuel kind, EVERY species of either
   operand (absent = 0), the CO2 components; the detail tables are concatenated *)
Theorem C19_adds_everything fz a b r : merge fz a b = Merged r ->
  r_scalars r = vadd (r_scalars a) (r_scalars b) /\
  (forall k, mass_of k (r_fuel r) == mass_of k (r_fuel a) + mass_of k (r_fuel b)) /\
  (forall k, species_of k (r_species r) == species_of k (r_species a) + species_of k (r_species b)) /\
  r_co2 r = vadd (r_co2 a) (r_co2 b) /\
  r_detail r = opt_merge (@app nat) (r_detail a) (r_detail b).
Proof. apply merge_adds. Qed.

(* a species is present in the merged map iff it is present in either operand *)
Theorem C19_species_union k a b :
  lookup_s k (merge_species a b) <> None <-> (lookup_s k a <> None \/ lookup_s k b <> None).
Proof. apply merge_species_keys. Qed.

Theorem C19_durations fz a b r : merge fz a b = Merged r ->
  match r_duration a, r_duration b with
  | None, d => r_duration r = d
  | d, None => r_duration r = d
  | Some da, Some db => if fz then da == db /\ r_duration r = Some da else r_duration r = Some (da + db)
  end.
Proof. apply merge_duration. Qed.

Theorem C19_load_ratio fz a b r la lb : merge fz a b = Merged r -> r_load a = Some la -> r_load b = Some lb ->
  if fz then r_load r = Some (qmaxq la lb)
  else match r_duration a, r_duration b with
       | Some da, Some db => r_load r = Some ((la * da + lb * db) / (da + db)) /\ ~ da + db == 0
       | None, _ => r_load r = Some lb
       | _, None => r_load r = Some la
       end.
Proof. apply merge_load. Qed.

Theorem C19_assoc_partial fz a b c ab bc l r :
  merge fz a b = Merged ab -> merge fz ab c = Merged l ->
  merge fz b c = Merged bc -> merge fz a bc = Merged r ->
  veq (r_scalars l) (r_scalars r) /\ veq (r_co2 l) (r_co2 r) /\ req (r_fuel l) (r_fuel r) /\
  (forall k, species_of k (r_species l) == species_of k (r_species r)) /\ r_detail l = r_detail r /\
  opt_eq (r_duration l) (r_duration r) /\
  (fz = true -> opt_eq (r_load l) (r_load r)) /\
  (fz = false -> forall da db dc la lb lc,
     r_duration a = Some da -> r_duration b = Some db -> r_duration c = Some dc ->
     r_load a = Some la -> r_load b = Some lb -> r_load c = Some lc -> opt_eq (r_load l) (r_load r)).
Proof.
  intros Hab Hl Hbc Hr.
  destruct (merge_assoc_additive fz a b c ab bc l r Hab Hl Hbc Hr) as [A [B [C [D E]]]].
  split; [exact A|]. split; [exact B|]. split; [exact C|]. split; [exact D|]. split; [exact E|].
  split; [apply (merge_assoc_duration fz a b c ab bc l r); assumption|]. split.
  - intros ->. exact (merge_assoc_load_freeze a b c ab bc l r Hab Hl Hbc Hr).
  - intros ->. intros da db dc la lb lc H1 H2 H3 H4 H5 H6.
    exact (merge_assoc_load_extend a b c ab bc l r da db dc la lb lc H1 H2 H3 H4 H5 H6 Hab Hl Hbc Hr).
Qed.

(* the empty result is neutral on either side (up to the order of fuel entries) *)
Theorem C19_neutral fz n a : length (r_scalars a) = n -> length (r_co2 a) = 3%nat ->
  (exists r, merge fz (empty_res n) a = Merged r /\ res_eq r a) /\
  (exists r, merge fz a (empty_res n) = Merged r /\ res_eq r a).
Proof. intros H1 H2. split; [apply merge_empty_l|apply merge_empty_r]; assumption. Qed.

(* the full associativity claim is false of the faithful model: three consecutive periods of 10 s,
   generator load 1/2, unset, 1 -- grouping (a+b)+c gives 2/3, a+(b+c) gives 5/6 *)
Definition mk (d : option Q) (l : option Q) : res :=
  {| r_duration := d; r_load := l; r_scalars := [0]; r_species := None; r_fuel := []; r_co2 := [0;0;0]; r_detail := None |}.
Example C19_assoc_load_extend_refuted :
  exists a b c ab bc l r,
    merge false a b = Merged ab /\ merge false ab c = Merged l /\
    merge false b c = Merged bc /\ merge false a bc = Merged r /\ ~ opt_eq (r_load l) (r_load r).
Proof.
  exists (mk (Some 10) (Some (1#2))), (mk (Some 10) None), (mk (Some 10) (Some 1)).
  do 4 eexists. repeat split; try reflexivity. vm_compute. discriminate.
Qed.

(* Non-vacuity: species {2:1} + {2:2, 3:5}, fuels, unequal durations in consecutive mode *)
Example C19_example :
  let a := {| r_duration := Some 10; r_load := Some (1#2); r_scalars := [1; 2]; r_species := Some [(2%nat, 1)];
              r_fuel := [(12%nat, 3)]; r_co2 := [1;1;1]; r_detail := Some [1%nat] |} in
  let b := {| r_duration := Some 30; r_load := Some 1; r_scalars := [10; 20]; r_species := Some [(2%nat, 2); (3%nat, 5)];
              r_fuel := [(232%nat, 4); (12%nat, 1)]; r_co2 := [2;2;2]; r_detail := Some [2%nat; 3%nat] |} in
  match merge false a b with
  | Merged r => r_duration r = Some (10 + 30) /\ option_map Qred (r_load r) = Some (7 # 8) /\
                map Qred (r_scalars r) = [11; 22] /\
                option_map (map (fun e => (fst e, Qred (snd e)))) (r_species r) = Some [(2%nat, 3); (3%nat, 5)] /\
                r_detail r = Some [1; 2; 3]%nat /\ Qred (mass_of 12 (r_fuel r)) = 4
  | _ => False end.
Proof. vm_compute. repeat split. Qed.

Print Assumptions C19_adds_everything.
Print Assumptions C19_species_union.
Print Assumptions C19_durations.
Print Assumptions C19_load_ratio.
Print Assumptions C19_assoc_partial.
Print Assumptions C19_neutral.
Print Assumptions C19_assoc_load_extend_refuted.
