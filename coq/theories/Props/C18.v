(* Props/C18.v — C18: fuel-consumption records add, scale and split without loss or side effects.
   Statements over Model/FuelRecord.v; proofs in Proofs/FuelRecordProofs.v. *)
From Coq Require Import QArith List Bool Arith.
From Feems Require Import Base.Num Model.FuelRecord Proofs.FuelRecordProofs.
Import ListNotations.
Open Scope Q_scope.

(* addition conserves the mass of every kind and the total (also when an operand lists a kind twice) *)
Theorem C18_add_conserves a b :
  (forall k, mass_of k (add a b) == mass_of k a + mass_of k b) /\ total (add a b) == total a + total b.
Proof. split; [intros k; apply add_mass_of|apply add_total]. Qed.

(* independent of operand order and grouping, up to the order of the entries; the empty record is neutral *)
Theorem C18_add_comm_assoc a b c :
  req (add a b) (add b a) /\ req (add (add a b) c) (add a (add b c)) /\
  add [] a = a /\ req (add a []) a.
Proof. repeat split; [apply add_comm|apply add_assoc|apply add_empty_r]. Qed.

(* scaling multiplies every mass *)
Theorem C18_scale c r : (forall k, mass_of k (scale c r) == mass_of k r * c) /\ total (scale c r) == total r * c.
Proof. split; [intros k; apply scale_mass_of|apply scale_total]. Qed.

(* mass fractions sum to one wherever consumption is non-zero and are zero elsewhere (empty mix for a
   scalar record with zero total; same kinds kept, all zero, for a step of a series record) *)
Theorem C18_fractions r :
  (~ total r == 0 -> total (fractions_step r) == 1 /\ total (fractions_scalar r) == 1) /\
  (total r == 0 -> fractions_scalar r = [] /\ (forall k, mass_of k (fractions_step r) == 0) /\
                   map fst (fractions_step r) = map fst r).
Proof. split; [apply fractions_sum_to_one|apply fractions_zero_total]. Qed.

(* no sequence of add / scale / fraction / query operations changes a binding other than its results *)
Theorem C18_operands_unchanged m env ops : firstn (length env) (run m env ops) = env.
Proof. apply run_keeps_env. Qed.

(* Non-vacuity: kinds 1,2; a lists kind 1 twice (main and pilot fuel of the same kind). *)
Example C18_example :
  let a := [(1%nat, 1); (1%nat, 2); (2%nat, 4)] in let b := [(1%nat, 10); (3%nat, 5)] in
  add a b = [(1%nat, 1 + 10); (1%nat, 2); (2%nat, 4); (3%nat, 5)] /\
  Qred (total (add a b)) = 22 /\ Qred (mass_of 1 (add b a)) = 13 /\
  map (fun e => Qred (snd e)) (fractions_step (add a b)) = [1 # 2; 1 # 11; 2 # 11; 5 # 22].
Proof. vm_compute. repeat split. Qed.

Print Assumptions C18_add_conserves.
Print Assumptions C18_add_comm_assoc.
Print Assumptions C18_scale.
Print Assumptions C18_fractions.
Print Assumptions C18_operands_unchanged.
