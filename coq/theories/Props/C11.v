(* Props/C11.v — C11: results are additive over time, order-free and linear in interval length.
   With interval-weighted integration every extensive figure of a run is
        integrate g xs dt = sum_t g(x_t) * dt_t
   where x_t collects the inputs of step t and g is the figure's rate at a step: the power balance
   is element-wise in time (C01_pointwise, C04 per step) and every per-component rate is a function
   of the component's power at that step (C07, C09, C17).  The laws below hold for EVERY such g.
   For hybrid plants the decision to run the second electric pass depends on the whole series (any
   full-PTI step), so g is not a function of the step alone there: the laws then hold up to C05's
   conversion error; the correspondence measures it. *)
From Coq Require Import QArith List Bool Permutation.
From Feems Require Import Base.Num Model.FuelRecord Model.Result Model.SysResult Proofs.SysResultProofs.
Import ListNotations.
Open Scope Q_scope.

(* the result over a sequence of intervals is the sum of the results over any consecutive split *)
Theorem C11_split {X} (g : X -> Q) xs1 xs2 dt1 dt2 : length xs1 = length dt1 ->
  integrate g (xs1 ++ xs2) (dt1 ++ dt2) == integrate g xs1 dt1 + integrate g xs2 dt2.
Proof. intros H. unfold integrate. rewrite map_app. apply qdot_app. rewrite map_length. exact H. Qed.

(* it is unchanged when the intervals are reordered together with their inputs *)
Theorem C11_permute {X} (g : X -> Q) xs dt xs' dt' : length xs = length dt -> length xs' = length dt' ->
  Permutation (combine xs dt) (combine xs' dt') -> integrate g xs dt == integrate g xs' dt'.
Proof. intros H H' P. rewrite !pdot_integrate by assumption. apply pdot_perm, P. Qed.

(* it scales in proportion to the interval lengths *)
Theorem C11_scale {X} (g : X -> Q) xs dt k : integrate g xs (map (Qmult k) dt) == k * integrate g xs dt.
Proof. unfold integrate. apply qdot_scale. Qed.

(* a single operating point is a series of length one; the duration is the sum of the intervals *)
Theorem C11_single_point {X} (g : X -> Q) x d : integrate g [x] [d] == g x * d.
Proof. unfold integrate. cbn. ring. Qed.
Theorem C11_duration {X} (xs : list X) dt : length xs = length dt -> integrate (fun _ => 1) xs dt == qsum dt.
Proof.
  unfold integrate. revert dt; induction xs as [|x xs IH]; intros [|d dt] H; cbn in *; try discriminate; [reflexivity|].
  rewrite IH by congruence. ring.
Qed.

(* at the level of result records: combining the results of consecutive parts with
   sum_and_extend_duration adds every figure *)
Theorem C11_parts_add n f parts r : Forall (wf_res n) parts ->
  accumulate_periods (group_start n) parts = Merged r -> fig f r == fig_sum f parts.
Proof.
  intros W H. destruct (accumulate_periods_is_sum n f parts (group_start n) r (group_start_wf n) W H) as [E _].
  rewrite E, fig_group_start. ring.
Qed.

Example C11_example : (* rate = 2 x input; steps 3,5,7 with intervals 10,20,30; split after 1; reversed; doubled *)
  let g := fun x : Q => 2 * x in
  Qred (integrate g [3; 5; 7] [10; 20; 30]) = 680 /\
  Qred (integrate g [3] [10] + integrate g [5; 7] [20; 30]) = 680 /\
  Qred (integrate g [7; 5; 3] [30; 20; 10]) = 680 /\
  Qred (integrate g [3; 5; 7] (map (Qmult 2) [10; 20; 30])) = 1360.
Proof. vm_compute. repeat split. Qed.


(* ------------------------------------------------------------------------------------------------
   The same laws for a WHOLE CALCULATION on an electric plant (Model/Plant.v): the power balance of
   Model/ElecBalance.v at every step, through the bus-configuration periods of Model/Bus.v, then any
   per-component rate of an extensive figure, then the interval-weighted sum.  Here the integrand is not
   an arbitrary function any more: that it depends on the step alone is the content of the proof
   (the balance is step-wise, C01_pointwise; the configuration in force at step t is that of the breaker
   positions at step t, C02_effective_from_t). *)
From Feems Require Import Model.Bus Model.ElecBalance Model.Plant Proofs.PlantProofs.

(* additive over time: breaker positions and unit statuses may change anywhere, also exactly at the cut *)
Theorem C11_system_split rate plant es swbs sts dt k : (k <= length dt)%nat ->
  run_figure rate plant es swbs sts dt
  == run_figure rate (take_plant k plant) es swbs (firstn k sts) (firstn k dt)
     + run_figure rate (drop_plant k plant) es swbs (skipn k sts) (skipn k dt).
Proof. apply run_split. Qed.

(* unchanged when the intervals are reordered together with ALL their inputs *)
Theorem C11_system_permute rate plant es swbs sts dt p : Permutation p (seq 0 (length dt)) ->
  run_figure rate (reindex_plant p plant) es swbs (reindex [] p sts) (reindex 0 p dt) == run_figure rate plant es swbs sts dt.
Proof. apply run_permute. Qed.

(* proportional to the interval lengths *)
Theorem C11_system_scale rate plant es swbs sts dt k :
  run_figure rate plant es swbs sts (map (Qmult k) dt) == k * run_figure rate plant es swbs sts dt.
Proof. apply run_scale. Qed.

Theorem C11_system_single_point rate plant es swbs sts d :
  run_figure rate plant es swbs sts [d] == step_rate rate plant es swbs sts 0 * d.
Proof. apply run_single_point. Qed.

(* the duration (rate 1 carried by the first component) is the sum of the intervals *)
Theorem C11_system_duration plant es swbs sts dt n0 : length plant = S n0 ->
  run_figure (fun j _ => if Nat.eqb j 0 then 1 else 0) plant es swbs sts dt == qsum dt.
Proof. apply run_duration. Qed.

(* Non-vacuity: two switchboards, the tie opens at step 1 and closes again at step 3, the genset on
   switchboard 2 stops at step 2; the figure is a "fuel" rate quadratic in the power of the sources.
   Whole series = part [0,2) + part [2,4); reversed order gives the same; doubled intervals the double. *)
Definition c11_plant : list (comp * cin) :=
  [ ({| c_swb := 1; c_kind := Source;   c_rated := 1000 |}, {| i_status := [true; true; true; true];  i_lsm := [0; 0; 0; 0]; i_pin := [] |});
    ({| c_swb := 2; c_kind := Source;   c_rated := 500 |},  {| i_status := [true; true; false; true]; i_lsm := [0; 0; 0; 0]; i_pin := [] |});
    ({| c_swb := 1; c_kind := Consumer; c_rated := 2000 |}, {| i_status := []; i_lsm := []; i_pin := [300; 600; 450; 150] |});
    ({| c_swb := 2; c_kind := Consumer; c_rated := 2000 |}, {| i_status := []; i_lsm := []; i_pin := [300; 100; 0; 150] |}) ].
Definition c11_rate (j : nat) (p : Q) : Q := if Nat.leb j 1 then p * p / 1000000 + p / 5000 else 0.
Example C11_system_example :
  let sts := [[true]; [false]; [false]; [true]] in
  let dt := [60; 30; 90; 120] in
  let run pl st d := Qred (run_figure c11_rate pl [(1, 2)%nat] [1; 2]%nat st d) in
  run c11_plant sts dt = 2961 # 40 /\
  Qred (run_figure c11_rate (take_plant 2 c11_plant) [(1, 2)%nat] [1; 2]%nat (firstn 2 sts) (firstn 2 dt)
        + run_figure c11_rate (drop_plant 2 c11_plant) [(1, 2)%nat] [1; 2]%nat (skipn 2 sts) (skipn 2 dt)) = 2961 # 40 /\
  run (reindex_plant [3; 2; 1; 0]%nat c11_plant) (reindex [] [3; 2; 1; 0]%nat sts) (reindex 0 [3; 2; 1; 0]%nat dt) = 2961 # 40 /\
  run c11_plant sts (map (Qmult 2) dt) = 2961 # 20.
Proof. vm_compute. repeat split. Qed.

Print Assumptions C11_split.
Print Assumptions C11_permute.
Print Assumptions C11_scale.
Print Assumptions C11_single_point.
Print Assumptions C11_duration.
Print Assumptions C11_parts_add.
Print Assumptions C11_system_split.
Print Assumptions C11_system_permute.
Print Assumptions C11_system_scale.
Print Assumptions C11_system_single_point.
Print Assumptions C11_system_duration.
