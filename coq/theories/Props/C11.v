(* Props/C11.v — C11: results are additive over time, order-free and linear in interval length.
   With interval-weighted integration every extensive figure of a run is
        integrate g xs dt = sum_t g(x_t) * dt_t
   where x_t collects the inputs of step t and g is the figure's rate at a step: the power balance
   is element-wise in time (C01_pointwise, C04 per step) and every per-component rate is a function
   of the component's power at that step (C07, C09, C17).  The laws below hold for EVERY such g.
   For hybrid plants the decision to run the second electric pass depends on the whole series (any
   full-PTI step), so g is not a function of the step alone there: the laws then hold up to C05's
   conversion error; the correspondence measures it. *)
From Coq Require Import QArith List Bool Permutation.
From Feems Require Import Base.Num Model.FuelRecord Model.Result Model.SysResult Proofs.SysResultProofs.
Import ListNotations.
Open Scope Q_scope.

(* the result over a sequence of intervals is the sum of the results over any consecutive split *)
Theorem C11_split {X} (g : X -> Q) xs1 xs2 dt1 dt2 : length xs1 = length dt1 ->
  integrate g (xs1 ++ xs2) (dt1 ++ dt2) == integrate g xs1 dt1 + integrate g xs2 dt2.
Proof. intros H. unfold integrate. rewrite map_app. apply qdot_app. rewrite map_length. exact H. Qed.

(* it is unchanged when the intervals are reordered together with their inputs *)
Theorem C11_permute {X} (g : X -> Q) xs dt xs' dt' : length xs = length dt -> length xs' = length dt' ->
  Permutation (combine xs dt) (combine xs' dt') -> integrate g xs dt == integrate g xs' dt'.
Proof. intros H H' P. rewrite !pdot_integrate by assumption. apply pdot_perm, P. Qed.

(* it scales in proportion to the interval lengths *)
Theorem C11_scale {X} (g : X -> Q) xs dt k : integrate g xs (map (Qmult k) dt) == k * integrate g xs dt.
Proof. unfold integrate. apply qdot_scale. Qed.

(* a single operating point is a series of length one; the duration is the sum of the intervals *)
Theorem C11_single_point {X} (g : X -> Q) x d : integrate g [x] [d] == g x * d.
Proof. unfold integrate. cbn. ring. Qed.
Theorem C11_duration {X} (xs : list X) dt : length xs = length dt -> integrate (fun _ => 1) xs dt == qsum dt.
Proof.
  unfold integrate. revert dt; induction xs as [|x xs IH]; intros [|d dt] H; cbn in *; try discriminate; [reflexivity|].
  rewrite IH by congruence. ring.
Qed.

(* at the level of result records: combining the results of consecutive parts with
   sum_and_extend_duration adds every figure *)
Theorem C11_parts_add n f parts r : Forall (wf_res n) parts ->
  accumulate_periods (group_start n) parts = Merged r -> fig f r == fig_sum f parts.
Proof.
  intros W H. destruct (accumulate_periods_is_sum n f parts (group_start n) r (group_start_wf n) W H) as [E _].
  rewrite E, fig_group_start. ring.
Qed.

Example C11_example : (* rate = 2 x input; steps 3,5,7 with intervals 10,20,30; split after 1; reversed; doubled *)
  let g := fun x : Q => 2 * x in
  Qred (integrate g [3; 5; 7] [10; 20; 30]) = 680 /\
  Qred (integrate g [3] [10] + integrate g [5; 7] [20; 30]) = 680 /\
  Qred (integrate g [7; 5; 3] [30; 20; 10]) = 680 /\
  Qred (integrate g [3; 5; 7] (map (Qmult 2) [10; 20; 30])) = 1360.
Proof. vm_compute. repeat split. Qed.

Print Assumptions C11_split.
Print Assumptions C11_permute.
Print Assumptions C11_scale.
Print Assumptions C11_single_point.
Print Assumptions C11_duration.
Print Assumptions C11_parts_add.
