(* Props/C06.v — C06: components never create energy; conversion is bounded and self-consistent.
   Statements over Model/Component.v, Model/Storage.v, Base/Pchip.v; proofs in Proofs/ComponentProofs.v.

   PARTIAL, named so:
   * the interpolated inverse is proved EXACT AT THE 201 TABLE POINTS (C06_inverse_exact_at_table) and, between
     them, to STAY INSIDE ITS TABLE CELL (C06_inverse_stays_in_table_cell; so the energy it can "create" is below
     one table step = 1 % of rated power, C06_inverse_gain_below_one_step); the property's "within 0.5 % of
     rated power" between table points is not proved -- it is measured by the correspondence run, and the
     implementation exceeds it for rough admissible curves (finding F-C06-1); the strict-balance 1e-6 figure concerns SciPy's iterative solvers, which no Gallina
     model stands for: measured only.
   * for a serial drive train the product of the stage efficiencies is exact at the eleven grid loads
     0, 0.1 .. 1.0 (C06_serial_at_grid); between them the code interpolates the products. *)
From Coq Require Import QArith Qabs List Bool Lqa.
From Feems Require Import Base.Num Base.Pchip Model.Component Model.Storage Proofs.ComponentProofs Proofs.PchipMono.
Import ListNotations.
Open Scope Q_scope.

(* for ANY efficiency curve, any rated power and any flow x in either direction: delivery = supply x
   efficiency, the efficiency lies in [1 %, 100 %], the supply is never smaller in magnitude and has
   the same sign, and zero flow gives zero *)
Theorem C06_no_energy_created rated f x :
  let s := fwd rated f x in let e := eff f (Qabs x / rated) in
  x == s * e /\ 1 # 100 <= e <= 1 /\ Qabs x <= Qabs s /\ 0 <= x * s /\ fwd rated f 0 == 0.
Proof.
  cbv zeta. destruct (fwd_ratio rated f x) as [A B]. destruct (fwd_no_gain rated f x) as [C D].
  destruct B as [B1 B2]. split; [exact A|]. split; [split; assumption|]. split; [exact C|]. split; [exact D|apply fwd_zero].
Qed.

(* the clamp: whatever the curve says, the efficiency used is within [0.01, 1], and equals the curve
   value where that already lies within *)
Theorem C06_clamp f l : 1 # 100 <= eff f l <= 1 /\ (1 # 100 <= f l <= 1 -> eff f l == f l).
Proof. split; [apply clip_bounds|apply clip_id]. Qed.

(* converting a delivered power to the supplied power and back returns the starting value exactly
   at every table point, for every accepted component *)
Theorem C06_inverse_exact_at_table rated f k : accepted rated f = true -> (k <= 200)%nat ->
  inv rated f (fwd rated f (table_out rated k)) == table_out rated k.
Proof. apply inverse_exact_at_table. Qed.

(* BETWEEN the table points the interpolated inverse stays inside its table cell: for a supply x between two
   consecutive table supplies the returned delivery lies between the two table deliveries -- SciPy's PCHIP slopes
   for increasing data lie in the Fritsch-Carlson box, so every cubic piece is a convex combination of control
   values inside the cell (Proofs/PchipMono.v).  Hence the energy the default inverse can "create" between table
   points is below one table step, 1 % of the rated power; the property's 0.5 % figure is measured by the stream
   (known finding F-C06-1 where it fails). *)
Theorem C06_inverse_stays_in_table_cell rated f k x : accepted rated f = true -> (k < 200)%nat ->
  fwd rated f (table_out rated k) <= x < fwd rated f (table_out rated (S k)) ->
  table_out rated k <= inv rated f x <= table_out rated (S k).
Proof. apply inverse_between_table. Qed.

Theorem C06_inverse_gain_below_one_step rated f k x : accepted rated f = true -> (k < 200)%nat ->
  0 <= table_out rated k ->
  fwd rated f (table_out rated k) <= x < fwd rated f (table_out rated (S k)) ->
  inv rated f x <= x + rated / 100.
Proof.
  intros Ha Hk H0 Hx. destruct (inverse_between_table rated f k x Ha Hk Hx) as [_ B].
  assert (S : table_out rated (S k) == table_out rated k + rated / 100).
  { unfold table_out. rewrite Nat2Z.inj_succ. unfold Z.succ. rewrite inject_Z_plus. field. }
  assert (F : table_out rated k <= fwd rated f (table_out rated k)).
  { destruct (fwd_ratio rated f (table_out rated k)) as [E [B1 B2]].
    set (s0 := fwd rated f (table_out rated k)) in *. set (e0 := eff f (Qabs (table_out rated k) / rated)) in *.
    destruct (Qlt_le_dec s0 0) as [N|N].
    - assert (0 < (- s0) * e0) by (apply Qmult_lt_0_compat; lra). lra.
    - assert (0 <= s0 * (1 - e0)) by (apply Qmult_le_0_compat; lra). lra. }
  lra.
Qed.

(* scalar call and array element agree: they dispatch identically except at exactly 0, where the
   scalar path divides 0 by the efficiency and the array path reads the (0,0) table point *)
Theorem C06_scalar_equals_array rated f x : ~ x == 0 ->
  in_from_out_scalar rated f x = in_from_out_elem rated f x.
Proof.
  intros H. unfold in_from_out_scalar, in_from_out_elem.
  destruct (Qle_bool 0 x) eqn:A; destruct (Qle_bool x 0) eqn:B; try reflexivity.
  - apply Qle_bool_iff in A, B. exfalso. apply H. lra.
  - apply qb_gt in A, B. exfalso. lra.
Qed.
(* at exactly 0 both paths give 0 whenever the (0,0) table point is hit exactly; the array path is
   tied to the implementation at 0 by the correspondence run (obligation: power exactly 0) *)

(* serial drive train *)
Theorem C06_serial_at_grid stages l : In l serial_grid -> serial_curve stages l == serial_eff_at stages l.
Proof. apply serial_at_grid. Qed.

(* batteries and supercapacitors: terminal -> cell -> terminal is the identity, and what is credited to
   the cell never exceeds what enters at the terminal (discharging: what leaves the cell is never
   less than what is delivered), for all efficiencies in (0,1] *)
Theorem C06_storage s p : 0 < eff_c s <= 1 -> 0 < eff_d s <= 1 ->
  terminal_from_cell s (cell_from_terminal s p) == p /\ cell_from_terminal s p <= p.
Proof. intros Hc Hd. split; [apply store_roundtrip|apply store_no_gain]; assumption. Qed.

(* Non-vacuity: 1000 kW, curve (25 %, 0.8) (50 %, 0.9) (100 %, 0.95): delivering 500 kW needs 500/0.9 kW;
   a curve value 1.2 is used as 1, a value 0.001 as 0.01 *)
Example C06_example :
  let f := curve_eval (Points [(1#4, 8#10); (1#2, 9#10); (1, 95#100)]) in
  Qred (fwd 1000 f 500) = 5000 # 9 /\ Qred (fwd 1000 f (-1000)) = -(20000 # 19) /\
  Qred (fwd 1000 (fun _ => 12 # 10) 300) = 300 /\ Qred (fwd 1000 (fun _ => 1 # 1000) 300) = 30000 /\
  accepted 1000 f = true.
Proof. vm_compute. repeat split. Qed.

Print Assumptions C06_no_energy_created.
Print Assumptions C06_clamp.
Print Assumptions C06_inverse_exact_at_table.
Print Assumptions C06_inverse_stays_in_table_cell.
Print Assumptions C06_inverse_gain_below_one_step.
Print Assumptions C06_scalar_equals_array.
Print Assumptions C06_serial_at_grid.
Print Assumptions C06_storage.
