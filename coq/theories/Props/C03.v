(* Props/C03.v — C03: equal load fraction, exact fixed shares, off means zero.
   Statements over Model/ElecBalance.v; proofs are the lemmas of Proofs/ElecProofs.v. *)
From Coq Require Import QArith List Bool Arith.
From Feems Require Import Base.Num Model.Bus Model.ElecBalance Proofs.ElecProofs.
Import ListNotations.
Open Scope Q_scope.

Section C03.
  Variables (plant : list (comp * cin)) (es : list edge) (swbs : list nat) (sts : list (list bool)) (t : nat).
  Let cs := map (view_at t) plant.
  Let busmap := bus_at es swbs sts t.

  (* Every running unit that shares load equally -- a source of any class, or a storage / PTI/PTO unit
     in balancing mode -- is loaded to the load fraction of its bus: output / rated (for storage and
     PTI/PTO: - input / rated) equals that fraction.  Two such units on one bus have the same bus load,
     hence the same fraction (second statement). *)
  Theorem C03_equal_fraction c l : load_of cs busmap swbs c = Fin l ->
    v_lsm c == 0 -> v_on c = true -> v_rated c > 0 ->
    (v_kind c = Source -> numq (result_of cs busmap swbs c) / v_rated c == l) /\
    (is_ps (v_kind c) = true -> - numq (result_of cs busmap swbs c) / v_rated c == l).
  Proof.
    intros HL E On Hr. split; intros K.
    - apply equal_fraction; assumption.
    - apply equal_fraction_ps; assumption.
  Qed.

  Theorem C03_same_bus_same_fraction c1 c2 :
    busmap (v_swb c1) = busmap (v_swb c2) -> load_of cs busmap swbs c1 = load_of cs busmap swbs c2.
  Proof. intros H. unfold load_of. rewrite H. reflexivity. Qed.

  (* A running source with a fixed share s <> 0 delivers exactly rated * s. *)
  Theorem C03_fixed_exact c : v_kind c = Source -> ~ v_lsm c == 0 -> v_on c = true ->
    result_of cs busmap swbs c = Fin (v_rated c * v_lsm c * 1).
  Proof. apply fixed_exact. Qed.

  (* A source that is switched off delivers nothing, whatever the bus load (even a non-finite one);
     a switched-off balancing storage / PTI/PTO gets input 0 whenever the bus load is finite. *)
  Theorem C03_off_zero c :
    (v_kind c = Source -> v_on c = false -> exists q, result_of cs busmap swbs c = Fin q /\ q == 0) /\
    (forall l, load_of cs busmap swbs c = Fin l -> is_ps (v_kind c) = true -> v_lsm c == 0 ->
               v_on c = false -> exists q, result_of cs busmap swbs c = Fin q /\ q == 0).
  Proof. split; [apply off_zero_source|intros l; apply off_zero_ps]. Qed.

  (* The load shared by the equally sharing units of a bus is the consumption (consumers, PTI/PTO and
     storage with given input) minus the deliveries of the fixed-share sources. *)
  Theorem C03_fixed_removed b : wf cs swbs ->
    net_bus cs busmap swbs b == qsum (map net_term (filter (in_bus busmap b) cs)).
  Proof. apply net_bus_regroup. Qed.
End C03.

(* Non-vacuity, on the plant of Props/C01.v's example shape: genset A (1000 kW, fixed share 3/4),
   genset B (600 kW, equal sharing), battery (400 kW, balancing), consumer 1300 kW, one bus.
   B and the battery are both loaded to (1300-750)/1000 = 11/20; A delivers exactly 750. *)
Example C03_example :
  let plant :=
    [ ({| c_swb := 1; c_kind := Source;   c_rated := 1000 |}, {| i_status := [true];  i_lsm := [3#4]; i_pin := [0] |});
      ({| c_swb := 1; c_kind := Source;   c_rated := 600 |},  {| i_status := [true];  i_lsm := [0];   i_pin := [0] |});
      ({| c_swb := 1; c_kind := Storage;  c_rated := 400 |},  {| i_status := [true];  i_lsm := [0];   i_pin := [0] |});
      ({| c_swb := 1; c_kind := Source;   c_rated := 700 |},  {| i_status := [false]; i_lsm := [0];   i_pin := [0] |});
      ({| c_swb := 1; c_kind := Consumer; c_rated := 1500 |}, {| i_status := [];      i_lsm := [];    i_pin := [1300] |}) ] in
  map (fun x => match x with Fin q => Some (Qred q) | NonFinite => None end)
      (balance_step plant [] [1%nat] [[]] 0)
  = [Some (750 # 1); Some (330 # 1); Some (-220 # 1); Some (0 # 1); Some (1300 # 1)].
Proof. vm_compute. reflexivity. Qed.

Print Assumptions C03_equal_fraction.
Print Assumptions C03_same_bus_same_fraction.
Print Assumptions C03_fixed_exact.
Print Assumptions C03_off_zero.
Print Assumptions C03_fixed_removed.
