(* Props/C02.v — C02: bus grouping equals connectivity through closed bus-tie breakers.
   Statements only; every proof is `exact`/`apply` of a lemma in Proofs/BusProofs.v. *)
From Coq Require Import List Arith Bool Lia.
From Feems Require Import Model.Bus Proofs.BusProofs.
Import ListNotations.

(* At every step t two switchboards carry the same bus number exactly when a chain of breakers
   closed AT STEP t links them (the map stored for the period containing t is the map of row t). *)
Theorem C02_grouping es swbs sts t x y : In x swbs -> In y swbs ->
  (bus_at es swbs sts t x = bus_at es swbs sts t y <-> conn (closed es (row sts t)) x y).
Proof.
  intros Hx Hy. unfold bus_at, bus_row. rewrite pstart_row.
  rewrite (bus_of_iff_same _ (same_lab_refl _) (same_lab_sym _) (same_lab_trans _) swbs x y Hx Hy).
  apply same_lab_conn.
Qed.

(* The reported number of buses is the number of connectivity classes: it is the length of a list of
   representatives, pairwise not connected, such that every switchboard is connected to exactly one. *)
Theorem C02_count es swbs sts t :
  exists reps, no_bus_at es swbs sts t = length reps /\ incl reps swbs /\
    (forall x, In x swbs -> exists a, In a reps /\ conn (closed es (row sts t)) x a /\
        forall b, In b reps -> conn (closed es (row sts t)) x b -> b = a).
Proof.
  unfold no_bus_at, no_bus_row. rewrite pstart_row.
  set (l := labels (closed es (row sts t))).
  destruct (leaders_representatives _ (same_lab_refl l) (same_lab_sym l) (same_lab_trans l) swbs)
    as [Hi [_ Hr]].
  exists (leaders (same_lab l) swbs). split; [reflexivity|]. split; [exact Hi|].
  intros x Hx. destruct (Hr x Hx) as [a [Ha [Hxa Hu]]]. exists a. split; [exact Ha|].
  split; [apply same_lab_conn; exact Hxa|].
  intros b Hb Hxb. apply Hu; [exact Hb|apply same_lab_conn; exact Hxb].
Qed.

(* Declaration order and orientation of the breakers do not matter: if the closed breakers of two
   declarations are the same set up to orientation, the bus MAP (numbers included) and the bus count
   are identical. *)
Theorem C02_order_orientation es es' swbs st st' x :
  same_edges (closed es st) (closed es' st') ->
  bus_row es swbs st x = bus_row es' swbs st' x /\ no_bus_row es swbs st = no_bus_row es' swbs st'.
Proof.
  intros H. split.
  - apply bus_of_ext. intros a b. apply same_lab_same_edges, H.
  - apply no_bus_ext. intros a b. apply same_lab_same_edges, H.
Qed.

(* A status change takes effect from exactly the step at which it occurs: the change indices are 0
   and the steps whose row differs from the previous one; the period containing t starts at a change
   index, no change index lies strictly between that start and t, and the row used equals row t. *)
Theorem C02_effective_from_t sts t : t < length sts ->
  (forall u, In u (change_index sts) <-> u = 0 \/ (1 <= u < length sts /\ row sts (u - 1) <> row sts u)) /\
  In (pstart sts t) (change_index sts) /\ pstart sts t <= t /\
  (forall u, pstart sts t < u <= t -> ~ In u (change_index sts)) /\
  row sts (pstart sts t) = row sts t.
Proof.
  intros Ht. split; [intros u; apply in_change_index|].
  split; [apply pstart_in_change_index, Ht|]. split; [apply pstart_le|].
  split; [intros u; apply pstart_no_change_between|apply pstart_row].
Qed.

(* Non-vacuity: four switchboards with ids 1,2,5,7, breakers (5,7),(1,2),(7,2) declared out of
   order; the last opens at step 3. *)
Example C02_example :
  let es := [(5,7); (1,2); (7,2)] in let swbs := [1;2;5;7] in
  let sts := [[true;true;true]; [true;true;true]; [true;true;true]; [true;true;false]; [true;true;false]] in
  map (bus_at es swbs sts 2) swbs = [1;1;1;1] /\ no_bus_at es swbs sts 2 = 1 /\
  map (bus_at es swbs sts 4) swbs = [1;1;2;2] /\ no_bus_at es swbs sts 4 = 2 /\
  change_index sts = [0; 3].
Proof. vm_compute. repeat split. Qed.

(* The algorithm before the repair refutes the property (finding D-1): breakers [(2,3);(1,2)], all
   closed, leave switchboard 3 on a bus of its own although 1-2-3 are connected. *)
Example C02_legacy_refuted :
  exists es x y, conn es x y /\
    match legacy_labels es with Some l => l x <> l y | None => True end.
Proof.
  exists [(2,3); (1,2)], 1, 3. split.
  - apply c_trans with 2; apply c_edge; cbn; auto.
  - vm_compute. discriminate.
Qed.

Print Assumptions C02_grouping.
Print Assumptions C02_count.
Print Assumptions C02_order_orientation.
Print Assumptions C02_effective_from_t.
