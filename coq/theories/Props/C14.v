(* Props/C14.v — C14: the protobuf result export carries exactly the figures of the result.
   Statements over Model/ProtoResult.v for ANY field-name lists; that the lists in the code line up
   (every result field has a message field of its name, every detail column maps to a field) is
   theorem C14_columns_mapped of coq/gen/C14_gen.v, re-proved on every run over the names regenerated
   from the dataclass, the compiled .proto descriptors, _COLUMN_NAMES and the detail tables. *)
From Coq Require Import QArith String List Bool Arith Lia.
From Feems Require Import Base.Num Model.FuelRecord Model.Result Model.ProtoResult.
Import ListNotations.
Open Scope Q_scope.

Lemma sassoc_export_hit pf named n v :
  sassoc n named = Some (Some v) -> smem n pf = true -> sassoc n (export_scalars pf named) = Some v.
Proof.
  induction named as [|[k o] r IH]; intros H Hm; [discriminate|].
  cbn [sassoc] in H. unfold export_scalars. cbn [flat_map fst snd]. fold (export_scalars pf r).
  destruct (String.eqb n k) eqn:E.
  - apply String.eqb_eq in E. subst k. inversion H; subst. rewrite Hm. cbn. rewrite String.eqb_refl. reflexivity.
  - destruct o as [w|]; [|apply IH; assumption].
    destruct (smem k pf); [|apply IH; assumption]. cbn. rewrite E. apply IH; assumption.
Qed.

(* every scalar figure whose name the message knows is carried with the same value; the fuel masses per
   kind, the five CO2-equivalent components and NOx likewise; one detail record per detail row *)
Theorem C14_totals_carried pf names r n v :
  sassoc n (("duration_s"%string, r_duration r) :: combine names (map Some (r_scalars r))) = Some (Some v) ->
  smem n pf = true -> sassoc n (m_scalars (export pf names r)) = Some v.
Proof. intros H Hm. unfold export. cbn [m_scalars]. apply sassoc_export_hit; assumption. Qed.

Theorem C14_fuel_co2_nox pf names r :
  (forall k, mass_of k (m_fuel (export pf names r)) == mass_of k (r_fuel r)) /\
  m_nox (export pf names r) == species_of nox_key (r_species r) /\
  (forall ttw wtt ns, r_co2 r = [ttw; wtt; ns] ->
     m_co2 (export pf names r) = [wtt; ttw; ttw + wtt; ns; ns + wtt]) /\
  m_rows (export pf names r) = match r_detail r with Some l => length l | None => 0%nat end.
Proof.
  repeat split; try reflexivity. intros ttw wtt ns H. unfold export. cbn [m_co2]. rewrite H. reflexivity.
Qed.

(* per-component series: same length as the input; time base = the given epochs, else the cumulative
   intervals, else k x dt *)
Lemma cumsum_length a l : length (cumsum a l) = length l.
Proof. revert a; induction l as [|x r IH]; intros a; cbn; [reflexivity|]. rewrite IH. reflexivity. Qed.
Theorem C14_series_time_base epochs dt n :
  (forall e, epochs = Some e -> (n <= length e)%nat -> length (time_base epochs dt n) = n) /\
  (forall l, epochs = None -> dt = DtSeries l -> length (time_base epochs dt n) = length l /\
             time_base epochs dt n = cumsum 0 l) /\
  (forall d, epochs = None -> dt = DtScalar d -> length (time_base epochs dt n) = n /\
             forall k, (k < n)%nat -> nth k (time_base epochs dt n) 0 = inject_Z (Z.of_nat k) * d).
Proof.
  repeat split.
  - intros e -> H. cbn. apply firstn_length_le, H.
  - subst. cbn. apply cumsum_length.
  - subst. reflexivity.
  - subst. cbn. rewrite map_length, seq_length. reflexivity.
  - intros k Hk. subst. cbn [time_base].
    assert (G : forall m j s, (j < m)%nat ->
              nth j (map (fun i => inject_Z (Z.of_nat i) * d) (seq s m)) 0 = inject_Z (Z.of_nat (s + j)) * d).
    { clear. induction m as [|m IH]; intros j s H; [lia|]. destruct j as [|j]; cbn [seq map nth].
      - rewrite Nat.add_0_r. reflexivity.
      - rewrite (IH j (S s)) by lia. f_equal. f_equal. f_equal. lia. }
    rewrite (G n k 0%nat Hk). reflexivity.
Qed.

Example C14_example :
  let r := {| r_duration := Some 600; r_load := None; r_scalars := [7; 9]; r_species := Some [(2%nat, 3)];
              r_fuel := [(12%nat, 40)]; r_co2 := [100; 20; 95]; r_detail := Some [1%nat; 2%nat] |} in
  let m := export ["duration_s"; "a"; "b"]%string ["a"; "b"]%string r in
  m_scalars m = [("duration_s", 600); ("a", 7); ("b", 9)]%string /\ m_co2 m = [20; 100; 100 + 20; 95; 95 + 20] /\
  m_nox m = 3 /\ m_rows m = 2%nat /\ time_base None (DtSeries [60; 30; 10]) 3 = [0 + 60; 0 + 60 + 30; 0 + 60 + 30 + 10].
Proof. repeat split. Qed.

Print Assumptions C14_totals_carried.
Print Assumptions C14_fuel_co2_nox.
Print Assumptions C14_series_time_base.
