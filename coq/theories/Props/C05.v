(* Props/C05.v — C05: hybrid system, one PTI/PTO consistent on the electric and the shaft side.
   Statements over Model/Hybrid.v for ARBITRARY conversion functions of the machine; proofs in
   Proofs/ShaftProofs.v.  Which side is exact depends on which pass wrote the PTI/PTO last; the model
   keeps track of it.  Partial: the property's "within 0.5 % of the PTI/PTO rating" is C05_both_within_eps
   with eps := the machine's round-trip error, whose 0.5 % bound is C06's measured figure (not proved).
   The hypothesis "h_full i = false \/ h_any_full i = true" only excludes the impossible combination
   (this step full-PTI while no step is). *)
From Coq Require Import QArith Qabs List Bool.
From Feems Require Import Base.Num Model.Hybrid Proofs.ShaftProofs.
Import ListNotations.
Open Scope Q_scope.

Theorem C05_no_full_pti to_shaft to_elec i : h_any_full i = false ->
  shaft_imbalance to_shaft to_elec i == 0 /\
  elec_imbalance to_shaft to_elec i == h_e0 i - to_elec (s2 to_shaft i).
Proof. apply hybrid_no_full_pti. Qed.

Theorem C05_full_pti to_shaft to_elec i : h_any_full i = true ->
  elec_imbalance to_shaft to_elec i == 0 /\
  shaft_imbalance to_shaft to_elec i == to_shaft (elec_final to_shaft to_elec i) - s2 to_shaft i.
Proof. apply hybrid_full_pti. Qed.

(* a step at which the machine shares the load with the sources (sharing flag 0): exact on both sides *)
Theorem C05_load_sharing_step to_shaft to_elec i : h_any_full i = true -> h_bal i = true -> h_full i = false ->
  elec_imbalance to_shaft to_elec i == 0 /\ shaft_imbalance to_shaft to_elec i == 0.
Proof. apply hybrid_load_sharing_step. Qed.

Theorem C05_both_within_eps to_shaft to_elec i eps :
  (forall x, Qabs (to_shaft (to_elec x) - x) <= eps) ->
  (forall x, Qabs (to_elec (to_shaft x) - x) <= eps) ->
  (h_full i = false \/ h_any_full i = true) -> (h_bal i = true -> h_full i = false) ->
  Qabs (elec_imbalance to_shaft to_elec i) <= eps /\ Qabs (shaft_imbalance to_shaft to_elec i) <= eps.
Proof. apply hybrid_both_within_eps. Qed.

Theorem C05_loss to_shaft to_elec i :
  (h_any_full i && h_bal i = false -> elec_final to_shaft to_elec i = to_elec (shaft_balanced_with to_shaft i)) /\
  (h_full i = true -> h_bal i = false -> shaft_balanced_with to_shaft i = h_load i /\ elec_final to_shaft to_elec i = to_elec (h_load i)) /\
  (h_any_full i = true -> shaft_final to_shaft to_elec i = to_shaft (elec_final to_shaft to_elec i)).
Proof. apply hybrid_loss. Qed.

Example C05_example : (* a machine with 10 % loss either way; PTI step of 200 kW electric; full-PTI step of 900 kW load;
                          a step at which it shares the load (PTO of 300 kW electrical) *)
  let ts := fun e => if Qle_bool e 0 then e / (9#10) else e * (9#10) in
  let te := fun s => if Qle_bool s 0 then s * (9#10) else s / (9#10) in
  let a := {| h_e0 := 200; h_load := 1000; h_full := false; h_any_full := true; h_bal := false |} in
  let b := {| h_e0 := 0; h_load := 900; h_full := true; h_any_full := true; h_bal := false |} in
  let c := {| h_e0 := -300; h_load := 1000; h_full := false; h_any_full := true; h_bal := true |} in
  (Qred (elec_final ts te a), Qred (shaft_final ts te a)) = (200, 180) /\
  (Qred (elec_final ts te b), Qred (shaft_final ts te b)) = (1000, 900) /\
  Qred (elec_imbalance ts te b) = 0 /\ Qred (shaft_imbalance ts te b) = 0 /\
  (Qred (elec_final ts te c), Qred (shaft_final ts te c)) = (-300, -1000 # 3).
Proof. vm_compute. repeat split. Qed.

Print Assumptions C05_no_full_pti.
Print Assumptions C05_full_pti.
Print Assumptions C05_load_sharing_step.
Print Assumptions C05_both_within_eps.
Print Assumptions C05_loss.
