(* Props/C05.v — C05: hybrid system, one PTI/PTO consistent on the electric and the shaft side.
   Statements over Model/Hybrid.v for ARBITRARY conversion functions of the machine; proofs in
   Proofs/ShaftProofs.v.  Which side is exact depends on which pass wrote the PTI/PTO last; the model
   keeps track of it.  Partial: the property's "within 0.5 % of the PTI/PTO rating" is C05_both_within_eps
   with eps := the machine's round-trip error, whose 0.5 % bound is C06's measured figure (not proved).
   The hypothesis "h_full i = false \/ h_any_full i = true" only excludes the impossible combination
   (this step full-PTI while no step is). *)
From Coq Require Import QArith Qabs List Bool.
From Feems Require Import Base.Num Model.Hybrid Proofs.ShaftProofs.
Import ListNotations.
Open Scope Q_scope.

Theorem C05_no_full_pti to_shaft to_elec i : h_any_full i = false ->
  shaft_imbalance to_shaft to_elec i == 0 /\
  elec_imbalance to_shaft to_elec i == h_e0 i - to_elec (s2 to_shaft i).
Proof. apply hybrid_no_full_pti. Qed.

(* with a full-PTI step somewhere the passes are electric, shaft, electric, shaft (the last one since fix D-22):
   the shaft side is exact at every step *)
Theorem C05_full_pti to_shaft to_elec i : h_any_full i = true ->
  shaft_imbalance to_shaft to_elec i == 0 /\
  elec_imbalance to_shaft to_elec i == elec_mid to_shaft to_elec i - to_elec (shaft_final to_shaft to_elec i).
Proof. apply hybrid_full_pti. Qed.

(* in a full-PTI step both sides are exact, the machine carries the whole shaft load and the electrical side
   supplies that load plus the conversion loss *)
Theorem C05_full_step to_shaft to_elec i : h_any_full i = true -> h_full i = true -> h_bal i = false ->
  elec_imbalance to_shaft to_elec i == 0 /\ shaft_imbalance to_shaft to_elec i == 0 /\
  shaft_final to_shaft to_elec i = h_load i /\ elec_final to_shaft to_elec i = to_elec (h_load i).
Proof. apply hybrid_full_step. Qed.

(* a step at which the machine shares the load with the sources (sharing flag 0): shaft side exact, electric side
   within one conversion round trip of its balancing power *)
Theorem C05_load_sharing_step to_shaft to_elec i : h_any_full i = true -> h_bal i = true -> h_full i = false ->
  shaft_imbalance to_shaft to_elec i == 0 /\
  elec_imbalance to_shaft to_elec i == h_e0 i - to_elec (to_shaft (h_e0 i)).
Proof. apply hybrid_load_sharing_step. Qed.

Theorem C05_both_within_eps to_shaft to_elec i eps :
  (forall x, Qabs (to_shaft (to_elec x) - x) <= eps) ->
  (forall x, Qabs (to_elec (to_shaft x) - x) <= eps) ->
  (h_full i = false \/ h_any_full i = true) -> (h_bal i = true -> h_full i = false) ->
  Qabs (elec_imbalance to_shaft to_elec i) <= eps /\ Qabs (shaft_imbalance to_shaft to_elec i) <= eps.
Proof. apply hybrid_both_within_eps. Qed.

Theorem C05_loss to_shaft to_elec i :
  elec_final to_shaft to_elec i = to_elec (shaft_balanced_with to_shaft to_elec i) /\
  (h_full i = true -> h_bal i = false -> shaft_balanced_with to_shaft to_elec i = h_load i /\ elec_final to_shaft to_elec i = to_elec (h_load i)).
Proof. apply hybrid_loss. Qed.

Example C05_example : (* a machine with 10 % loss either way; PTI step of 200 kW electric; full-PTI step of 900 kW load;
                          a step at which it shares the load (PTO of 300 kW electrical) *)
  let ts := fun e => if Qle_bool e 0 then e / (9#10) else e * (9#10) in
  let te := fun s => if Qle_bool s 0 then s * (9#10) else s / (9#10) in
  let a := {| h_e0 := 200; h_load := 1000; h_full := false; h_any_full := true; h_bal := false |} in
  let b := {| h_e0 := 0; h_load := 900; h_full := true; h_any_full := true; h_bal := false |} in
  let c := {| h_e0 := -300; h_load := 1000; h_full := false; h_any_full := true; h_bal := true |} in
  (Qred (elec_final ts te a), Qred (shaft_final ts te a)) = (200, 180) /\
  (Qred (elec_final ts te b), Qred (shaft_final ts te b)) = (1000, 900) /\
  Qred (elec_imbalance ts te b) = 0 /\ Qred (shaft_imbalance ts te b) = 0 /\
  (Qred (elec_final ts te c), Qred (shaft_final ts te c)) = (-300, -1000 # 3).
Proof. vm_compute. repeat split. Qed.

(* ------------------------------------------------------------------------------------------------
   The per-step formulas above are what the COMBINED BALANCE COMPUTES on one shared PTI/PTO object: the hybrid
   machine of Model/Machine.v runs the electric balance (Model/ElecBalance.v on the fields as they are), hands
   the machine's shaft power to the shaft line, runs the shaft balance (Model/Shaft.v), writes both powers back
   into the shared component, and runs the electric balance again when any step is in full-PTI mode.  For a
   machine that follows its electrical set-point at every step, whatever the rest of the plant looks like
   (any switchboards, breakers, sources, loads, engines), the two powers the shared object ends up with are
   elec_final / shaft_final of the step's inputs.  (Proofs/HybridMachineProofs.v) *)
From Feems Require Import Model.Bus Model.ElecBalance Model.Shaft Model.Machine Proofs.HybridMachineProofs.

Theorem C05_combined_balance_computes_the_step_formulas conv to_elec s s' m p :
  hbalance conv to_elec s = Some s' ->
  shared_comp s = Some m -> c_kind (m_c m) = PtiPto ->
  m_lsm m = repeat 1 (npoints (h_elec s)) -> (0 < npoints (h_elec s))%nat ->
  l_machine (h_line s) = Some p -> lpoints (h_line s) = npoints (h_elec s) ->
  exists p', l_machine (h_line s') = Some p' /\ p_full p' = p_full p /\
    forall t, (t < npoints (h_elec s))%nat ->
      let i := {| h_e0 := numq (nth t (m_pin m) NonFinite); h_load := load_sum (line_at (h_line s) t);
                  h_full := nth t (p_full p) false; h_any_full := existsb (fun b => b) (p_full p); h_bal := false |} in
      nth t (p_elec p') 0 = elec_final (ts conv (h_j s)) to_elec i /\
      nth t (p_shaft p') 0 = shaft_final (ts conv (h_j s)) to_elec i.
Proof. apply hbalance_fields. Qed.

(* Non-vacuity: a genset, a hotel load and a PTI/PTO (10 % loss either way) on one switchboard; a shaft line with one
   engine and a propeller; PTI step, PTO step, full-PTI step.  The combined balance returns; the shared machine ends
   with the step formulas' values. *)
Definition c05_conv (j : nat) (x : num) : num :=
  match x with Fin e => Fin (if Qle_bool e 0 then e / (9 # 10) else e * (9 # 10)) | NonFinite => NonFinite end.
Definition c05_to_elec (sft : Q) : Q := if Qle_bool sft 0 then sft * (9 # 10) else sft / (9 # 10).
Definition c05_state : hstate :=
  {| h_elec := {| e_comps :=
        [ {| m_c := {| c_swb := 1; c_kind := Source; c_rated := 2000 |}; m_status := [true; true; true]; m_lsm := [0; 0; 0]; m_pin := []; m_pout := [] |};
          {| m_c := {| c_swb := 1; c_kind := PtiPto; c_rated := 1000 |}; m_status := [true; true; true]; m_lsm := [1; 1; 1];
             m_pin := [Fin 200; Fin (-300); Fin 0]; m_pout := [] |};
          {| m_c := {| c_swb := 1; c_kind := Consumer; c_rated := 1500 |}; m_status := []; m_lsm := []; m_pin := [Fin 500; Fin 600; Fin 400]; m_pout := [] |} ];
        e_edges := []; e_swbs := [1%nat]; e_sts := [[]; []; []] |};
     h_line := {| l_lds := [[1000; 800; 900]]; l_machine := Some {| p_shaft := []; p_full := [false; false; true]; p_elec := [] |};
                  l_engs := [{| g_rated := 3000; g_status := [true; true; true]; g_pout := [] |}] |};
     h_j := 1 |}.
Example C05_combined_example :
  match hbalance c05_conv c05_to_elec c05_state with
  | Some s' =>
      match l_machine (h_line s') with
      | Some p' => map Qred (p_elec p') = [200; -300; 1000] /\ map Qred (p_shaft p') = [180; -1000 # 3; 900]
      | None => False
      end /\
      map (fun g => map Qred (g_pout g)) (l_engs (h_line s')) = [[820; 3400 # 3; 0]]
  | None => False
  end.
Proof. vm_compute. repeat split. Qed.

Print Assumptions C05_no_full_pti.
Print Assumptions C05_full_pti.
Print Assumptions C05_full_step.
Print Assumptions C05_load_sharing_step.
Print Assumptions C05_both_within_eps.
Print Assumptions C05_loss.
Print Assumptions C05_combined_balance_computes_the_step_formulas.
