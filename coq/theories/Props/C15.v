(* Props/C15.v — C15: load-dependent start/stop picks a sufficient, minimal generator set.
   Statements over Model/Pms.v (the choice as the direct recursion `select` over the capacity-sorted
   pattern list); proofs in Proofs/PmsProofs.v.

   The table-and-digitize formulation of the code (Model/Pms.v part (a), `on_pattern_table`: dict with last key
   wins, sorted items, np.digitize) is proved equal to `select` for every rating list, fraction and load
   (C15_table_is_select, proof in Proofs/PmsTable.v), so the theorems below are about what the code looks up. *)
From Coq Require Import QArith Qround ZArith List Bool Lqa.
From Feems Require Import Base.Num Model.Pms Proofs.PmsProofs Proofs.PmsTable.
Import ListNotations.
Open Scope Q_scope.

Section C15.
  Variables (rs : list Q) (f : Q).
  Hypothesis Hpos : positive_ratings rs.     (* every rating > 0 *)
  Hypothesis Hf : 0 < f.                     (* allowed load fraction > 0 (<= 1 is not needed) *)
  Hypothesis Hne : (1 <= length rs)%nat.     (* at least one source *)

  (* for every load a pattern is selected, it has one flag per source, and at least one source runs *)
  Theorem C15_at_least_one x :
    exists p, select rs f x = Some (ent rs f p) /\ length p = length rs /\ p <> all_off (length rs)
              /\ 0 < capq rs p.
  Proof.
    destruct (select_some rs f Hpos Hf Hne x) as [p [H1 [H2 H3]]]. exists p. repeat split; auto.
    pose proof (fcap_pos rs f Hpos Hf p H2 H3) as H.
    destruct (Qlt_le_dec 0 (capq rs p)) as [G|G]; [exact G|].
    assert (f * capq rs p <= 0) by (rewrite <- (Qmult_0_r f); apply Qmult_le_l; assumption). lra.
  Qed.

  (* whenever some set's rating times the allowed fraction exceeds the load, the selected one's does *)
  Theorem C15_sufficient x e : select rs f x = Some e ->
    (exists p, length p = length rs /\ x < f * capq rs p) -> x < fst e.
  Proof. apply select_sufficient; assumption. Qed.

  (* otherwise every source is switched on *)
  Theorem C15_all_on_otherwise x e : select rs f x = Some e ->
    (forall p, length p = length rs -> f * capq rs p <= x) -> fst e == f * qsum rs.
  Proof. apply select_all_on; assumption. Qed.

  (* no non-empty set with a smaller combined rating would do *)
  Theorem C15_minimal x e : select rs f x = Some e ->
    forall q, length q = length rs -> q <> all_off (length rs) -> x < f * capq rs q ->
    fst e <= f * capq rs q.
  Proof. apply select_minimal; assumption. Qed.

  (* the selected capacity never decreases as the load increases *)
  Theorem C15_monotone x y e e' : x <= y ->
    select rs f x = Some e -> select rs f y = Some e' -> fst e <= fst e'.
  Proof. apply select_monotone; assumption. Qed.

  (* consequence with equal load sharing (C03): the common load fraction load / running rating stays
     below the allowed fraction whenever the plant could avoid exceeding it *)
  Theorem C15_consequence x p : select rs f x = Some (ent rs f p) -> 0 < capq rs p ->
    (exists q, length q = length rs /\ x < f * capq rs q) -> x / capq rs p < f.
  Proof.
    intros He Hc Hex. pose proof (select_sufficient rs f x _ He Hex) as H. cbn [ent fst] in H.
    apply Qlt_shift_div_r; [exact Hc|exact H].
  Qed.
End C15.

(* equal-size variant: ceil(load / (rating x fraction)) sources, at least one, at most N *)
Theorem C15_equal_size N r f x y : (1 <= N)%Z -> 0 < r * f ->
  (1 <= ideal_number N r f x <= N)%Z /\
  (x <= inject_Z N * (r * f) -> x <= inject_Z (ideal_number N r f x) * (r * f)) /\
  ((1 < ideal_number N r f x)%Z -> inject_Z (ideal_number N r f x - 1) * (r * f) < x) /\
  (x <= y -> (ideal_number N r f x <= ideal_number N r f y)%Z).
Proof.
  intros HN Hc. split; [apply ideal_at_least_one; assumption|].
  split; [apply ideal_sufficient; assumption|]. split; [apply ideal_minimal; assumption|].
  apply ideal_monotone; assumption.
Qed.

(* Non-vacuity: ratings 500, 300, 300 (equal subset sums), fraction 4/5.  At a load exactly on the
   threshold 240 = 4/5 * 300 one 300 kW unit no longer suffices and the 500 kW unit (400) is chosen;
   on_pattern_table (the code's formulation) and select agree. *)
Example C15_example :
  let rs := [500; 300; 300] in let f := 4 # 5 in
  positive_ratings rs /\
  map (fun x => match select rs f x with Some e => Some (Qred (fst e)) | None => None end)
      [-10; 0; 239; 240; 400; 480; 879; 880; 2000]
  = map Some [240; 240; 240; 400; 480; 640; 880; 880; 880] /\
  forallb (fun x => match select rs f x with
                    | Some e => Qeq_bool (fst e) (f * capq rs (on_pattern_table rs f x)) | None => false end)
          [-10; 0; 239; 240; 400; 480; 879; 880; 2000] = true.
Proof.
  split; [intros r [<-|[<-|[<-|[]]]]; reflexivity|]. vm_compute. split; reflexivity.
Qed.

Print Assumptions C15_at_least_one.
Print Assumptions C15_sufficient.
Print Assumptions C15_all_on_otherwise.
Print Assumptions C15_minimal.
Print Assumptions C15_monotone.
Print Assumptions C15_consequence.
Print Assumptions C15_equal_size.

(* the look-up table the code builds and reads selects exactly what `select` selects: no hypothesis on the
   ratings, the fraction or the load *)
Theorem C15_table_is_select rs f x : (1 <= length rs)%nat ->
  on_pattern_table rs f x = match select rs f x with Some e => snd e | None => [] end.
Proof. exact (table_is_select rs f x). Qed.
Print Assumptions C15_table_is_select.
