(* Model/Routes.v — the four input routes of the RunFeemsSim front end
   (machinery_calculation.py, convert_proto_timeseries.py) reduced to what the calculation is fed:
   (propulsion power, interval, auxiliary power) per interval, and the equal split over propulsors
   and auxiliary loads.  Definitions only. *)
From Coq Require Import QArith List Bool Arith.
From Feems Require Import Base.Num.
Import ListNotations.
Open Scope Q_scope.

Fixpoint diffs (ts : list Q) : list Q :=
  match ts with a :: ((b :: _) as r) => (b - a) :: diffs r | _ => [] end.
Definition drop_last {A} (l : list A) : list A := removelast l.

(* auxiliary power given as one value or as a series: the first `n` values / the value repeated *)
Inductive aux := AuxScalar (a : Q) | AuxSeries (l : list Q).
Definition aux_for (n : nat) (x : aux) : list Q :=
  match x with
  | AuxScalar a => repeat a n
  | AuxSeries [a] => repeat a n
  | AuxSeries l => firstn n l
  end.

Record fed := { f_power : list Q; f_dt : list Q; f_aux : list Q }.

(* time-stamped routes (propulsion-power series, Gymir result): sample k is held until sample k+1,
   the last sample only closes the last interval *)
Definition from_time_series (ts ps : list Q) (x : aux) : fed :=
  let p := drop_last ps in {| f_power := p; f_dt := diffs ts; f_aux := aux_for (length p) x |}.
Definition from_gymir (ts ps : list Q) (message_aux : Q) : fed := from_time_series ts ps (AuxScalar message_aux).
(* protobuf time series: per-sample auxiliary power unless all zero, then the message-level value *)
Definition proto_aux (per_sample : list Q) (message_aux : Q) : list Q :=
  if forallb qzero per_sample then repeat message_aux (length per_sample) else per_sample.
Definition from_proto (ts ps per_sample : list Q) (message_aux : Q) : fed :=
  from_time_series ts ps (AuxSeries (proto_aux per_sample message_aux)).
(* operating points with durations *)
Definition from_statistics (ps ds : list Q) (x : aux) : fed :=
  {| f_power := ps; f_dt := ds; f_aux := aux_for (length ps) x |}.

(* equal split: propulsion power over the propulsors (as delivered power), auxiliary over the loads *)
Definition per_unit (n : nat) (l : list Q) : list Q := map (fun p => p / inject_Z (Z.of_nat n)) l.

(* np.interp for the operation profile given on another time base (linear, clamped at the ends) *)
Fixpoint interp (xs ys : list Q) (x : Q) : Q :=
  match xs, ys with
  | x0 :: ((x1 :: _) as xr), y0 :: ((y1 :: _) as yr) =>
      if Qle_bool x x0 then y0
      else if Qle_bool x x1 then y0 + (y1 - y0) * (x - x0) / (x1 - x0) else interp xr yr x
  | [_], [y0] => y0
  | _, _ => 0
  end.
