(* Model/Validate.v — the structural checks of the constructors and of the input validation
   (system_model.py, node.py, component_base.py, fuel.py), as decision procedures on abstract
   configurations, in the order in which the code performs them.  Definitions only.
   Power types: 1 source, 2 consumer, 3 PTI/PTO, 4 energy storage. *)
From Coq Require Import ZArith List Bool Arith.
Import ListNotations.

Record ecomp := {
  ec_name : nat;          (* name, as an id *)
  ec_ptype : nat;         (* declared power type *)
  ec_class_ok : bool;     (* the object is an instance of a class allowed for the role it declares *)
  ec_swb : Z }.           (* switchboard id *)
Record econfig := { e_comps : list ecomp; e_breakers : list (Z * Z) }.

Inductive verdict := Accepted | Rejected (kind : nat).
(* kinds: 1 wrong class for role (TypeError), 2 switchboard without source or storage, 3 non-positive
   switchboard id, 4 duplicate name in a category (NameError), 5 several switchboards without
   breakers, 6 breaker refers to an unknown switchboard (KeyError), 7 hybrid PTI/PTO mismatch,
   8 non-positive rated power, 9 non-monotonic input-output map, 10 fuel specification,
   11 series lengths disagree *)

Fixpoint zmem (x : Z) (l : list Z) : bool := match l with [] => false | y :: r => Z.eqb x y || zmem x r end.
Fixpoint znodup (l : list Z) : list Z := match l with [] => [] | x :: r => if zmem x r then znodup r else x :: znodup r end.
Definition swb_ids (c : econfig) : list Z := znodup (map ec_swb (e_comps c)).

Definition all_class_ok (c : econfig) : bool := forallb ec_class_ok (e_comps c).
Definition feeds (k : ecomp) : bool := Nat.eqb (ec_ptype k) 1 || Nat.eqb (ec_ptype k) 4.
Definition every_swb_fed (c : econfig) : bool :=
  forallb (fun s => existsb (fun k => Z.eqb (ec_swb k) s && feeds k) (e_comps c)) (swb_ids c).
Definition ids_positive (c : econfig) : bool := forallb (fun s => Z.ltb 0 s) (swb_ids c).
Fixpoint nodup_names (l : list (Z * nat * nat)) : bool :=
  match l with
  | [] => true
  | x :: r => negb (existsb (fun y => let '(s, p, n) := x in let '(s', p', n') := y in
                                      Z.eqb s s' && Nat.eqb p p' && Nat.eqb n n') r) && nodup_names r
  end.
Definition names_unique (c : econfig) : bool :=
  nodup_names (map (fun k => (ec_swb k, ec_ptype k, ec_name k)) (e_comps c)).
Definition breakers_known (c : econfig) : bool :=
  forallb (fun b => zmem (fst b) (swb_ids c) && zmem (snd b) (swb_ids c)) (e_breakers c).
Definition breakers_present (c : econfig) : bool :=
  match e_breakers c with [] => Nat.leb (length (swb_ids c)) 1 | _ => true end.

(* ElectricPowerSystem(...) *)
Definition construct_electric (c : econfig) : verdict :=
  if negb (all_class_ok c) then Rejected 1
  else if negb (every_swb_fed c) then Rejected 2
  else if negb (ids_positive c) then Rejected 3
  else if negb (names_unique c) then Rejected 4
  else if negb (breakers_known c) then Rejected 6
  else if negb (breakers_present c) then Rejected 5
  else Accepted.

(* shaft lines: duplicate names within a category of a line *)
Definition construct_mechanical (comps : list (Z * nat * nat)) : verdict :=
  if nodup_names comps then Accepted else Rejected 4.

(* HybridPropulsionSystem(...): both sides have PTI/PTOs, equally many, and every PTI/PTO of the electric
   side IS one of the mechanical side's (object identity, here: identity tokens) *)
Fixpoint nmem (x : nat) (l : list nat) : bool := match l with [] => false | y :: r => Nat.eqb x y || nmem x r end.
Definition construct_hybrid (elec_pti mech_pti : list nat) : verdict :=
  match elec_pti, mech_pti with
  | [], _ => Rejected 7
  | _, [] => Rejected 7
  | _, _ => if negb (Nat.eqb (length elec_pti) (length mech_pti)) then Rejected 7
            else if forallb (fun p => nmem p mech_pti) elec_pti then Accepted else Rejected 7
  end.

(* Fuel(...): user-specified fuels need all three data, prescribed ones none *)
Definition construct_fuel (user_specified has_lhv has_wtt has_ttw : bool) : verdict :=
  if user_specified then (if has_lhv && has_wtt && has_ttw then Accepted else Rejected 10)
  else (if has_lhv || has_wtt || has_ttw then Rejected 10 else Accepted).

(* input series before a balance / result: every series has the run's length; a consumer's input
   series may have length 1 (a constant) *)
Definition series_ok (n : nat) (strict : list nat) (may_be_one : list nat) : verdict :=
  if forallb (Nat.eqb n) strict && forallb (fun k => Nat.eqb k n || Nat.eqb k 1) may_be_one
  then Accepted else Rejected 11.
