(* Model/Component.v — BasicComponent, SerialSystem, ElectricMachine (component_base.py,
   component_electric.py): efficiency clamp, forward conversion, the interpolated inverse built at
   construction, direction dispatch for scalars and for array elements.  Definitions only. *)
From Coq Require Import QArith Qabs ZArith List Bool.
From Feems Require Import Base.Num Base.Pchip.
Import ListNotations.
Open Scope Q_scope.

(* np.clip(x, 0.01, 1) *)
Definition clip (x : Q) : Q := qmin (qmax x (1 # 100)) 1.

Section Comp.
  Variable rated : Q.
  Variable f : Q -> Q.                    (* the efficiency curve as a function of load *)

  Definition eff (load : Q) : Q := clip (f load).
  (* supply = delivery / efficiency at |delivery| / rated *)
  Definition fwd (x : Q) : Q := Qred (x / eff (Qabs x / rated)).

  (* the table built at construction: 201 delivery powers from -rated to rated, with their supply *)
  Definition table_out (k : nat) : Q := rated * (inject_Z (Z.of_nat k) - 100) / 100.
  Definition table : list (Q * Q) := map (fun k => (fwd (table_out k), table_out k)) (seq 0 201).
  Fixpoint increasing (l : list Q) : bool :=
    match l with a :: ((b :: _) as r) => Qle_bool a b && negb (Qeq_bool a b) && increasing r | _ => true end.
  Definition accepted : bool := Qle_bool 0 rated && negb (qzero rated) && increasing (map fst table).

  (* the interpolated inverse: PCHIP through (supply, delivery) *)
  Definition slopes : list Q := map Qred (derivs table).
  Definition inv_with (ds : list Q) (x : Q) : Q := Qred (eval_aux table ds x).
  Definition inv (x : Q) : Q := inv_with slopes x.

  (* get_power_input_from_bidirectional_output: scalar call and array element *)
  Definition in_from_out_scalar (x : Q) : Q := if Qle_bool 0 x then fwd x else inv x.
  Definition in_from_out_elem (x : Q) : Q := if Qle_bool x 0 then inv x else fwd x.
  (* get_power_output_from_bidirectional_input: both test input > 0 *)
  Definition out_from_in (x : Q) : Q := if Qle_bool x 0 then fwd x else inv x.
End Comp.

(* SerialSystem: total efficiency tabulated at the loads 0, 0.1 .. 1.0 of the system, every stage at
   its own load (rated power of the previous stage x its load / own rated power) *)
Definition stage := (Q * (Q -> Q))%type.          (* rated power, efficiency curve *)
Fixpoint serial_eff (prev_rated : Q) (prev_load : Q) (stages : list stage) : Q :=
  match stages with
  | [] => 1
  | (r, f) :: rest => let l := prev_rated * prev_load / r in eff f l * serial_eff r l rest
  end.
Definition serial_eff_at (stages : list stage) (load : Q) : Q :=
  match stages with
  | [] => 1
  | (r, f) :: rest => eff f load * serial_eff r load rest
  end.
Definition serial_grid : list Q := map (fun k => inject_Z (Z.of_nat k) / 10) (seq 0 11).
Definition serial_points (stages : list stage) : list (Q * Q) :=
  map (fun l => (l, serial_eff_at stages l)) serial_grid.
Definition serial_curve (stages : list stage) : Q -> Q := pchip (serial_points stages).

(* ElectricMachine: shaft <-> electric by role *)
Inductive role := RSource | RConsumer | RPtiPto.
Definition shaft_from_electric (ro : role) (rated : Q) (f : Q -> Q) (scalar : bool) (x : Q) : Q :=
  match ro with
  | RSource => if scalar then in_from_out_scalar rated f x else in_from_out_elem rated f x
  | _ => out_from_in rated f x
  end.
Definition electric_from_shaft (ro : role) (rated : Q) (f : Q -> Q) (scalar : bool) (x : Q) : Q :=
  match ro with
  | RSource => out_from_in rated f x
  | _ => if scalar then in_from_out_scalar rated f x else in_from_out_elem rated f x
  end.
