(* Model/FuelRun.v — run points of the fuel consumers (component_mechanical.py, component_electric.py)
   and running hours (node.py), for arbitrary curve functions.  One operating point (the code is
   element-wise over a series).  Definitions only. *)
From Coq Require Import QArith Qabs List Bool.
From Feems Require Import Base.Num Model.Component.
Import ListNotations.
Open Scope Q_scope.

(* engine: load = |P| / rated, fuel kg/s = bsfc(load) x (P / 3600) / 1000 *)
Definition engine_load (rated p : Q) : Q := Qabs p / rated.
Definition engine_fuel (rated : Q) (bsfc : Q -> Q) (p : Q) : Q := bsfc (engine_load rated p) * (p / 3600) / 1000.
(* dual fuel: the pilot fuel is a second entry *)
Definition pilot_fuel (rated : Q) (bspfc : Q -> Q) (p : Q) : Q := bspfc (engine_load rated p) * p / 1000 / 3600.
Definition dual_fuel_entries (rated : Q) (bsfc bspfc : Q -> Q) (p : Q) : list Q :=
  [engine_fuel rated bsfc p; pilot_fuel rated bspfc p].

(* generating set: engine power = delivered electrical power / generator efficiency at its load
   (the generator curve already includes a rectifier when there is one) *)
Definition genset_engine_power (gen_rated : Q) (gen_eff : Q -> Q) (scalar : bool) (p_el : Q) : Q :=
  if scalar then in_from_out_scalar gen_rated gen_eff p_el else in_from_out_elem gen_rated gen_eff p_el.
(* geared main engine: engine power = shaft power / gearbox efficiency at the shaft load *)
Definition geared_engine_power (rated : Q) (gear_eff : Q -> Q) (p : Q) : Q := p / eff gear_eff (Qabs p / rated).

(* fuel-cell system: converter, then m modules, fuel mass = fuel power / LHV *)
Definition fc_module_fuel (mod_rated : Q) (mod_eff : Q -> Q) (lhv_mj_per_g : Q) (scalar : bool) (p_mod : Q) : Q :=
  (if scalar then in_from_out_scalar mod_rated mod_eff p_mod else in_from_out_elem mod_rated mod_eff p_mod)
  / lhv_mj_per_g / 1000000.
Definition fc_system_fuel_from_cell_power (m : Q) (mod_rated : Q) (mod_eff : Q -> Q) (lhv : Q) (scalar : bool) (p_fc : Q) : Q :=
  fc_module_fuel mod_rated mod_eff lhv scalar (p_fc / m) * m.
Definition fc_system_fuel (m conv_rated : Q) (conv_eff : Q -> Q) (mod_rated : Q) (mod_eff : Q -> Q) (lhv : Q)
    (scalar : bool) (p_out : Q) : Q :=
  fc_system_fuel_from_cell_power m mod_rated mod_eff lhv scalar
    (if scalar then in_from_out_scalar conv_rated conv_eff p_out else in_from_out_elem conv_rated conv_eff p_out).

(* combined gas and steam: fuel power = P / efficiency, mass = fuel power / (LHV x 1000) / 1000 *)
Definition cogas_fuel (rated : Q) (ceff : Q -> Q) (lhv : Q) (p : Q) : Q :=
  p / eff ceff (Qabs p / rated) / (lhv * 1000) / 1000.
(* turbine split: gas-turbine power = share(load) x P, steam-turbine power = P - gas-turbine power *)
Definition gas_turbine_power (rated : Q) (share : Q -> Q) (p : Q) : Q := share (p / rated) * p.
Definition steam_turbine_power (rated : Q) (share : Q -> Q) (p : Q) : Q := p - gas_turbine_power rated share p.

(* running hours: sum of the intervals in which the machine delivers power *)
Fixpoint running_hours (out dt : list Q) : Q :=
  match out, dt with
  | p :: ps, d :: ds => (if qzero p then 0 else d) / 3600 + running_hours ps ds
  | _, _ => 0
  end.
