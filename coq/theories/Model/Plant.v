(* Model/Plant.v — a whole calculation on an electric plant: the power balance at every step
   (Model/ElecBalance.v through the bus configuration periods of Model/Bus.v), a rate of an extensive
   figure (fuel, energy, an emitted species, running time ...) for every component as a function of its
   power at that step, and interval-weighted integration (IntegrationMethod.sum_with_time).
   Also: restricting the inputs to a part of the series, and reordering the steps.  Definitions only. *)
From Coq Require Import QArith List Bool Arith.
From Feems Require Import Base.Num Model.Bus Model.ElecBalance.
Import ListNotations.
Open Scope Q_scope.

Section Run.
  (* component index -> power at a step (kW: delivered by a source, drawn by the others) -> rate per second *)
  Variable rate : nat -> Q -> Q.

  Fixpoint rates_from (k : nat) (row : list num) : Q :=
    match row with [] => 0 | x :: r => rate k (numq x) + rates_from (S k) r end.

  (* the rate of the figure for the whole plant at step t *)
  Definition step_rate (plant : list (comp * cin)) (es : list edge) (swbs : list nat) (sts : list (list bool)) (t : nat) : Q :=
    rates_from 0 (balance_step plant es swbs sts t).

  (* the figure of the calculation: sum over the steps of rate x interval *)
  Definition run_figure (plant : list (comp * cin)) (es : list edge) (swbs : list nat) (sts : list (list bool)) (dt : list Q) : Q :=
    qdot (map (step_rate plant es swbs sts) (seq 0 (length dt))) dt.
End Run.

(* the inputs of the first k steps / of the steps from k on *)
Definition take_cin (k : nat) (ci : cin) : cin :=
  {| i_status := firstn k (i_status ci); i_lsm := firstn k (i_lsm ci); i_pin := firstn k (i_pin ci) |}.
Definition drop_cin (k : nat) (ci : cin) : cin :=
  {| i_status := skipn k (i_status ci); i_lsm := skipn k (i_lsm ci); i_pin := skipn k (i_pin ci) |}.
Definition take_plant (k : nat) (plant : list (comp * cin)) : list (comp * cin) := map (fun p => (fst p, take_cin k (snd p))) plant.
Definition drop_plant (k : nat) (plant : list (comp * cin)) : list (comp * cin) := map (fun p => (fst p, drop_cin k (snd p))) plant.

(* the steps in another order: step t of the new series is step (nth t p) of the old one *)
Definition reindex {A} (d : A) (p : list nat) (l : list A) : list A := map (fun i => nth i l d) p.
Definition reindex_cin (p : list nat) (ci : cin) : cin :=
  {| i_status := reindex false p (i_status ci); i_lsm := reindex 0 p (i_lsm ci); i_pin := reindex 0 p (i_pin ci) |}.
Definition reindex_plant (p : list nat) (plant : list (comp * cin)) : list (comp * cin) :=
  map (fun c => (fst c, reindex_cin p (snd c))) plant.
