(* Model/Ghg.v — greenhouse-gas factors and totals (feems/fuel.py), parametric in the tables, which
   are regenerated from the code on every run (build/gen/Gen_fuel_tables.v).  Definitions only. *)
From Coq Require Import QArith String List Bool Arith.
From Feems Require Import Base.Num.
Import ListNotations.
Open Scope Q_scope.

Record row := mkrow {
  pathway : string; fclass : string; lcv : option Q; wtt : option Q; consumer : string;
  cf_co2 : option Q; cf_ch4 : option Q; cf_n2o : option Q; c_slip : option Q }.

Record ghg_tables := {
  t_eu : list row; t_imo : list row;
  t_types : list (nat * string); t_origins : list (nat * string); t_classes : list (nat * string);
  t_class_enum : list (nat * string);
  t_ng : nat; t_ice : nat; t_gwp_ch4 : Q; t_gwp_n2o : Q }.

Fixpoint assoc_s (k : nat) (m : list (nat * string)) : option string :=
  match m with [] => None | (k', v) :: r => if Nat.eqb k' k then Some v else assoc_s k r end.

Section WithTables.
  Variable T : ghg_tables.

  (* tank-to-wake factor of one table row:
     (1 - slip/100) (CO2 + CH4 x GWP_CH4 + N2O x GWP_N2O) + slip/100 x GWP_CH4 *)
  Definition ttw_formula (co2 ch4 n2o slip : Q) : Q :=
    (1 - slip / 100) * (co2 + ch4 * t_gwp_ch4 T + n2o * t_gwp_n2o T) + slip / 100 * t_gwp_ch4 T.
  Definition ttw_of (r : row) : option Q :=
    match cf_co2 r, cf_ch4 r, cf_n2o r, c_slip r with
    | Some a, Some b, Some c, Some s => Some (ttw_formula a b c s)
    | _, _, _, _ => None
    end.

  Inductive spec := IMO | EU.
  Definition table_of (s : spec) : list row := match s with IMO => t_imo T | EU => t_eu T end.

  (* rows of a (fuel type, origin): get_prescribed_factors *)
  Definition rows_for (s : spec) (ftype origin : nat) : option (list row) :=
    match assoc_s ftype (t_types T), assoc_s origin (t_origins T) with
    | Some p, Some c =>
        match filter (fun r => String.eqb (pathway r) p && String.eqb (fclass r) c) (table_of s) with
        | [] => None            (* ValueError: not available *)
        | l => Some l
        end
    | _, _ => None              (* KeyError: origin NONE *)
    end.

  Definition find_class (cls : nat) (l : list row) : option row :=
    match assoc_s cls (t_classes T) with
    | Some name => find (fun r => String.eqb (consumer r) name) l
    | None => None
    end.

  (* (tank-to-wake, well-to-tank, tank-to-wake without slip) per g of fuel, for a consumer class *)
  Definition factors (s : spec) (ftype origin cls : nat) : option (Q * Q * Q) :=
    match rows_for s ftype origin with
    | None => None
    | Some l =>
        let first := hd (mkrow "" "" None None "" None None None None) l in
        match lcv first, wtt first with
        | Some h, Some w =>
            match s with
            | IMO => match ttw_of first with Some t => Some (t, w * h, t) | None => None end
            | EU => match find_class cls l with
                    | Some r => match ttw_of r, cf_co2 r with
                                | Some t, Some c => Some (t, w * h, c) | _, _ => None end
                    | None => None     (* StopIteration *)
                    end
            end
        | _, _ => None
        end
    end.

  Definition is_gas_class (cls : nat) : bool :=
    match assoc_s cls (t_class_enum T) with
    | Some name => match index 0 "LNG" name with Some _ => true | None => false end
    | None => false
    end.

  (* one entry of a fuel mix: prescribed (type, origin) or user-specified with its own factor triple *)
  Inductive fuel_id := Prescribed (ftype origin : nat) | User (ttw wtt noslip : Q).
  Definition entry := (fuel_id * Q)%type.      (* with its mass *)

  Definition entry_factors (s : spec) (cls : nat) (f : fuel_id) : option (Q * Q * Q) :=
    match f with
    | User a b c => Some (a, b, c)
    | Prescribed ty o =>
        (* non-gas fuels in a gas engine use the generic ICE factors *)
        let c := if is_gas_class cls && negb (Nat.eqb ty (t_ng T)) then t_ice T else cls in
        factors s ty o c
    end.

  Fixpoint all_some {A} (l : list (option A)) : option (list A) :=
    match l with
    | [] => Some []
    | Some x :: r => match all_some r with Some xs => Some (x :: xs) | None => None end
    | None :: _ => None
    end.

  Definition triple_scale (k : Q) (t : Q * Q * Q) : Q * Q * Q :=
    let '(a, b, c) := t in (a * k, b * k, c * k).
  Definition triple_add (x y : Q * Q * Q) : Q * Q * Q :=
    let '(a, b, c) := x in let '(d, e, f) := y in (a + d, b + e, c + f).
  Fixpoint triple_sum (l : list (Q * Q * Q)) : Q * Q * Q :=
    match l with [] => (0, 0, 0) | x :: r => triple_add x (triple_sum r) end.

  (* get_total_co2_emissions: total mass x (sum over fuels of mass fraction x factor); a scalar record
     with zero total has an empty mix and gives zero *)
  Definition total_mass (m : list entry) : Q := qsum (map snd m).
  Definition total_emissions (s : spec) (cls : nat) (m : list entry) : option (Q * Q * Q) :=
    let tot := total_mass m in
    if qzero tot then Some (0, 0, 0)
    else match all_some (map (fun e => entry_factors s cls (fst e)) m) with
         | None => None
         | Some fs =>
             Some (triple_scale tot (triple_sum (map (fun ef => triple_scale (snd (fst ef) / tot) (snd ef)) (combine m fs))))
         end.

  (* one step of a series record: the factors of every fuel are looked up whatever the masses are (a
     missing factor raises for the whole series); a zero-total step has all fractions zero *)
  Definition total_emissions_step (s : spec) (cls : nat) (m : list entry) : option (Q * Q * Q) :=
    match all_some (map (fun e => entry_factors s cls (fst e)) m) with
    | None => None
    | Some _ => total_emissions s cls m
    end.

  (* the specification: sum over the fuels of mass x factor *)
  Definition sum_mass_factor (m : list entry) (fs : list (Q * Q * Q)) : Q * Q * Q :=
    triple_sum (map (fun ef => triple_scale (snd (fst ef)) (snd ef)) (combine m fs)).
End WithTables.

(* engine class from fuel, cycle and rated speed (component_mechanical.py): enum values of
   FuelConsumerClassFuelEUMaritime: 1 ICE, 2 Otto medium, 3 Otto slow, 4 LNG diesel, 5 LBSI;
   cycle: 1 Diesel, 2 Otto, 3 lean-burn spark ignition *)
Definition engine_class (ng_type : nat) (ftype cycle : nat) (speed : Q) : option nat :=
  if negb (Nat.eqb ftype ng_type) then Some 1%nat
  else match cycle with
       | 1%nat => Some 4%nat
       | 2%nat => if Qlt_le_dec speed 200 then Some 3%nat else Some 2%nat
       | 3%nat => Some 5%nat
       | _ => None
       end.
