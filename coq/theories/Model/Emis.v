(* Model/Emis.v — which characteristic an engine (or gas/steam plant) uses for each emission species:
   Engine._setup_emissions followed by Engine._setup_nox (component_mechanical.py; COGAS has the same two functions).
   The given curves are entered into a table keyed by species in the order given (a later curve of the same species
   replaces an earlier one; a curve without points is skipped); then, unless the NOx method is "curve", the NOx entry is
   REPLACED by the Regulation 13 limit of the tier (Model/Nox.v `limit`); with the method "curve" a NOx curve is required. *)
From Coq Require Import QArith List Bool Arith.
From Feems Require Import Base.Num Base.Pchip.
Import ListNotations.

Definition NOX : nat := 6%nat.                      (* position in the harness's species list; any tag would do *)
Inductive nox_method := MCurve | MTier (t : nat).
Inductive source := SCurve (c : curve) | SLimit (t : nat).
Definition table := nat -> option source.

(* get_emission_curve_from_points: one point is a constant, more points a PCHIP interpolant *)
Definition curve_of (pts : list (Q * Q)) : curve := match pts with [p] => Const (snd p) | _ => Points pts end.
Definition put (sp : nat) (v : source) (tab : table) : table := fun s => if Nat.eqb s sp then Some v else tab s.
Definition empty : table := fun _ => None.

Fixpoint load_curves (cs : list (nat * list (Q * Q))) (tab : table) : table :=
  match cs with
  | [] => tab
  | (sp, pts) :: r => load_curves r (match pts with [] => tab | _ => put sp (SCurve (curve_of pts)) tab end)
  end.

(* None = the constructor refuses (assertion) *)
Definition setup (cs : list (nat * list (Q * Q))) (m : nox_method) : option table :=
  let tab := load_curves cs empty in
  match m with
  | MCurve => match tab NOX with Some _ => Some tab | None => None end
  | MTier t => Some (put NOX (SLimit t) tab)
  end.

(* the specification: the LAST curve with points given for the species, if any *)
Definition given (s : nat) (e : nat * list (Q * Q)) : bool := Nat.eqb (fst e) s && negb (match snd e with [] => true | _ => false end).
Definition last_given (cs : list (nat * list (Q * Q))) (s : nat) : option source :=
  match find (given s) (rev cs) with Some e => Some (SCurve (curve_of (snd e))) | None => None end.
