(* Model/Shaft.v — ShaftLine.do_power_balance (components_model/node.py), one shaft line at one time
   step; the calculation is element-wise in time.  Definitions only. *)
From Coq Require Import QArith List Bool.
From Feems Require Import Base.Num.
Import ListNotations.
Open Scope Q_scope.

Record eng := { e_rated : Q; e_on : bool }.
Record line := {
  l_loads : list Q;                 (* power input of every mechanical load *)
  l_pti : option (Q * bool);        (* PTI/PTO: shaft power (either sign), full-PTI flag *)
  l_engines : list eng }.

Definition load_sum (s : line) : Q := qsum (l_loads s).
Definition is_full (s : line) : bool := match l_pti s with Some (_, true) => true | _ => false end.
(* shaft power of the PTI/PTO after the balance: overwritten by the whole load in full-PTI steps *)
Definition pti_out (s : line) : Q :=
  match l_pti s with None => 0 | Some (p, full) => if full then load_sum s else p end.
Definition avail (s : line) : Q := qsum (map (fun e => e_rated e * b2q (e_on e)) (l_engines s)).
(* engine load fraction: (load - PTI/PTO shaft power) / running rated power where engines run,
   else 0; forced to 0 in full-PTI steps *)
Definition frac (s : line) : Q :=
  if is_full s then 0
  else if Qle_bool (avail s) 0 then 0 else (load_sum s - pti_out s) / avail s.
Definition engine_out (s : line) (e : eng) : Q := e_rated e * frac s * b2q (e_on e).
Definition engines_sum (s : line) : Q := qsum (map (engine_out s) (l_engines s)).
(* the status write-back: an engine that delivers nothing is marked stopped *)
Definition status_after (s : line) (e : eng) : bool := e_on e && negb (qzero (engine_out s e)).
