(* Model/Hybrid.v — HybridPropulsionSystem.do_power_balance_calculation: electric pass, shaft pass,
   and, when any full-PTI step exists, a second electric pass followed by a second shaft pass, seen from the ONE PTI/PTO machine both
   sides share.  The two conversions of the machine are Section variables; the two balances are
   represented by what they guarantee (C01, C04): each pass balances its side against the PTI/PTO
   power that side reads AT THAT MOMENT.  One time step; definitions only. *)
From Coq Require Import QArith Qabs List Bool.
From Feems Require Import Base.Num.
Import ListNotations.
Open Scope Q_scope.

Section Hybrid.
  Variable to_shaft : Q -> Q.     (* shaft power from electrical power (get_power_output_from_bidirectional_input) *)
  Variable to_elec : Q -> Q.      (* electrical power from shaft power (get_power_input_from_bidirectional_output) *)

  (* inputs of one step: e0 = given electrical power of the PTI/PTO (given-power mode), the shaft
     load, the full-PTI flag of this step, and whether ANY step of the series is full-PTI *)
  (* h_bal: at this step the machine shares the load with the sources (sharing flag 0); h_e0 is then the
     balancing power -rated x (bus load fraction) every electric pass writes (the same in the first and in
     the second pass as long as no OTHER machine of the bus changes its electrical power in between) *)
  Record hin := { h_e0 : Q; h_load : Q; h_full : bool; h_any_full : bool; h_bal : bool }.

  (* first electric pass: reads e0, writes shaft := to_shaft e0 *)
  Definition s1 (i : hin) : Q := to_shaft (h_e0 i).
  (* shaft pass: full-PTI steps overwrite the shaft power by the load; electrical := to_elec shaft *)
  Definition s2 (i : hin) : Q := if h_full i then h_load i else s1 i.
  Definition e2 (i : hin) : Q := to_elec (s2 i).
  (* second electric pass (only if some step is full-PTI): a set-point machine is read with e2, a load-sharing
     machine gets its balancing power written again; either way shaft := to_shaft of that electrical power *)
  Definition elec_mid (i : hin) : Q := if h_bal i then h_e0 i else e2 i.
  (* second shaft pass (after the second electric pass; fix D-22): full-PTI steps carry the load again, the other
     steps keep the shaft power the electric pass wrote; electrical := to_elec shaft *)
  Definition shaft_final (i : hin) : Q :=
    if h_any_full i then (if h_full i then h_load i else to_shaft (elec_mid i)) else s2 i.
  Definition elec_final (i : hin) : Q := if h_any_full i then to_elec (shaft_final i) else e2 i.

  (* what each side was balanced against by its LAST pass *)
  Definition elec_balanced_with (i : hin) : Q := if h_any_full i then elec_mid i else h_e0 i.
  Definition shaft_balanced_with (i : hin) : Q := if h_any_full i then shaft_final i else s2 i.

  (* imbalance of each side when read with the machine's final powers *)
  Definition elec_imbalance (i : hin) : Q := elec_balanced_with i - elec_final i.
  Definition shaft_imbalance (i : hin) : Q := shaft_final i - shaft_balanced_with i.
End Hybrid.
