(* Model/Stateful.v — a system object as a state machine: what a calculation READS and what it
   WRITES.  State = static plant + the input fields the setters write (status, sharing mode, given
   inputs, breaker statuses, series length) + the output fields the balance writes.  Definitions only. *)
From Coq Require Import QArith List Bool Arith.
From Feems Require Import Base.Num Model.Bus Model.ElecBalance.
Import ListNotations.
Open Scope Q_scope.

Record sysstate := {
  s_static : list comp;             (* switchboard, kind, rating of every component: never changes *)
  s_edges : list edge; s_swbs : list nat;
  s_inputs : list cin;              (* per component: status, sharing mode, input series *)
  s_sts : list (list bool);         (* breaker status matrix *)
  s_n : nat;                        (* series length *)
  s_outputs : list (list num)       (* per step, per component: what the last balance wrote *)
}.

(* a complete input assignment: EVERY input field of every component, the breaker matrix, the length *)
Record assignment := { a_inputs : list cin; a_sts : list (list bool); a_n : nat }.

Inductive op :=
| Supply (a : assignment)           (* all the setters, with fresh arrays *)
| Balance                           (* do_power_balance_calculation *)
| Query.                            (* totals, emissions, mass fractions, export: read only *)

Definition step (s : sysstate) (o : op) : sysstate :=
  match o with
  | Supply a => {| s_static := s_static s; s_edges := s_edges s; s_swbs := s_swbs s;
                   s_inputs := a_inputs a; s_sts := a_sts a; s_n := a_n a; s_outputs := s_outputs s |}
  | Balance => {| s_static := s_static s; s_edges := s_edges s; s_swbs := s_swbs s;
                  s_inputs := s_inputs s; s_sts := s_sts s; s_n := s_n s;
                  s_outputs := balance (combine (s_static s) (s_inputs s)) (s_edges s) (s_swbs s) (s_sts s) (s_n s) |}
  | Query => s
  end.
Definition run (s : sysstate) (ops : list op) : sysstate := fold_left step ops s.

(* two objects of the same plant *)
Definition same_plant (s1 s2 : sysstate) : Prop :=
  s_static s1 = s_static s2 /\ s_edges s1 = s_edges s2 /\ s_swbs s1 = s_swbs s2.
