(* Model/ProtoSys.v — C13: the FEEMS plant description, the protobuf system description, and the two
   converters of MachSysS (convert_to_protobuf.py / convert_to_feems.py), branch for branch.

   Values are exact rationals (every double the converters move is copied, never computed with), names
   and uids are strings, enum members are their numbers (the regenerated theorem C13_enum_numbering
   shows that equal numbers mean equal names on the two sides; the NOx method travels by name and is
   represented by its protobuf number on both sides).

   The FEEMS side records exactly the fields the simulation reads after construction:
   - a curve is the list of points the component stores (_efficiency_points,
     specific_fuel_consumption_points): a single value v is stored as [(0,v);(1,v)], several points are
     stored sorted by load (get_efficiency_curve_from_points);
   - a uid is always a string (given, or a fresh uuid4). *)
From Coq Require Import QArith List Bool Arith String Lia.
Import ListNotations.
Open Scope Q_scope.

Definition pts := list (Q * Q).

(* ------------------------------------------------------------------------------------------ *)
(* protobuf side: proto3, message fields have presence (option), scalars default to 0 / ""     *)

Record p_eff := { pe_value : option Q; pe_curve : option pts }.
Record p_fuel := { pf_type : nat; pf_origin : nat }.
Record p_emis := { px_type : nat; px_pts : pts }.
Record p_ecomp := { pc_name : string; pc_rated : Q; pc_eff : p_eff; pc_order : nat; pc_uid : string }.
Record p_machine := { pm_name : string; pm_rated : Q; pm_speed : Q; pm_eff : p_eff; pm_order : nat; pm_uid : string }.
Record p_engine := { pg_name : string; pg_rated : Q; pg_speed : Q; pg_bsfc : p_eff; pg_fuel : p_fuel;
  pg_order : nat; pg_pilot_bsfc : option p_eff; pg_pilot_fuel : p_fuel; pg_nox : nat; pg_emis : list p_emis;
  pg_cycle : nat; pg_uid : string }.
Record p_cogas := { pk_name : string; pk_rated : Q; pk_speed : Q; pk_eff : p_eff; pk_gt : option pts;
  pk_st : option pts; pk_fuel : p_fuel; pk_order : nat; pk_nox : nat; pk_emis : list p_emis; pk_uid : string }.
Record p_battery := { pb_name : string; pb_kwh : Q; pb_cin : Q; pb_cout : Q; pb_effc : Q; pb_effd : Q;
  pb_soc0 : Q; pb_order : nat; pb_uid : string }.
Record p_supercap := { ps_name : string; ps_wh : Q; ps_rated : Q; ps_effc : Q; ps_effd : Q; ps_soc0 : Q;
  ps_order : nat; ps_uid : string }.
Record p_fuelcell := { pq_name : string; pq_rated : Q; pq_eff : p_eff; pq_order : nat; pq_fuel : p_fuel;
  pq_nmod : nat; pq_uid : string }.
Record p_propeller := { pp_eff : p_eff; pp_id : nat; pp_order : nat; pp_uid : string }.
Record p_gear := { pr_name : string; pr_rated : Q; pr_speed : Q; pr_eff : p_eff; pr_order : nat; pr_uid : string }.

Record p_sub := { s_gear : option p_gear; s_engine : option p_engine; s_machine : option p_machine;
  s_transformer : option p_ecomp; s_conv1 : option p_ecomp; s_conv2 : option p_ecomp;
  s_battery : option p_battery; s_fuelcell : option p_fuelcell; s_propeller : option p_propeller;
  s_supercap : option p_supercap; s_other_load : option p_ecomp; s_cogas : option p_cogas;
  s_ptype : nat; s_ctype : nat; s_name : string; s_rated : Q; s_speed : Q; s_uid : string }.

Record p_system := { y_name : string; y_ptype : nat; y_swbs : list (nat * list p_sub);
  y_lines : list (nat * list p_sub) }.

(* reading an unset message field gives the default message *)
Definition eff0 := {| pe_value := None; pe_curve := None |}.
Definition fuel0 := {| pf_type := 0; pf_origin := 0 |}.
Definition ecomp0 := {| pc_name := ""; pc_rated := 0; pc_eff := eff0; pc_order := 0; pc_uid := "" |}.
Definition machine0 := {| pm_name := ""; pm_rated := 0; pm_speed := 0; pm_eff := eff0; pm_order := 0; pm_uid := "" |}.
Definition engine0 := {| pg_name := ""; pg_rated := 0; pg_speed := 0; pg_bsfc := eff0; pg_fuel := fuel0; pg_order := 0;
  pg_pilot_bsfc := None; pg_pilot_fuel := fuel0; pg_nox := 0; pg_emis := []; pg_cycle := 0; pg_uid := "" |}.
Definition cogas0 := {| pk_name := ""; pk_rated := 0; pk_speed := 0; pk_eff := eff0; pk_gt := None; pk_st := None;
  pk_fuel := fuel0; pk_order := 0; pk_nox := 0; pk_emis := []; pk_uid := "" |}.
Definition battery0 := {| pb_name := ""; pb_kwh := 0; pb_cin := 0; pb_cout := 0; pb_effc := 0; pb_effd := 0; pb_soc0 := 0;
  pb_order := 0; pb_uid := "" |}.
Definition supercap0 := {| ps_name := ""; ps_wh := 0; ps_rated := 0; ps_effc := 0; ps_effd := 0; ps_soc0 := 0;
  ps_order := 0; ps_uid := "" |}.
Definition fuelcell0 := {| pq_name := ""; pq_rated := 0; pq_eff := eff0; pq_order := 0; pq_fuel := fuel0; pq_nmod := 0; pq_uid := "" |}.
Definition propeller0 := {| pp_eff := eff0; pp_id := 0; pp_order := 0; pp_uid := "" |}.
Definition gear0 := {| pr_name := ""; pr_rated := 0; pr_speed := 0; pr_eff := eff0; pr_order := 0; pr_uid := "" |}.
Definition get {A} (d : A) (o : option A) : A := match o with Some a => a | None => d end.

Definition sub0 (ptype ctype : nat) (name : string) (rated speed : Q) (uid : string) : p_sub :=
  {| s_gear := None; s_engine := None; s_machine := None; s_transformer := None; s_conv1 := None; s_conv2 := None;
     s_battery := None; s_fuelcell := None; s_propeller := None; s_supercap := None; s_other_load := None;
     s_cogas := None; s_ptype := ptype; s_ctype := ctype; s_name := name; s_rated := rated; s_speed := speed;
     s_uid := uid |}.

(* ------------------------------------------------------------------------------------------ *)
(* FEEMS side                                                                                  *)

Record f_ecomp := { c_name : string; c_rated : Q; c_eff : pts; c_uid : string }.             (* ElectricComponent *)
Record f_mach := { h_name : string; h_rated : Q; h_speed : Q; h_eff : pts; h_uid : string }. (* ElectricMachine, gearbox *)
Record f_engine := { e_name : string; e_rated : Q; e_speed : Q; e_bsfc : pts; e_fuel : nat; e_origin : nat;
  e_nox : nat; e_cycle : nat; e_emis : list (nat * pts); e_pilot : option (pts * nat * nat); e_uid : string }.
Record f_cogas := { k_name : string; k_rated : Q; k_speed : Q; k_eff : pts; k_fuel : nat; k_origin : nat;
  k_nox : nat; k_emis : list (nat * pts); k_curves : option (pts * pts); k_uid : string }.
Record f_battery := { b_name : string; b_kwh : Q; b_cin : Q; b_cout : Q; b_effc : Q; b_effd : Q; b_soc0 : Q; b_uid : string }.
Record f_supercap := { u_name : string; u_wh : Q; u_rated : Q; u_effc : Q; u_effd : Q; u_soc0 : Q; u_uid : string }.
Record f_module := { m_name : string; m_rated : Q; m_eff : pts; m_fuel : nat; m_origin : nat; m_uid : string }.

Inductive stage_kind := KTransformer | KConverter | KMachine | KOtherLoad | KUnsupported.
Record f_stage := { g_kind : stage_kind; g_name : string; g_rated : Q; g_speed : Q; g_eff : pts; g_uid : string }.
Record f_serial := { r_pti : bool; r_name : string; r_uid : string; r_rated : Q; r_speed : Q; r_line : nat;
  r_stages : list f_stage }.

Inductive f_comp :=
| CGenset (name uid : string) (eng : f_engine) (gen : f_mach)
| CGenerator (g : f_mach)
| CFuelCell (name uid : string) (m : f_module) (conv : f_ecomp) (nmod : nat)
| CCoges (name uid : string) (k : f_cogas) (gen : f_mach)
| CBattery (b : f_battery)
| CBatterySys (name uid : string) (b : f_battery) (conv : f_ecomp)
| CSupercap (c : f_supercap)
| CSupercapSys (name uid : string) (c : f_supercap) (conv : f_ecomp)
| CSerial (s : f_serial)
| CLoad (l : f_ecomp).

Inductive m_comp :=
| MEngine (name uid : string) (eng : f_engine)
| MEngineGB (name uid : string) (eng : f_engine) (gb : f_mach)
| MPropeller (name uid : string) (rated speed : Q) (eff : pts)
| MPti (shared : bool) (s : f_serial).      (* shared: the very object listed on the switchboard *)

Record f_electric := { x_swbs : list (nat * list f_comp); x_breakers : list (nat * nat) }.
Inductive f_system :=
| SElectric (name : string) (e : f_electric)
| SMech (name : string) (e : f_electric) (lines : list (nat * list m_comp))
| SHybrid (name : string) (e : f_electric) (lines : list (nat * list m_comp)).

(* enum numbers used by the converters (types_for_feems.TypeComponent / TypePower) *)
Definition T_MAIN_ENGINE := 1%nat.       Definition T_GENERATOR := 3%nat.
Definition T_PROPULSION_DRIVE := 4%nat.  Definition T_OTHER_LOAD := 5%nat.
Definition T_PTI_PTO_SYSTEM := 6%nat.    Definition T_BATTERY_SYSTEM := 7%nat.
Definition T_FUEL_CELL_SYSTEM := 8%nat.  Definition T_MAIN_ENGINE_GB := 10%nat.
Definition T_GENSET := 12%nat.           Definition T_PROPELLER_LOAD := 22%nat.
Definition T_BATTERY := 24%nat.          Definition T_SUPERCAPACITOR := 25%nat.
Definition T_SUPERCAPACITOR_SYSTEM := 26%nat.   Definition T_COGES := 29%nat.
Definition P_SOURCE := 1%nat.  Definition P_CONSUMER := 2%nat.  Definition P_PTI_PTO := 3%nat.  Definition P_STORAGE := 4%nat.
(* largest member numbers of the enums decoded by value *)
Definition MAX_FUEL := 13%nat.  Definition MAX_ORIGIN := 3%nat.  Definition MAX_CYCLE := 3%nat.
Definition MAX_NOX := 3%nat.    Definition MIN_EMISSION := 1%nat.  Definition MAX_EMISSION := 7%nat.
Definition MAX_PTYPE := 5%nat.  Definition MAX_CTYPE := 29%nat.

Definition ptype_of (c : f_comp) : nat :=
  match c with
  | CGenset _ _ _ _ | CGenerator _ | CFuelCell _ _ _ _ _ | CCoges _ _ _ _ => P_SOURCE
  | CBattery _ | CBatterySys _ _ _ _ | CSupercap _ | CSupercapSys _ _ _ _ => P_STORAGE
  | CSerial s => if r_pti s then P_PTI_PTO else P_CONSUMER
  | CLoad _ => P_CONSUMER
  end.

(* ------------------------------------------------------------------------------------------ *)
(* curves                                                                                      *)

Definition Qlt_b (a b : Q) : bool := negb (Qle_bool b a).

Fixpoint insert_x (p : Q * Q) (l : pts) : pts :=
  match l with
  | [] => [p]
  | q :: t => if Qle_bool (fst p) (fst q) then p :: l else q :: insert_x p t
  end.
Definition sort_x (l : pts) : pts := fold_right insert_x [] l.

(* what a component stores for the curve argument it is constructed with *)
Inductive raw := RVal (v : Q) | RPts (p : pts).
Definition store_curve (r : raw) : option pts :=
  match r with
  | RVal v => Some [(0, v); (1, v)]
  | RPts [] => None                                   (* IndexError *)
  | RPts [(_, y)] => Some [(0, y); (1, y)]
  | RPts p => Some (sort_x p)
  end.

(* convert_efficiency_curve_to_protobuf / convert_bsfc_curve_to_protobuf *)
Definition enc_eff (p : pts) : p_eff :=
  match p with
  | [(_, y)] => {| pe_value := Some y; pe_curve := None |}
  | _ => {| pe_value := None; pe_curve := Some p |}
  end.
(* convert_proto_efficiency_bsfc_power_to_np_array followed by the constructor's storing *)
Definition dec_eff (e : p_eff) : option pts :=
  match pe_value e with
  | Some v => if Qlt_b 0 v then store_curve (RVal v)
              else match pe_curve e with Some p => store_curve (RPts p) | None => None end
  | None => match pe_curve e with Some p => store_curve (RPts p) | None => None end
  end.

(* ------------------------------------------------------------------------------------------ *)
(* uid: kept iff longer than 5 characters, else the constructor draws a fresh one              *)
Section Conv.
Variable fresh : string.

Definition dec_uid (u : string) : string := if (5 <? String.length u)%nat then u else fresh.

Definition in_range (lo hi n : nat) : bool := ((lo <=? n) && (n <=? hi))%nat.

Definition enc_emis (l : list (nat * pts)) : list p_emis := map (fun e => {| px_type := fst e; px_pts := snd e |}) l.
Fixpoint dec_emis (l : list p_emis) : option (list (nat * pts)) :=
  match l with
  | [] => Some []
  | e :: t => if in_range MIN_EMISSION MAX_EMISSION (px_type e)
              then match dec_emis t with Some r => Some ((px_type e, px_pts e) :: r) | None => None end
              else None
  end.

Definition dec_fuel (f : p_fuel) : option (nat * nat) :=
  if (pf_type f <=? MAX_FUEL)%nat && (pf_origin f <=? MAX_ORIGIN)%nat then Some (pf_type f, pf_origin f) else None.

(* ---- engine ---- *)
Definition enc_engine (e : f_engine) (order : nat) : p_engine :=
  {| pg_name := e_name e; pg_rated := e_rated e; pg_speed := e_speed e; pg_bsfc := enc_eff (e_bsfc e);
     pg_fuel := {| pf_type := e_fuel e; pf_origin := e_origin e |}; pg_order := order;
     pg_pilot_bsfc := match e_pilot e with Some (p, _, _) => Some (enc_eff p) | None => None end;
     pg_pilot_fuel := match e_pilot e with Some (_, f, o) => {| pf_type := f; pf_origin := o |} | None => fuel0 end;
     pg_nox := e_nox e; pg_emis := enc_emis (e_emis e); pg_cycle := e_cycle e; pg_uid := e_uid e |}.

Definition dec_engine (g : p_engine) : option f_engine :=
  if negb (pg_nox g <=? MAX_NOX)%nat then None else
  if negb (pg_cycle g <=? MAX_CYCLE)%nat then None else
  match dec_emis (pg_emis g), dec_eff (pg_bsfc g), dec_fuel (pg_fuel g) with
  | Some em, Some bsfc, Some (f, o) =>
      match pg_pilot_bsfc g with
      | Some pb =>
          match dec_eff pb, dec_fuel (pg_pilot_fuel g) with
          | Some pp, Some (pf, po) =>
              Some {| e_name := pg_name g; e_rated := pg_rated g; e_speed := pg_speed g; e_bsfc := bsfc; e_fuel := f;
                      e_origin := o; e_nox := pg_nox g; e_cycle := pg_cycle g; e_emis := em;
                      e_pilot := Some (pp, pf, po); e_uid := dec_uid (pg_uid g) |}
          | _, _ => None
          end
      | None =>
          Some {| e_name := pg_name g; e_rated := pg_rated g; e_speed := pg_speed g; e_bsfc := bsfc; e_fuel := f;
                  e_origin := o; e_nox := pg_nox g; e_cycle := pg_cycle g; e_emis := em; e_pilot := None;
                  e_uid := dec_uid (pg_uid g) |}
      end
  | _, _, _ => None
  end.

(* ---- electric component / machine ---- *)
Definition enc_ecomp (c : f_ecomp) (order : nat) : p_ecomp :=
  {| pc_name := c_name c; pc_rated := c_rated c; pc_eff := enc_eff (c_eff c); pc_order := order; pc_uid := c_uid c |}.
Definition dec_ecomp (c : p_ecomp) : option f_ecomp :=
  match dec_eff (pc_eff c) with
  | Some e => Some {| c_name := pc_name c; c_rated := pc_rated c; c_eff := e; c_uid := dec_uid (pc_uid c) |}
  | None => None
  end.
Definition enc_mach (m : f_mach) (order : nat) : p_machine :=
  {| pm_name := h_name m; pm_rated := h_rated m; pm_speed := h_speed m; pm_eff := enc_eff (h_eff m);
     pm_order := order; pm_uid := h_uid m |}.
Definition dec_mach (m : p_machine) : option f_mach :=
  match dec_eff (pm_eff m) with
  | Some e => Some {| h_name := pm_name m; h_rated := pm_rated m; h_speed := pm_speed m; h_eff := e;
                      h_uid := dec_uid (pm_uid m) |}
  | None => None
  end.

(* ---- COGAS ---- *)
Definition enc_cogas (k : f_cogas) (order : nat) : p_cogas :=
  {| pk_name := k_name k; pk_rated := k_rated k; pk_speed := k_speed k; pk_eff := enc_eff (k_eff k);
     pk_gt := match k_curves k with Some (g, _) => Some g | None => None end;
     pk_st := match k_curves k with Some (_, s) => Some s | None => None end;
     pk_fuel := {| pf_type := k_fuel k; pf_origin := k_origin k |}; pk_order := order; pk_nox := k_nox k;
     pk_emis := enc_emis (k_emis k); pk_uid := k_uid k |}.
(* a power curve without points is handed over as None *)
Definition dec_power_curve (o : option pts) : option pts :=
  match o with Some [] => None | Some p => Some p | None => None end.
(* the COGAS constructor: both curves or none are used; they must have the same shape and not differ in every
   abscissa *)
Definition all_x_differ (a b : pts) : bool :=
  forallb (fun pq => negb (Qeq_bool (fst (fst pq)) (fst (snd pq)))) (combine a b).
Definition dec_cogas (k : p_cogas) : option f_cogas :=
  if negb (pk_nox k <=? MAX_NOX)%nat then None else
  match dec_emis (pk_emis k), dec_eff (pk_eff k), dec_fuel (pk_fuel k) with
  | Some em, Some eff, Some (f, o) =>
      let mk c := Some {| k_name := pk_name k; k_rated := pk_rated k; k_speed := pk_speed k; k_eff := eff; k_fuel := f;
                          k_origin := o; k_nox := pk_nox k; k_emis := em; k_curves := c; k_uid := dec_uid (pk_uid k) |} in
      match dec_power_curve (pk_gt k), dec_power_curve (pk_st k) with
      | Some g, Some s =>
          if negb (List.length g =? List.length s)%nat then None
          else if all_x_differ g s then None else mk (Some (g, s))
      | Some g, None => mk None      (* one curve alone is stored but never used *)
      | None, Some s => mk None
      | None, None => mk None
      end
  | _, _, _ => None
  end.

(* ---- storage ---- *)
Definition enc_battery (b : f_battery) (order : nat) : p_battery :=
  {| pb_name := b_name b; pb_kwh := b_kwh b; pb_cin := b_cin b; pb_cout := b_cout b; pb_effc := b_effc b;
     pb_effd := b_effd b; pb_soc0 := b_soc0 b; pb_order := order; pb_uid := b_uid b |}.
Definition dec_battery (b : p_battery) : f_battery :=
  {| b_name := pb_name b; b_kwh := pb_kwh b; b_cin := pb_cin b; b_cout := pb_cout b; b_effc := pb_effc b;
     b_effd := pb_effd b; b_soc0 := pb_soc0 b; b_uid := dec_uid (pb_uid b) |}.
Definition enc_supercap (c : f_supercap) (order : nat) : p_supercap :=
  {| ps_name := u_name c; ps_wh := u_wh c; ps_rated := u_rated c; ps_effc := u_effc c; ps_effd := u_effd c;
     ps_soc0 := u_soc0 c; ps_order := order; ps_uid := u_uid c |}.
Definition dec_supercap (c : p_supercap) : f_supercap :=
  {| u_name := ps_name c; u_wh := ps_wh c; u_rated := ps_rated c; u_effc := ps_effc c; u_effd := ps_effd c;
     u_soc0 := ps_soc0 c; u_uid := dec_uid (ps_uid c) |}.

(* ---- serial systems (drives, PTI/PTO) ---- *)
Definition stage_ecomp (g : f_stage) (order : nat) : p_ecomp :=
  {| pc_name := g_name g; pc_rated := g_rated g; pc_eff := enc_eff (g_eff g); pc_order := order; pc_uid := g_uid g |}.
Definition stage_mach (g : f_stage) (order : nat) : p_machine :=
  {| pm_name := g_name g; pm_rated := g_rated g; pm_speed := g_speed g; pm_eff := enc_eff (g_eff g); pm_order := order;
     pm_uid := g_uid g |}.

Definition put_stage (s : p_sub) (g : f_stage) (order : nat) : p_sub :=
  match g_kind g with
  | KTransformer =>
      {| s_gear := s_gear s; s_engine := s_engine s; s_machine := s_machine s;
         s_transformer := Some (stage_ecomp g order); s_conv1 := s_conv1 s; s_conv2 := s_conv2 s;
         s_battery := s_battery s; s_fuelcell := s_fuelcell s; s_propeller := s_propeller s; s_supercap := s_supercap s;
         s_other_load := s_other_load s; s_cogas := s_cogas s; s_ptype := s_ptype s; s_ctype := s_ctype s;
         s_name := s_name s; s_rated := s_rated s; s_speed := s_speed s; s_uid := s_uid s |}
  | KConverter =>
      match s_conv1 s with
      | None =>
          {| s_gear := s_gear s; s_engine := s_engine s; s_machine := s_machine s; s_transformer := s_transformer s;
             s_conv1 := Some (stage_ecomp g order); s_conv2 := s_conv2 s;
             s_battery := s_battery s; s_fuelcell := s_fuelcell s; s_propeller := s_propeller s; s_supercap := s_supercap s;
             s_other_load := s_other_load s; s_cogas := s_cogas s; s_ptype := s_ptype s; s_ctype := s_ctype s;
             s_name := s_name s; s_rated := s_rated s; s_speed := s_speed s; s_uid := s_uid s |}
      | Some _ =>
          {| s_gear := s_gear s; s_engine := s_engine s; s_machine := s_machine s; s_transformer := s_transformer s;
             s_conv1 := s_conv1 s; s_conv2 := Some (stage_ecomp g order);
             s_battery := s_battery s; s_fuelcell := s_fuelcell s; s_propeller := s_propeller s; s_supercap := s_supercap s;
             s_other_load := s_other_load s; s_cogas := s_cogas s; s_ptype := s_ptype s; s_ctype := s_ctype s;
             s_name := s_name s; s_rated := s_rated s; s_speed := s_speed s; s_uid := s_uid s |}
      end
  | KMachine =>
      {| s_gear := s_gear s; s_engine := s_engine s; s_machine := Some (stage_mach g order);
         s_transformer := s_transformer s; s_conv1 := s_conv1 s; s_conv2 := s_conv2 s;
         s_battery := s_battery s; s_fuelcell := s_fuelcell s; s_propeller := s_propeller s; s_supercap := s_supercap s;
         s_other_load := s_other_load s; s_cogas := s_cogas s; s_ptype := s_ptype s; s_ctype := s_ctype s;
         s_name := s_name s; s_rated := s_rated s; s_speed := s_speed s; s_uid := s_uid s |}
  | KOtherLoad | KUnsupported => s             (* no branch for the type: silently left out *)
  end.

Fixpoint put_stages (s : p_sub) (l : list f_stage) (order : nat) : p_sub :=
  match l with [] => s | g :: t => put_stages (put_stage s g order) t (S order) end.

Definition enc_serial (r : f_serial) : p_sub :=
  put_stages (sub0 (if r_pti r then P_PTI_PTO else P_CONSUMER) (if r_pti r then T_PTI_PTO_SYSTEM else T_PROPULSION_DRIVE)
                   (r_name r) (r_rated r) (r_speed r) (r_uid r)) (r_stages r) 1.

(* collect_electric_components_from_sub_system: present fields in a fixed order, then a stable sort by order *)
(* every stage is a component of its own: a non-positive rated power is rejected by its constructor *)
Definition dec_stage_e (k : stage_kind) (c : p_ecomp) : option (nat * f_stage) :=
  match dec_eff (pc_eff c) with
  | Some e => if Qle_bool (pc_rated c) 0 then None else
              Some (pc_order c, {| g_kind := k; g_name := pc_name c; g_rated := pc_rated c; g_speed := 0; g_eff := e;
                                   g_uid := dec_uid (pc_uid c) |})
  | None => None
  end.
Definition dec_stage_m (m : p_machine) : option (nat * f_stage) :=
  match dec_eff (pm_eff m) with
  | Some e => if Qle_bool (pm_rated m) 0 then None else
              Some (pm_order m, {| g_kind := KMachine; g_name := pm_name m; g_rated := pm_rated m; g_speed := pm_speed m;
                                   g_eff := e; g_uid := dec_uid (pm_uid m) |})
  | None => None
  end.

Fixpoint insert_o (p : nat * f_stage) (l : list (nat * f_stage)) : list (nat * f_stage) :=
  match l with
  | [] => [p]
  | q :: t => if (fst p <=? fst q)%nat then p :: l else q :: insert_o p t
  end.
(* stable: equal keys keep their order (fold from the right, insert before equal keys) *)
Definition sort_o (l : list (nat * f_stage)) : list (nat * f_stage) := fold_right insert_o [] l.

Fixpoint all_some {A} (l : list (option A)) : option (list A) :=
  match l with
  | [] => Some []
  | None :: _ => None
  | Some a :: t => match all_some t with Some r => Some (a :: r) | None => None end
  end.
Definition present {A B} (f : A -> option B) (o : option A) : list (option B) :=
  match o with Some a => [f a] | None => [] end.

Definition dec_stages (s : p_sub) : option (list f_stage) :=
  match s_propeller s with
  | Some _ => None                      (* get_component_type("propeller") raises TypeError *)
  | None =>
      match all_some (present dec_stage_m (s_machine s) ++ present (dec_stage_e KTransformer) (s_transformer s)
                      ++ present (dec_stage_e KConverter) (s_conv1 s) ++ present (dec_stage_e KConverter) (s_conv2 s)
                      ++ present (dec_stage_e KOtherLoad) (s_other_load s)) with
      | Some l => Some (map snd (sort_o l))
      | None => None
      end
  end.

Definition qzero (q : Q) : bool := Qeq_bool q 0.

(* SerialSystem: no rated power / speed given -> that of the first component; no component -> IndexError;
   BasicComponent: rated power <= 0 -> InputError *)
Definition dec_serial (pti : bool) (line : nat) (s : p_sub) : option f_serial :=
  match dec_stages s with
  | Some [] => None
  | Some (g :: t) =>
      let rated := if qzero (s_rated s) then g_rated g else s_rated s in
      let speed := if pti then s_speed s else if qzero (s_speed s) then g_speed g else s_speed s in
      if Qle_bool rated 0 then None
      else Some {| r_pti := pti; r_name := s_name s; r_uid := dec_uid (s_uid s); r_rated := rated; r_speed := speed;
                   r_line := line; r_stages := g :: t |}
  | None => None
  end.

(* ------------------------------------------------------------------------------------------ *)
(* one switchboard component: convert_switchboard_to_protobuf / convert_proto_switchboard_to_feems *)

Definition with_fields (s : p_sub) (eng : option p_engine) (mach : option p_machine) (c1 : option p_ecomp)
    (bat : option p_battery) (fc : option p_fuelcell) (sc : option p_supercap) (ol : option p_ecomp)
    (cg : option p_cogas) : p_sub :=
  {| s_gear := None; s_engine := eng; s_machine := mach; s_transformer := None; s_conv1 := c1; s_conv2 := None;
     s_battery := bat; s_fuelcell := fc; s_propeller := None; s_supercap := sc; s_other_load := ol; s_cogas := cg;
     s_ptype := s_ptype s; s_ctype := s_ctype s; s_name := s_name s; s_rated := s_rated s; s_speed := s_speed s;
     s_uid := s_uid s |}.

Definition battery_rated (b : f_battery) : Q := b_kwh b * b_cout b.

Definition enc_comp (c : f_comp) : p_sub :=
  match c with
  | CGenset name uid eng gen =>
      with_fields (sub0 P_SOURCE T_GENSET name (h_rated gen) (h_speed gen) uid)
        (Some (enc_engine eng 2)) (Some (enc_mach gen 1)) None None None None None None
  | CGenerator g =>
      with_fields (sub0 P_SOURCE T_GENERATOR (h_name g) (h_rated g) (h_speed g) (h_uid g))
        None (Some (enc_mach g 1)) None None None None None None
  | CFuelCell name uid m conv nmod =>
      with_fields (sub0 P_SOURCE T_FUEL_CELL_SYSTEM name (m_rated m * inject_Z (Z.of_nat nmod)) 0 uid)
        None None (Some (enc_ecomp conv 1)) None
        (Some {| pq_name := m_name m; pq_rated := m_rated m; pq_eff := enc_eff (m_eff m); pq_order := 2;
                 pq_fuel := {| pf_type := m_fuel m; pf_origin := m_origin m |}; pq_nmod := nmod; pq_uid := m_uid m |})
        None None None
  | CCoges name uid k gen =>
      with_fields (sub0 P_SOURCE T_COGES name (h_rated gen) (h_speed gen) uid)
        None (Some (enc_mach gen 1)) None None None None None (Some (enc_cogas k 2))
  | CBattery b =>
      with_fields (sub0 P_STORAGE T_BATTERY (b_name b) (battery_rated b) 0 (b_uid b))
        None None None (Some (enc_battery b 1)) None None None None
  | CBatterySys name uid b conv =>
      with_fields (sub0 P_STORAGE T_BATTERY_SYSTEM name (battery_rated b) 0 uid)
        None None (Some (enc_ecomp conv 1)) (Some (enc_battery b 2)) None None None None
  | CSupercap c =>
      with_fields (sub0 P_STORAGE T_SUPERCAPACITOR (u_name c) (u_rated c) 0 (u_uid c))
        None None None None None (Some (enc_supercap c 1)) None None
  | CSupercapSys name uid c conv =>
      with_fields (sub0 P_STORAGE T_SUPERCAPACITOR_SYSTEM name (u_rated c) 0 uid)
        None None (Some (enc_ecomp conv 1)) None None (Some (enc_supercap c 2)) None None
  | CSerial r => enc_serial r
  | CLoad l =>
      with_fields (sub0 P_CONSUMER T_OTHER_LOAD (c_name l) (c_rated l) 0 (c_uid l))
        None None None None None None (Some (enc_ecomp l 1)) None
  end.

Definition positive (q : Q) : bool := Qlt_b 0 q.

Definition dec_generic (s : p_sub) : option f_comp :=
  (* one component only and neither a drive nor a PTI/PTO: the bare component, typed by the subsystem *)
  match s_propeller s with
  | Some _ => None
  | None =>
    match s_machine s, s_transformer s, s_conv1 s, s_conv2 s, s_other_load s with
    | Some m, None, None, None, None =>
        match dec_mach (if String.eqb (pm_name m) "" then
                          {| pm_name := s_name s; pm_rated := pm_rated m; pm_speed := pm_speed m; pm_eff := pm_eff m;
                             pm_order := pm_order m; pm_uid := pm_uid m |} else m) with
        | Some g => if positive (h_rated g)
                    then if (s_ctype s =? T_GENERATOR)%nat && (s_ptype s =? P_SOURCE)%nat then Some (CGenerator g) else None
                    else None
        | None => None
        end
    | None, None, None, None, Some c =>
        match dec_ecomp (if String.eqb (pc_name c) "" then
                           {| pc_name := s_name s; pc_rated := pc_rated c; pc_eff := pc_eff c; pc_order := pc_order c;
                              pc_uid := pc_uid c |} else c) with
        | Some l => if positive (c_rated l)
                    then if (s_ctype s =? T_OTHER_LOAD)%nat && (s_ptype s =? P_CONSUMER)%nat then Some (CLoad l) else None
                    else None
        | None => None
        end
    | _, _, _, _, _ => None     (* other generic shapes: not a component kind of this model *)
    end
  end.

Definition dec_comp (s : p_sub) : option f_comp :=
  let ct := s_ctype s in
  if negb (ct <=? MAX_CTYPE)%nat || negb (s_ptype s <=? MAX_PTYPE)%nat then None
  else if (ct =? T_FUEL_CELL_SYSTEM)%nat then
    let fc := get fuelcell0 (s_fuelcell s) in
    match dec_eff (pq_eff fc), dec_fuel (pq_fuel fc), dec_ecomp (get ecomp0 (s_conv1 s)) with
    | Some e, Some (f, o), Some conv =>
        if positive (pq_rated fc) && positive (c_rated conv)
        then Some (CFuelCell (s_name s) (dec_uid (s_uid s))
                     {| m_name := pq_name fc; m_rated := pq_rated fc; m_eff := e; m_fuel := f; m_origin := o;
                        m_uid := dec_uid (pq_uid fc) |}
                     conv (if (1 <? pq_nmod fc)%nat then pq_nmod fc else 1%nat))
        else None
    | _, _, _ => None
    end
  else if (ct =? T_GENSET)%nat then
    match dec_engine (get engine0 (s_engine s)), dec_mach (get machine0 (s_machine s)) with
    | Some eng, Some gen =>
        (* the generator's rating is checked by its constructor; an engine's is not (known finding F-C20-1) *)
        if positive (h_rated gen)
        then match s_conv1 s with
             | None => Some (CGenset (s_name s) (dec_uid (s_uid s)) eng gen)
             | Some _ => None       (* a rectifier in the description: folded into the generator, outside this model *)
             end
        else None
    | _, _ => None
    end
  else if (ct =? T_COGES)%nat then
    match dec_cogas (get cogas0 (s_cogas s)), dec_mach (get machine0 (s_machine s)) with
    | Some k, Some gen => if positive (k_rated k) && positive (h_rated gen)
                          then Some (CCoges (s_name s) (dec_uid (s_uid s)) k gen) else None
    | _, _ => None
    end
  else if (ct =? T_BATTERY_SYSTEM)%nat then
    match dec_ecomp (get ecomp0 (s_conv1 s)) with
    | Some conv =>
        let b := dec_battery (get battery0 (s_battery s)) in
        if positive (battery_rated b) && positive (c_rated conv)
        then Some (CBatterySys (s_name s) (dec_uid (s_uid s)) b conv) else None
    | None => None
    end
  else if (ct =? T_BATTERY)%nat then
    let b := dec_battery (get battery0 (s_battery s)) in
    if positive (battery_rated b) then Some (CBattery b) else None
  else if (ct =? T_SUPERCAPACITOR_SYSTEM)%nat then
    match dec_ecomp (get ecomp0 (s_conv1 s)) with
    | Some conv =>
        let c := dec_supercap (get supercap0 (s_supercap s)) in
        if positive (u_rated c) && positive (c_rated conv)
        then Some (CSupercapSys (s_name s) (dec_uid (s_uid s)) c conv) else None
    | None => None
    end
  else if (ct =? T_SUPERCAPACITOR)%nat then
    let c := dec_supercap (get supercap0 (s_supercap s)) in
    if positive (u_rated c) then Some (CSupercap c) else None
  else if (ct =? T_PTI_PTO_SYSTEM)%nat then
    match dec_serial true 1 s with Some r => Some (CSerial r) | None => None end
  else if (ct =? T_PROPULSION_DRIVE)%nat then
    if (s_ptype s =? P_CONSUMER)%nat
    then match dec_serial false 1 s with Some r => Some (CSerial r) | None => None end
    else None
  else dec_generic s.

(* ---- switchboards ---- *)
Definition group_pt (l : list f_comp) : list f_comp :=
  flat_map (fun pt => filter (fun c => (ptype_of c =? pt)%nat) l) (seq 0 6).

Definition enc_swb (w : nat * list f_comp) : nat * list p_sub := (fst w, map enc_comp (snd w)).
Definition dec_swb (w : nat * list p_sub) : option (nat * list f_comp) :=
  match all_some (map dec_comp (snd w)) with
  | Some l => Some (fst w, group_pt l)
  | None => None
  end.

(* ElectricPowerSystem(components, breakers): switchboards by ascending id; a breaker to a missing id: KeyError *)
Fixpoint insert_id (i : nat) (l : list nat) : list nat :=
  match l with
  | [] => [i]
  | j :: t => if (i <? j)%nat then i :: l else if (i =? j)%nat then l else j :: insert_id i t
  end.
Definition ids_of (l : list (nat * f_comp)) : list nat := fold_right insert_id [] (map fst l).
Definition construct (l : list (nat * f_comp)) (brk : list (nat * nat)) : option f_electric :=
  let ids := ids_of l in
  if forallb (fun b => existsb (Nat.eqb (fst b)) ids && existsb (Nat.eqb (snd b)) ids) brk
  then Some {| x_swbs := map (fun i => (i, map snd (filter (fun p => (fst p =? i)%nat) l))) ids; x_breakers := brk |}
  else None.

Fixpoint chain (k n : nat) : list (nat * nat) :=       (* (k,k+1) ... n-1 pairs *)
  match n with O => [] | S n' => (k, S k) :: chain (S k) n' end.

Definition enc_electric (e : f_electric) : list (nat * list p_sub) := map enc_swb (x_swbs e).
Definition dec_electric (l : list (nat * list p_sub)) : option f_electric :=
  match all_some (map dec_swb l) with
  | Some ws => construct (flat_map (fun w => map (pair (fst w)) (snd w)) ws) (chain 1 (List.length l - 1))
  | None => None
  end.

(* ------------------------------------------------------------------------------------------ *)
(* shaft lines                                                                                 *)

Definition enc_gear (g : f_mach) : p_gear :=
  {| pr_name := h_name g; pr_rated := h_rated g; pr_speed := h_speed g; pr_eff := enc_eff (h_eff g); pr_order := 1;
     pr_uid := h_uid g |}.

Definition set_engine_gear (s : p_sub) (e : option p_engine) (g : option p_gear) (p : option p_propeller) : p_sub :=
  {| s_gear := g; s_engine := e; s_machine := None; s_transformer := None; s_conv1 := None; s_conv2 := None;
     s_battery := None; s_fuelcell := None; s_propeller := p; s_supercap := None; s_other_load := None; s_cogas := None;
     s_ptype := s_ptype s; s_ctype := s_ctype s; s_name := s_name s; s_rated := s_rated s; s_speed := s_speed s;
     s_uid := s_uid s |}.

(* propeller ids count the propellers of the line from 1 *)
Fixpoint enc_line_comps (l : list m_comp) (prop_id : nat) : list p_sub :=
  match l with
  | [] => []
  | MEngine name uid eng :: t =>
      set_engine_gear (sub0 P_SOURCE T_MAIN_ENGINE name (e_rated eng) (e_speed eng) uid) (Some (enc_engine eng 1)) None None
      :: enc_line_comps t prop_id
  | MEngineGB name uid eng gb :: t =>
      set_engine_gear (sub0 P_SOURCE T_MAIN_ENGINE_GB name (e_rated eng) (e_speed eng) uid)
                      (Some (enc_engine eng 2)) (Some (enc_gear gb)) None
      :: enc_line_comps t prop_id
  | MPropeller name uid rated speed eff :: t =>
      set_engine_gear (sub0 P_CONSUMER T_PROPELLER_LOAD name rated speed uid) None None
                      (Some {| pp_eff := enc_eff eff; pp_id := prop_id; pp_order := 2; pp_uid := uid |})
      :: enc_line_comps t (S prop_id)
  | MPti _ r :: t => enc_serial r :: enc_line_comps t prop_id
  end.

Definition name_engine (g : p_engine) (n : string) : p_engine :=
  {| pg_name := n; pg_rated := pg_rated g; pg_speed := pg_speed g; pg_bsfc := pg_bsfc g; pg_fuel := pg_fuel g;
     pg_order := pg_order g; pg_pilot_bsfc := pg_pilot_bsfc g; pg_pilot_fuel := pg_pilot_fuel g; pg_nox := pg_nox g;
     pg_emis := pg_emis g; pg_cycle := pg_cycle g; pg_uid := pg_uid g |}.

(* ptis: the PTI/PTOs of the electric side that may be shared (None: not a hybrid plant) *)
Definition dec_line_comp (line : nat) (ptis : option (list f_serial)) (s : p_sub) : option m_comp :=
  let ct := s_ctype s in
  if negb (ct <=? MAX_CTYPE)%nat then None
  else if (ct =? T_MAIN_ENGINE)%nat then
    let g := get engine0 (s_engine s) in
    match dec_engine (if String.eqb (pg_name g) "" then name_engine g (s_name s) else g) with
    | Some eng => Some (MEngine (s_name s) (dec_uid (s_uid s)) eng)
    | None => None
    end
  else if (ct =? T_MAIN_ENGINE_GB)%nat then
    let gr := get gear0 (s_gear s) in
    match dec_engine (get engine0 (s_engine s)), dec_eff (pr_eff gr) with
    | Some eng, Some ge =>
        if positive (pr_rated gr)
        then Some (MEngineGB (s_name s) (dec_uid (s_uid s)) eng
                     {| h_name := pr_name gr; h_rated := pr_rated gr; h_speed := pr_speed gr; h_eff := ge;
                        h_uid := dec_uid (pr_uid gr) |})
        else None
    | _, _ => None
    end
  else if (ct =? T_PTI_PTO_SYSTEM)%nat then
    match ptis with
    | None => match dec_serial true line s with Some r => Some (MPti false r) | None => None end
    | Some l =>
        match find (fun r => String.eqb (r_name r) (s_name s)) l with
        | Some r => Some (MPti true {| r_pti := r_pti r; r_name := r_name r; r_uid := r_uid r; r_rated := r_rated r;
                                       r_speed := r_speed r; r_line := line; r_stages := r_stages r |})
        | None => match dec_serial true line s with Some r => Some (MPti false r) | None => None end
        end
    end
  else if (ct =? T_PROPELLER_LOAD)%nat then
    match dec_eff (pp_eff (get propeller0 (s_propeller s))) with
    | Some e => if positive (s_rated s)
                then Some (MPropeller (s_name s) (dec_uid (s_uid s)) (s_rated s) (s_speed s) e) else None
    | None => None
    end
  else None.                                 (* ValueError: component type not supported *)

Definition enc_line (w : nat * list m_comp) : nat * list p_sub := (fst w, enc_line_comps (snd w) 1).

(* the PTI/PTOs handed to a shaft line: those of the electric side whose uid occurs among the line's PTI/PTO
   subsystems *)
Definition ptis_for_line (ptis : list f_serial) (subs : list p_sub) : list f_serial :=
  let uids := map s_uid (filter (fun s => (s_ctype s =? T_PTI_PTO_SYSTEM)%nat) subs) in
  filter (fun r => existsb (String.eqb (r_uid r)) uids) ptis.

Definition dec_line (ptis : option (list f_serial)) (w : nat * list p_sub) : option (nat * list m_comp) :=
  let p := match ptis with Some l => Some (ptis_for_line l (snd w)) | None => None end in
  match all_some (map (dec_line_comp (fst w) p) (snd w)) with
  | Some l => Some (fst w, l)
  | None => None
  end.

(* ------------------------------------------------------------------------------------------ *)
(* whole systems                                                                               *)

Definition elec_ptis (e : f_electric) : list f_serial :=
  flat_map (fun w => flat_map (fun c => match c with CSerial r => if r_pti r then [r] else [] | _ => [] end) (snd w))
           (x_swbs e).

Definition enc_system (s : f_system) : p_system :=
  match s with
  | SElectric name e => {| y_name := name; y_ptype := 1; y_swbs := enc_electric e; y_lines := [] |}
  | SMech name e lines => {| y_name := name; y_ptype := 0; y_swbs := enc_electric e; y_lines := map enc_line lines |}
  | SHybrid name e lines => {| y_name := name; y_ptype := 2; y_swbs := enc_electric e; y_lines := map enc_line lines |}
  end.

(* the shaft line id of a shared PTI/PTO is written into the object the switchboard lists *)
Definition line_of_pti (lines : list (nat * list m_comp)) (r : f_serial) : nat :=
  match find (fun w => existsb (fun c => match c with MPti true q => String.eqb (r_uid q) (r_uid r) | _ => false end) (snd w))
             lines with
  | Some w => fst w
  | None => r_line r
  end.
Definition patch_lines (lines : list (nat * list m_comp)) (e : f_electric) : f_electric :=
  {| x_swbs := map (fun w => (fst w, map (fun c => match c with
                                                  | CSerial r => if r_pti r then
                                                      CSerial {| r_pti := r_pti r; r_name := r_name r; r_uid := r_uid r;
                                                                 r_rated := r_rated r; r_speed := r_speed r;
                                                                 r_line := line_of_pti lines r; r_stages := r_stages r |}
                                                      else c
                                                  | _ => c end) (snd w))) (x_swbs e);
     x_breakers := x_breakers e |}.

Definition is_pti (c : m_comp) : bool := match c with MPti _ _ => true | _ => false end.
Definition count_pti (ls : list (nat * list m_comp)) : nat :=
  List.length (flat_map (fun w => filter is_pti (snd w)) ls).
Definition shared_on (ls : list (nat * list m_comp)) (r : f_serial) : bool :=
  existsb (fun w => existsb (fun c => match c with MPti true q => String.eqb (r_uid q) (r_uid r) | _ => false end) (snd w)) ls.

Definition dec_system (y : p_system) : option f_system :=
  match y_ptype y with
  | 1%nat => match dec_electric (y_swbs y) with Some e => Some (SElectric "electric power system" e) | None => None end
  | 0%nat =>
      match dec_electric (y_swbs y), all_some (map (dec_line None) (y_lines y)) with
      | Some e, Some ls => Some (SMech (y_name y) e ls)
      | _, _ => None
      end
  | 2%nat =>
      match dec_electric (y_swbs y) with
      | Some e =>
          match elec_ptis e with
          | [] => None                    (* HybridPropulsionSystem: no PTI/PTO on the electric side *)
          | ptis =>
              match all_some (map (dec_line (Some ptis)) (y_lines y)) with
              | Some ls =>
                  (* as many PTI/PTOs on the shaft lines as on the switchboards, each of the latter shared *)
                  if (count_pti ls =? List.length ptis)%nat && forallb (shared_on ls) ptis
                  then Some (SHybrid (y_name y) (patch_lines ls e) ls)
                  else None
              | None => None
              end
          end
      | None => None
      end
  | _ => None
  end.

End Conv.
