(* Model/ElecBalance.v — transcription of the electric power balance:
   Switchboard.get_sum_load_kw_sources_symmetric, get_sum_power_avail_for_power_sources_symmetric,
   set_power_out_power_sources (components_model/node.py) and ElectricPowerSystem._get_sum_buses,
   do_power_balance_calculation (system_model.py).  Definitions only.

   Real-arithmetic semantics over Q; a division by a zero capacity (inf/nan in NumPy) is NonFinite. *)
From Coq Require Import QArith Qabs Qround ZArith List Bool Arith.
From Feems Require Import Base.Num Model.Bus.
Import ListNotations.
Open Scope Q_scope.

Inductive kind := Source | Consumer | PtiPto | Storage.
Definition is_ps (k : kind) : bool := match k with PtiPto | Storage => true | _ => false end.

(* static description of a component, and its input series *)
Record comp := { c_swb : nat; c_kind : kind; c_rated : Q }.
Record cin := { i_status : list bool; i_lsm : list Q; i_pin : list Q }.

(* what one component looks like at one time step *)
Record cv := { v_swb : nat; v_kind : kind; v_rated : Q; v_on : bool; v_lsm : Q; v_pin : Q }.
Definition view_at (t : nat) (ci : comp * cin) : cv :=
  let (c, i) := ci in
  {| v_swb := c_swb c; v_kind := c_kind c; v_rated := c_rated c;
     v_on := nth t (i_status i) false; v_lsm := nth t (i_lsm i) 0; v_pin := nth t (i_pin i) 0 |}.

Definition avail_of (c : cv) : Q := v_rated c * b2q (v_on c).

(* contribution to the net load on the equally sharing units (get_sum_load_kw_sources_symmetric):
   consumers count with their input, PTI/PTO and storage with input x sharing flag, sources with
   minus their fixed-share delivery *)
Definition net_term (c : cv) : Q :=
  match v_kind c with
  | Consumer => v_pin c
  | PtiPto | Storage => v_pin c * v_lsm c
  | Source => - (v_lsm c * avail_of c)
  end.

Definition qceil_abs (x : Q) : Q := inject_Z (Qceiling (Qabs x)).

(* contribution to the balancing capacity (get_sum_power_avail_for_power_sources_symmetric) *)
Definition avail_term (c : cv) : Q :=
  match v_kind c with
  | Consumer => 0
  | _ => avail_of c - qceil_abs (v_lsm c) * avail_of c
  end.

(* np.round(x, 10): half to even on x * 10^10 *)
Definition round_half_even (x : Q) : Z :=
  let f := Qfloor x in
  let r := x - inject_Z f in
  match Qcompare r (1 # 2) with
  | Lt => f
  | Gt => (f + 1)%Z
  | Eq => if Z.even f then f else (f + 1)%Z
  end.
Definition ten10 : Q := 10000000000 # 1.
Definition round10 (x : Q) : Q := inject_Z (round_half_even (x * ten10)) / ten10.

Definition on_swb (s : nat) (c : cv) : bool := Nat.eqb (v_swb c) s.

Definition net_swb (cs : list cv) (s : nat) : Q := qsum (map net_term (filter (on_swb s) cs)).
Definition avail_swb (cs : list cv) (s : nat) : Q :=
  round10 (qsum (map avail_term (filter (on_swb s) cs))).

(* sums over the switchboards of one bus (_get_sum_buses) *)
Definition swbs_of_bus (busmap : nat -> nat) (swbs : list nat) (b : nat) : list nat :=
  filter (fun s => Nat.eqb (busmap s) b) swbs.
Definition net_bus (cs : list cv) (busmap : nat -> nat) (swbs : list nat) (b : nat) : Q :=
  qsum (map (net_swb cs) (swbs_of_bus busmap swbs b)).
Definition avail_bus (cs : list cv) (busmap : nat -> nat) (swbs : list nat) (b : nat) : Q :=
  qsum (map (avail_swb cs) (swbs_of_bus busmap swbs b)).

(* bus load fraction: net / capacity where net <> 0, else 0 *)
Definition load_bus (cs : list cv) (busmap : nat -> nat) (swbs : list nat) (b : nat) : num :=
  let n := net_bus cs busmap swbs b in
  if qzero n then Fin 0
  else let a := avail_bus cs busmap swbs b in
       if qzero a then NonFinite else Fin (n / a).

(* set_power_out_power_sources *)
Definition out_source (c : cv) (ld : num) : num :=
  if qzero (v_lsm c) && v_on c then
    match ld with Fin l => Fin (v_rated c * l * b2q (v_on c)) | NonFinite => NonFinite end
  else Fin (v_rated c * v_lsm c * b2q (v_on c)).
Definition pin_ps (c : cv) (ld : num) : num :=
  if qzero (v_lsm c) then
    match ld with Fin l => Fin (- v_rated c * l * b2q (v_on c)) | NonFinite => NonFinite end
  else Fin (v_pin c).

(* the result of the balance for one component at one step: the delivered power of a source, the
   (possibly rewritten) input of a PTI/PTO or storage unit, the unchanged input of a consumer *)
Definition result_of (cs : list cv) (busmap : nat -> nat) (swbs : list nat) (c : cv) : num :=
  let ld := load_bus cs busmap swbs (busmap (v_swb c)) in
  match v_kind c with
  | Source => out_source c ld
  | PtiPto | Storage => pin_ps c ld
  | Consumer => Fin (v_pin c)
  end.

(* the whole calculation: n steps; bus of a switchboard at step t through the configuration period
   that contains t (Model/Bus.v) *)
Definition balance_step (plant : list (comp * cin)) (es : list edge) (swbs : list nat)
    (sts : list (list bool)) (t : nat) : list num :=
  let cs := map (view_at t) plant in
  let busmap := bus_at es swbs sts t in
  map (result_of cs busmap swbs) cs.

Definition balance (plant : list (comp * cin)) (es : list edge) (swbs : list nat)
    (sts : list (list bool)) (n : nat) : list (list num) :=
  map (balance_step plant es swbs sts) (seq 0 n).

(* the load fraction seen by one component at one step *)
Definition load_of (cs : list cv) (busmap : nat -> nat) (swbs : list nat) (c : cv) : num :=
  load_bus cs busmap swbs (busmap (v_swb c)).

(* per-bus sums used to state the conservation law *)
Definition in_bus (busmap : nat -> nat) (b : nat) (c : cv) : bool := Nat.eqb (busmap (v_swb c)) b.
Definition numq (x : num) : Q := match x with Fin q => q | NonFinite => 0 end.
Definition delivered (cs : list cv) (busmap : nat -> nat) (swbs : list nat) (b : nat) : Q :=
  qsum (map (fun c => match v_kind c with Source => numq (result_of cs busmap swbs c) | _ => 0 end)
            (filter (in_bus busmap b) cs)).
Definition drawn (cs : list cv) (busmap : nat -> nat) (swbs : list nat) (b : nat) : Q :=
  qsum (map (fun c => match v_kind c with Source => 0 | _ => numq (result_of cs busmap swbs c) end)
            (filter (in_bus busmap b) cs)).

(* boolean versions of the theorem's hypotheses, evaluated on every correspondence case so that the
   evidence says how many cases lie inside the domain of the theorem *)
Definition admissible_b (cs : list cv) (swbs : list nat) : bool :=
  forallb (fun c => match v_kind c with
                    | PtiPto | Storage => qzero (v_lsm c) || Qeq_bool (v_lsm c) 1
                    | Source => Qle_bool 0 (v_lsm c) && Qle_bool (v_lsm c) 1
                    | Consumer => true end) cs &&
  forallb (fun s => let x := qsum (map avail_term (filter (on_swb s) cs)) in Qeq_bool (round10 x) x) swbs.
Fixpoint nodup_b (l : list nat) : bool :=
  match l with [] => true | a :: r => negb (existsb (Nat.eqb a) r) && nodup_b r end.
Definition wf_b (cs : list cv) (swbs : list nat) : bool :=
  nodup_b swbs && forallb (fun c => existsb (Nat.eqb (v_swb c)) swbs) cs.
