(* Model/Bus.v — transcription of ElectricPowerSystem.switchboard2bus_configuration
   (feems/feems/system_model.py).  Definitions only; proofs are in Proofs/BusProofs.v.

   swbs : the sorted list of switchboard ids            (self.switchboard_id)
   es   : the breakers in declaration order, (id1, id2)  (bus_tie_breakers[j].switchboard_ids)
   sts  : status matrix, sts[t][j] = breaker j closed at step t          (bus_tie_breaker.status) *)
From Coq Require Import List Arith Bool.
Import ListNotations.

Definition edge := (nat * nat)%type.
Definition lab := nat -> nat.

(* one closed breaker: every switchboard carrying the label of the second side gets the label of
   the first side (the relabelling loop of the implementation) *)
Definition union (l : lab) (e : edge) : lab :=
  fun x => if Nat.eqb (l x) (l (snd e)) then l (fst e) else l x.
Definition labels (es : list edge) : lab := fold_left union es (fun x => x).

(* the breakers closed in one status row *)
Fixpoint closed (es : list edge) (st : list bool) : list edge :=
  match es, st with
  | e :: es', b :: st' => if b then e :: closed es' st' else closed es' st'
  | _, _ => []
  end.

(* connectivity through a set of edges: the specification *)
Inductive conn (es : list edge) : nat -> nat -> Prop :=
| c_refl x : conn es x x
| c_edge a b : In (a, b) es -> conn es a b
| c_sym x y : conn es x y -> conn es y x
| c_trans x y z : conn es x y -> conn es y z -> conn es x z.

(* Renumbering 1.. in order of first appearance over the sorted switchboard ids, written against an
   arbitrary boolean "same bus" relation so that it visibly depends on nothing else. *)
Section Renum.
  Variable same : nat -> nat -> bool.
  Fixpoint leaders_aux (seen swbs : list nat) : list nat :=
    match swbs with
    | [] => []
    | a :: r => if existsb (same a) seen then leaders_aux (seen ++ [a]) r
                else a :: leaders_aux (seen ++ [a]) r
    end.
  Definition leaders (swbs : list nat) : list nat := leaders_aux [] swbs.
  Fixpoint pos (x : nat) (ls : list nat) : nat :=
    match ls with [] => 1 | a :: r => if same x a then 1 else S (pos x r) end.
  Definition bus_of (swbs : list nat) (x : nat) : nat := pos x (leaders swbs).
  Definition no_bus (swbs : list nat) : nat := length (leaders swbs).
End Renum.

Definition same_lab (l : lab) (x y : nat) : bool := Nat.eqb (l x) (l y).

(* bus map and bus count for one status row *)
Definition bus_row (es : list edge) (swbs : list nat) (st : list bool) (x : nat) : nat :=
  bus_of (same_lab (labels (closed es st))) swbs x.
Definition no_bus_row (es : list edge) (swbs : list nat) (st : list bool) : nat :=
  no_bus (same_lab (labels (closed es st))) swbs.

(* time indices at which the configuration changes: 0, and every t >= 1 whose row differs from t-1
   (np.any(np.diff(status, axis=1), axis=0) with a leading True) *)
Fixpoint beq_list (a b : list bool) : bool :=
  match a, b with
  | [], [] => true
  | x :: a', y :: b' => Bool.eqb x y && beq_list a' b'
  | _, _ => false
  end.
Definition row (sts : list (list bool)) (t : nat) : list bool := nth t sts [].
Definition changed (sts : list (list bool)) (t : nat) : bool :=
  negb (beq_list (row sts (t - 1)) (row sts t)).
Definition change_index (sts : list (list bool)) : list nat :=
  0 :: filter (changed sts) (seq 1 (length sts - 1)).

(* start of the configuration period that contains step t *)
Fixpoint pstart (sts : list (list bool)) (t : nat) : nat :=
  match t with
  | 0 => 0
  | S t' => if changed sts (S t') then S t' else pstart sts t'
  end.

(* what the implementation stores: one (map, count) per change index, computed from the row at the
   first step of the period *)
Definition config (es : list edge) (swbs : list nat) (sts : list (list bool))
  : list (list nat * nat) :=
  map (fun c => (map (bus_row es swbs (row sts c)) swbs, no_bus_row es swbs (row sts c)))
      (change_index sts).

(* bus of switchboard x at step t as the implementation uses it: via the period containing t *)
Definition bus_at (es : list edge) (swbs : list nat) (sts : list (list bool)) (t x : nat) : nat :=
  bus_row es swbs (row sts (pstart sts t)) x.
Definition no_bus_at (es : list edge) (swbs : list nat) (sts : list (list bool)) (t : nat) : nat :=
  no_bus_row es swbs (row sts (pstart sts t)).

(* ------------------------------------------------------------------------------------------ *)
(* The algorithm as it was before the repair (D-1), kept so the finding stays reproducible:
   bus ids are looked up in the initial identity map and merged groups are never re-pointed. *)
Fixpoint lookup (k : nat) (m : list (nat * nat)) : option nat :=
  match m with [] => None | (a, b) :: r => if Nat.eqb k a then Some b else lookup k r end.
Inductive legacy_res := LegacyOk (m : list (nat * nat)) | LegacyNotImplemented.
Fixpoint legacy_merge (es : list edge) (m : list (nat * nat)) : legacy_res :=
  match es with
  | [] => LegacyOk m
  | (a, b) :: r =>
      match lookup a m, lookup b m with
      | Some _, Some _ => LegacyNotImplemented
      | Some n, None => legacy_merge r ((b, n) :: m)
      | None, Some n => legacy_merge r ((a, n) :: m)
      | None, None => legacy_merge r ((b, a) :: m)
      end
  end.
Definition legacy_labels (es : list edge) : option lab :=
  match legacy_merge es [] with
  | LegacyOk m => Some (fun x => match lookup x m with Some n => n | None => x end)
  | LegacyNotImplemented => None
  end.
