(* Model/Machine.v — system objects as state machines with the MUTABLE FIELDS the implementation
   really has (system_model.py, components_model/node.py):

   electric system  : per component status, load_sharing_mode, power_input, power_output; the breaker
                      status matrix.  do_power_balance_calculation = validate (a PTI/PTO or storage
                      unit whose sharing mode is zero over the whole series gets its power_input reset
                      to zeros) ; balance (Model/ElecBalance.v on the fields as they are NOW) ;
                      write-back (sources: power_output; PTI/PTO and storage: power_input -- an INPUT
                      field -- and, through the machine's conversion, power_output).
   shaft line       : loads' power_input, engines' status and power_output, the PTI/PTO's shaft power,
                      full-PTI flags and electrical power.  do_power_balance writes the engines'
                      output, REWRITES THEIR STATUS (an input field), overwrites the PTI/PTO shaft power
                      in full-PTI steps and recomputes its electrical power.

   Setters write one field of one component; nothing else is ever reset.  What a calculation leaves
   behind is therefore visible in the model, and "leaves no trace" (C12) is a theorem about which
   fields a later calculation reads.  Definitions only. *)
From Coq Require Import QArith List Bool Arith.
From Feems Require Import Base.Num Model.Bus Model.ElecBalance Model.Shaft.
Import ListNotations.
Open Scope Q_scope.

(* ------------------------------------------------------------------------------------------ *)
(* electric system                                                                             *)

Record mcomp := {
  m_c : comp;                      (* switchboard, kind, rating: fixed at construction *)
  m_status : list bool;
  m_lsm : list Q;
  m_pin : list num;                (* power_input (electrical); may hold inf/nan after a balance on a bus without capacity *)
  m_pout : list num }.             (* power_output *)

Record estate := { e_comps : list mcomp; e_edges : list edge; e_swbs : list nat; e_sts : list (list bool) }.

Inductive eop :=
| ESetStatus (j : nat) (l : list bool)
| ESetLsm (j : nat) (l : list Q)
| ESetPin (j : nat) (l : list Q)
| ESetBreakers (sts : list (list bool))
| EBalance
| EQuery.

Definition with_status (l : list bool) (m : mcomp) : mcomp :=
  {| m_c := m_c m; m_status := l; m_lsm := m_lsm m; m_pin := m_pin m; m_pout := m_pout m |}.
Definition with_lsm (l : list Q) (m : mcomp) : mcomp :=
  {| m_c := m_c m; m_status := m_status m; m_lsm := l; m_pin := m_pin m; m_pout := m_pout m |}.
Definition with_pin (l : list num) (m : mcomp) : mcomp :=
  {| m_c := m_c m; m_status := m_status m; m_lsm := m_lsm m; m_pin := l; m_pout := m_pout m |}.
Definition with_pout (l : list num) (m : mcomp) : mcomp :=
  {| m_c := m_c m; m_status := m_status m; m_lsm := m_lsm m; m_pin := m_pin m; m_pout := l |}.

Fixpoint update {A} (j : nat) (f : A -> A) (l : list A) : list A :=
  match l, j with
  | [], _ => []
  | a :: r, O => f a :: r
  | a :: r, S j' => a :: update j' f r
  end.

Definition with_comps (cs : list mcomp) (s : estate) : estate :=
  {| e_comps := cs; e_edges := e_edges s; e_swbs := e_swbs s; e_sts := e_sts s |}.

Definition is_consumer (m : mcomp) : bool := match c_kind (m_c m) with Consumer => true | _ => false end.
Definition m_is_ps (m : mcomp) : bool := is_ps (c_kind (m_c m)).

(* number of points of a calculation: the size of the consumers' input series *)
Definition npoints (s : estate) : nat :=
  match find is_consumer (e_comps s) with Some m => length (m_pin m) | None => 0%nat end.

(* validate_inputs_before_power_balance_calculation: sharing mode zero over the whole series =>
   power_input := zeros; otherwise the stored input is used as it is *)
Definition all_zero (l : list Q) : bool := qzero (qsum l).
Definition validate_comp (n : nat) (m : mcomp) : mcomp :=
  if m_is_ps m && all_zero (m_lsm m) then with_pin (repeat (Fin 0) n) m else m.

(* the series a balance reads have n entries (otherwise the implementation raises) and the inputs it
   reads are finite (nan * 0 = nan is outside the model) *)
Definition is_fin (x : num) : bool := match x with Fin _ => true | NonFinite => false end.
Definition comp_ready (n : nat) (m : mcomp) : bool :=
  match c_kind (m_c m) with
  | Consumer => Nat.eqb (length (m_pin m)) n && forallb is_fin (m_pin m)
  | Source => Nat.eqb (length (m_status m)) n && Nat.eqb (length (m_lsm m)) n
  | _ => Nat.eqb (length (m_status m)) n && Nat.eqb (length (m_lsm m)) n &&
         Nat.eqb (length (m_pin m)) n && forallb is_fin (m_pin m)
  end.

(* what the balance reads of a component (a source's power_input is never read) *)
Definition to_cin (m : mcomp) : comp * cin :=
  (m_c m, {| i_status := m_status m; i_lsm := m_lsm m;
             i_pin := match c_kind (m_c m) with Source => [] | _ => map numq (m_pin m) end |}).

Definition column (j : nat) (rows : list (list num)) : list num := map (fun r => nth j r NonFinite) rows.

Section Electric.
  (* the machine's conversion from electrical input to power output (C06's), per component *)
  Variable conv : nat -> num -> num.

  Definition write_back (rows : list (list num)) (j : nat) (m : mcomp) : mcomp :=
    match c_kind (m_c m) with
    | Source => with_pout (column j rows) m
    | Consumer => m
    | _ => with_pout (map (conv j) (column j rows)) (with_pin (column j rows) m)
    end.

  Fixpoint mapi_from {A B} (k : nat) (f : nat -> A -> B) (l : list A) : list B :=
    match l with [] => [] | a :: r => f k a :: mapi_from (S k) f r end.
  Definition mapi {A B} (f : nat -> A -> B) (l : list A) : list B := mapi_from 0 f l.

  Definition ebalance (s : estate) : option estate :=
    let n := npoints s in
    let cs := map (validate_comp n) (e_comps s) in
    if forallb (comp_ready n) cs && Nat.eqb (length (e_sts s)) n then
      let rows := balance (map to_cin cs) (e_edges s) (e_swbs s) (e_sts s) n in
      Some (with_comps (mapi (write_back rows) cs) s)
    else None.

  Definition estep (s : estate) (o : eop) : option estate :=
    match o with
    | ESetStatus j l => Some (with_comps (update j (with_status l) (e_comps s)) s)
    | ESetLsm j l => Some (with_comps (update j (with_lsm l) (e_comps s)) s)
    | ESetPin j l => Some (with_comps (update j (with_pin (map Fin l)) (e_comps s)) s)
    | ESetBreakers sts => Some {| e_comps := e_comps s; e_edges := e_edges s; e_swbs := e_swbs s; e_sts := sts |}
    | EBalance => ebalance s
    | EQuery => Some s
    end.

  Fixpoint erun (s : estate) (ops : list eop) : option estate :=
    match ops with
    | [] => Some s
    | o :: r => match estep s o with Some s' => erun s' r | None => None end
    end.
End Electric.

(* what is observed of a calculation: the power every source delivers, the input and output of every
   PTI/PTO and storage unit *)
Definition eobs_comp (m : mcomp) : list num * list num :=
  match c_kind (m_c m) with
  | Consumer => ([], [])
  | Source => ([], m_pout m)
  | _ => (m_pin m, m_pout m)
  end.
Definition eobs (s : estate) : list (list num * list num) := map eobs_comp (e_comps s).

(* two objects of the same plant *)
Definition same_eplant (s1 s2 : estate) : Prop :=
  map m_c (e_comps s1) = map m_c (e_comps s2) /\ e_edges s1 = e_edges s2 /\ e_swbs s1 = e_swbs s2.

(* a complete supply: for every component its status and sharing series and its input -- the input may
   be left out for a PTI/PTO or storage unit that balances over the whole series -- and the breaker
   matrix *)
Record csupply := { cs_status : list bool; cs_lsm : list Q; cs_pin : option (list Q) }.
Definition supply_comp (j : nat) (c : csupply) : list eop :=
  [ESetStatus j (cs_status c); ESetLsm j (cs_lsm c)] ++
  match cs_pin c with Some l => [ESetPin j l] | None => [] end.
Fixpoint supply_from (k : nat) (l : list csupply) : list eop :=
  match l with [] => [] | c :: r => supply_comp k c ++ supply_from (S k) r end.
Definition supply (l : list csupply) (sts : list (list bool)) : list eop :=
  supply_from 0 l ++ [ESetBreakers sts].
(* the input may only be omitted where it is not read (sources) or where validate will reset it *)
Definition supply_ok (kinds : list kind) (l : list csupply) : Prop :=
  Forall2 (fun k c => cs_pin c = None -> k = Source \/ (is_ps k = true /\ all_zero (cs_lsm c) = true)) kinds l.

(* equivalence of observations up to == on the rationals *)
Definition num_eqv (a b : num) : Prop :=
  match a, b with Fin x, Fin y => x == y | NonFinite, NonFinite => True | _, _ => False end.
Definition obs_eqv (o1 o2 : list (list num * list num)) : Prop :=
  Forall2 (fun a b => Forall2 num_eqv (fst a) (fst b) /\ Forall2 num_eqv (snd a) (snd b)) o1 o2.

(* ------------------------------------------------------------------------------------------ *)
(* shaft line                                                                                  *)

Record meng := { g_rated : Q; g_status : list bool; g_pout : list Q }.
Record mpti := { p_shaft : list Q; p_full : list bool; p_elec : list Q }.
Record lstate := { l_lds : list (list Q); l_machine : option mpti; l_engs : list meng }.

Inductive lop :=
| LSetLoad (j : nat) (l : list Q)
| LSetEngineStatus (j : nat) (l : list bool)
| LSetPtiShaft (l : list Q)
| LSetFull (l : list bool)
| LBalance
| LQuery.

Definition line_at (s : lstate) (t : nat) : line :=
  {| l_loads := map (fun l => nth t l 0) (l_lds s);
     l_pti := match l_machine s with
              | Some p => Some (nth t (p_shaft p) 0, nth t (p_full p) false)
              | None => None end;
     l_engines := map (fun g => {| e_rated := g_rated g; e_on := nth t (g_status g) false |}) (l_engs s) |}.

Definition lpoints (s : lstate) : nat := match l_lds s with l :: _ => length l | [] => 0%nat end.

Section ShaftLine.
  Variable to_elec : Q -> Q.       (* the PTI/PTO's electrical power from its shaft power (C06's) *)

  Definition lbalance (s : lstate) : lstate :=
    let n := lpoints s in
    let at_ := line_at s in
    {| l_lds := l_lds s;
       l_machine := match l_machine s with
                    | Some p => let sh := map (fun t => pti_out (at_ t)) (seq 0 n) in
                                Some {| p_shaft := sh; p_full := p_full p; p_elec := map to_elec sh |}
                    | None => None end;
       l_engs := map (fun g =>
                   let e t := {| e_rated := g_rated g; e_on := nth t (g_status g) false |} in
                   {| g_rated := g_rated g;
                      g_status := map (fun t => status_after (at_ t) (e t)) (seq 0 n);
                      g_pout := map (fun t => engine_out (at_ t) (e t)) (seq 0 n) |}) (l_engs s) |}.

  Definition lstep (s : lstate) (o : lop) : lstate :=
    match o with
    | LSetLoad j l => {| l_lds := update j (fun _ => l) (l_lds s); l_machine := l_machine s; l_engs := l_engs s |}
    | LSetEngineStatus j l =>
        {| l_lds := l_lds s; l_machine := l_machine s;
           l_engs := update j (fun g => {| g_rated := g_rated g; g_status := l; g_pout := g_pout g |}) (l_engs s) |}
    | LSetPtiShaft l =>
        {| l_lds := l_lds s;
           l_machine := match l_machine s with
                        | Some p => Some {| p_shaft := l; p_full := p_full p; p_elec := p_elec p |} | None => None end;
           l_engs := l_engs s |}
    | LSetFull l =>
        {| l_lds := l_lds s;
           l_machine := match l_machine s with
                        | Some p => Some {| p_shaft := p_shaft p; p_full := l; p_elec := p_elec p |} | None => None end;
           l_engs := l_engs s |}
    | LBalance => lbalance s
    | LQuery => s
    end.
  Definition lrun (s : lstate) (ops : list lop) : lstate := fold_left lstep ops s.
End ShaftLine.

(* a complete supply for a shaft line: every load, every engine status series, the PTI/PTO's shaft power and
   full-PTI flags *)
Fixpoint lsupply_loads (k : nat) (ls : list (list Q)) : list lop :=
  match ls with [] => [] | l :: r => LSetLoad k l :: lsupply_loads (S k) r end.
Fixpoint lsupply_status (k : nat) (ls : list (list bool)) : list lop :=
  match ls with [] => [] | l :: r => LSetEngineStatus k l :: lsupply_status (S k) r end.
Definition lsupply (loads : list (list Q)) (sts : list (list bool)) (shaft : list Q) (full : list bool) : list lop :=
  lsupply_loads 0 loads ++ lsupply_status 0 sts ++ [LSetPtiShaft shaft; LSetFull full].
Definition same_lplant (s1 s2 : lstate) : Prop :=
  length (l_lds s1) = length (l_lds s2) /\ map g_rated (l_engs s1) = map g_rated (l_engs s2) /\
  (l_machine s1 = None <-> l_machine s2 = None).

(* observed: every engine's output and status, the PTI/PTO's two powers *)
Definition lobs (s : lstate) : list (list Q * list bool) * option (list Q * list Q) :=
  (map (fun g => (g_pout g, g_status g)) (l_engs s),
   match l_machine s with Some p => Some (p_shaft p, p_elec p) | None => None end).

(* ------------------------------------------------------------------------------------------ *)
(* hybrid propulsion system: an electric system and one shaft line that share ONE PTI/PTO machine --
   component j of the electric system is the machine of the line (HybridPropulsionSystem requires the
   same object on both sides).  Its electrical power is the component's power_input, its shaft power the
   component's power_output; the line's p_elec / p_shaft are the same two fields seen from the shaft side.
   do_power_balance_calculation = electric balance ; shaft balance ; when any step is in full-PTI mode the
   electric balance and then the shaft balance again. *)
Record hstate := { h_elec : estate; h_line : lstate; h_j : nat }.

Definition shared_comp (s : hstate) : option mcomp := nth_error (e_comps (h_elec s)) (h_j s).

(* the shaft side reads the machine's shaft power from the shared object *)
Definition to_line (s : hstate) : hstate :=
  match shared_comp s, l_machine (h_line s) with
  | Some m, Some p =>
      {| h_elec := h_elec s;
         h_line := {| l_lds := l_lds (h_line s);
                      l_machine := Some {| p_shaft := map numq (m_pout m); p_full := p_full p; p_elec := map numq (m_pin m) |};
                      l_engs := l_engs (h_line s) |};
         h_j := h_j s |}
  | _, _ => s
  end.
(* ... and writes both powers back into it *)
Definition to_elec_side (s : hstate) : hstate :=
  match l_machine (h_line s) with
  | Some p =>
      {| h_elec := with_comps (update (h_j s) (fun m => with_pout (map Fin (p_shaft p)) (with_pin (map Fin (p_elec p)) m))
                                      (e_comps (h_elec s))) (h_elec s);
         h_line := h_line s; h_j := h_j s |}
  | None => s
  end.

Definition any_full (s : hstate) : bool :=
  match l_machine (h_line s) with Some p => existsb (fun b => b) (p_full p) | None => false end.

Section HybridMachine.
  Variable conv : nat -> num -> num.      (* shaft power from electrical power, per component (C06) *)
  Variable to_elec : Q -> Q.              (* electrical power from shaft power (C06) *)

  Definition hbalance (s : hstate) : option hstate :=
    match ebalance conv (h_elec s) with
    | None => None
    | Some e1 =>
        let s1 := to_line {| h_elec := e1; h_line := h_line s; h_j := h_j s |} in
        let s2 := to_elec_side {| h_elec := h_elec s1; h_line := lbalance to_elec (h_line s1); h_j := h_j s |} in
        if any_full s2 then
          match ebalance conv (h_elec s2) with
          | None => None
          | Some e3 =>
              (* ... and the shaft balance once more (fix D-22), so that the engines follow the shaft power the second
                 electric pass wrote *)
              let s3 := to_line {| h_elec := e3; h_line := h_line s2; h_j := h_j s |} in
              Some (to_elec_side {| h_elec := h_elec s3; h_line := lbalance to_elec (h_line s3); h_j := h_j s |})
          end
        else Some s2
    end.
End HybridMachine.
