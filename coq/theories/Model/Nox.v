(* Model/Nox.v — IMO Regulation 13 NOx limits as selected by Engine._setup_nox / COGAS._setup_nox
   (component_mechanical.py) and the species-rate / mass formulas.  The limit needs n^b with a
   non-integer exponent, so this file (and only the C09 development) works over R. *)
From Coq Require Import Reals QArith List.
From Feems Require Import Base.Num.
Import ListNotations.

Open Scope R_scope.
(* tier index: 0 = Tier I, 1 = Tier II, 2 = Tier III *)
Definition tier_c (t : nat) : R := match t with O => 17 | S O => 144 / 10 | _ => 34 / 10 end.
Definition tier_a (t : nat) : R := match t with O => 45 | S O => 44 | _ => 9 end.
Definition tier_b (t : nat) : R := match t with O => - (2 / 10) | S O => - (23 / 100) | _ => - (2 / 10) end.
Definition slow_max : R := 130.

(* constant up to 130 rpm, power law above (the code tests rated_speed > 130) *)
Definition limit (t : nat) (n : R) : R :=
  if Rle_dec n slow_max then tier_c t else tier_a t * Rpower n (tier_b t).
Close Scope R_scope.

(* species rate g/s = g/kWh(load) x kW / 3600 and mass kg = sum rate x interval / 1000, over Q for
   any curve function (the curve value is whatever the engine's curve gives at that load) *)
Open Scope Q_scope.
Definition rate_g_per_s (g_per_kwh p_kw : Q) : Q := g_per_kwh * (p_kw / 3600).
Fixpoint mass_kg (g_per_kwh p_kw dt : list Q) : Q :=
  match g_per_kwh, p_kw, dt with
  | g :: gs, p :: ps, d :: ds => rate_g_per_s g p * d / 1000 + mass_kg gs ps ds
  | _, _, _ => 0
  end.
Fixpoint brake_energy_kwh (p_kw dt : list Q) : Q :=
  match p_kw, dt with p :: ps, d :: ds => p * d / 3600 + brake_energy_kwh ps ds | _, _ => 0 end.
