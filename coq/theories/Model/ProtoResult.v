(* Model/ProtoResult.v — FEEMSResultConverter (MachSysS/convert_feems_result_to_proto.py): the export
   of a result to the FeemsResult message.  Field names are strings; which names exist on either side
   is regenerated from the code on every run (build/gen/Gen_columns.v).  Definitions only. *)
From Coq Require Import QArith String List Bool Arith.
From Feems Require Import Base.Num Model.FuelRecord Model.Result.
Import ListNotations.
Open Scope Q_scope.

Fixpoint smem (x : string) (l : list string) : bool :=
  match l with [] => false | y :: r => String.eqb x y || smem x r end.
Fixpoint sassoc {A} (x : string) (l : list (string * A)) : option A :=
  match l with [] => None | (k, v) :: r => if String.eqb x k then Some v else sassoc x r end.

(* the exported message, as far as the property speaks of it *)
Record msg := {
  m_scalars : list (string * Q);       (* the double fields set by name, duration_s included *)
  m_fuel : frec;                       (* multi_fuel_consumption_total_kg.fuels: (kind, mass) *)
  m_co2 : list Q;                      (* well_to_tank, tank_to_wake, well_to_wake, ttw w/o slip, wtw w/o slip *)
  m_nox : Q;
  m_rows : nat }.                      (* number of detail records *)

(* key-driven copy: a scalar field is exported iff the message has a field of that name and the value
   is set (duration may be unset) *)
Definition export_scalars (proto_fields : list string) (named : list (string * option Q)) : list (string * Q) :=
  flat_map (fun nv => match snd nv with
                      | Some v => if smem (fst nv) proto_fields then [(fst nv, v)] else []
                      | None => [] end) named.

Definition nox_key : nat := 2.          (* EmissionType.NOX *)
Definition export (proto_fields : list string) (field_names : list string) (r : res) : msg :=
  {| m_scalars := export_scalars proto_fields
                    (("duration_s"%string, r_duration r) :: combine field_names (map Some (r_scalars r)));
     m_fuel := r_fuel r;
     m_co2 := match r_co2 r with
              | [ttw; wtt; noslip] => [wtt; ttw; ttw + wtt; noslip; noslip + wtt]
              | _ => [] end;
     m_nox := species_of nox_key (r_species r);
     m_rows := match r_detail r with Some l => length l | None => 0%nat end |}.

(* time base of the per-component series: the given epochs, else cumulative intervals, else k * dt *)
Inductive interval := DtScalar (d : Q) | DtSeries (l : list Q).
Fixpoint cumsum (acc : Q) (l : list Q) : list Q :=
  match l with [] => [] | x :: r => (acc + x) :: cumsum (acc + x) r end.
Definition time_base (epochs : option (list Q)) (dt : interval) (n : nat) : list Q :=
  match epochs with
  | Some e => firstn n e
  | None => match dt with
            | DtScalar d => map (fun k => inject_Z (Z.of_nat k) * d) (seq 0 n)
            | DtSeries l => cumsum 0 l
            end
  end.
