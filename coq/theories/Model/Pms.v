(* Model/Pms.v — load-dependent start/stop (RunFeemsSim/pms_basic.py: min_load_table_dict,
   PmsLoadTable.on_pattern; feems/runsimulation.py: _ideal_number_of_gensets_on).  Definitions only. *)
From Coq Require Import QArith Qround ZArith List Bool Arith.
From Feems Require Import Base.Num.
Import ListNotations.
Open Scope Q_scope.

(* all on/off patterns, itertools.product([False, True], repeat=n) *)
Fixpoint patterns (n : nat) : list (list bool) :=
  match n with O => [[]] | S k => map (cons false) (patterns k) ++ map (cons true) (patterns k) end.
Fixpoint capq (rs : list Q) (p : list bool) : Q :=
  match rs, p with r :: rs', b :: p' => (if b then r else 0) + capq rs' p' | _, _ => 0 end.

Definition entry := (Q * list bool)%type.

(* Python's tuple order on (load, pattern): lexicographic, False < True *)
Fixpoint blt (p q : list bool) : bool :=
  match p, q with
  | a :: p', b :: q' => if Bool.eqb a b then blt p' q' else negb a
  | [], _ :: _ => true
  | _, _ => false
  end.
Definition ple (x y : entry) : bool :=
  match Qcompare (fst x) (fst y) with
  | Lt => true | Gt => false | Eq => negb (blt (snd y) (snd x)) end.
Fixpoint insert (x : entry) (l : list entry) : list entry :=
  match l with [] => [x] | y :: r => if ple x y then x :: l else y :: insert x r end.
Definition sortp (l : list entry) : list entry := fold_right insert [] l.

(* the capacity-sorted list of (allowed load, pattern) *)
Definition sorted_entries (rs : list Q) (f : Q) : list entry :=
  sortp (map (fun p => (f * capq rs p, p)) (patterns (length rs))).

(* ---- (a) the table exactly as the code builds and reads it ---- *)
(* dict(zip(loads[:-1], patterns[1:])) with last key wins, then sorted(items), np.digitize(x, bins[1:]) *)
Fixpoint zip_shift (l : list entry) : list entry :=
  match l with (c, _) :: (((_, p) :: _) as r) => (c, p) :: zip_shift r | _ => [] end.
Fixpoint dict_put (k : Q) (v : list bool) (d : list entry) : list entry :=
  match d with
  | [] => [(k, v)]
  | (k', v') :: r => if Qeq_bool k k' then (k', v) :: r else (k', v') :: dict_put k v r
  end.
Definition table (rs : list Q) (f : Q) : list entry :=
  sortp (fold_left (fun d kv => dict_put (fst kv) (snd kv) d) (zip_shift (sorted_entries rs f)) []).
Definition digitize (x : Q) (bins : list Q) : nat := length (filter (fun b => Qle_bool b x) bins).
Definition on_pattern_table (rs : list Q) (f : Q) (x : Q) : list bool :=
  let t := table rs f in nth (digitize x (map fst (tl t))) (map snd t) [].

(* ---- (b) the same choice as a direct recursion over the capacity-sorted list ---- *)
Section Sel.
  Variable V : Type.
  Variable g : V -> Q.
  Fixpoint sel (S : list V) (x : Q) : option V :=
    match S with
    | a :: ((b :: rest) as tl) =>
        match rest with
        | [] => Some b
        | _ => if Qle_bool (g b) x || Qeq_bool (g b) (g a) then sel tl x else Some b
        end
    | _ => None
    end.
End Sel.
Arguments sel {V} g S x.

Definition select (rs : list Q) (f : Q) (x : Q) : option entry :=
  sel fst (sorted_entries rs f) x.

(* ---- equal-size variant: number of gensets = ceil(load / (rating * fraction)), at least 1, at most N ---- *)
Definition ideal_number (N : Z) (r f x : Q) : Z :=
  Z.min (if Qle_bool x 0 then 1%Z else Qceiling (x / (r * f))) N.
