(* Model/Result.v — FEEMSResult.__merge (feems/types_for_feems.py): sum_with_freeze_duration and
   sum_and_extend_duration.  Definitions only. *)
From Coq Require Import QArith List Bool Arith.
From Feems Require Import Base.Num Model.FuelRecord.
Import ListNotations.
Open Scope Q_scope.

Record res := {
  r_duration : option Q;
  r_load : option Q;                       (* load_ratio_genset *)
  r_scalars : list Q;                      (* the extensive float fields, in declaration order *)
  r_species : option (list (nat * Q));     (* total_emission_kg: None or a species map *)
  r_fuel : frec;                           (* multi_fuel_consumption_total_kg *)
  r_co2 : list Q;                          (* GHGEmissions: tank-to-wake, well-to-tank, ttw without slip *)
  r_detail : option (list nat)             (* detail_result: None or the rows (row ids) *)
}.

Definition empty_res (nscal : nat) : res :=
  {| r_duration := None; r_load := None; r_scalars := repeat 0 nscal; r_species := None;
     r_fuel := []; r_co2 := [0; 0; 0]; r_detail := None |}.

Fixpoint vadd (a b : list Q) : list Q :=
  match a, b with x :: a', y :: b' => (x + y) :: vadd a' b' | _, _ => [] end.

Fixpoint lookup_s (k : nat) (m : list (nat * Q)) : option Q :=
  match m with [] => None | (k', v) :: r => if Nat.eqb k' k then Some v else lookup_s k r end.
Definition species_of (k : nat) (m : option (list (nat * Q))) : Q :=
  match m with Some l => match lookup_s k l with Some v => v | None => 0 end | None => 0 end.
Definition getd (k : nat) (m : list (nat * Q)) : Q := match lookup_s k m with Some v => v | None => 0 end.
(* union of the keys: the left operand's keys, then the right operand's new keys; absent = 0 *)
Definition merge_species (a b : list (nat * Q)) : list (nat * Q) :=
  map (fun e => (fst e, snd e + getd (fst e) b)) a
  ++ map (fun e => (fst e, 0 + snd e)) (filter (fun e => match lookup_s (fst e) a with Some _ => false | None => true end) b).

Definition opt_merge {A} (f : A -> A -> A) (a b : option A) : option A :=
  match a, b with None, _ => b | _, None => a | Some x, Some y => Some (f x y) end.

Definition qmaxq (a b : Q) : Q := if Qle_bool a b then b else a.

Inductive outcome := Merged (r : res) | AssertionFailed | DivisionByZero.

Definition merge (freeze : bool) (a b : res) : outcome :=
  let load :=
    match r_load a, r_load b with
    | None, l => Some l | l, None => Some l
    | Some la, Some lb =>
        if freeze then Some (Some (qmaxq la lb))
        else match r_duration a, r_duration b with
             | None, _ => Some (Some lb)
             | _, None => Some (Some la)
             | Some da, Some db => if qzero (da + db) then None
                                   else Some (Some ((la * da + lb * db) / (da + db)))
             end
    end in
  let dur :=
    match r_duration a, r_duration b with
    | None, d => Some d | d, None => Some d
    | Some da, Some db => if freeze then (if Qeq_bool da db then Some (Some da) else None) else Some (Some (da + db))
    end in
  match dur, load with
  | None, _ => AssertionFailed
  | _, None => DivisionByZero
  | Some d, Some l =>
      Merged {| r_duration := d; r_load := l; r_scalars := vadd (r_scalars a) (r_scalars b);
                r_species := opt_merge merge_species (r_species a) (r_species b);
                r_fuel := add (r_fuel a) (r_fuel b); r_co2 := vadd (r_co2 a) (r_co2 b);
                r_detail := opt_merge (@app nat) (r_detail a) (r_detail b) |}
  end.
