(* Model/Storage.v — Battery / SuperCapacitor and their ...System variants (component_electric.py):
   terminal <-> cell power, stored energy, state of charge.  Definitions only. *)
From Coq Require Import QArith Qabs List Bool.
From Feems Require Import Base.Num Model.Component.
Import ListNotations.
Open Scope Q_scope.

Record store := { eff_c : Q; eff_d : Q }.

(* terminal power -> power credited to the cell: charging x eff, discharging / eff *)
Definition cell_from_terminal (s : store) (p : Q) : Q :=
  if Qle_bool p 0 then (if qzero p then p else p / eff_d s) else p * eff_c s.
(* cell power -> terminal power *)
Definition terminal_from_cell (s : store) (p : Q) : Q :=
  if Qle_bool p 0 then (if qzero p then p else p * eff_d s) else p / eff_c s.

(* behind a converter: converter first on the way in, last on the way out *)
Definition cell_from_terminal_sys (s : store) (rated : Q) (f : Q -> Q) (p : Q) : Q :=
  cell_from_terminal s (out_from_in rated f p).
Definition terminal_from_cell_sys (s : store) (rated : Q) (f : Q -> Q) (scalar : bool) (p : Q) : Q :=
  let t := terminal_from_cell s p in
  if scalar then in_from_out_scalar rated f t else in_from_out_elem rated f t.

(* stored energy (kJ): interval-weighted sum of the cell power; accumulated series 0 :: running sums *)
Fixpoint energy_kj (cell dt : list Q) : Q :=
  match cell, dt with p :: ps, d :: ds => p * d + energy_kj ps ds | _, _ => 0 end.
Fixpoint running (acc : Q) (cell dt : list Q) : list Q :=
  match cell, dt with p :: ps, d :: ds => (acc + p * d) :: running (acc + p * d) ps ds | _, _ => [] end.
Definition accumulated_kj (cell dt : list Q) : list Q := 0 :: running 0 cell dt.

(* state of charge: battery capacity in kWh, supercapacitor capacity in Wh *)
Definition soc_battery (soc0 cap_kwh e_kj : Q) : Q := e_kj / 3600 / cap_kwh + soc0.
Definition soc_supercap (soc0 cap_wh e_kj : Q) : Q := e_kj / (36 # 10) / cap_wh + soc0.
