(* Model/FuelRecord.v — FuelConsumption records (feems/fuel.py): __add__, __mul__,
   fuel_by_mass_fraction, total.  Scalar masses; a series record is the list of its per-step scalar
   records (every operation of the code is element-wise in time).  Definitions only.
   A fuel kind (type, origin, specification) is encoded as one number by the harness. *)
From Coq Require Import QArith List Bool Arith.
From Feems Require Import Base.Num.
Import ListNotations.
Open Scope Q_scope.

Definition frec := list (nat * Q).     (* entries in list order: (kind, mass) *)

Definition total (r : frec) : Q := qsum (map snd r).
Definition mass_of (k : nat) (r : frec) : Q :=
  qsum (map snd (filter (fun e => Nat.eqb (fst e) k) r)).

(* first entry of kind k in b whose index is not yet used *)
Fixpoint find_unused (k : nat) (b : frec) (used : list nat) (i : nat) : option (nat * Q) :=
  match b with
  | [] => None
  | (k', m) :: r => if Nat.eqb k' k && negb (existsb (Nat.eqb i) used) then Some (i, m)
                    else find_unused k r used (S i)
  end.

(* the loop over the left operand *)
Fixpoint add_left (a b : frec) (used : list nat) : frec * list nat :=
  match a with
  | [] => ([], used)
  | (k, m) :: a' =>
      match find_unused k b used 0 with
      | Some (i, mb) => let (out, u) := add_left a' b (i :: used) in ((k, m + mb) :: out, u)
      | None => let (out, u) := add_left a' b used in ((k, m) :: out, u)
      end
  end.
Fixpoint unused_of (b : frec) (used : list nat) (i : nat) : frec :=
  match b with
  | [] => []
  | e :: r => if existsb (Nat.eqb i) used then unused_of r used (S i) else e :: unused_of r used (S i)
  end.
Definition add (a b : frec) : frec :=
  match a with
  | [] => b
  | _ => let (out, used) := add_left a b [] in out ++ unused_of b used 0
  end.

Definition scale (k : Q) (r : frec) : frec := map (fun e => (fst e, snd e * k)) r.

(* fuel_by_mass_fraction.  scalar record: empty mix when the total is zero.  One step of a series
   record: all fractions zero when the total of that step is zero (the kinds are kept). *)
Definition fractions_scalar (r : frec) : frec :=
  if qzero (total r) then [] else map (fun e => (fst e, snd e / total r)) r.
Definition fractions_step (r : frec) : frec :=
  if qzero (total r) then map (fun e => (fst e, 0)) r else map (fun e => (fst e, snd e / total r)) r.

(* equality of records up to list order: same mass per kind *)
Definition req (a b : frec) : Prop := forall k, mass_of k a == mass_of k b.

(* ---- the environment machine for histories on shared operands ---- *)
Inductive op :=
| OAdd (i j : nat) | OScale (i : nat) (k : Q) | OFrac (i : nat) | OQuery (i : nat).
Definition getr (env : list frec) (i : nat) : frec := nth i env [].
(* series_mode: the record is one step of a series record (affects only OFrac) *)
Definition step (series_mode : bool) (env : list frec) (o : op) : list frec :=
  match o with
  | OAdd i j => env ++ [add (getr env i) (getr env j)]
  | OScale i k => env ++ [scale k (getr env i)]
  | OFrac i => env ++ [if series_mode then fractions_step (getr env i) else fractions_scalar (getr env i)]
  | OQuery _ => env
  end.
Definition run (series_mode : bool) (env : list frec) (ops : list op) : list frec :=
  fold_left (step series_mode) ops env.
