(* Model/SysResult.v — accumulation of per-component results into switchboard / shaft-line results
   and into the system result (node.py: Switchboard.get_fuel_energy_consumption_running_time,
   ShaftLine.get_fuel_calculation_running_hours; system_model.py: the system accumulators).
   The per-component figures themselves are C07/C08/C09/C17's; here they are any `res`.
   Definitions only. *)
From Coq Require Import QArith List Bool Arith.
From Feems Require Import Base.Num Model.FuelRecord Model.Result.
Import ListNotations.
Open Scope Q_scope.

(* res = res.sum_with_freeze_duration(res_comp) for every component, in list order *)
Definition accumulate (start : res) (l : list res) : outcome :=
  fold_left (fun acc r => match acc with Merged a => merge true a r | e => e end) l (Merged start).

(* the accumulator a switchboard / shaft line starts from: nothing set but an empty detail table *)
Definition group_start (n : nat) : res :=
  {| r_duration := None; r_load := None; r_scalars := repeat 0 n; r_species := None;
     r_fuel := []; r_co2 := [0; 0; 0]; r_detail := Some [] |}.

Definition set_duration (d : Q) (r : res) : res :=
  {| r_duration := Some d; r_load := r_load r; r_scalars := r_scalars r; r_species := r_species r;
     r_fuel := r_fuel r; r_co2 := r_co2 r; r_detail := r_detail r |}.

(* one switchboard / shaft line: accumulate its components, then stamp the duration of the run;
   rows = ids of the components that get a detail row *)
Definition group_total (n : nat) (dur : Q) (comps : list res) (rows : list nat) : outcome :=
  match accumulate (group_start n) comps with
  | Merged r => Merged (set_duration dur {| r_duration := r_duration r; r_load := r_load r; r_scalars := r_scalars r;
                                            r_species := r_species r; r_fuel := r_fuel r; r_co2 := r_co2 r;
                                            r_detail := Some rows |})
  | e => e
  end.

Fixpoint all_merged (l : list outcome) : option (list res) :=
  match l with
  | [] => Some []
  | Merged r :: t => match all_merged t with Some rs => Some (r :: rs) | None => None end
  | _ :: _ => None
  end.

(* the system: accumulate the group results *)
Definition system_total (n : nat) (groups : list outcome) : outcome :=
  match all_merged groups with
  | Some rs => accumulate (group_start n) rs
  | None => AssertionFailed
  end.

(* the figures of a result, as numbers (fuel per kind, species with absent = 0) *)
Inductive figure := FScalar (i : nat) | FFuel (k : nat) | FSpecies (k : nat) | FCo2 (i : nat).
Definition fig (f : figure) (r : res) : Q :=
  match f with
  | FScalar i => nth i (r_scalars r) 0
  | FFuel k => mass_of k (r_fuel r)
  | FSpecies k => species_of k (r_species r)
  | FCo2 i => nth i (r_co2 r) 0
  end.
Definition wf_res (n : nat) (r : res) : Prop := length (r_scalars r) = n /\ length (r_co2 r) = 3%nat.

(* consecutive periods: res = res.sum_and_extend_duration(res_part) *)
Definition accumulate_periods (start : res) (l : list res) : outcome :=
  fold_left (fun acc r => match acc with Merged a => merge false a r | e => e end) l (Merged start).

(* interval-weighted integration (IntegrationMethod.sum_with_time): dot product of rate and interval *)
Definition integrate {X} (g : X -> Q) (xs : list X) (dt : list Q) : Q := qdot (map g xs) dt.
