(* Proofs/NoxProofs.v — over R, with Coquelicot/Interval for the transcendental facts *)
From Coq Require Import QArith List Lqa Reals Lra.
From Interval Require Import Tactic.
From Feems Require Import Base.Num Model.Nox.
Import ListNotations.
Open Scope R_scope.

Lemma Rpower_pos x y : 0 < Rpower x y.
Proof. unfold Rpower. apply exp_pos. Qed.

(* x^b with b < 0 is non-increasing on the positive reals *)
Lemma Rpower_neg_decreasing b x y : b < 0 -> 0 < x <= y -> Rpower y b <= Rpower x b.
Proof.
  intros Hb [Hx Hxy].
  assert (Hc : 0 <= - b) by lra. remember (- b) as c eqn:Ec.
  replace b with (- c) by (subst c; ring). rewrite !Rpower_Ropp.
  apply Rinv_le_contravar; [apply Rpower_pos|]. apply Rle_Rpower_l; [exact Hc|lra].
Qed.

Lemma tier_a_pos t : 0 < tier_a t.
Proof. destruct t as [|[|t]]; cbn; lra. Qed.
Lemma tier_b_neg t : tier_b t < 0.
Proof. destruct t as [|[|t]]; cbn; lra. Qed.
Lemma tier_c_pos t : 0 < tier_c t.
Proof. destruct t as [|[|t]]; cbn; lra. Qed.

Theorem limit_positive t n : 0 < limit t n.
Proof.
  unfold limit. destruct (Rle_dec n slow_max); [apply tier_c_pos|].
  apply Rmult_lt_0_compat; [apply tier_a_pos|apply Rpower_pos].
Qed.

(* at 130 rpm the power law does not exceed the constant, and differs from it by less than the
   regulation's own one-decimal rounding *)
Lemma junction t : tier_a t * Rpower 130 (tier_b t) <= tier_c t /\
                   tier_c t - tier_a t * Rpower 130 (tier_b t) <= 5 / 100.
Proof. destruct t as [|[|t]]; cbn [tier_a tier_b tier_c]; split; interval. Qed.

Theorem limit_nonincreasing t n m : 0 < n <= m -> limit t m <= limit t n.
Proof.
  intros [Hn Hnm]. unfold limit, slow_max.
  destruct (Rle_dec m 130) as [Hm|Hm]; destruct (Rle_dec n 130) as [Hn'|Hn']; try lra.
  - (* n <= 130 < m *)
    apply Rle_trans with (tier_a t * Rpower 130 (tier_b t)); [|apply junction].
    apply Rmult_le_compat_l; [apply Rlt_le, tier_a_pos|].
    apply Rpower_neg_decreasing; [apply tier_b_neg|lra].
  - apply Rmult_le_compat_l; [apply Rlt_le, tier_a_pos|].
    apply Rpower_neg_decreasing; [apply tier_b_neg|lra].
Qed.

(* continuity: each branch is continuous; at the junction the jump is below 0.05 g/kWh *)
Theorem limit_junction_jump t : Rabs (tier_c t - tier_a t * Rpower 130 (tier_b t)) <= 5 / 100.
Proof.
  destruct (junction t) as [H1 H2]. rewrite Rabs_right; lra.
Qed.

(* Tier I >= Tier II >= Tier III at every speed from 1 to 2000 rpm *)
Lemma order_fast_12 n : 130 <= n <= 2000 -> 0 <= 45 * Rpower n (- (2 / 10)) - 44 * Rpower n (- (23 / 100)).
Proof. intros H. interval with (i_bisect n). Qed.
Lemma order_fast_23 n : 130 <= n <= 2000 -> 0 <= 44 * Rpower n (- (23 / 100)) - 9 * Rpower n (- (2 / 10)).
Proof. intros H. interval with (i_bisect n). Qed.

Theorem tier_order n : 1 <= n <= 2000 -> limit 2 n <= limit 1 n <= limit 0 n.
Proof.
  intros H. unfold limit, slow_max. destruct (Rle_dec n 130) as [Hn|Hn]; cbn [tier_a tier_b tier_c]; [lra|].
  pose proof (order_fast_12 n ltac:(lra)). pose proof (order_fast_23 n ltac:(lra)). lra.
Qed.

Close Scope R_scope.
Open Scope Q_scope.
(* mass of a species = curve value at the load x brake energy, interval by interval *)
Lemma mass_kg_formula g p d gs ps ds :
  mass_kg (g :: gs) (p :: ps) (d :: ds) == g * (p * d / 3600) / 1000 + mass_kg gs ps ds.
Proof. cbn [mass_kg]. unfold rate_g_per_s. field. Qed.

(* for a constant factor (the tier limit) the mass is the factor times the brake energy *)
Lemma mass_kg_const g ps ds : length ps = length ds ->
  mass_kg (repeat g (length ps)) ps ds == g * brake_energy_kwh ps ds / 1000.
Proof.
  revert ds; induction ps as [|p ps IH]; intros [|d ds] H; cbn in *; try discriminate; [field|].
  rewrite IH by congruence. unfold rate_g_per_s. field.
Qed.
