(* Proofs/PmsTable.v — the look-up table the code builds (dict with last key wins, sorted items, np.digitize)
   selects exactly what the recursion `select` selects: for every rating list, fraction and load. *)
From Coq Require Import QArith Qround ZArith Lqa Lia List Bool Arith Permutation.
From Feems Require Import Base.Num Model.Pms Proofs.PmsProofs.
Import ListNotations.
Open Scope Q_scope.

Notation srtE := (srt entry fst).

(* the table as a function of the capacity-sorted list alone *)
Definition tableS (S : list entry) : list entry :=
  sortp (fold_left (fun d kv => dict_put (fst kv) (snd kv) d) (zip_shift S) []).
Definition lookupS (S : list entry) (x : Q) : list bool :=
  let t := tableS S in nth (digitize x (map fst (tl t))) (map snd t) [].

(* adjacent equal keys merged: first key, last value *)
Fixpoint merge (Z : list entry) : list entry :=
  match Z with
  | [] => []
  | (k, v) :: t =>
      match merge t with
      | (k', v') :: r => if Qeq_bool k k' then (k, v') :: r else (k, v) :: (k', v') :: r
      | [] => [(k, v)]
      end
  end.

Lemma merge_cons k v t :
  merge ((k, v) :: t) = match merge t with
                        | (k', v') :: r => if Qeq_bool k k' then (k, v') :: r else (k, v) :: (k', v') :: r
                        | [] => [(k, v)]
                        end.
Proof. reflexivity. Qed.

(* strictly increasing keys *)
Inductive sinc : list entry -> Prop :=
| i0 : sinc [] | i1 a : sinc [a]
| i2 a b r : fst a < fst b -> sinc (b :: r) -> sinc (a :: b :: r).

Lemma sinc_tail a l : sinc (a :: l) -> sinc l.
Proof. intros H; inversion H; subst; [constructor|assumption]. Qed.

Lemma sinc_head_lt a l v : sinc (a :: l) -> In v l -> fst a < fst v.
Proof.
  revert a; induction l as [|b l IH]; intros a H Hin; [destruct Hin|].
  inversion H; subst. destruct Hin as [->|Hin]; [assumption|].
  apply Qlt_trans with (fst b); [assumption|]. apply IH; assumption.
Qed.

Lemma Qeq_bool_false_lt a b : a <= b -> Qeq_bool a b = false -> a < b.
Proof.
  intros L E. destruct (Qlt_le_dec a b) as [H|H]; [exact H|].
  assert (a == b) by lra. apply Qeq_bool_iff in H0. congruence.
Qed.

(* keys of the merged list: head key is the head key of the input *)
Lemma merge_head k v t : exists v' r, merge ((k, v) :: t) = (k, v') :: r.
Proof.
  rewrite merge_cons. destruct (merge t) as [|[k' v'] r]; [eauto|]. destruct (Qeq_bool k k'); eauto.
Qed.

Lemma merge_sinc Z : srtE Z -> sinc (merge Z).
Proof.
  induction Z as [|[k v] t IH]; intros H; [constructor|].
  pose proof (IH (srt_tail _ _ _ _ H)) as It. rewrite merge_cons.
  destruct t as [|[k2 v2] t2]; [cbn; constructor|].
  destruct (merge_head k2 v2 t2) as (v' & r & E). unfold entry in *. rewrite E in It |- *.
  assert (Hle : k <= k2) by (inversion H; subst; assumption).
  destruct (Qeq_bool k k2) eqn:Q.
  - (* (k, v') :: r : head key replaced by an equal one *)
    apply Qeq_bool_iff in Q. inversion It as [| |a b r' Hab Hr]; subst; [constructor|].
    constructor; [cbn [fst] in *; lra|assumption].
  - constructor; [cbn [fst]; apply Qeq_bool_false_lt; assumption|exact It].
Qed.

(* ---- the dict built from the left is the merge ---- *)
Definition put (d : list entry) (kv : entry) : list entry := dict_put (fst kv) (snd kv) d.

Lemma dict_put_skip k v D e : (forall d, In d D -> Qeq_bool k (fst d) = false) ->
  dict_put k v (D ++ e) = D ++ dict_put k v e.
Proof.
  induction D as [|[k' v'] D IH]; intros H; [reflexivity|]. cbn [app dict_put].
  pose proof (H (k', v') (or_introl eq_refl)) as Hk. cbn [fst] in Hk. rewrite Hk. f_equal. apply IH. intros d Hd. apply H. right. exact Hd.
Qed.

Lemma Qeq_bool_compat_l a b c : a == b -> Qeq_bool a c = Qeq_bool b c.
Proof.
  intros E. destruct (Qeq_bool a c) eqn:A, (Qeq_bool b c) eqn:B; try reflexivity.
  - apply Qeq_bool_iff in A. assert (Qeq_bool b c = true) by (apply Qeq_bool_iff; lra). congruence.
  - apply Qeq_bool_iff in B. assert (Qeq_bool a c = true) by (apply Qeq_bool_iff; lra). congruence.
Qed.

Lemma merge_same_key k v k2 v2 Z : k == k2 -> merge ((k, v) :: (k2, v2) :: Z) = merge ((k, v2) :: Z).
Proof.
  intros E. rewrite (merge_cons k v), (merge_cons k2 v2), (merge_cons k v2).
  destruct (merge Z) as [|[k3 v3] r3].
  - assert (Qeq_bool k k2 = true) as -> by (apply Qeq_bool_iff; exact E). reflexivity.
  - rewrite (Qeq_bool_compat_l k k2 k3 E). destruct (Qeq_bool k2 k3);
      (assert (Qeq_bool k k2 = true) as -> by (apply Qeq_bool_iff; exact E)); reflexivity.
Qed.

Lemma merge_new_key k v k2 v2 Z : Qeq_bool k k2 = false ->
  merge ((k, v) :: (k2, v2) :: Z) = (k, v) :: merge ((k2, v2) :: Z).
Proof.
  intros E. rewrite (merge_cons k v). destruct (merge_head k2 v2 Z) as (v' & r & M).
  unfold entry in *. rewrite M, E. reflexivity.
Qed.

Lemma fold_put_merge Z : forall D k v, srtE ((k, v) :: Z) ->
  (forall d, In d D -> fst d < k) ->
  fold_left put Z (D ++ [(k, v)]) = D ++ merge ((k, v) :: Z).
Proof.
  induction Z as [|[k2 v2] Z IH]; intros D k v Hs HD; [reflexivity|].
  cbn [fold_left]. unfold put at 2. cbn [fst snd].
  assert (Hle : k <= k2) by (inversion Hs; subst; assumption).
  assert (Hs2 : srtE ((k2, v2) :: Z)) by (eapply srt_tail; eauto).
  rewrite dict_put_skip.
  2:{ intros d Hd. specialize (HD d Hd). destruct (Qeq_bool k2 (fst d)) eqn:Q; [|reflexivity].
      apply Qeq_bool_iff in Q. lra. }
  cbn [dict_put]. destruct (Qeq_bool k2 k) eqn:Q.
  - (* same key: value replaced *)
    apply Qeq_bool_iff in Q.
    assert (Hs' : srtE ((k, v2) :: Z)).
    { destruct Z as [|[k3 v3] Z']; [constructor|]. inversion Hs2; subst. constructor; [cbn [fst] in *; lra|assumption]. }
    rewrite (IH D k v2 Hs' HD). f_equal. symmetry. apply merge_same_key. lra.
  - (* new key: appended *)
    assert (Qkk : Qeq_bool k k2 = false).
    { destruct (Qeq_bool k k2) eqn:Q'; [|reflexivity]. apply Qeq_bool_iff in Q'.
      assert (Qeq_bool k2 k = true) by (apply Qeq_bool_iff; lra). congruence. }
    assert (Hlt : k < k2) by (apply Qeq_bool_false_lt; assumption).
    replace (D ++ [(k, v); (k2, v2)]) with ((D ++ [(k, v)]) ++ [(k2, v2)]) by (rewrite <- app_assoc; reflexivity).
    rewrite (IH (D ++ [(k, v)]) k2 v2 Hs2).
    2:{ intros d Hd. apply in_app_or in Hd as [Hd|[<-|[]]]; [specialize (HD d Hd); lra|exact Hlt]. }
    rewrite <- app_assoc. f_equal. cbn [app]. symmetry. apply merge_new_key, Qkk.
Qed.

Lemma fold_put_is_merge Z : srtE Z -> fold_left put Z [] = merge Z.
Proof.
  destruct Z as [|[k v] Z]; intros H; [reflexivity|]. cbn [fold_left]. unfold put at 2. cbn [fst snd dict_put].
  apply (fold_put_merge Z [] k v H). intros d [].
Qed.

(* ---- sorting a strictly increasing list changes nothing ---- *)
Lemma sortp_sinc l : sinc l -> sortp l = l.
Proof.
  induction l as [|a l IH]; intros H; [reflexivity|]. cbn [sortp fold_right]. fold (sortp l).
  rewrite (IH (sinc_tail _ _ H)). destruct l as [|b l']; [reflexivity|]. cbn [insert].
  inversion H; subst. unfold ple.
  destruct (Qcompare_spec (fst a) (fst b)) as [E|L|G]; [lra|reflexivity|lra].
Qed.

(* ---- digitize on strictly increasing bins is a walk ---- *)
Fixpoint pick (T : list entry) (x : Q) : list bool :=
  match T with
  | [] => []
  | (_, v) :: t =>
      match t with
      | [] => v
      | (k2, _) :: _ => if Qle_bool k2 x then pick t x else v
      end
  end.

Lemma digitize_none x l : (forall b, In b l -> x < b) -> digitize x l = 0%nat.
Proof.
  unfold digitize. induction l as [|b l IH]; intros H; [reflexivity|]. cbn [filter].
  assert (Qle_bool b x = false) as ->.
  { destruct (Qle_bool b x) eqn:Q; [|reflexivity]. apply Qle_bool_iff in Q. specialize (H b (or_introl eq_refl)). lra. }
  apply IH. intros c Hc. apply H. right. exact Hc.
Qed.

Lemma nth_pick T x : sinc T -> T <> [] ->
  nth (digitize x (map fst (tl T))) (map snd T) [] = pick T x.
Proof.
  induction T as [|[k v] t IH]; intros H Hne; [congruence|].
  destruct t as [|[k2 v2] t2]; [reflexivity|].
  cbn [tl map fst snd pick]. unfold digitize. cbn [filter].
  destruct (Qle_bool k2 x) eqn:Q.
  - cbn [List.length nth]. fold (digitize x (map fst t2)).
    specialize (IH (sinc_tail _ _ H)). cbn [tl map fst snd] in IH. apply IH. discriminate.
  - fold (digitize x (map fst t2)). rewrite digitize_none; [reflexivity|].
    intros b Hb. apply in_map_iff in Hb as [e [<- He]].
    assert (k2 < fst e) by (apply (sinc_head_lt (k2, v2) t2 e); [eapply sinc_tail; eauto|exact He]).
    assert (~ k2 <= x) by (intros L; apply Qle_bool_iff in L; congruence). lra.
Qed.

(* ---- the walk over the merged list is the recursion `sel` ---- *)
Lemma pick_head_irrelevant k k' v t x : pick ((k, v) :: t) x = pick ((k', v) :: t) x.
Proof. reflexivity. Qed.

Lemma zip_shift_cons2 a b c r : zip_shift (a :: b :: c :: r) = (fst a, snd b) :: zip_shift (b :: c :: r).
Proof. destruct a, b; reflexivity. Qed.

Lemma pick_merge_key k k' v Z x : k == k' -> pick (merge ((k, v) :: Z)) x = pick (merge ((k', v) :: Z)) x.
Proof.
  intros E. rewrite (merge_cons k v), (merge_cons k' v). destruct (merge Z) as [|[k3 v3] r3]; [reflexivity|].
  rewrite (Qeq_bool_compat_l k k' k3 E). destruct (Qeq_bool k' k3); reflexivity.
Qed.

Lemma pick_sel S : forall x, srtE S -> (2 <= List.length S)%nat ->
  pick (merge (zip_shift S)) x = match sel fst S x with Some e => snd e | None => [] end.
Proof.
  induction S as [|a S IH]; intros x Hs Hl; [cbn in Hl; lia|].
  destruct S as [|b rest]; [cbn in Hl; lia|].
  destruct rest as [|c rest'].
  - destruct a as [ca pa], b as [cb pb]. reflexivity.
  - assert (Hs' : srtE (b :: c :: rest')) by (eapply srt_tail; eauto).
    specialize (IH x Hs' ltac:(cbn; lia)).
    destruct a as [ca pa], b as [cb pb], c as [cc pc].
    change (zip_shift ((ca, pa) :: (cb, pb) :: (cc, pc) :: rest')) with ((ca, pb) :: (cb, pc) :: zip_shift ((cc, pc) :: rest')).
    change (zip_shift ((cb, pb) :: (cc, pc) :: rest')) with ((cb, pc) :: zip_shift ((cc, pc) :: rest')) in IH.
    set (Z' := zip_shift ((cc, pc) :: rest')) in *.
    change (sel fst ((ca, pa) :: (cb, pb) :: (cc, pc) :: rest') x)
      with (if Qle_bool cb x || Qeq_bool cb ca then sel fst ((cb, pb) :: (cc, pc) :: rest') x else Some (cb, pb)).
    destruct (Qeq_bool ca cb) eqn:Qab.
    + apply Qeq_bool_iff in Qab.
      assert (Qeq_bool cb ca = true) as -> by (apply Qeq_bool_iff; lra). rewrite orb_true_r.
      rewrite (merge_same_key ca pb cb pc Z' Qab), (pick_merge_key ca cb pc Z' x Qab). exact IH.
    + assert (Qeq_bool cb ca = false) as ->.
      { destruct (Qeq_bool cb ca) eqn:Q; [|reflexivity]. apply Qeq_bool_iff in Q.
        assert (Qeq_bool ca cb = true) by (apply Qeq_bool_iff; lra). congruence. }
      rewrite orb_false_r, (merge_new_key ca pb cb pc Z' Qab).
      destruct (merge_head cb pc Z') as (v' & r & M). unfold entry in *. rewrite M in IH |- *. cbn [pick].
      destruct (Qle_bool cb x); [exact IH|reflexivity].
Qed.

Lemma zip_shift_srt S : srtE S -> srtE (zip_shift S).
Proof.
  induction S as [|a S IH]; intros H; [constructor|].
  destruct S as [|b S']; [destruct a; constructor|].
  destruct S' as [|c S''].
  - destruct a, b. cbn. constructor.
  - specialize (IH (srt_tail _ _ _ _ H)).
    destruct a as [ca pa], b as [cb pb], c as [cc pc].
    change (zip_shift ((ca, pa) :: (cb, pb) :: (cc, pc) :: S'')) with ((ca, pb) :: (cb, pc) :: zip_shift ((cc, pc) :: S'')).
    change (zip_shift ((cb, pb) :: (cc, pc) :: S'')) with ((cb, pc) :: zip_shift ((cc, pc) :: S'')) in IH.
    constructor; [cbn [fst]; inversion H; subst; assumption|exact IH].
Qed.

Lemma zip_shift_nonempty a b r : zip_shift (a :: b :: r) <> [].
Proof. destruct a, b. cbn. discriminate. Qed.

Lemma merge_nonempty Z : Z <> [] -> merge Z <> [].
Proof.
  destruct Z as [|[k v] t]; [congruence|]. intros _. destruct (merge_head k v t) as (v' & r & E). unfold entry in *. rewrite E. discriminate.
Qed.

(* the table look-up is the recursion, for every capacity-sorted list with at least two entries *)
Theorem lookupS_is_sel S x : srtE S -> (2 <= List.length S)%nat ->
  lookupS S x = match sel fst S x with Some e => snd e | None => [] end.
Proof.
  intros Hs Hl. unfold lookupS, tableS.
  change (fold_left (fun d kv => dict_put (fst kv) (snd kv) d) (zip_shift S) []) with (fold_left put (zip_shift S) []).
  rewrite (fold_put_is_merge _ (zip_shift_srt S Hs)).
  assert (Hi : sinc (merge (zip_shift S))) by (apply merge_sinc, zip_shift_srt, Hs).
  rewrite (sortp_sinc _ Hi).
  rewrite nth_pick; [apply pick_sel; assumption|exact Hi|].
  apply merge_nonempty. destruct S as [|a [|b r]]; cbn in Hl; try lia. apply zip_shift_nonempty.
Qed.

(* for the code's table: every rating list with at least one source, every fraction, every load *)
Theorem table_is_select rs f x : (1 <= List.length rs)%nat ->
  on_pattern_table rs f x = match select rs f x with Some e => snd e | None => [] end.
Proof.
  intros H. unfold on_pattern_table, select, table.
  apply (lookupS_is_sel (sorted_entries rs f) x).
  - apply sortp_srt.
  - unfold sorted_entries. rewrite (Permutation_length (sortp_perm _)), map_length.
    apply patterns_length_ge2. exact H.
Qed.
