(* Proofs/ElecProofs.v — the conservation law of the electric balance model *)
From Coq Require Import QArith Qabs Qround ZArith List Bool Arith Lia Lqa Setoid Morphisms.
From Feems Require Import Base.Num Model.Bus Model.ElecBalance.
Import ListNotations.
Open Scope Q_scope.

(* ---- generic facts about qsum ---- *)
Lemma qsum_app a b : qsum (a ++ b) == qsum a + qsum b.
Proof. induction a as [|x a IH]; cbn [app qsum]; [ring|rewrite IH; ring]. Qed.

Lemma qsum_map_ext {A} (f g : A -> Q) l :
  (forall x, In x l -> f x == g x) -> qsum (map f l) == qsum (map g l).
Proof.
  induction l as [|x l IH]; intros H; cbn [map qsum]; [reflexivity|].
  rewrite (H x (or_introl eq_refl)), IH; [reflexivity|]. intros y Hy; apply H; right; exact Hy.
Qed.

Lemma qsum_map_scale {A} (f : A -> Q) k l : qsum (map (fun x => k * f x) l) == k * qsum (map f l).
Proof. induction l as [|x l IH]; cbn [map qsum]; [ring|rewrite IH; ring]. Qed.

Lemma qsum_map_sub {A} (f g : A -> Q) l :
  qsum (map (fun x => f x - g x) l) == qsum (map f l) - qsum (map g l).
Proof. induction l as [|x l IH]; cbn [map qsum]; [ring|rewrite IH; ring]. Qed.

Lemma qsum_map_add {A} (f g : A -> Q) l :
  qsum (map (fun x => f x + g x) l) == qsum (map f l) + qsum (map g l).
Proof. induction l as [|x l IH]; cbn [map qsum]; [ring|rewrite IH; ring]. Qed.

Lemma qsum_map_zero {A} (l : list A) : qsum (map (fun _ => 0) l) == 0.
Proof. induction l as [|x l IH]; cbn [map qsum]; [reflexivity|rewrite IH; ring]. Qed.

(* indicator sum over a duplicate-free list *)
Lemma qsum_indicator (x : nat) (v : Q) (l : list nat) (p : nat -> bool) : NoDup l ->
  qsum (map (fun s => if Nat.eqb x s then v else 0) (filter p l))
  == if (existsb (Nat.eqb x) l && p x)%bool then v else 0.
Proof.
  induction 1 as [|a l Hn _ IH]; cbn [filter map qsum existsb]; [reflexivity|].
  destruct (Nat.eqb_spec x a) as [<-|Hne].
  - assert (E : existsb (Nat.eqb x) l = false).
    { destruct (existsb (Nat.eqb x) l) eqn:E; [|reflexivity].
      apply existsb_exists in E as [y [Hy Hxy]]. apply Nat.eqb_eq in Hxy; subst. contradiction. }
    destruct (p x) eqn:Ep; cbn [map qsum orb andb].
    + rewrite Nat.eqb_refl, IH, E. cbn. ring.
    + rewrite IH, E. cbn. reflexivity.
  - destruct (p a); cbn [map qsum orb].
    + destruct (Nat.eqb_spec x a); [contradiction|]. rewrite IH. ring.
    + exact IH.
Qed.

(* regrouping: summing per switchboard and then over the switchboards of a bus is summing over the
   components of the bus *)
Lemma regroup (f : cv -> Q) (cs : list cv) (busmap : nat -> nat) (swbs : list nat) (b : nat) :
  NoDup swbs -> (forall c, In c cs -> In (v_swb c) swbs) ->
  qsum (map (fun s => qsum (map f (filter (on_swb s) cs))) (swbs_of_bus busmap swbs b))
  == qsum (map f (filter (in_bus busmap b) cs)).
Proof.
  intros Hnd Hin. induction cs as [|c cs IH].
  - cbn [filter map qsum]. apply qsum_map_zero.
  - assert (IH' := IH (fun c' H => Hin c' (or_intror H))). clear IH.
    transitivity (qsum (map (fun s => (if Nat.eqb (v_swb c) s then f c else 0)
                                      + qsum (map f (filter (on_swb s) cs))) (swbs_of_bus busmap swbs b))).
    { apply qsum_map_ext. intros s _. cbn [filter]. unfold on_swb at 1.
      destruct (Nat.eqb (v_swb c) s); cbn [map qsum]; ring. }
    transitivity (qsum (map (fun s => if Nat.eqb (v_swb c) s then f c else 0) (swbs_of_bus busmap swbs b))
                  + qsum (map (fun s => qsum (map f (filter (on_swb s) cs))) (swbs_of_bus busmap swbs b))).
    { apply qsum_map_add. }
    rewrite IH'. unfold swbs_of_bus. rewrite (qsum_indicator (v_swb c) (f c) swbs _ Hnd).
    assert (E : existsb (Nat.eqb (v_swb c)) swbs = true).
    { apply existsb_exists. exists (v_swb c). split; [apply Hin; left; reflexivity|apply Nat.eqb_refl]. }
    rewrite E. cbn [andb filter]. unfold in_bus at 2.
    destruct (Nat.eqb (busmap (v_swb c)) b); cbn [map qsum]; ring.
Qed.

(* ---- ceiling facts ---- *)
Lemma qceil_abs_zero x : x == 0 -> qceil_abs x == 0.
Proof.
  intros H. unfold qceil_abs. rewrite H. reflexivity.
Qed.

Lemma Qceiling_unit x : 0 < x -> x <= 1 -> Qceiling x = 1%Z.
Proof.
  intros H0 H1.
  pose proof (Qle_ceiling x) as Hc. pose proof (Qceiling_lt x) as Hl.
  assert (A : (0 < Qceiling x)%Z).
  { apply Qlt_le_trans with (z := inject_Z (Qceiling x)) in H0; [|exact Hc].
    unfold Qlt in H0; cbn in H0. lia. }
  assert (B : (Qceiling x - 1 < 1)%Z).
  { apply Qlt_le_trans with (z := 1) in Hl; [|exact H1].
    unfold Qlt in Hl; cbn in Hl. lia. }
  lia.
Qed.

Lemma qceil_abs_unit x : 0 < x -> x <= 1 -> qceil_abs x == 1.
Proof.
  intros H0 H1. unfold qceil_abs. rewrite Qabs_pos by lra. rewrite (Qceiling_unit x H0 H1). reflexivity.
Qed.

(* ---- the law ---- *)
Section Law.
  Variable cs : list cv.
  Variable busmap : nat -> nat.
  Variable swbs : list nat.

  (* admissible settings: PTI/PTO and storage sharing flags are 0 or 1, fixed source shares lie in
     [0,1] (0 = equal sharing), ratings such that np.round(.,10) leaves the capacity sums alone *)
  Definition admissible : Prop :=
    (forall c, In c cs -> is_ps (v_kind c) = true -> v_lsm c == 0 \/ v_lsm c == 1) /\
    (forall c, In c cs -> v_kind c = Source -> 0 <= v_lsm c <= 1) /\
    (forall s, In s swbs -> round10 (qsum (map avail_term (filter (on_swb s) cs)))
                            == qsum (map avail_term (filter (on_swb s) cs))).

  Definition wf : Prop := NoDup swbs /\ forall c, In c cs -> In (v_swb c) swbs.

  (* signed contribution of one component to "delivered - drawn" when its bus load fraction is l *)
  Definition contrib (l : Q) (c : cv) : Q :=
    match v_kind c with
    | Source => numq (out_source c (Fin l))
    | PtiPto | Storage => - numq (pin_ps c (Fin l))
    | Consumer => - v_pin c
    end.

  Lemma contrib_eq l c :
    (is_ps (v_kind c) = true -> v_lsm c == 0 \/ v_lsm c == 1) ->
    (v_kind c = Source -> 0 <= v_lsm c <= 1) ->
    contrib l c == l * avail_term c - net_term c.
  Proof.
    intros Hps Hsrc. unfold contrib, avail_term, net_term, out_source, pin_ps, avail_of, qzero.
    destruct (v_kind c) eqn:K; cbn [is_ps] in Hps.
    - (* Source *)
      specialize (Hsrc eq_refl).
      destruct (Qeq_bool (v_lsm c) 0) eqn:E.
      + apply Qeq_bool_eq in E. rewrite (qceil_abs_zero _ E).
        destruct (v_on c); cbn [andb numq b2q]; rewrite E; ring.
      + cbn [andb numq]. assert (Hne : ~ v_lsm c == 0) by (apply Qeq_bool_neq; exact E).
        rewrite (qceil_abs_unit (v_lsm c)) by lra. ring.
    - ring.
    - destruct (Hps eq_refl) as [E|E].
      + rewrite (proj2 (Qeq_bool_iff (v_lsm c) 0) E). cbn [numq].
        rewrite (qceil_abs_zero _ E), E. ring.
      + assert (Hb : Qeq_bool (v_lsm c) 0 = false).
        { destruct (Qeq_bool (v_lsm c) 0) eqn:B; [|reflexivity]. apply Qeq_bool_eq in B. lra. }
        rewrite Hb. cbn [numq]. rewrite (qceil_abs_unit (v_lsm c)) by lra. rewrite E. ring.
    - destruct (Hps eq_refl) as [E|E].
      + rewrite (proj2 (Qeq_bool_iff (v_lsm c) 0) E). cbn [numq].
        rewrite (qceil_abs_zero _ E), E. ring.
      + assert (Hb : Qeq_bool (v_lsm c) 0 = false).
        { destruct (Qeq_bool (v_lsm c) 0) eqn:B; [|reflexivity]. apply Qeq_bool_eq in B. lra. }
        rewrite Hb. cbn [numq]. rewrite (qceil_abs_unit (v_lsm c)) by lra. rewrite E. ring.
  Qed.

  Lemma net_bus_regroup b : wf -> net_bus cs busmap swbs b == qsum (map net_term (filter (in_bus busmap b) cs)).
  Proof. intros [Hnd Hin]. unfold net_bus, net_swb. apply (regroup net_term); assumption. Qed.

  Lemma avail_bus_regroup b : wf -> admissible ->
    avail_bus cs busmap swbs b == qsum (map avail_term (filter (in_bus busmap b) cs)).
  Proof.
    intros [Hnd Hin] [_ [_ Hr]]. unfold avail_bus, avail_swb.
    rewrite <- (regroup avail_term cs busmap swbs b Hnd Hin).
    apply qsum_map_ext. intros s Hs. apply Hr. unfold swbs_of_bus in Hs. apply filter_In in Hs. tauto.
  Qed.

  (* delivered - drawn, for the components of one bus, as a sum of contributions at load l *)
  Lemma delivered_minus_drawn b l : load_bus cs busmap swbs b = Fin l ->
    delivered cs busmap swbs b - drawn cs busmap swbs b
    == qsum (map (contrib l) (filter (in_bus busmap b) cs)).
  Proof.
    intros HL. unfold delivered, drawn. rewrite <- qsum_map_sub.
    apply qsum_map_ext. intros c Hc. apply filter_In in Hc as [_ Hb].
    unfold in_bus in Hb. apply Nat.eqb_eq in Hb.
    unfold result_of, contrib. rewrite Hb, HL. destruct (v_kind c); cbn [numq]; ring.
  Qed.

  Theorem balance_bus b : wf -> admissible ->
    (~ avail_bus cs busmap swbs b == 0 \/ net_bus cs busmap swbs b == 0) ->
    delivered cs busmap swbs b == drawn cs busmap swbs b.
  Proof.
    intros Hwf Hadm Hcap.
    assert (Hsum : forall l, qsum (map (contrib l) (filter (in_bus busmap b) cs))
                             == l * avail_bus cs busmap swbs b - net_bus cs busmap swbs b).
    { intros l. rewrite (net_bus_regroup b Hwf), (avail_bus_regroup b Hwf Hadm).
      rewrite <- qsum_map_scale, <- qsum_map_sub. apply qsum_map_ext.
      intros c Hc. apply filter_In in Hc as [Hc _]. destruct Hadm as [H1 [H2 _]].
      apply contrib_eq; [apply H1|apply H2]; exact Hc. }
    unfold load_bus in *.
    remember (net_bus cs busmap swbs b) as n eqn:En.
    remember (avail_bus cs busmap swbs b) as a eqn:Ea.
    destruct (Qeq_bool n 0) eqn:E0.
    - assert (HL : load_bus cs busmap swbs b = Fin 0).
      { unfold load_bus, qzero. rewrite <- En, E0. reflexivity. }
      pose proof (delivered_minus_drawn b 0 HL) as Hd. rewrite Hsum in Hd.
      apply Qeq_bool_eq in E0. lra.
    - assert (Hn : ~ n == 0) by (apply Qeq_bool_neq; exact E0).
      destruct Hcap as [Ha|Hz]; [|contradiction].
      assert (Eb : Qeq_bool a 0 = false).
      { destruct (Qeq_bool a 0) eqn:B; [|reflexivity]. apply Qeq_bool_eq in B. contradiction. }
      assert (HL : load_bus cs busmap swbs b = Fin (n / a)).
      { unfold load_bus, qzero. rewrite <- En, E0, <- Ea, Eb. reflexivity. }
      pose proof (delivered_minus_drawn b (n / a) HL) as Hd. rewrite Hsum in Hd.
      assert (X : n / a * a - n == 0) by (field; exact Ha). lra.
  Qed.

  (* ---- uniqueness: the sharing rules (C03) and the balance (C01) leave no freedom ----
     Let every unit of bus b follow the sharing rules at SOME common fraction l (equal-sharing units deliver
     rated x l, fixed-share units their share, given-power units their set-point, stopped units nothing: that
     is `contrib l`).  If that assignment balances the bus, then l is the fraction the calculation uses. *)
  Lemma contrib_sum b l : wf -> admissible ->
    qsum (map (contrib l) (filter (in_bus busmap b) cs)) == l * avail_bus cs busmap swbs b - net_bus cs busmap swbs b.
  Proof.
    intros Hwf Hadm. rewrite (net_bus_regroup b Hwf), (avail_bus_regroup b Hwf Hadm).
    rewrite <- qsum_map_scale, <- qsum_map_sub. apply qsum_map_ext.
    intros c Hc. apply filter_In in Hc as [Hc _]. destruct Hadm as [H1 [H2 _]].
    apply contrib_eq; [apply H1|apply H2]; exact Hc.
  Qed.

  Theorem unique_fraction b l : wf -> admissible ->
    qsum (map (contrib l) (filter (in_bus busmap b) cs)) == 0 ->
    ~ avail_bus cs busmap swbs b == 0 ->
    exists l0, load_bus cs busmap swbs b = Fin l0 /\ l == l0.
  Proof.
    intros Hwf Hadm Hbal Ha. rewrite (contrib_sum b l Hwf Hadm) in Hbal.
    unfold load_bus, qzero. destruct (Qeq_bool (net_bus cs busmap swbs b) 0) eqn:E0.
    - exists 0. split; [reflexivity|]. apply Qeq_bool_eq in E0. rewrite E0 in Hbal.
      assert (X : l * avail_bus cs busmap swbs b == 0) by lra.
      apply Qmult_integral in X. tauto.
    - destruct (Qeq_bool (avail_bus cs busmap swbs b) 0) eqn:Ea.
      + apply Qeq_bool_eq in Ea. contradiction.
      + eexists. split; [reflexivity|]. field_simplify_eq; [lra|exact Ha].
  Qed.

  (* ---- C03: load sharing ---- *)
  Lemma equal_fraction c l : load_of cs busmap swbs c = Fin l ->
    v_kind c = Source -> v_lsm c == 0 -> v_on c = true -> v_rated c > 0 ->
    numq (result_of cs busmap swbs c) / v_rated c == l.
  Proof.
    intros HL K E On Hr. unfold result_of. rewrite K. unfold load_of in HL. rewrite HL.
    unfold out_source, qzero. apply Qeq_bool_iff in E. rewrite E, On. cbn [andb numq b2q].
    field. lra.
  Qed.

  Lemma equal_fraction_ps c l : load_of cs busmap swbs c = Fin l ->
    is_ps (v_kind c) = true -> v_lsm c == 0 -> v_on c = true -> v_rated c > 0 ->
    - numq (result_of cs busmap swbs c) / v_rated c == l.
  Proof.
    intros HL K E On Hr. unfold result_of. unfold load_of in HL. rewrite HL.
    unfold pin_ps, qzero. apply Qeq_bool_iff in E.
    destruct (v_kind c); cbn [is_ps] in K; try discriminate; rewrite E, On; cbn [numq b2q]; field; lra.
  Qed.

  Lemma fixed_exact c : v_kind c = Source -> ~ v_lsm c == 0 -> v_on c = true ->
    result_of cs busmap swbs c = Fin (v_rated c * v_lsm c * 1).
  Proof.
    intros K E On. unfold result_of. rewrite K. unfold out_source, qzero.
    assert (Eb : Qeq_bool (v_lsm c) 0 = false).
    { destruct (Qeq_bool (v_lsm c) 0) eqn:B; [|reflexivity]. apply Qeq_bool_eq in B. contradiction. }
    rewrite Eb, On. reflexivity.
  Qed.

  Lemma off_zero_source c : v_kind c = Source -> v_on c = false ->
    exists q, result_of cs busmap swbs c = Fin q /\ q == 0.
  Proof.
    intros K Off. unfold result_of. rewrite K. unfold out_source. rewrite Off, andb_false_r.
    eexists; split; [reflexivity|]. cbn [b2q]. ring.
  Qed.

  Lemma off_zero_ps c l : load_of cs busmap swbs c = Fin l ->
    is_ps (v_kind c) = true -> v_lsm c == 0 -> v_on c = false ->
    exists q, result_of cs busmap swbs c = Fin q /\ q == 0.
  Proof.
    intros HL K E Off. unfold result_of. unfold load_of in HL. rewrite HL.
    unfold pin_ps, qzero. apply Qeq_bool_iff in E.
    destruct (v_kind c); cbn [is_ps] in K; try discriminate; rewrite E, Off;
      (eexists; split; [reflexivity|cbn [b2q]; ring]).
  Qed.
End Law.

(* reflection of the boolean hypotheses *)
Lemma nodup_b_NoDup l : nodup_b l = true -> NoDup l.
Proof.
  induction l as [|a r IH]; cbn; intros H; [constructor|].
  apply andb_true_iff in H as [H1 H2]. constructor; [|apply IH, H2].
  intros Hin. apply negb_true_iff in H1.
  assert (existsb (Nat.eqb a) r = true) by (apply existsb_exists; exists a; split; [exact Hin|apply Nat.eqb_refl]).
  congruence.
Qed.

Lemma wf_b_wf cs swbs : wf_b cs swbs = true -> wf cs swbs.
Proof.
  unfold wf_b, wf. intros H. apply andb_true_iff in H as [H1 H2]. split; [apply nodup_b_NoDup, H1|].
  intros c Hc. rewrite forallb_forall in H2. specialize (H2 c Hc).
  apply existsb_exists in H2 as [s [Hs E]]. apply Nat.eqb_eq in E. congruence.
Qed.

Lemma admissible_b_admissible cs swbs : admissible_b cs swbs = true -> admissible cs swbs.
Proof.
  unfold admissible_b, admissible. intros H. apply andb_true_iff in H as [H1 H2].
  rewrite forallb_forall in H1, H2. repeat split.
  - intros c Hc K. specialize (H1 c Hc). unfold qzero in H1.
    destruct (v_kind c); cbn [is_ps] in K; try discriminate;
      apply orb_true_iff in H1 as [E|E]; apply Qeq_bool_eq in E; auto.
  - specialize (H1 c H). rewrite H0 in H1. apply andb_true_iff in H1 as [A _]. apply Qle_bool_iff, A.
  - specialize (H1 c H). rewrite H0 in H1. apply andb_true_iff in H1 as [_ A]. apply Qle_bool_iff, A.
  - intros s Hs. specialize (H2 s Hs). cbv zeta in H2. apply Qeq_bool_eq, H2.
Qed.
