(* Proofs/PmsProofs.v — properties of the start/stop selection *)
From Coq Require Import QArith Qround ZArith Lqa Lia List Bool Arith Permutation.
From Feems Require Import Base.Num Model.Pms.
Import ListNotations.
Open Scope Q_scope.

Section Core.
Variable V : Type.
Variable g : V -> Q.

Inductive srt : list V -> Prop :=
| s0 : srt [] | s1 a : srt [a]
| s2 a b r : g a <= g b -> srt (b :: r) -> srt (a :: b :: r).

Lemma srt_head_le a S v : srt (a :: S) -> In v S -> g a <= g v.
Proof.
  revert a; induction S as [|b S IH]; intros a H Hin; [destruct Hin|].
  inversion H; subst. destruct Hin as [->|Hin]; [assumption|].
  apply Qle_trans with (g b); [assumption|]. apply IH; assumption.
Qed.

Lemma srt_tail a S : srt (a :: S) -> srt S.
Proof. intros H; inversion H; subst; [constructor|assumption]. Qed.

Lemma srt_last_max S d v : srt S -> In v S -> g v <= g (last S d).
Proof.
  revert v; induction S as [|a S IH]; intros v Hs Hin; [destruct Hin|].
  destruct S as [|b S'].
  - destruct Hin as [->|[]]. cbn. lra.
  - change (last (a :: b :: S') d) with (last (b :: S') d).
    destruct Hin as [->|Hin].
    + apply Qle_trans with (g b); [inversion Hs; assumption|].
      apply IH; [eapply srt_tail; eauto|left; reflexivity].
    + apply IH; [eapply srt_tail; eauto|exact Hin].
Qed.

(* 1. the selected set is never the first (all-off) element *)
Lemma sel_in_tail S x r : sel g S x = Some r -> In r (tl S).
Proof.
  revert r; induction S as [|a S IH]; intros r H; [discriminate|].
  destruct S as [|b rest]; [discriminate|]. cbn [sel] in H. destruct rest as [|c rest'].
  - inversion H; left; reflexivity.
  - destruct (Qle_bool (g b) x || Qeq_bool (g b) (g a)).
    + right. apply (IH r H).
    + inversion H; left; reflexivity.
Qed.

Lemma sel_some S x : (2 <= length S)%nat -> exists r, sel g S x = Some r.
Proof.
  induction S as [|a S IH]; intros H; [cbn in H; lia|].
  destruct S as [|b rest]; [cbn in H; lia|]. cbn [sel]. destruct rest as [|c rest'].
  - eauto.
  - destruct (Qle_bool (g b) x || Qeq_bool (g b) (g a)); [|eauto].
    apply IH. cbn. lia.
Qed.

(* 2. sufficient whenever anything is *)
Lemma sel_sufficient S x r : srt S -> sel g S x = Some r -> (exists v, In v S /\ x < g v) -> x < g r.
Proof.
  revert r; induction S as [|a S IH]; intros r Hs H Hex; [discriminate|].
  destruct S as [|b rest]; [discriminate|]. cbn [sel] in H. inversion Hs as [| |a' b' r' Hab Hs']; subst.
  destruct rest as [|c rest'].
  - inversion H; subst. destruct Hex as [v [[->|[->|[]]] Hv]]; [lra|assumption].
  - destruct (Qle_bool (g b) x || Qeq_bool (g b) (g a)) eqn:E.
    + apply IH; [assumption|assumption|]. destruct Hex as [v [[->|Hin] Hv]].
      * apply orb_true_iff in E as [E|E].
        -- apply Qle_bool_iff in E. lra.
        -- apply Qeq_bool_iff in E. exists b. split; [left; reflexivity|lra].
      * exists v; split; assumption.
    + inversion H; subst. apply orb_false_iff in E as [E _].
      destruct (Qlt_le_dec x (g r)) as [L|L]; [assumption|]. apply Qle_bool_iff in L. congruence.
Qed.

(* 3. minimal among the non-first elements *)
Definition head_ok (S : list V) (x : Q) : Prop :=
  match S with a :: tl => g a <= x \/ (forall v, In v tl -> g a < g v) | [] => True end.

Lemma sel_minimal S x r : srt S -> head_ok S x -> sel g S x = Some r ->
  forall v, In v (tl S) -> x < g v -> g r <= g v.
Proof.
  revert r; induction S as [|a S IH]; intros r Hs H0 H v Hin Hv; [discriminate|].
  destruct S as [|b rest]; [discriminate|]. cbn [sel] in H. inversion Hs as [| |a' b' r' Hab Hs']; subst.
  cbn [tl] in Hin. cbn [head_ok] in H0. destruct rest as [|c rest'].
  - inversion H; subst. destruct Hin as [->|[]]. lra.
  - destruct (Qle_bool (g b) x || Qeq_bool (g b) (g a)) eqn:E.
    + assert (Hb : g b <= x).
      { apply orb_true_iff in E as [E|E]; [apply Qle_bool_iff in E; exact E|].
        apply Qeq_bool_iff in E. destruct H0 as [H0|H0]; [lra|].
        specialize (H0 b (or_introl eq_refl)). lra. }
      destruct Hin as [->|Hin]; [lra|].
      apply (IH r Hs'); [left; exact Hb|exact H|exact Hin|exact Hv].
    + inversion H; subst. destruct Hin as [->|Hin]; [lra|]. apply (srt_head_le r (c :: rest')); assumption.
Qed.

(* 4. nothing suffices -> the last element (everything on) *)
Lemma sel_all_on S x r : srt S -> sel g S x = Some r -> (forall v, In v S -> g v <= x) -> r = last S r.
Proof.
  revert r; induction S as [|a S IH]; intros r Hs H Hall; [discriminate|].
  destruct S as [|b rest]; [discriminate|]. cbn [sel] in H. inversion Hs as [| |a' b' r' Hab Hs']; subst.
  destruct rest as [|c rest'].
  - inversion H; subst. reflexivity.
  - assert (E : Qle_bool (g b) x = true) by (apply Qle_bool_iff, Hall; right; left; reflexivity).
    rewrite E in H. cbn [orb] in H.
    change (last (a :: b :: c :: rest') r) with (last (b :: c :: rest') r).
    apply IH; [assumption|assumption|]. intros v Hv; apply Hall; right; exact Hv.
Qed.

Lemma sel_two a b x : sel g [a; b] x = Some b.  Proof. reflexivity. Qed.
Lemma sel_step a b c r x :
  sel g (a :: b :: c :: r) x = if Qle_bool (g b) x || Qeq_bool (g b) (g a) then sel g (b :: c :: r) x else Some b.
Proof. reflexivity. Qed.

(* 5. the selected capacity never decreases with the load *)
Lemma sel_monotone S x y r r' : srt S -> x <= y -> sel g S x = Some r -> sel g S y = Some r' -> g r <= g r'.
Proof.
  revert r r'; induction S as [|a S IH]; intros r r' Hs Hxy H H'; [discriminate|].
  destruct S as [|b rest]; [discriminate|]. inversion Hs as [| |a' b' r'' Hab Hs']; subst.
  destruct rest as [|c rest'].
  - rewrite sel_two in H, H'. inversion H; inversion H'; subst. lra.
  - rewrite sel_step in H, H'. destruct (Qle_bool (g b) x) eqn:Ex.
    + assert (Ey : Qle_bool (g b) y = true) by (apply Qle_bool_iff; apply Qle_bool_iff in Ex; lra).
      rewrite Ey in H'. cbn [orb] in H, H'. apply (IH r r' Hs' Hxy H H').
    + cbn [orb] in H. destruct (Qeq_bool (g b) (g a)) eqn:Ea.
      * rewrite orb_true_r in H'. apply (IH r r' Hs' Hxy H H').
      * inversion H; subst. rewrite orb_false_r in H'. destruct (Qle_bool (g r) y).
        -- apply sel_in_tail in H'. cbn [tl] in H'. apply (srt_head_le r (c :: rest')); assumption.
        -- inversion H'; subst. lra.
Qed.
End Core.

(* ---- insertion sort: sorted, and a permutation ---- *)
Lemma ple_true x y : ple x y = true -> fst x <= fst y.
Proof.
  unfold ple. destruct (Qcompare_spec (fst x) (fst y)) as [E|L|G]; intros H; try lra; try discriminate.
Qed.
Lemma ple_false x y : ple x y = false -> fst y <= fst x.
Proof.
  unfold ple. destruct (Qcompare_spec (fst x) (fst y)) as [E|L|G]; intros H; try lra; try discriminate.
Qed.

Lemma insert_perm x l : Permutation (insert x l) (x :: l).
Proof.
  induction l as [|y r IH]; cbn [insert]; [reflexivity|].
  destruct (ple x y); [reflexivity|]. rewrite IH. apply perm_swap.
Qed.
Lemma sortp_perm l : Permutation (sortp l) l.
Proof.
  induction l as [|x l IH]; cbn; [reflexivity|]. rewrite insert_perm. constructor. exact IH.
Qed.

Lemma insert_srt x l : srt _ fst l -> srt _ fst (insert x l).
Proof.
  induction l as [|y r IH]; intros H; cbn [insert]; [constructor|].
  destruct (ple x y) eqn:E.
  - constructor; [apply ple_true, E|exact H].
  - destruct r as [|z r'].
    + cbn. constructor; [apply ple_false, E|constructor].
    + cbn [insert] in *. inversion H; subst. destruct (ple x z) eqn:Ez.
      * constructor; [apply ple_false, E|]. constructor; [apply ple_true, Ez|assumption].
      * constructor; [assumption|]. apply IH. assumption.
Qed.
Lemma sortp_srt l : srt _ fst (sortp l).
Proof. induction l as [|x l IH]; cbn; [constructor|apply insert_srt, IH]. Qed.

(* ---- patterns ---- *)
Lemma patterns_length n p : In p (patterns n) -> length p = n.
Proof.
  revert p; induction n as [|n IH]; intros p H; cbn in H.
  - destruct H as [<-|[]]; reflexivity.
  - apply in_app_or in H as [H|H]; apply in_map_iff in H as [q [<- Hq]]; cbn; f_equal; apply IH, Hq.
Qed.
Lemma patterns_complete n p : length p = n -> In p (patterns n).
Proof.
  revert p; induction n as [|n IH]; intros p H.
  - destruct p; [left; reflexivity|discriminate].
  - destruct p as [|b p]; [discriminate|]. cbn. apply in_or_app.
    destruct b; [right|left]; apply in_map; apply IH; cbn in H; lia.
Qed.
Lemma NoDup_app_disj {A} (l m : list A) :
  NoDup l -> NoDup m -> (forall x, In x l -> In x m -> False) -> NoDup (l ++ m).
Proof.
  induction l as [|a l IH]; intros Hl Hm Hd; cbn; [exact Hm|].
  inversion Hl; subst. constructor.
  - intros Hin. apply in_app_or in Hin as [Hin|Hin]; [contradiction|]. apply (Hd a); [left; reflexivity|exact Hin].
  - apply IH; [assumption|assumption|]. intros x Hx; apply Hd; right; exact Hx.
Qed.
Lemma NoDup_map_inj {A B} (f : A -> B) l : (forall x y, f x = f y -> x = y) -> NoDup l -> NoDup (map f l).
Proof.
  intros Hf; induction 1 as [|a l Hn _ IH]; cbn; constructor; [|exact IH].
  intros Hin. apply in_map_iff in Hin as [y [Hy Hin]]. apply Hf in Hy; subst. contradiction.
Qed.
Lemma patterns_nodup n : NoDup (patterns n).
Proof.
  induction n as [|n IH]; cbn; [constructor; [intros []|constructor]|].
  apply NoDup_app_disj.
  - apply NoDup_map_inj; [intros x y H; inversion H; reflexivity|exact IH].
  - apply NoDup_map_inj; [intros x y H; inversion H; reflexivity|exact IH].
  - intros x H1 H2. apply in_map_iff in H1 as [p [<- _]]. apply in_map_iff in H2 as [q [Hq _]]. discriminate.
Qed.

Definition all_off (n : nat) : list bool := repeat false n.
Definition all_on (n : nat) : list bool := repeat true n.

Definition positive_ratings (rs : list Q) : Prop := forall r, In r rs -> 0 < r.

Lemma capq_nonneg rs p : positive_ratings rs -> 0 <= capq rs p.
Proof.
  revert p; induction rs as [|r rs IH]; intros p H; cbn; [lra|]. destruct p as [|b p]; [lra|].
  assert (0 < r) by (apply H; left; reflexivity).
  assert (0 <= capq rs p) by (apply IH; intros q Hq; apply H; right; exact Hq).
  destruct b; lra.
Qed.
Lemma capq_zero_all_off rs p : positive_ratings rs -> length p = length rs ->
  capq rs p == 0 -> p = all_off (length rs).
Proof.
  revert p; induction rs as [|r rs IH]; intros p H L E.
  - destruct p; [reflexivity|discriminate].
  - destruct p as [|b p]; [discriminate|]. cbn in *.
    assert (0 < r) by (apply H; left; reflexivity).
    assert (Hp : positive_ratings rs) by (intros q Hq; apply H; right; exact Hq).
    pose proof (capq_nonneg rs p Hp).
    destruct b; [lra|]. f_equal. apply IH; [exact Hp|lia|lra].
Qed.
Lemma capq_all_off rs : capq rs (all_off (length rs)) == 0.
Proof. induction rs as [|r rs IH]; cbn; [reflexivity|]. rewrite IH. ring. Qed.
Lemma capq_le_all_on rs p : positive_ratings rs -> capq rs p <= capq rs (all_on (length rs)).
Proof.
  revert p; induction rs as [|r rs IH]; intros p H; cbn; [destruct p; lra|].
  assert (0 < r) by (apply H; left; reflexivity).
  assert (Hp : positive_ratings rs) by (intros q Hq; apply H; right; exact Hq).
  destruct p as [|b p].
  - pose proof (capq_nonneg rs (all_on (length rs)) Hp) as Hnn. unfold all_on in *. lra.
  - specialize (IH p Hp). unfold all_on in *. destruct b; lra.
Qed.
Lemma capq_all_on rs : capq rs (all_on (length rs)) == qsum rs.
Proof. induction rs as [|r rs IH]; cbn; [reflexivity|]. rewrite IH. ring. Qed.

(* ---- the sorted entry list ---- *)
Lemma patterns_length_ge1 n : (1 <= length (patterns n))%nat.
Proof. induction n as [|n IH]; cbn; [lia|]. rewrite app_length, !map_length. lia. Qed.
Lemma patterns_length_ge2 n : (1 <= n)%nat -> (2 <= length (patterns n))%nat.
Proof.
  destruct n as [|n]; [lia|]. intros _. cbn. rewrite app_length, !map_length.
  pose proof (patterns_length_ge1 n). lia.
Qed.

Definition ent (rs : list Q) (f : Q) (p : list bool) : entry := (f * capq rs p, p).

Section Entries.
  Variables (rs : list Q) (f : Q).
  Hypothesis Hpos : positive_ratings rs.
  Hypothesis Hf : 0 < f.
  Hypothesis Hne : (1 <= length rs)%nat.
  Let n := length rs.
  Let L := map (ent rs f) (patterns n).
  Let S := sorted_entries rs f.

  Lemma S_perm : Permutation S L.
  Proof. apply sortp_perm. Qed.
  Lemma S_srt : srt _ fst S.
  Proof. apply sortp_srt. Qed.
  Lemma in_S e : In e S <-> exists p, length p = n /\ e = ent rs f p.
  Proof.
    split.
    - intros H. apply (Permutation_in _ S_perm) in H. apply in_map_iff in H as [p [<- Hp]].
      exists p; split; [apply patterns_length, Hp|reflexivity].
    - intros [p [Hl ->]]. apply (Permutation_in _ (Permutation_sym S_perm)).
      apply in_map_iff. exists p; split; [reflexivity|apply patterns_complete, Hl].
  Qed.
  Lemma S_nodup : NoDup S.
  Proof.
    apply (Permutation_NoDup (Permutation_sym S_perm)).
    apply NoDup_map_inj; [intros x y H; inversion H; reflexivity|apply patterns_nodup].
  Qed.
  Lemma S_length : (2 <= length S)%nat.
  Proof.
    rewrite (Permutation_length S_perm). unfold L. rewrite map_length. apply patterns_length_ge2, Hne.
  Qed.

  Lemma fcap_pos p : length p = n -> p <> all_off n -> 0 < f * capq rs p.
  Proof.
    intros Hl Hp. pose proof (capq_nonneg rs p Hpos) as H0.
    destruct (Qlt_le_dec 0 (capq rs p)) as [G|G].
    - apply Qmult_lt_0_compat; assumption.
    - exfalso. apply Hp. apply capq_zero_all_off; [exact Hpos|exact Hl|lra].
  Qed.

  (* the first element is the all-off pattern, and it is strictly the smallest *)
  Lemma S_head : exists T, S = ent rs f (all_off n) :: T.
  Proof.
    pose proof S_length as HL. destruct S as [|h T] eqn:ES; [cbn in HL; lia|].
    exists T. f_equal.
    assert (Hh : In h S) by (rewrite ES; left; reflexivity).
    apply in_S in Hh as [p [Hl ->]].
    assert (Ha : In (ent rs f (all_off n)) S) by (apply in_S; exists (all_off n); split; [apply repeat_length|reflexivity]).
    rewrite ES in Ha. destruct Ha as [Ha|Ha]; [exact Ha|].
    pose proof S_srt as Hs. rewrite ES in Hs.
    pose proof (srt_head_le _ fst _ _ _ Hs Ha) as Hle. cbn [ent fst] in Hle.
    assert (Hz : f * capq rs (all_off n) == 0) by (unfold n; rewrite (capq_all_off rs); ring).
    destruct (list_eq_dec Bool.bool_dec p (all_off n)) as [->|Hp]; [reflexivity|].
    pose proof (fcap_pos p Hl Hp). lra.
  Qed.

  Lemma S_tail_not_off T e : S = ent rs f (all_off n) :: T -> In e T ->
    exists p, length p = n /\ p <> all_off n /\ e = ent rs f p.
  Proof.
    intros ES He.
    assert (Hi : In e S) by (rewrite ES; right; exact He).
    apply in_S in Hi as [p [Hl ->]]. exists p. split; [exact Hl|]. split; [|reflexivity].
    intros ->. pose proof S_nodup as Hn. rewrite ES in Hn. inversion Hn; subst. contradiction.
  Qed.

  Lemma S_head_ok x : head_ok _ fst S x.
  Proof.
    destruct S_head as [T ES]. rewrite ES. cbn [head_ok]. right.
    intros v Hv. destruct (S_tail_not_off T v ES Hv) as [p [Hl [Hp ->]]].
    cbn [ent fst]. assert (Hz : f * capq rs (all_off n) == 0) by (unfold n; rewrite (capq_all_off rs); ring).
    pose proof (fcap_pos p Hl Hp). lra.
  Qed.

  Lemma in_tail_S p : length p = n -> p <> all_off n -> In (ent rs f p) (tl S).
  Proof.
    intros Hl Hp. destruct S_head as [T ES].
    assert (Hi : In (ent rs f p) S) by (apply in_S; exists p; split; [exact Hl|reflexivity]).
    rewrite ES in *. cbn [tl]. destruct Hi as [Hi|Hi]; [|exact Hi].
    inversion Hi. congruence.
  Qed.

  (* ---- the properties of the selection ---- *)
  Theorem select_some x : exists p, select rs f x = Some (ent rs f p) /\ length p = n /\ p <> all_off n.
  Proof.
    unfold select. fold S. destruct (sel_some _ fst S x S_length) as [r Hr].
    pose proof (sel_in_tail _ fst S x r Hr) as Ht. destruct S_head as [T ES].
    rewrite ES in Ht. cbn [tl] in Ht. destruct (S_tail_not_off T r ES Ht) as [p [Hl [Hp ->]]].
    exists p. auto.
  Qed.

  Theorem select_sufficient x e : select rs f x = Some e ->
    (exists p, length p = n /\ x < f * capq rs p) -> x < fst e.
  Proof.
    unfold select; fold S. intros He [p [Hl Hx]].
    apply (sel_sufficient _ fst S x e S_srt He).
    exists (ent rs f p). split; [apply in_S; exists p; auto|exact Hx].
  Qed.

  Theorem select_all_on x e : select rs f x = Some e ->
    (forall p, length p = n -> f * capq rs p <= x) -> fst e == f * qsum rs.
  Proof.
    unfold select; fold S. intros He Hall.
    assert (Hl : e = last S e).
    { apply (sel_all_on _ fst S x e S_srt He). intros v Hv. apply in_S in Hv as [p [Hp ->]]. apply Hall, Hp. }
    assert (Hon : In (ent rs f (all_on n)) S) by (apply in_S; exists (all_on n); split; [apply repeat_length|reflexivity]).
    assert (Hmax : fst (ent rs f (all_on n)) <= fst e).
    { rewrite Hl. exact (srt_last_max _ fst S e _ S_srt Hon). }
    cbn [ent fst] in Hmax.
    assert (Hin : In e S) by (pose proof (sel_in_tail _ fst S x e He) as Ht; destruct S; [destruct Ht|right; exact Ht]).
    apply in_S in Hin as [p [Hp ->]]. cbn [ent fst] in *.
    pose proof (capq_le_all_on rs p Hpos) as Hle. rewrite (capq_all_on rs) in *.
    assert (f * capq rs p <= f * qsum rs) by (apply Qmult_le_l; assumption).
    assert (Hq : f * capq rs (all_on n) == f * qsum rs) by (unfold n; rewrite (capq_all_on rs); ring).
    lra.
  Qed.

  Theorem select_minimal x e : select rs f x = Some e ->
    forall q, length q = n -> q <> all_off n -> x < f * capq rs q -> fst e <= f * capq rs q.
  Proof.
    unfold select; fold S. intros He q Hl Hq Hx.
    apply (sel_minimal _ fst S x e S_srt (S_head_ok x) He (ent rs f q)); [apply in_tail_S; assumption|exact Hx].
  Qed.

  Theorem select_monotone x y e e' : x <= y ->
    select rs f x = Some e -> select rs f y = Some e' -> fst e <= fst e'.
  Proof. unfold select; fold S. intros Hxy He He'. apply (sel_monotone _ fst S x y e e' S_srt Hxy He He'). Qed.
End Entries.

(* ---- equal-size variant ---- *)
Lemma div_le_mul a b c : 0 < b -> a / b <= c -> a <= c * b.
Proof.
  intros Hb H. assert (E : a == a / b * b) by (field; lra). rewrite E.
  apply Qmult_le_compat_r; [exact H|lra].
Qed.
Lemma lt_div_mul a b c : 0 < b -> c < a / b -> c * b < a.
Proof.
  intros Hb H. assert (E : a == a / b * b) by (field; lra). rewrite E.
  apply Qmult_lt_compat_r; [exact Hb|exact H].
Qed.

Section EqualSize.
  Variables (N : Z) (r f : Q).
  Hypothesis HN : (1 <= N)%Z.
  Hypothesis Hc : 0 < r * f.

  Lemma ideal_at_least_one x : (1 <= ideal_number N r f x <= N)%Z.
  Proof.
    unfold ideal_number. destruct (Qle_bool x 0) eqn:E; [lia|].
    assert (Hx : 0 < x). { destruct (Qlt_le_dec 0 x); [assumption|]. apply Qle_bool_iff in q. congruence. }
    assert (H1 : (1 <= Qceiling (x / (r * f)))%Z).
    { assert (0 < x / (r * f)) by (apply Qlt_shift_div_l; lra).
      pose proof (Qle_ceiling (x / (r * f))) as Hc1.
      assert (0 < inject_Z (Qceiling (x / (r * f)))) by lra.
      unfold Qlt in H0; cbn in H0. lia. }
    lia.
  Qed.

  (* sufficient: whenever the plant can carry the load without exceeding the fraction, the chosen
     number can (with >=: at a load exactly on a threshold the units run AT the allowed fraction) *)
  Lemma ideal_sufficient x : x <= inject_Z N * (r * f) -> x <= inject_Z (ideal_number N r f x) * (r * f).
  Proof.
    intros H. unfold ideal_number. destruct (Qle_bool x 0) eqn:E.
    - apply Qle_bool_iff in E. assert (Hm : Z.min 1 N = 1%Z) by lia. rewrite Hm.
      change (inject_Z 1) with 1. lra.
    - destruct (Z.min_spec (Qceiling (x / (r * f))) N) as [[_ ->]|[_ ->]]; [|exact H].
      pose proof (Qle_ceiling (x / (r * f))) as Hc1.
      apply div_le_mul in Hc1; [|exact Hc]. lra.
  Qed.

  (* minimal: one unit fewer would be loaded above the fraction *)
  Lemma ideal_minimal x : (1 < ideal_number N r f x)%Z ->
    inject_Z (ideal_number N r f x - 1) * (r * f) < x.
  Proof.
    unfold ideal_number. destruct (Qle_bool x 0) eqn:E; [lia|]. intros H.
    assert (Hle : (Z.min (Qceiling (x / (r * f))) N - 1 <= Qceiling (x / (r * f)) - 1)%Z) by lia.
    pose proof (Qceiling_lt (x / (r * f))) as Hlt.
    assert (inject_Z (Z.min (Qceiling (x / (r * f))) N - 1) <= inject_Z (Qceiling (x / (r * f)) - 1)).
    { unfold Qle; cbn. lia. }
    assert (inject_Z (Z.min (Qceiling (x / (r * f))) N - 1) < x / (r * f)) by lra.
    apply lt_div_mul in H1; [|exact Hc]. exact H1.
  Qed.

  Lemma ideal_monotone x y : x <= y -> (ideal_number N r f x <= ideal_number N r f y)%Z.
  Proof.
    intros Hxy. pose proof (ideal_at_least_one y) as Hy. unfold ideal_number in *.
    destruct (Qle_bool x 0) eqn:Ex.
    - assert (Hm : Z.min 1 N = 1%Z) by lia. rewrite Hm. lia.
    - destruct (Qle_bool y 0) eqn:Ey.
      + apply Qle_bool_iff in Ey. assert (Qle_bool x 0 = true) by (apply Qle_bool_iff; lra). congruence.
      + assert (Hd : x / (r * f) <= y / (r * f)).
        { unfold Qdiv. apply Qmult_le_compat_r; [exact Hxy|]. apply Qlt_le_weak, Qinv_lt_0_compat, Hc. }
        pose proof (Qceiling_resp_le _ _ Hd). lia.
  Qed.
End EqualSize.
