From Coq Require Import QArith Qabs List Bool ZArith Lia Lqa.
From Feems Require Import Base.Num Base.Pchip.
Import ListNotations.
Open Scope Q_scope.

(* the cubic Hermite piece in Bernstein form: control values y0, y0 + h d0 / 3, y1 - h d1 / 3, y1 *)
Lemma hermite_bernstein x0 y0 d0 x1 y1 d1 x : ~ x1 - x0 == 0 ->
  let h := x1 - x0 in let t := (x - x0) / h in
  hermite x0 y0 d0 x1 y1 d1 x ==
    y0 * ((1 - t) * (1 - t) * (1 - t)) + (y0 + h * d0 / 3) * (3 * t * ((1 - t) * (1 - t)))
    + (y1 - h * d1 / 3) * (3 * (t * t) * (1 - t)) + y1 * (t * t * t).
Proof. intros H h t. unfold hermite, t, h. field. exact H. Qed.

Lemma bernstein_sum t : (1 - t) * (1 - t) * (1 - t) + 3 * t * ((1 - t) * (1 - t)) + 3 * (t * t) * (1 - t) + t * t * t == 1.
Proof. ring. Qed.

(* convex-hull property: between the end values when the two inner control values are *)
Theorem hermite_between x0 y0 d0 x1 y1 d1 x : x0 < x1 -> x0 <= x <= x1 ->
  y0 <= y0 + (x1 - x0) * d0 / 3 <= y1 -> y0 <= y1 - (x1 - x0) * d1 / 3 <= y1 ->
  y0 <= hermite x0 y0 d0 x1 y1 d1 x <= y1.
Proof.
  intros Hx [Ha Hb] [A1 A2] [B1 B2].
  assert (Hh : ~ x1 - x0 == 0) by lra.
  rewrite (hermite_bernstein x0 y0 d0 x1 y1 d1 x Hh). cbv zeta.
  set (h := x1 - x0) in *. set (t := (x - x0) / h).
  assert (T0 : 0 <= t). { unfold t. apply Qle_shift_div_l; [unfold h; lra|lra]. }
  assert (T1 : t <= 1). { unfold t. apply Qle_shift_div_r; [unfold h; lra|unfold h; lra]. }
  set (c1 := y0 + h * d0 / 3) in *. set (c2 := y1 - h * d1 / 3) in *.
  set (b0 := (1 - t) * (1 - t) * (1 - t)). set (b1 := 3 * t * ((1 - t) * (1 - t))).
  set (b2 := 3 * (t * t) * (1 - t)). set (b3 := t * t * t).
  assert (S : b0 + b1 + b2 + b3 == 1) by apply bernstein_sum.
  assert (U : 0 <= 1 - t) by lra.
  assert (P0 : 0 <= b0). { unfold b0. apply Qmult_le_0_compat; [apply Qmult_le_0_compat|]; exact U. }
  assert (P1 : 0 <= b1). { unfold b1. apply Qmult_le_0_compat; [lra|apply Qmult_le_0_compat; exact U]. }
  assert (P2 : 0 <= b2). { unfold b2. apply Qmult_le_0_compat; [|exact U]. assert (0 <= t * t) by (apply Qmult_le_0_compat; exact T0). lra. }
  assert (P3 : 0 <= b3). { unfold b3. apply Qmult_le_0_compat; [apply Qmult_le_0_compat|]; exact T0. }
  assert (L1 : 0 <= (c1 - y0) * b1) by (apply Qmult_le_0_compat; lra).
  assert (L2 : 0 <= (c2 - y0) * b2) by (apply Qmult_le_0_compat; lra).
  assert (L3 : 0 <= (y1 - y0) * b3) by (apply Qmult_le_0_compat; lra).
  assert (R0 : 0 <= (y1 - y0) * b0) by (apply Qmult_le_0_compat; lra).
  assert (R1 : 0 <= (y1 - c1) * b1) by (apply Qmult_le_0_compat; lra).
  assert (R2 : 0 <= (y1 - c2) * b2) by (apply Qmult_le_0_compat; lra).
  split.
  - assert (E : y0 * b0 + c1 * b1 + c2 * b2 + y1 * b3 == y0 * (b0 + b1 + b2 + b3) + (c1 - y0) * b1 + (c2 - y0) * b2 + (y1 - y0) * b3) by ring.
    rewrite E, S. lra.
  - assert (E : y0 * b0 + c1 * b1 + c2 * b2 + y1 * b3 == y1 * (b0 + b1 + b2 + b3) - (y1 - y0) * b0 - (y1 - c1) * b1 - (y1 - c2) * b2) by ring.
    rewrite E, S. lra.
Qed.

(* in terms of slopes: 0 <= d0, d1 <= 3 x secant slope (the Fritsch-Carlson box) *)
Corollary hermite_between_slopes x0 y0 d0 x1 y1 d1 x : x0 < x1 -> x0 <= x <= x1 ->
  let m := (y1 - y0) / (x1 - x0) in
  0 <= d0 <= 3 * m -> 0 <= d1 <= 3 * m ->
  y0 <= hermite x0 y0 d0 x1 y1 d1 x <= y1.
Proof.
  intros Hx Hin m [D0 D0'] [D1 D1'].
  assert (Hh : 0 < x1 - x0) by lra.
  assert (M : m * (x1 - x0) == y1 - y0) by (unfold m; field; lra).
  assert (K0 : 0 <= (x1 - x0) * d0) by (apply Qmult_le_0_compat; lra).
  assert (K1 : 0 <= (x1 - x0) * d1) by (apply Qmult_le_0_compat; lra).
  assert (U0 : (x1 - x0) * d0 <= 3 * (y1 - y0)).
  { rewrite <- M. assert (0 <= (x1 - x0) * (3 * m - d0)) by (apply Qmult_le_0_compat; lra). lra. }
  assert (U1 : (x1 - x0) * d1 <= 3 * (y1 - y0)).
  { rewrite <- M. assert (0 <= (x1 - x0) * (3 * m - d1)) by (apply Qmult_le_0_compat; lra). lra. }
  apply hermite_between; try assumption.
  - set (z0 := (x1 - x0) * d0) in *. assert (E : z0 / 3 == z0 * (1 # 3)) by field. rewrite E. lra.
  - set (z1 := (x1 - x0) * d1) in *. assert (E : z1 / 3 == z1 * (1 # 3)) by field. rewrite E. lra.
Qed.

(* ------------------------------------------------------------------------------------------ *)
(* the slopes PCHIP chooses for increasing data lie in the Fritsch-Carlson box of both neighbours *)
From Feems Require Import Proofs.ComponentProofs.

Lemma qsgn_pos x : 0 < x -> qsgn x = 1%Z.
Proof. intros H. unfold qsgn. destruct (Qcompare_spec x 0); try lra. reflexivity. Qed.

Lemma interior_bounds h0 h1 m0 m1 : 0 < h0 -> 0 < h1 -> 0 < m0 -> 0 < m1 ->
  0 <= interior h0 h1 m0 m1 /\ interior h0 h1 m0 m1 <= 3 * m0 /\ interior h0 h1 m0 m1 <= 3 * m1.
Proof.
  intros H0 H1 M0 M1. unfold interior.
  rewrite (qsgn_pos _ M0), (qsgn_pos _ M1). cbn [Z.eqb Pos.eqb negb orb].
  assert (E1 : Qeq_bool m1 0 = false) by (destruct (Qeq_bool m1 0) eqn:B; [apply Qeq_bool_eq in B; lra|reflexivity]).
  assert (E0 : Qeq_bool m0 0 = false) by (destruct (Qeq_bool m0 0) eqn:B; [apply Qeq_bool_eq in B; lra|reflexivity]).
  rewrite E1, E0. cbn [orb]. rewrite Qred_correct.
  set (w1 := 2 * h1 + h0). set (w2 := h1 + 2 * h0).
  assert (W1 : 0 < w1) by (unfold w1; lra). assert (W2 : 0 < w2) by (unfold w2; lra).
  assert (D : 0 < w1 * m1 + w2 * m0).
  { assert (0 < w1 * m1) by (apply Qmult_lt_0_compat; assumption).
    assert (0 < w2 * m0) by (apply Qmult_lt_0_compat; assumption). lra. }
  assert (E : 1 / ((w1 / m0 + w2 / m1) / (w1 + w2)) == (w1 + w2) * (m0 * m1) / (w1 * m1 + w2 * m0)).
  { field. repeat split; lra. }
  rewrite E.
  assert (P : 0 < m0 * m1) by (apply Qmult_lt_0_compat; assumption).
  assert (N : 0 <= (w1 + w2) * (m0 * m1)) by (apply Qmult_le_0_compat; lra).
  split; [apply Qle_shift_div_l; [exact D|lra]|].
  split; apply Qle_shift_div_r; try exact D.
  - (* (w1+w2) m0 m1 <= 3 m0 (w1 m1 + w2 m0)  <=  w2 <= 2 w1 *)
    assert (A : 0 <= m0 * m1 * (2 * w1 - w2)) by (apply Qmult_le_0_compat; [lra|unfold w1, w2; lra]).
    assert (B : 0 <= 3 * w2 * (m0 * m0)) by (apply Qmult_le_0_compat; [lra|apply Qmult_le_0_compat; lra]).
    nra.
  - assert (A : 0 <= m0 * m1 * (2 * w2 - w1)) by (apply Qmult_le_0_compat; [lra|unfold w1, w2; lra]).
    assert (B : 0 <= 3 * w1 * (m1 * m1)) by (apply Qmult_le_0_compat; [lra|apply Qmult_le_0_compat; lra]).
    nra.
Qed.

Lemma edge_bounds h0 h1 m0 m1 : 0 < h0 -> 0 < h1 -> 0 < m0 -> 0 < m1 ->
  0 <= edge h0 h1 m0 m1 <= 3 * m0.
Proof.
  intros H0 H1 M0 M1. unfold edge. set (d := Qred (((2 * h0 + h1) * m0 - h0 * m1) / (h0 + h1))).
  rewrite (qsgn_pos _ M0), (qsgn_pos _ M1).
  destruct (Z.eqb (qsgn d) 1) eqn:S; cbn [negb]; [|lra].
  cbn [Z.eqb Pos.eqb negb andb].
  assert (Dp : 0 < d).
  { apply Z.eqb_eq in S. unfold qsgn in S. destruct (Qcompare_spec d 0); try discriminate. assumption. }
  split; [lra|].
  unfold d. rewrite Qred_correct. apply Qle_shift_div_r; [lra|].
  assert (A : 0 <= h0 * m1) by (apply Qmult_le_0_compat; lra).
  assert (B : 0 <= m0 * (h0 + 2 * h1)) by (apply Qmult_le_0_compat; lra).
  nra.
Qed.

(* slopes good for a point list: every piece has both its end slopes in [0, 3 x secant slope] *)
Fixpoint good (pts : list (Q * Q)) (ds : list Q) : Prop :=
  match pts, ds with
  | (x0, y0) :: (((x1, y1) :: _) as r), d0 :: ((d1 :: _) as dr) =>
      let m := (y1 - y0) / (x1 - x0) in
      0 <= d0 <= 3 * m /\ 0 <= d1 <= 3 * m /\ good r dr
  | [_], [_] => True
  | _, _ => False
  end.

(* consecutive knots *)
Inductive consec {A} : list A -> A -> A -> Prop :=
| c_here p q r : consec (p :: q :: r) p q
| c_next a l p q : consec l p q -> consec (a :: l) p q.

Lemma consec_in {A} (l : list A) p q : consec l p q -> In p l /\ In q l.
Proof. induction 1; cbn; [tauto|]. destruct IHconsec. tauto. Qed.
Lemma consec_len {A} (l : list A) p q : consec l p q -> (2 <= length l)%nat.
Proof. induction 1; cbn; lia. Qed.

Lemma sorted_tail p l : strictly_sorted (p :: l) -> l <> [] -> strictly_sorted l.
Proof. intros H N. inversion H; subst; [contradiction|assumption]. Qed.

Lemma sorted_le_first p l z : strictly_sorted (p :: l) -> In z (p :: l) -> fst p <= fst z.
Proof.
  intros H [<-|Hin]; [lra|]. destruct l as [|q r]; [destruct Hin|].
  apply Qlt_le_weak. apply (sorted_head_lt p q r z H Hin).
Qed.

(* BETWEEN KNOTS: with good slopes the interpolant at x in [x_k, x_{k+1}) lies in [y_k, y_{k+1}] *)
Theorem eval_between pts ds p q x : strictly_sorted pts -> good pts ds -> consec pts p q ->
  fst p <= x < fst q -> snd p <= eval_aux pts ds x <= snd q.
Proof.
  intros Hs Hg Hc. revert ds Hs Hg. induction Hc as [[x0 y0] [x1 y1] r|a l p q Hc IH]; intros ds Hs Hg [Ha Hb].
  - destruct ds as [|d0 [|d1 dr]]; cbn [good] in Hg; try contradiction; try (destruct r; contradiction).
    destruct Hg as [G0 [G1 _]]. cbn [fst snd] in *.
    assert (Hx : x0 < x1) by (inversion Hs; assumption).
    assert (Hh : snd (x0, y0) <= hermite x0 y0 d0 x1 y1 d1 x <= snd (x1, y1)).
    { apply hermite_between_slopes; [exact Hx|lra|exact G0|exact G1]. }
    destruct r as [|p2 pr]; [rewrite eval_aux_last; exact Hh|].
    rewrite eval_aux_step.
    assert (E : Qle_bool x1 x = false) by (destruct (Qle_bool x1 x) eqn:B; [apply Qle_bool_iff in B; lra|reflexivity]).
    rewrite E. exact Hh.
  - destruct a as [x0 y0]. destruct l as [|[x1 y1] pr]; [inversion Hc|].
    destruct pr as [|p2 pr']; [inversion Hc as [| ? ? ? ? Hc']; inversion Hc'|].
    destruct ds as [|d0 [|d1 dr]]; cbn [good] in Hg; try contradiction.
    destruct Hg as [_ [_ Hg]].
    rewrite eval_aux_step.
    assert (Hs' : strictly_sorted ((x1, y1) :: p2 :: pr')) by (inversion Hs; assumption).
    assert (Hp : x1 <= fst p).
    { destruct (consec_in _ _ _ Hc) as [Hin _]. apply (sorted_le_first (x1, y1) (p2 :: pr') p Hs' Hin). }
    assert (E : Qle_bool x1 x = true) by (apply Qle_bool_iff; lra).
    rewrite E. apply IH; [exact Hs'|exact Hg|split; assumption].
Qed.

(* ------------------------------------------------------------------------------------------ *)
(* increasing data: abscissae and ordinates both strictly increasing *)
Inductive mono : list (Q * Q) -> Prop :=
| mono1 p : mono [p]
| mono2 p q r : fst p < fst q -> snd p < snd q -> mono (q :: r) -> mono (p :: q :: r).

Lemma mono_sorted pts : mono pts -> strictly_sorted pts.
Proof. induction 1; constructor; assumption. Qed.

Definition slope (p q : Q * Q) : Q := (snd q - snd p) / (fst q - fst p).
Lemma slope_pos p q : fst p < fst q -> snd p < snd q -> 0 < slope p q.
Proof. intros H1 H2. unfold slope. apply Qlt_shift_div_l; lra. Qed.

Fixpoint last_slope (pts : list (Q * Q)) : Q :=
  match pts with
  | p :: ((q :: r) as t) => match r with [] => slope p q | _ => last_slope t end
  | _ => 0
  end.

Lemma hs_cons x0 x1 r : hs (x0 :: x1 :: r) = Qred (x1 - x0) :: hs (x1 :: r).
Proof. reflexivity. Qed.
Lemma ms_cons x0 y0 x1 y1 r : ms ((x0, y0) :: (x1, y1) :: r) = Qred ((y1 - y0) / (x1 - x0)) :: ms ((x1, y1) :: r).
Proof. reflexivity. Qed.

(* interior slopes between a good first slope and a good last slope *)
Lemma good_interiors r : forall p0 p1 dA dZ, r <> [] -> mono (p0 :: p1 :: r) ->
  0 <= dA <= 3 * slope p0 p1 -> 0 <= dZ <= 3 * last_slope (p0 :: p1 :: r) ->
  good (p0 :: p1 :: r) (dA :: interiors (hs (map fst (p0 :: p1 :: r))) (ms (p0 :: p1 :: r)) ++ [dZ]).
Proof.
  induction r as [|p2 r IH]; intros [x0 y0] [x1 y1] dA dZ Hne Hm HA HZ; [contradiction|].
  destruct p2 as [x2 y2].
  inversion Hm as [|? ? ? X01 Y01 Hm1]; subst. inversion Hm1 as [|? ? ? X12 Y12 Hm2]; subst. cbn [fst snd] in *.
  pose proof (slope_pos (x0, y0) (x1, y1) X01 Y01) as S0. pose proof (slope_pos (x1, y1) (x2, y2) X12 Y12) as S1.
  unfold slope in S0, S1, HA. cbn [fst snd] in S0, S1, HA.
  cbn [map fst]. rewrite !hs_cons, !ms_cons.
  assert (IB : 0 <= interior (Qred (x1 - x0)) (Qred (x2 - x1)) (Qred ((y1 - y0) / (x1 - x0))) (Qred ((y2 - y1) / (x2 - x1)))
               /\ interior (Qred (x1 - x0)) (Qred (x2 - x1)) (Qred ((y1 - y0) / (x1 - x0))) (Qred ((y2 - y1) / (x2 - x1))) <= 3 * ((y1 - y0) / (x1 - x0))
               /\ interior (Qred (x1 - x0)) (Qred (x2 - x1)) (Qred ((y1 - y0) / (x1 - x0))) (Qred ((y2 - y1) / (x2 - x1))) <= 3 * ((y2 - y1) / (x2 - x1))).
  { assert (P1 : 0 < Qred (x1 - x0)) by (rewrite Qred_correct; lra).
    assert (P2 : 0 < Qred (x2 - x1)) by (rewrite Qred_correct; lra).
    assert (P3 : 0 < Qred ((y1 - y0) / (x1 - x0))) by (rewrite Qred_correct; exact S0).
    assert (P4 : 0 < Qred ((y2 - y1) / (x2 - x1))) by (rewrite Qred_correct; exact S1).
    pose proof (interior_bounds _ _ _ _ P1 P2 P3 P4) as B.
    set (J := interior (Qred (x1 - x0)) (Qred (x2 - x1)) (Qred ((y1 - y0) / (x1 - x0))) (Qred ((y2 - y1) / (x2 - x1)))) in *.
    rewrite !Qred_correct in B. exact B. }
  set (I0 := interior (Qred (x1 - x0)) (Qred (x2 - x1)) (Qred ((y1 - y0) / (x1 - x0))) (Qred ((y2 - y1) / (x2 - x1)))) in *.
  destruct IB as [B0 [B1 B2]].
  destruct r as [|p3 r'].
  - (* three points: one interior slope *)
    cbn [hs ms map interiors app good]. cbn [last_slope] in HZ. unfold slope in HZ. cbn [fst snd] in HZ.
    repeat split; try lra; try exact B0; try exact B1; try exact B2.
  - change (interiors (Qred (x1 - x0) :: Qred (x2 - x1) :: hs (x2 :: map fst (p3 :: r')))
                      (Qred ((y1 - y0) / (x1 - x0)) :: Qred ((y2 - y1) / (x2 - x1)) :: ms ((x2, y2) :: p3 :: r')))
      with (I0 :: interiors (Qred (x2 - x1) :: hs (x2 :: map fst (p3 :: r'))) (Qred ((y2 - y1) / (x2 - x1)) :: ms ((x2, y2) :: p3 :: r'))).
    cbn [app]. cbn [good]. split; [lra|]. split; [lra|].
    specialize (IH (x1, y1) (x2, y2) I0 dZ).
    cbn [map fst] in IH. rewrite !hs_cons, !ms_cons in IH. apply IH.
    + discriminate.
    + exact Hm1.
    + unfold slope. cbn [fst snd]. lra.
    + exact HZ.
Qed.

Lemma hs_pos pts : mono pts -> Forall (fun v => 0 < v) (hs (map fst pts)).
Proof.
  induction 1 as [p|[x0 y0] [x1 y1] r X Y Hm IH]; [constructor|].
  cbn [map fst] in *. rewrite hs_cons. constructor; [cbv beta; rewrite Qred_correct; cbn [fst] in X; lra|exact IH].
Qed.
Lemma ms_pos pts : mono pts -> Forall (fun v => 0 < v) (ms pts).
Proof.
  induction 1 as [[x y]|[x0 y0] [x1 y1] r X Y Hm IH]; [constructor|].
  rewrite ms_cons. constructor; [|exact IH]. cbv beta. rewrite Qred_correct. cbn [fst snd] in X, Y.
  apply (slope_pos (x0, y0) (x1, y1)); assumption.
Qed.

Lemma rev_head_last {A} (l : list A) a r d : rev l = a :: r -> last l d = a.
Proof.
  intros H. assert (E : l = rev r ++ [a]) by (rewrite <- (rev_involutive l), H; reflexivity).
  rewrite E. apply last_last.
Qed.

Lemma last_ms pts : mono pts -> (2 <= length pts)%nat -> last (ms pts) 0 == last_slope pts.
Proof.
  induction 1 as [p|[x0 y0] [x1 y1] r X Y Hm IH]; intros L; [cbn in L; lia|].
  destruct r as [|p2 r'].
  - rewrite ms_cons. cbn [ms last last_slope]. unfold slope. cbn [fst snd]. rewrite Qred_correct. reflexivity.
  - rewrite ms_cons. change (last_slope ((x0, y0) :: (x1, y1) :: p2 :: r')) with (last_slope ((x1, y1) :: p2 :: r')).
    rewrite <- IH by (cbn; lia). destruct p2 as [x2 y2]. rewrite ms_cons. reflexivity.
Qed.

Lemma hs_length' (pts : list (Q * Q)) : length (hs (map fst pts)) = (length pts - 1)%nat.
Proof. rewrite hs_length, map_length. reflexivity. Qed.

Theorem good_derivs pts : mono pts -> (2 <= length pts)%nat -> good pts (derivs pts).
Proof.
  intros Hm L. destruct pts as [|[x0 y0] [|[x1 y1] r]]; try (cbn in L; lia).
  pose proof (hs_pos _ Hm) as HP. pose proof (ms_pos _ Hm) as MP.
  inversion Hm as [|? ? ? X01 Y01 Hm1]; subst. cbn [fst snd] in X01, Y01.
  pose proof (slope_pos (x0, y0) (x1, y1) X01 Y01) as S0. unfold slope in S0. cbn [fst snd] in S0.
  destruct r as [|[x2 y2] r'].
  - (* two points: both slopes are the secant slope *)
    unfold derivs. cbn [map fst]. rewrite hs_cons, ms_cons. cbn [hs ms good]. rewrite Qred_correct. repeat split; lra.
  - unfold derivs.
    pose proof (last_ms _ Hm L) as LM.
    cbn [map fst] in *. rewrite !hs_cons, !ms_cons in *.
    set (h0 := Qred (x1 - x0)) in *. set (h1 := Qred (x2 - x1)) in *.
    set (m0 := Qred ((y1 - y0) / (x1 - x0))) in *. set (m1 := Qred ((y2 - y1) / (x2 - x1))) in *.
    set (hr := hs (x2 :: map fst r')) in *. set (mr := ms ((x2, y2) :: r')) in *.
    assert (Lh : length (h0 :: h1 :: hr) = length (m0 :: m1 :: mr)).
    { unfold hr, mr. cbn [length]. f_equal. f_equal.
      change (x2 :: map fst r') with (map fst ((x2, y2) :: r')). rewrite hs_length', ms_length. reflexivity. }
    destruct (rev (h0 :: h1 :: hr)) as [|hl [|hl' hrest]] eqn:RH.
    { apply (f_equal (@length Q)) in RH. rewrite rev_length in RH. cbn in RH. lia. }
    { apply (f_equal (@length Q)) in RH. rewrite rev_length in RH. cbn in RH. lia. }
    destruct (rev (m0 :: m1 :: mr)) as [|ml [|ml' mrest]] eqn:RM.
    { apply (f_equal (@length Q)) in RM. rewrite rev_length in RM. cbn in RM. lia. }
    { apply (f_equal (@length Q)) in RM. rewrite rev_length in RM. cbn in RM. lia. }
    assert (Pin : forall v, In v (hl :: hl' :: hrest) -> 0 < v).
    { intros v Hv. rewrite <- RH in Hv. apply in_rev in Hv. rewrite Forall_forall in HP. apply HP, Hv. }
    assert (Min : forall v, In v (ml :: ml' :: mrest) -> 0 < v).
    { intros v Hv. rewrite <- RM in Hv. apply in_rev in Hv. rewrite Forall_forall in MP. apply MP, Hv. }
    assert (P0 : 0 < h0 /\ 0 < h1 /\ 0 < m0 /\ 0 < m1).
    { inversion HP as [|? ? Ha HP']; subst. inversion HP' as [|? ? Hb _]; subst.
      inversion MP as [|? ? Hc MP']; subst. inversion MP' as [|? ? Hd _]; subst. tauto. }
    destruct P0 as [Ph0 [Ph1 [Pm0 Pm1]]].
    apply (good_interiors ((x2, y2) :: r') (x0, y0) (x1, y1)); [discriminate|exact Hm| |].
    + pose proof (edge_bounds h0 h1 m0 m1 Ph0 Ph1 Pm0 Pm1) as [E0 E1]. unfold slope. cbn [fst snd].
      unfold m0 in E1 at 2. rewrite Qred_correct in E1. split; assumption.
    + pose proof (edge_bounds hl hl' ml ml' (Pin hl (or_introl eq_refl)) (Pin hl' (or_intror (or_introl eq_refl)))
                    (Min ml (or_introl eq_refl)) (Min ml' (or_intror (or_introl eq_refl)))) as [E0 E1].
      rewrite <- LM. rewrite (rev_head_last _ _ _ 0 RM). split; assumption.
Qed.

Lemma good_Qred pts : forall ds, good pts ds -> good pts (map Qred ds).
Proof.
  induction pts as [|[x0 y0] pts IH]; intros ds H; [destruct ds; exact H|].
  destruct pts as [|[x1 y1] r].
  - destruct ds as [|d0 [|d1 dr]]; cbn in *; try contradiction. exact I.
  - destruct ds as [|d0 [|d1 dr]]; cbn [good] in H; try contradiction.
    destruct H as [A [B G]]. cbn [map good]. rewrite !Qred_correct. split; [exact A|]. split; [exact B|].
    apply (IH (d1 :: dr)). exact G.
Qed.

(* PCHIP through increasing data stays between neighbouring knots *)
Theorem pchip_between_knots pts p q x : mono pts -> consec pts p q -> fst p <= x < fst q ->
  snd p <= pchip pts x <= snd q.
Proof.
  intros Hm Hc Hx. unfold pchip. rewrite Qred_correct.
  apply eval_between; [apply mono_sorted, Hm| |exact Hc|exact Hx].
  apply good_Qred, good_derivs; [exact Hm|apply (consec_len _ _ _ Hc)].
Qed.

(* ------------------------------------------------------------------------------------------ *)
(* the interpolated inverse of a component (Model/Component.v): between two table supplies it returns a delivery
   between the two table deliveries -- it never leaves the table cell *)
From Feems Require Import Model.Component.

Lemma consec_map_seq {A} (g : nat -> A) n : forall a k, (S k < n)%nat ->
  consec (map g (seq a n)) (g (a + k)%nat) (g (a + S k)%nat).
Proof.
  induction n as [|n IH]; intros a k H; [lia|].
  destruct n as [|n]; [lia|].
  destruct k as [|k].
  - cbn [seq map]. rewrite Nat.add_0_r. replace (a + 1)%nat with (S a) by lia. constructor.
  - cbn [seq map]. apply c_next. replace (a + S k)%nat with (S a + k)%nat by lia.
    replace (a + S (S k))%nat with (S a + S k)%nat by lia. apply (IH (S a) k). lia.
Qed.

Lemma mono_map_seq (g o : nat -> Q) n : forall a, (1 <= n)%nat ->
  increasing (map (fun k => g k) (seq a n)) = true -> (forall k, o k < o (S k)) ->
  mono (map (fun k => (g k, o k)) (seq a n)).
Proof.
  induction n as [|n IH]; intros a Hn Hi Ho; [lia|].
  destruct n as [|n]; [cbn; constructor|].
  cbn [seq map] in *. cbn [increasing] in Hi.
  apply andb_true_iff in Hi as [H1 H2]. apply andb_true_iff in H1 as [H1 H3].
  constructor.
  - cbn [fst]. apply Qle_bool_iff in H1. apply negb_true_iff in H3. apply Qeq_bool_neq in H3. lra.
  - cbn [snd]. apply Ho.
  - apply (IH (S a)); [lia|exact H2|exact Ho].
Qed.

Lemma table_out_step rated k : 0 < rated -> table_out rated k < table_out rated (S k).
Proof.
  intros H. unfold table_out. rewrite Nat2Z.inj_succ. unfold Z.succ. rewrite inject_Z_plus.
  apply Qlt_shift_div_l; [lra|]. unfold Qdiv.
  assert (E : rated * (inject_Z (Z.of_nat k) - 100) * / 100 * 100 == rated * (inject_Z (Z.of_nat k) - 100)) by field.
  rewrite E. assert (0 < rated * inject_Z 1) by (apply Qmult_lt_0_compat; [exact H|reflexivity]). lra.
Qed.

Theorem inverse_between_table rated f k x : accepted rated f = true -> (k < 200)%nat ->
  fwd rated f (table_out rated k) <= x < fwd rated f (table_out rated (S k)) ->
  table_out rated k <= inv rated f x <= table_out rated (S k).
Proof.
  intros Ha Hk Hx. unfold accepted in Ha. apply andb_true_iff in Ha as [Hr Hinc]. apply andb_true_iff in Hr as [R0 R1].
  assert (Hrated : 0 < rated).
  { apply Qle_bool_iff in R0. apply negb_true_iff in R1. unfold qzero in R1. apply Qeq_bool_neq in R1. lra. }
  unfold inv, inv_with. rewrite Qred_correct.
  assert (Hm : mono (table rated f)).
  { unfold table. apply (mono_map_seq (fun k => fwd rated f (table_out rated k)) (table_out rated) 201 0); [lia| |].
    - unfold table in Hinc. rewrite map_map in Hinc. exact Hinc.
    - intros j. apply table_out_step, Hrated. }
  pose proof (consec_map_seq (fun k => (fwd rated f (table_out rated k), table_out rated k)) 201 0 k) as Hc.
  cbn [Nat.add] in Hc. specialize (Hc ltac:(lia)). fold (table rated f) in Hc.
  assert (G : good (table rated f) (slopes rated f)).
  { unfold slopes. apply good_Qred, good_derivs; [exact Hm|]. unfold table. rewrite map_length, seq_length. lia. }
  pose proof (eval_between (table rated f) (slopes rated f) _ _ x (mono_sorted _ Hm) G Hc Hx) as [A B].
  cbn [snd] in A, B. split; assumption.
Qed.
