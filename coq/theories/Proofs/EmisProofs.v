(* Proofs/EmisProofs.v — the table of emission characteristics (Model/Emis.v) *)
From Coq Require Import QArith List Bool Arith.
From Feems Require Import Base.Num Base.Pchip Model.Emis.
Import ListNotations.

Lemma load_curves_app a b tab : load_curves (a ++ b) tab = load_curves b (load_curves a tab).
Proof. revert tab; induction a as [|[sp pts] a IH]; intros tab; cbn; [reflexivity|apply IH]. Qed.

(* the table after loading = the last curve with points of that species, else what was there *)
Lemma load_curves_spec cs : forall tab s,
  load_curves cs tab s = match last_given cs s with Some v => Some v | None => tab s end.
Proof.
  induction cs as [|[sp pts] cs IH] using rev_ind; intros tab s; [reflexivity|].
  rewrite load_curves_app. cbn [load_curves]. unfold last_given. rewrite rev_app_distr. cbn [rev app find].
  unfold given at 1. cbn [fst snd].
  destruct pts as [|p pts].
  - rewrite andb_false_r. apply IH.
  - cbn [negb]. rewrite andb_true_r. unfold put. rewrite (Nat.eqb_sym sp s).
    destruct (Nat.eqb s sp); [reflexivity|apply IH].
Qed.

Theorem setup_tier_nox cs t tab : setup cs (MTier t) = Some tab -> tab NOX = Some (SLimit t).
Proof. intros H. injection H as <-. unfold put. rewrite Nat.eqb_refl. reflexivity. Qed.

Theorem setup_tier_accepts cs t : setup cs (MTier t) <> None.
Proof. discriminate. Qed.

Theorem setup_other_species cs m tab s : setup cs m = Some tab -> s <> NOX -> tab s = last_given cs s.
Proof.
  intros H Hs. unfold setup in H. destruct m as [|t].
  - destruct (load_curves cs empty NOX); [|discriminate]. injection H as <-.
    rewrite load_curves_spec. destruct (last_given cs s); reflexivity.
  - injection H as <-. unfold put. apply Nat.eqb_neq in Hs. rewrite Hs.
    rewrite load_curves_spec. destruct (last_given cs s); reflexivity.
Qed.

Theorem setup_curve_method cs : setup cs MCurve = None <-> last_given cs NOX = None.
Proof.
  unfold setup. rewrite load_curves_spec. destruct (last_given cs NOX); cbn; split; intros H; try discriminate; reflexivity.
Qed.

Theorem setup_curve_nox cs tab : setup cs MCurve = Some tab -> tab NOX = last_given cs NOX /\ last_given cs NOX <> None.
Proof.
  unfold setup. rewrite load_curves_spec. destruct (last_given cs NOX) eqn:E; [|discriminate].
  intros H. injection H as <-. rewrite load_curves_spec, E. split; [reflexivity|discriminate].
Qed.
