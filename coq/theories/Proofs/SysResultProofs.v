(* Proofs/SysResultProofs.v *)
From Coq Require Import QArith List Bool Arith Lia Lqa Permutation.
From Feems Require Import Base.Num Model.FuelRecord Model.Result Model.SysResult
     Proofs.FuelRecordProofs Proofs.ResultProofs.
Import ListNotations.
Open Scope Q_scope.

Lemma nth_overflow_Q (l : list Q) i : (length l <= i)%nat -> nth i l 0 = 0.
Proof. apply nth_overflow. Qed.

(* every figure of a merge is the sum of the operands' figures *)
Lemma fig_merge n fz a b r f : wf_res n a -> wf_res n b -> merge fz a b = Merged r ->
  fig f r == fig f a + fig f b /\ wf_res n r.
Proof.
  intros [Wa1 Wa2] [Wb1 Wb2] H. destruct (merge_adds _ _ _ _ H) as [S [F [Sp [C _]]]].
  split.
  - destruct f as [i|k|k|i]; cbn [fig].
    + rewrite S. destruct (Nat.lt_ge_cases i n) as [L|G].
      * apply vadd_nth; lia.
      * rewrite !nth_overflow_Q; [ring| lia | lia | rewrite vadd_length; lia].
    + apply F.
    + apply Sp.
    + rewrite C. destruct (Nat.lt_ge_cases i 3) as [L|G].
      * apply vadd_nth; lia.
      * rewrite !nth_overflow_Q; [ring| lia | lia | rewrite vadd_length; lia].
  - split; [rewrite S, vadd_length; lia|rewrite C, vadd_length; lia].
Qed.

Fixpoint fig_sum (f : figure) (l : list res) : Q :=
  match l with [] => 0 | r :: t => fig f r + fig_sum f t end.

(* the total of an accumulation is the start plus the sum over the components *)
Theorem accumulate_is_sum n f l : forall start r, wf_res n start -> Forall (wf_res n) l ->
  accumulate start l = Merged r -> fig f r == fig f start + fig_sum f l /\ wf_res n r.
Proof.
  induction l as [|c l IH]; intros start r Ws Wl H.
  - cbn in H. inversion H; subst. split; [cbn; ring|exact Ws].
  - unfold accumulate in H. cbn [fold_left] in H.
    destruct (merge true start c) as [m| |] eqn:M.
    + inversion Wl as [|? ? Wc Wl']; subst.
      destruct (fig_merge n true start c m f Ws Wc M) as [E Wm].
      fold (accumulate m l) in H. destruct (IH m r Wm Wl' H) as [E2 Wr].
      split; [rewrite E2, E; cbn [fig_sum]; ring|exact Wr].
    + exfalso. clear -H. induction l as [|x l IHl]; cbn in H; [discriminate|apply IHl, H].
    + exfalso. clear -H. induction l as [|x l IHl]; cbn in H; [discriminate|apply IHl, H].
Qed.

Lemma fig_sum_perm f l l' : Permutation l l' -> fig_sum f l == fig_sum f l'.
Proof.
  induction 1 as [|x l l' _ IH|x y l|l l' l'' _ IH1 _ IH2]; cbn [fig_sum]; lra.
Qed.

(* the totals do not depend on the order in which the components were listed *)
Theorem accumulate_order_free n f l l' start r r' : wf_res n start -> Forall (wf_res n) l -> Permutation l l' ->
  accumulate start l = Merged r -> accumulate start l' = Merged r' -> fig f r == fig f r'.
Proof.
  intros Ws Wl P H H'.
  assert (Wl' : Forall (wf_res n) l') by (eapply Permutation_Forall; eauto).
  destruct (accumulate_is_sum n f l start r Ws Wl H) as [E _].
  destruct (accumulate_is_sum n f l' start r' Ws Wl' H') as [E' _].
  rewrite E, E', (fig_sum_perm f l l' P). reflexivity.
Qed.

Lemma group_start_wf n : wf_res n (group_start n).
Proof. split; [apply repeat_length|reflexivity]. Qed.
Lemma fig_group_start n f : fig f (group_start n) == 0.
Proof.
  destruct f as [i|k|k|i]; cbn [fig group_start r_scalars r_fuel r_species r_co2].
  - rewrite nth_repeat. reflexivity.
  - reflexivity.
  - reflexivity.
  - destruct i as [|[|[|i]]]; cbn; try reflexivity. destruct i; reflexivity.
Qed.

(* ---- consecutive periods and interval-weighted integration (C11) ---- *)
Theorem accumulate_periods_is_sum n f l : forall start r, wf_res n start -> Forall (wf_res n) l ->
  accumulate_periods start l = Merged r -> fig f r == fig f start + fig_sum f l /\ wf_res n r.
Proof.
  induction l as [|c l IH]; intros start r Ws Wl H.
  - cbn in H. inversion H; subst. split; [cbn; ring|exact Ws].
  - unfold accumulate_periods in H. cbn [fold_left] in H.
    destruct (merge false start c) as [m| |] eqn:M.
    + inversion Wl as [|? ? Wc Wl']; subst.
      destruct (fig_merge n false start c m f Ws Wc M) as [E Wm].
      fold (accumulate_periods m l) in H. destruct (IH m r Wm Wl' H) as [E2 Wr].
      split; [rewrite E2, E; cbn [fig_sum]; ring|exact Wr].
    + exfalso. clear -H. induction l as [|x l IHl]; cbn in H; [discriminate|apply IHl, H].
    + exfalso. clear -H. induction l as [|x l IHl]; cbn in H; [discriminate|apply IHl, H].
Qed.

Lemma qdot_app a1 a2 b1 b2 : length a1 = length b1 -> qdot (a1 ++ a2) (b1 ++ b2) == qdot a1 b1 + qdot a2 b2.
Proof.
  revert b1; induction a1 as [|x a1 IH]; intros [|y b1] H; cbn in *; try discriminate; [ring|].
  rewrite IH by congruence. ring.
Qed.

Lemma qdot_scale k a b : qdot a (map (Qmult k) b) == k * qdot a b.
Proof.
  revert b; induction a as [|x a IH]; intros [|y b]; cbn; try ring. rewrite IH. ring.
Qed.

(* reordering the intervals together with their inputs: a permutation of the (input, interval) pairs *)
Fixpoint pdot {X} (g : X -> Q) (l : list (X * Q)) : Q :=
  match l with [] => 0 | (x, d) :: t => g x * d + pdot g t end.
Lemma pdot_integrate {X} (g : X -> Q) xs dt : length xs = length dt ->
  integrate g xs dt == pdot g (combine xs dt).
Proof.
  unfold integrate. revert dt; induction xs as [|x xs IH]; intros [|d dt] H; cbn in *; try discriminate; [reflexivity|].
  rewrite IH by congruence. reflexivity.
Qed.
Lemma pdot_perm {X} (g : X -> Q) l l' : Permutation l l' -> pdot g l == pdot g l'.
Proof.
  induction 1 as [|[x d] l l' _ IH|[x d] [y e] l|l l' l'' _ IH1 _ IH2]; cbn [pdot]; lra.
Qed.
