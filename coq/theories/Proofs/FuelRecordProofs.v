(* Proofs/FuelRecordProofs.v *)
From Coq Require Import QArith List Bool Arith Lia Lqa.
From Feems Require Import Base.Num Model.FuelRecord.
Import ListNotations.
Open Scope Q_scope.

(* mass selected by an arbitrary predicate on kinds: mass_of k and total are instances *)
Definition msum (p : nat -> bool) (r : frec) : Q := qsum (map snd (filter (fun e => p (fst e)) r)).

Lemma msum_nil p : msum p [] == 0.  Proof. reflexivity. Qed.
Lemma msum_cons p k m r : msum p ((k, m) :: r) == (if p k then m else 0) + msum p r.
Proof. unfold msum. cbn [filter fst]. destruct (p k); cbn [map qsum snd]; ring. Qed.
Lemma msum_app p a b : msum p (a ++ b) == msum p a + msum p b.
Proof.
  induction a as [|[k m] a IH]; [cbn [app]; rewrite msum_nil; ring|].
  cbn [app]. rewrite !msum_cons, IH. ring.
Qed.
Lemma mass_of_msum k r : mass_of k r = msum (fun k' => Nat.eqb k' k) r.
Proof. reflexivity. Qed.
Lemma total_msum r : total r == msum (fun _ => true) r.
Proof.
  unfold total, msum. induction r as [|[k m] r IH]; [reflexivity|]. cbn [filter map qsum snd fst]. rewrite IH. reflexivity.
Qed.

Lemma find_unused_ge k b used s i m : find_unused k b used s = Some (i, m) -> (s <= i)%nat.
Proof.
  revert s; induction b as [|[k' m'] b IH]; intros s H; [discriminate|]. cbn [find_unused] in H.
  destruct (Nat.eqb k' k && negb (existsb (Nat.eqb s) used)).
  - inversion H; subst; lia.
  - apply IH in H. lia.
Qed.

Lemma unused_of_skip b used i s : (i < s)%nat -> unused_of b (i :: used) s = unused_of b used s.
Proof.
  revert s; induction b as [|e b IH]; intros s H; [reflexivity|]. cbn [unused_of existsb].
  destruct (Nat.eqb_spec s i) as [->|Hne]; [lia|]. cbn [orb]. rewrite IH by lia. reflexivity.
Qed.

(* taking the found entry out of the unused part of b *)
Lemma find_unused_spec p k b used s i m : find_unused k b used s = Some (i, m) ->
  msum p (unused_of b used s) == (if p k then m else 0) + msum p (unused_of b (i :: used) s).
Proof.
  revert s; induction b as [|[k' m'] b IH]; intros s H; [discriminate|]. cbn [find_unused] in H.
  destruct (Nat.eqb k' k && negb (existsb (Nat.eqb s) used)) eqn:E.
  - inversion H; subst. apply andb_true_iff in E as [Ek Eu]. apply Nat.eqb_eq in Ek. subst k'.
    apply negb_true_iff in Eu. cbn [unused_of existsb]. rewrite Eu, Nat.eqb_refl. cbn [orb].
    rewrite msum_cons, unused_of_skip by lia. reflexivity.
  - pose proof (find_unused_ge _ _ _ _ _ _ H) as Hge. specialize (IH (S s) H).
    cbn [unused_of existsb]. destruct (Nat.eqb_spec s i) as [->|Hne]; [lia|]. cbn [orb].
    destruct (existsb (Nat.eqb s) used); [exact IH|]. rewrite !msum_cons, IH. ring.
Qed.

Lemma add_left_spec p a b used :
  let (out, u) := add_left a b used in
  msum p out + msum p (unused_of b u 0) == msum p a + msum p (unused_of b used 0).
Proof.
  revert used; induction a as [|[k m] a IH]; intros used; cbn [add_left]; [rewrite !msum_nil; ring|].
  destruct (find_unused k b used 0) as [[i mb]|] eqn:F.
  - specialize (IH (i :: used)). destruct (add_left a b (i :: used)) as [out u].
    rewrite !msum_cons. rewrite (find_unused_spec p k b used 0%nat i mb F).
    destruct (p k); lra.
  - specialize (IH used). destruct (add_left a b used) as [out u]. rewrite !msum_cons. lra.
Qed.

Lemma unused_of_nil b s : unused_of b [] s = b.
Proof. revert s; induction b as [|e b IH]; intros s; cbn; [reflexivity|]. rewrite IH. reflexivity. Qed.

(* the homomorphism: every selection of kinds is additive *)
Theorem add_msum p a b : msum p (add a b) == msum p a + msum p b.
Proof.
  unfold add. destruct a as [|e a]; [rewrite msum_nil; ring|].
  pose proof (add_left_spec p (e :: a) b []) as H. destruct (add_left (e :: a) b []) as [out u].
  rewrite msum_app, H, unused_of_nil. reflexivity.
Qed.

Corollary add_mass_of k a b : mass_of k (add a b) == mass_of k a + mass_of k b.
Proof. rewrite !mass_of_msum. apply add_msum. Qed.
Corollary add_total a b : total (add a b) == total a + total b.
Proof. rewrite !total_msum. apply add_msum. Qed.
Corollary add_comm a b : req (add a b) (add b a).
Proof. intros k. rewrite !add_mass_of. ring. Qed.
Corollary add_assoc a b c : req (add (add a b) c) (add a (add b c)).
Proof. intros k. rewrite !add_mass_of. ring. Qed.
Corollary add_empty_l a : add [] a = a.  Proof. reflexivity. Qed.
Corollary add_empty_r a : req (add a []) a.
Proof. intros k. rewrite add_mass_of. assert (E : mass_of k [] == 0) by reflexivity. lra. Qed.

Lemma scale_msum p c r : msum p (scale c r) == msum p r * c.
Proof.
  induction r as [|[k m] r IH]; [cbn; ring|]. unfold scale in *. cbn [map fst snd].
  rewrite !msum_cons, IH. destruct (p k); ring.
Qed.
Corollary scale_mass_of k c r : mass_of k (scale c r) == mass_of k r * c.
Proof. rewrite !mass_of_msum. apply scale_msum. Qed.
Corollary scale_total c r : total (scale c r) == total r * c.
Proof. rewrite !total_msum. apply scale_msum. Qed.

Lemma total_map_div r d : total (map (fun e => (fst e, snd e / d)) r) == total r / d.
Proof.
  unfold total. induction r as [|[k m] r IH]; cbn [map qsum snd fst]; [unfold Qdiv; ring|].
  rewrite IH. unfold Qdiv. ring.
Qed.

Theorem fractions_sum_to_one r : ~ total r == 0 ->
  total (fractions_step r) == 1 /\ total (fractions_scalar r) == 1.
Proof.
  intros H. unfold fractions_step, fractions_scalar, qzero.
  assert (E : Qeq_bool (total r) 0 = false).
  { destruct (Qeq_bool (total r) 0) eqn:B; [|reflexivity]. apply Qeq_bool_eq in B. contradiction. }
  rewrite E, total_map_div. split; field; exact H.
Qed.

Theorem fractions_zero_total r : total r == 0 ->
  fractions_scalar r = [] /\ (forall k, mass_of k (fractions_step r) == 0) /\
  map fst (fractions_step r) = map fst r.
Proof.
  intros H. unfold fractions_step, fractions_scalar, qzero.
  rewrite (proj2 (Qeq_bool_iff _ _) H). split; [reflexivity|]. split.
  - intros k. unfold mass_of. induction r as [|[k' m] r IH]; [reflexivity|].
    cbn [map filter fst]. destruct (Nat.eqb k' k); cbn [map qsum snd].
    + assert (T : total r == total r) by reflexivity.
      (* the tail's own total is irrelevant: every entry is 0 *)
      clear IH H T. induction r as [|[k2 m2] r IH2]; cbn [map filter fst qsum snd]; [ring|].
      destruct (Nat.eqb k2 k); cbn [map qsum snd]; lra.
    + clear IH H. induction r as [|[k2 m2] r IH2]; cbn [map filter fst qsum snd]; [reflexivity|].
      destruct (Nat.eqb k2 k); cbn [map qsum snd]; lra.
  - rewrite map_map. reflexivity.
Qed.

Lemma fractions_keep_kinds r : map fst (fractions_step r) = map fst r.
Proof. unfold fractions_step. destruct (qzero (total r)); rewrite map_map; reflexivity. Qed.

(* no operation changes a binding other than its result *)
Theorem step_keeps_env m env o : firstn (length env) (step m env o) = env.
Proof.
  destruct o; cbn [step]; try (rewrite firstn_app, Nat.sub_diag, firstn_all; cbn; apply app_nil_r).
  apply firstn_all.
Qed.
Theorem run_keeps_env m ops env : firstn (length env) (run m env ops) = env.
Proof.
  revert env; induction ops as [|o ops IH]; intros env; cbn [run fold_left]; [apply firstn_all|].
  fold (run m (step m env o) ops).
  assert (L : (length env <= length (step m env o))%nat).
  { destruct o; cbn [step]; rewrite ?app_length; cbn; lia. }
  transitivity (firstn (length env) (firstn (length (step m env o)) (run m (step m env o) ops))).
  - rewrite firstn_firstn. f_equal. lia.
  - rewrite IH. apply step_keeps_env.
Qed.
