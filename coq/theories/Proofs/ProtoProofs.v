(* Proofs/ProtoProofs.v — C13: decoding the encoding of a well-formed FEEMS description gives it back. *)
From Coq Require Import QArith List Bool Arith String Lia Permutation.
From Feems Require Import Model.ProtoSys.
Import ListNotations.
Open Scope Q_scope.

(* ---------------------------------------------------------------------------------------------- *)
(* well-formedness: what every constructed FEEMS component satisfies                                *)

Fixpoint sorted_x (p : pts) : bool :=
  match p with
  | a :: (b :: _) as t => Qlt_b (fst a) (fst b) && sorted_x t
  | _ => true
  end.
(* stored curves: at least two points (a single value is stored as two), strictly increasing loads *)
Definition wf_pts (p : pts) : bool := (2 <=? List.length p)%nat && sorted_x p.
Definition wf_uid (u : string) : bool := (5 <? String.length u)%nat.

Definition wf_emis (l : list (nat * pts)) : bool := forallb (fun e => in_range MIN_EMISSION MAX_EMISSION (fst e)) l.
Definition wf_fuel (f o : nat) : bool := ((f <=? MAX_FUEL) && (o <=? MAX_ORIGIN))%nat.

Definition wf_engine (e : f_engine) : bool :=
  wf_pts (e_bsfc e) && wf_fuel (e_fuel e) (e_origin e) && (e_nox e <=? MAX_NOX)%nat && (e_cycle e <=? MAX_CYCLE)%nat &&
  wf_emis (e_emis e) && wf_uid (e_uid e) && positive (e_rated e) &&
  match e_pilot e with Some (p, f, o) => wf_pts p && wf_fuel f o | None => true end.
Definition wf_ecomp (c : f_ecomp) : bool := wf_pts (c_eff c) && wf_uid (c_uid c) && positive (c_rated c).
Definition wf_mach (m : f_mach) : bool := wf_pts (h_eff m) && wf_uid (h_uid m) && positive (h_rated m).
Definition same_x (a b : pts) : bool :=
  (List.length a =? List.length b)%nat && negb (all_x_differ a b).
Definition wf_cogas (k : f_cogas) : bool :=
  wf_pts (k_eff k) && wf_fuel (k_fuel k) (k_origin k) && (k_nox k <=? MAX_NOX)%nat && wf_emis (k_emis k) && wf_uid (k_uid k) &&
  positive (k_rated k) &&
  match k_curves k with
  | Some (g, s) => negb (match g with [] => true | _ => false end) && negb (match s with [] => true | _ => false end) && same_x g s
  | None => true
  end.
Definition wf_battery (b : f_battery) : bool := wf_uid (b_uid b) && positive (battery_rated b).
Definition wf_supercap (c : f_supercap) : bool := wf_uid (u_uid c) && positive (u_rated c).
Definition wf_module (m : f_module) : bool :=
  wf_pts (m_eff m) && wf_fuel (m_fuel m) (m_origin m) && wf_uid (m_uid m) && positive (m_rated m).

Definition wf_stage (g : f_stage) : bool :=
  wf_pts (g_eff g) && wf_uid (g_uid g) && negb (Qle_bool (g_rated g) 0) &&
  match g_kind g with
  | KMachine => true
  | KTransformer | KConverter => match g_speed g with Qmake Z0 xH => true | _ => false end
  | _ => false
  end.
Definition count_kind (k : stage_kind) (l : list f_stage) : nat :=
  List.length (filter (fun g => match g_kind g, k with
                                | KTransformer, KTransformer | KConverter, KConverter | KMachine, KMachine => true
                                | _, _ => false end) l).
(* the description has one transformer, two converter and one machine field *)
Definition wf_stages (l : list f_stage) : bool :=
  forallb wf_stage l && (1 <=? List.length l)%nat && (count_kind KTransformer l <=? 1)%nat &&
  (count_kind KConverter l <=? 2)%nat && (count_kind KMachine l <=? 1)%nat.
Definition wf_serial (r : f_serial) : bool :=
  wf_stages (r_stages r) && wf_uid (r_uid r) && positive (r_rated r) && (r_pti r || negb (qzero (r_speed r))).
(* the shaft line of a PTI/PTO is not part of a switchboard's description: the decoder starts from line 1 *)
Definition set_line (line : nat) (r : f_serial) : f_serial :=
  {| r_pti := r_pti r; r_name := r_name r; r_uid := r_uid r; r_rated := r_rated r; r_speed := r_speed r; r_line := line;
     r_stages := r_stages r |}.
Definition reset_line (c : f_comp) : f_comp := match c with CSerial r => CSerial (set_line 1 r) | _ => c end.

Definition wf_comp (c : f_comp) : bool :=
  match c with
  | CGenset _ uid eng gen => wf_uid uid && wf_engine eng && wf_mach gen
  | CGenerator g => wf_mach g && negb (String.eqb (h_name g) "")
  | CFuelCell _ uid m conv nmod => wf_uid uid && wf_module m && wf_ecomp conv && (1 <=? nmod)%nat
  | CCoges _ uid k gen => wf_uid uid && wf_cogas k && wf_mach gen
  | CBattery b => wf_battery b
  | CBatterySys _ uid b conv => wf_uid uid && wf_battery b && wf_ecomp conv
  | CSupercap c => wf_supercap c
  | CSupercapSys _ uid c conv => wf_uid uid && wf_supercap c && wf_ecomp conv
  | CSerial r => wf_serial r
  | CLoad l => wf_ecomp l && negb (String.eqb (c_name l) "")
  end.

(* ---------------------------------------------------------------------------------------------- *)
(* curves                                                                                           *)

Lemma Qlt_b_le a b : Qlt_b a b = true -> Qle_bool a b = true.
Proof.
  unfold Qlt_b. intros H. apply negb_true_iff in H. apply Qle_bool_iff.
  destruct (Qlt_le_dec a b) as [L|L]; [apply Qlt_le_weak, L|].
  apply Qle_bool_iff in L. congruence.
Qed.

Lemma sort_x_sorted p : sorted_x p = true -> sort_x p = p.
Proof.
  induction p as [|a p IH]; [reflexivity|]. intros H. unfold sort_x in *. cbn [fold_right].
  destruct p as [|b p]; [reflexivity|].
  cbn [sorted_x] in H. apply andb_true_iff in H as [Hab Ht].
  rewrite (IH Ht). cbn [insert_x]. rewrite (Qlt_b_le _ _ Hab). reflexivity.
Qed.

Lemma dec_enc_eff p : wf_pts p = true -> dec_eff (enc_eff p) = Some p.
Proof.
  unfold wf_pts. intros H. apply andb_true_iff in H as [Hl Hs].
  destruct p as [|a [|b t]]; cbn in Hl; try discriminate.
  destruct a as [ax ay]. unfold enc_eff, dec_eff. cbn [pe_value pe_curve store_curve].
  rewrite (sort_x_sorted _ Hs). reflexivity.
Qed.

Section WithFresh.
Variable fresh : string.

Lemma dec_uid_wf u : wf_uid u = true -> dec_uid fresh u = u.
Proof. unfold wf_uid, dec_uid. intros ->. reflexivity. Qed.

Lemma dec_enc_emis l : wf_emis l = true -> dec_emis (enc_emis l) = Some l.
Proof.
  induction l as [|[t p] l IH]; [reflexivity|]. cbn [wf_emis forallb fst]. intros H.
  apply andb_true_iff in H as [Ht Hl]. cbn [enc_emis map dec_emis px_type px_pts fst snd].
  rewrite Ht. fold (enc_emis l). rewrite (IH Hl). reflexivity.
Qed.

Lemma dec_fuel_wf f o : wf_fuel f o = true -> dec_fuel {| pf_type := f; pf_origin := o |} = Some (f, o).
Proof. unfold wf_fuel, dec_fuel. cbn [pf_type pf_origin]. intros ->. reflexivity. Qed.

Ltac split_and H :=
  repeat match type of H with (_ && _ = true) => let H' := fresh "W" in apply andb_true_iff in H as [H H'] end.

Lemma dec_enc_engine e o : wf_engine e = true -> dec_engine fresh (enc_engine e o) = Some e.
Proof.
  unfold wf_engine. intros H. split_and H.
  destruct e as [name rated speed bsfc fuel origin nox cycle em pilot uid].
  cbn [e_bsfc e_fuel e_origin e_nox e_cycle e_emis e_uid e_rated e_pilot] in *.
  unfold dec_engine, enc_engine.
  cbn [pg_name pg_rated pg_speed pg_bsfc pg_fuel pg_order pg_pilot_bsfc pg_pilot_fuel pg_nox pg_emis pg_cycle pg_uid
       e_name e_rated e_speed e_bsfc e_fuel e_origin e_nox e_cycle e_emis e_pilot e_uid].
  match goal with Hn : (nox <=? MAX_NOX)%nat = true |- _ => rewrite Hn end.
  match goal with Hn : (cycle <=? MAX_CYCLE)%nat = true |- _ => rewrite Hn end.
  cbn [negb].
  match goal with Hn : wf_emis em = true |- _ => rewrite (dec_enc_emis _ Hn) end.
  match goal with Hn : wf_pts bsfc = true |- _ => rewrite (dec_enc_eff _ Hn) end.
  match goal with Hn : wf_fuel fuel origin = true |- _ => rewrite (dec_fuel_wf _ _ Hn) end.
  match goal with Hn : wf_uid uid = true |- _ => rewrite (dec_uid_wf _ Hn) end.
  destruct pilot as [[[pp pf] po]|]; [|reflexivity].
  match goal with Hn : (_ && _) = true |- _ => apply andb_true_iff in Hn as [Hp Hf] end.
  rewrite (dec_enc_eff _ Hp), (dec_fuel_wf _ _ Hf). reflexivity.
Qed.

Lemma dec_enc_ecomp c o : wf_ecomp c = true -> dec_ecomp fresh (enc_ecomp c o) = Some c.
Proof.
  unfold wf_ecomp. intros H. split_and H. destruct c as [name rated eff uid]. cbn [c_eff c_uid c_rated] in *.
  unfold dec_ecomp, enc_ecomp. cbn [pc_eff pc_name pc_rated pc_uid c_name c_rated c_eff c_uid].
  rewrite (dec_enc_eff _ H).
  match goal with Hn : wf_uid uid = true |- _ => rewrite (dec_uid_wf _ Hn) end. reflexivity.
Qed.

Lemma dec_enc_mach m o : wf_mach m = true -> dec_mach fresh (enc_mach m o) = Some m.
Proof.
  unfold wf_mach. intros H. split_and H. destruct m as [name rated speed eff uid]. cbn [h_eff h_uid h_rated] in *.
  unfold dec_mach, enc_mach. cbn [pm_eff pm_name pm_rated pm_speed pm_uid h_name h_rated h_speed h_eff h_uid].
  rewrite (dec_enc_eff _ H).
  match goal with Hn : wf_uid uid = true |- _ => rewrite (dec_uid_wf _ Hn) end. reflexivity.
Qed.

Lemma dec_enc_cogas k o : wf_cogas k = true -> dec_cogas fresh (enc_cogas k o) = Some k.
Proof.
  unfold wf_cogas. intros H. split_and H.
  destruct k as [name rated speed eff fuel origin nox em curves uid].
  cbn [k_eff k_fuel k_origin k_nox k_emis k_uid k_rated k_curves] in *.
  unfold dec_cogas, enc_cogas.
  cbn [pk_name pk_rated pk_speed pk_eff pk_gt pk_st pk_fuel pk_order pk_nox pk_emis pk_uid
       k_name k_rated k_speed k_eff k_fuel k_origin k_nox k_emis k_curves k_uid].
  match goal with Hn : (nox <=? MAX_NOX)%nat = true |- _ => rewrite Hn end. cbn [negb].
  match goal with Hn : wf_emis em = true |- _ => rewrite (dec_enc_emis _ Hn) end.
  match goal with Hn : wf_pts eff = true |- _ => rewrite (dec_enc_eff _ Hn) end.
  match goal with Hn : wf_fuel fuel origin = true |- _ => rewrite (dec_fuel_wf _ _ Hn) end.
  match goal with Hn : wf_uid uid = true |- _ => rewrite (dec_uid_wf _ Hn) end.
  destruct curves as [[g s]|]; [|reflexivity].
  match goal with Hn : (_ && _ && _) = true |- _ => apply andb_true_iff in Hn as [Hn Hx]; apply andb_true_iff in Hn as [Hg Hs] end.
  destruct g as [|g0 g]; [discriminate|]. destruct s as [|s0 s]; [discriminate|].
  cbn [dec_power_curve]. unfold same_x in Hx. apply andb_true_iff in Hx as [Hl Hd].
  rewrite Hl. cbn [negb]. apply negb_true_iff in Hd. rewrite Hd. reflexivity.
Qed.

Lemma dec_enc_battery b o : wf_uid (b_uid b) = true -> dec_battery fresh (enc_battery b o) = b.
Proof.
  intros H. destruct b. unfold dec_battery, enc_battery. cbn in *. rewrite (dec_uid_wf _ H). reflexivity.
Qed.
Lemma dec_enc_supercap c o : wf_uid (u_uid c) = true -> dec_supercap fresh (enc_supercap c o) = c.
Proof.
  intros H. destruct c. unfold dec_supercap, enc_supercap. cbn in *. rewrite (dec_uid_wf _ H). reflexivity.
Qed.

End WithFresh.

(* ---------------------------------------------------------------------------------------------- *)
(* serial systems: by cases on the (at most four) stages                                            *)
Section Serial.
Variable fresh : string.

Lemma stage_eta g : {| g_kind := g_kind g; g_name := g_name g; g_rated := g_rated g; g_speed := g_speed g; g_eff := g_eff g;
                       g_uid := g_uid g |} = g.
Proof. destruct g; reflexivity. Qed.

Lemma wf_stage_parts g : wf_stage g = true ->
  wf_pts (g_eff g) = true /\ wf_uid (g_uid g) = true /\ Qle_bool (g_rated g) 0 = false.
Proof.
  unfold wf_stage. intros H. apply andb_true_iff in H as [H _]. apply andb_true_iff in H as [H R].
  apply andb_true_iff in H as [A B]. apply negb_true_iff in R. auto.
Qed.

Lemma dec_stage_e_enc k g o : wf_stage g = true -> g_kind g = k -> (k = KTransformer \/ k = KConverter) ->
  dec_stage_e fresh k (stage_ecomp g o) = Some (o, g).
Proof.
  intros W K Hk. destruct (wf_stage_parts g W) as (We & Wu & Wr).
  unfold dec_stage_e, stage_ecomp. cbn [pc_eff pc_order pc_name pc_rated pc_uid].
  rewrite (dec_enc_eff _ We), (dec_uid_wf fresh _ Wu), Wr.
  unfold wf_stage in W. apply andb_true_iff in W as [_ W]. rewrite K in W.
  destruct g as [kind name rated speed eff uid]. cbn [g_kind g_speed g_name g_rated g_eff g_uid] in *. subst kind.
  destruct Hk as [-> | ->]; destruct speed as [[| |] [| |]]; try discriminate; reflexivity.
Qed.

Lemma dec_stage_m_enc g o : wf_stage g = true -> g_kind g = KMachine ->
  dec_stage_m fresh (stage_mach g o) = Some (o, g).
Proof.
  intros W K. destruct (wf_stage_parts g W) as (We & Wu & Wr).
  unfold dec_stage_m, stage_mach. cbn [pm_eff pm_order pm_name pm_rated pm_speed pm_uid].
  rewrite (dec_enc_eff _ We), (dec_uid_wf fresh _ Wu), Wr.
  destruct g as [kind name rated speed eff uid]. cbn [g_kind] in K. subst kind. reflexivity.
Qed.

Lemma length_counts l : forallb wf_stage l = true ->
  List.length l = (count_kind KTransformer l + count_kind KConverter l + count_kind KMachine l)%nat.
Proof.
  induction l as [|g l IH]; [reflexivity|]. cbn [forallb]. intros H. apply andb_true_iff in H as [Hg Hl].
  specialize (IH Hl). unfold count_kind in *. cbn [filter List.length].
  unfold wf_stage in Hg. apply andb_true_iff in Hg as [_ Hk].
  destruct (g_kind g); try discriminate; cbn [List.length]; lia.
Qed.

(* the four fields the encoder fills, as functions of the stage list alone *)
Fixpoint f_tr (acc : option p_ecomp) (l : list f_stage) (o : nat) : option p_ecomp :=
  match l with
  | [] => acc
  | g :: t => f_tr (match g_kind g with KTransformer => Some (stage_ecomp g o) | _ => acc end) t (S o)
  end.
Fixpoint f_ma (acc : option p_machine) (l : list f_stage) (o : nat) : option p_machine :=
  match l with
  | [] => acc
  | g :: t => f_ma (match g_kind g with KMachine => Some (stage_mach g o) | _ => acc end) t (S o)
  end.
Fixpoint f_c1 (c1 : option p_ecomp) (l : list f_stage) (o : nat) : option p_ecomp :=
  match l with
  | [] => c1
  | g :: t => f_c1 (match g_kind g, c1 with KConverter, None => Some (stage_ecomp g o) | _, _ => c1 end) t (S o)
  end.
Fixpoint f_c2 (c1 c2 : option p_ecomp) (l : list f_stage) (o : nat) : option p_ecomp :=
  match l with
  | [] => c2
  | g :: t => match g_kind g, c1 with
              | KConverter, None => f_c2 (Some (stage_ecomp g o)) c2 t (S o)
              | KConverter, Some _ => f_c2 c1 (Some (stage_ecomp g o)) t (S o)
              | _, _ => f_c2 c1 c2 t (S o)
              end
  end.

Lemma put_stages_fields l : forall s o,
  s_transformer (put_stages s l o) = f_tr (s_transformer s) l o /\
  s_machine (put_stages s l o) = f_ma (s_machine s) l o /\
  s_conv1 (put_stages s l o) = f_c1 (s_conv1 s) l o /\
  s_conv2 (put_stages s l o) = f_c2 (s_conv1 s) (s_conv2 s) l o /\
  s_other_load (put_stages s l o) = s_other_load s /\
  s_propeller (put_stages s l o) = s_propeller s /\
  s_name (put_stages s l o) = s_name s /\
  s_rated (put_stages s l o) = s_rated s /\
  s_speed (put_stages s l o) = s_speed s /\
  s_uid (put_stages s l o) = s_uid s /\
  s_ptype (put_stages s l o) = s_ptype s /\
  s_ctype (put_stages s l o) = s_ctype s.
Proof.
  induction l as [|g l IH]; intros s o; [cbn; repeat split; reflexivity|].
  cbn [put_stages f_tr f_ma f_c1 f_c2].
  specialize (IH (put_stage s g o) (S o)).
  destruct IH as (I1 & I2 & I3 & I4 & I5 & I6 & I7 & I8 & I9 & I10 & I11 & I12).
  rewrite I1, I2, I3, I4, I5, I6, I7, I8, I9, I10, I11, I12. clear.
  unfold put_stage. destruct (g_kind g); [| destruct (s_conv1 s) | | |];
    cbn [s_transformer s_machine s_conv1 s_conv2 s_other_load s_propeller s_name s_rated s_speed s_uid s_ptype s_ctype];
    repeat split; reflexivity.
Qed.

Ltac kinds :=
  repeat match goal with
         | g : f_stage |- _ =>
             lazymatch goal with
             | K : g_kind g = _ |- _ => fail
             | _ => let K := fresh "K" in destruct (g_kind g) eqn:K
             end
         end.

Lemma dec_enc_stages ptype ctype name rated speed uid l :
  wf_stages l = true ->
  dec_stages fresh (put_stages (sub0 ptype ctype name rated speed uid) l 1) = Some l.
Proof.
  unfold wf_stages. intros H.
  apply andb_true_iff in H as [H HM]. apply andb_true_iff in H as [H HC]. apply andb_true_iff in H as [H HT].
  apply andb_true_iff in H as [HW HL].
  pose proof (length_counts l HW) as Hlen.
  apply Nat.leb_le in HM, HC, HT, HL.
  assert (Hle : (List.length l <= 4)%nat) by lia.
  unfold dec_stages.
  destruct (put_stages_fields l (sub0 ptype ctype name rated speed uid) 1) as (I1 & I2 & I3 & I4 & I5 & I6 & _).
  rewrite I1, I2, I3, I4, I5, I6. cbn [sub0 s_transformer s_machine s_conv1 s_conv2 s_other_load s_propeller]. clear I1 I2 I3 I4 I5 I6.
  destruct l as [|g1 [|g2 [|g3 [|g4 [|g5 rest]]]]]; cbn [List.length] in Hle, HL; try lia;
    cbn [forallb] in HW;
    repeat match type of HW with (_ && _ = true) => let W := fresh "W" in apply andb_true_iff in HW as [W HW] end;
    clear Hlen Hle HL;
    kinds;
    try (exfalso; unfold wf_stage in *;
         repeat match goal with K : g_kind ?g = _, W : context [g_kind ?g] |- _ => rewrite K in W end;
         repeat match goal with W : (_ && false = true) |- _ => rewrite andb_false_r in W; discriminate W end; fail);
    try (exfalso; unfold count_kind in HT, HC, HM; cbn [filter] in HT, HC, HM;
         repeat match goal with K : g_kind ?g = _ |- _ => rewrite K in HT, HC, HM end;
         cbn [List.length] in HT, HC, HM; lia);
    clear HT HC HM;
    cbn [f_tr f_ma f_c1 f_c2];
    repeat match goal with K : g_kind ?g = _ |- _ => rewrite K end;
    cbn [present app];
    repeat (first [ rewrite dec_stage_m_enc by assumption
                  | rewrite (dec_stage_e_enc KTransformer) by (try assumption; auto)
                  | rewrite (dec_stage_e_enc KConverter) by (try assumption; auto) ]);
    cbn [all_some present app sort_o fold_right insert_o fst snd Nat.leb map]; reflexivity.
Qed.

End Serial.

(* ---------------------------------------------------------------------------------------------- *)
(* components of a switchboard                                                                      *)
Section Components.
Variable fresh : string.

Lemma positive_facts q : positive q = true -> Qle_bool q 0 = false /\ qzero q = false.
Proof.
  unfold positive, Qlt_b, qzero. intros H. apply negb_true_iff in H. split; [exact H|].
  destruct (Qeq_bool q 0) eqn:E; [|reflexivity]. apply Qeq_bool_eq in E.
  assert (L : Qle_bool q 0 = true) by (apply Qle_bool_iff; rewrite E; apply Qle_refl). congruence.
Qed.

Lemma serial_eta r : {| r_pti := r_pti r; r_name := r_name r; r_uid := r_uid r; r_rated := r_rated r; r_speed := r_speed r;
                        r_line := r_line r; r_stages := r_stages r |} = r.
Proof. destruct r; reflexivity. Qed.

Lemma dec_enc_serial line r : wf_serial r = true -> dec_serial fresh (r_pti r) line (enc_serial r) = Some (set_line line r).
Proof.
  unfold wf_serial. intros H.
  apply andb_true_iff in H as [H Hs]. apply andb_true_iff in H as [H Hp]. apply andb_true_iff in H as [Hst Hu].
  unfold dec_serial, enc_serial.
  rewrite (dec_enc_stages fresh _ _ _ _ _ _ _ Hst).
  destruct (put_stages_fields (r_stages r)
              (sub0 (if r_pti r then P_PTI_PTO else P_CONSUMER) (if r_pti r then T_PTI_PTO_SYSTEM else T_PROPULSION_DRIVE)
                    (r_name r) (r_rated r) (r_speed r) (r_uid r)) 1) as (_ & _ & _ & _ & _ & _ & I7 & I8 & I9 & I10 & _ & _).
  rewrite I7, I8, I9, I10. cbn [sub0 s_name s_rated s_speed s_uid].
  destruct (r_stages r) as [|g t] eqn:E.
  { unfold wf_stages in Hst. rewrite !andb_true_iff in Hst. cbn in Hst. intuition discriminate. }
  destruct (positive_facts _ Hp) as [P1 P2]. rewrite P2, P1.
  rewrite (dec_uid_wf fresh _ Hu).
  assert (Sp : (if r_pti r then r_speed r else if qzero (r_speed r) then g_speed g else r_speed r) = r_speed r).
  { destruct (r_pti r); [reflexivity|]. cbn [orb] in Hs. apply negb_true_iff in Hs. rewrite Hs. reflexivity. }
  rewrite Sp. unfold set_line. rewrite E. reflexivity.
Qed.

Lemma enc_serial_types r :
  s_ctype (enc_serial r) = (if r_pti r then T_PTI_PTO_SYSTEM else T_PROPULSION_DRIVE) /\
  s_ptype (enc_serial r) = (if r_pti r then P_PTI_PTO else P_CONSUMER).
Proof.
  unfold enc_serial.
  destruct (put_stages_fields (r_stages r)
              (sub0 (if r_pti r then P_PTI_PTO else P_CONSUMER) (if r_pti r then T_PTI_PTO_SYSTEM else T_PROPULSION_DRIVE)
                    (r_name r) (r_rated r) (r_speed r) (r_uid r)) 1) as (_ & _ & _ & _ & _ & _ & _ & _ & _ & _ & I11 & I12).
  rewrite I11, I12. split; reflexivity.
Qed.

Ltac split_and H :=
  repeat match type of H with (_ && _ = true) => let H' := fresh "W" in apply andb_true_iff in H as [H H'] end.

Theorem dec_enc_comp c : wf_comp c = true -> dec_comp fresh (enc_comp c) = Some (reset_line c).
Proof.
  destruct c as [name uid eng gen|g|name uid m conv nmod|name uid k gen|b|name uid b conv|u|name uid u conv|r|l];
    cbn [wf_comp reset_line]; intros H.
  - (* genset *) split_and H.
    unfold dec_comp, enc_comp, with_fields, sub0. cbn [s_ctype s_ptype s_engine s_machine s_conv1 s_name s_uid get].
    cbn [T_GENSET Nat.eqb Nat.leb negb orb MAX_CTYPE MAX_PTYPE P_SOURCE T_FUEL_CELL_SYSTEM].
    match goal with W : wf_engine eng = true |- _ => rewrite (dec_enc_engine fresh _ _ W); unfold wf_engine in W; split_and W end.
    match goal with W : wf_mach gen = true |- _ => rewrite (dec_enc_mach fresh _ _ W); unfold wf_mach in W; split_and W end.
    repeat match goal with W : positive _ = true |- _ => rewrite W; clear W end.
    rewrite (dec_uid_wf fresh _ H). reflexivity.
  - (* generator *) split_and H.
    unfold dec_comp, enc_comp, with_fields, sub0. cbn [s_ctype s_ptype].
    cbn [T_GENERATOR Nat.eqb Nat.leb negb orb MAX_CTYPE MAX_PTYPE P_SOURCE T_FUEL_CELL_SYSTEM T_GENSET T_COGES T_BATTERY_SYSTEM
         T_BATTERY T_SUPERCAPACITOR_SYSTEM T_SUPERCAPACITOR T_PTI_PTO_SYSTEM T_PROPULSION_DRIVE].
    unfold dec_generic. cbn [s_propeller s_machine s_transformer s_conv1 s_conv2 s_other_load s_ctype s_ptype s_name].
    unfold enc_mach at 1. cbn [pm_name].
    match goal with W : negb _ = true |- _ => apply negb_true_iff in W; rewrite W end.
    rewrite (dec_enc_mach fresh _ _ H). unfold wf_mach in H. split_and H.
    repeat match goal with W : positive _ = true |- _ => rewrite W; clear W end. reflexivity.
  - (* fuel cell system *) split_and H.
    unfold dec_comp, enc_comp, with_fields, sub0. cbn [s_ctype s_ptype s_fuelcell s_conv1 s_name s_uid get].
    cbn [T_FUEL_CELL_SYSTEM Nat.eqb Nat.leb negb orb MAX_CTYPE MAX_PTYPE P_SOURCE].
    cbn [pq_eff pq_fuel pq_rated pq_name pq_uid pq_nmod].
    match goal with W : wf_module m = true |- _ => unfold wf_module in W; split_and W end.
    match goal with W : wf_pts (m_eff m) = true |- _ => rewrite (dec_enc_eff _ W) end.
    match goal with W : wf_fuel _ _ = true |- _ => rewrite (dec_fuel_wf _ _ W) end.
    match goal with W : wf_ecomp conv = true |- _ => rewrite (dec_enc_ecomp fresh _ _ W); unfold wf_ecomp in W; split_and W end.
    repeat match goal with W : positive _ = true |- _ => rewrite W; clear W end. cbn [andb].
    rewrite (dec_uid_wf fresh _ H).
    match goal with W : wf_uid (m_uid m) = true |- _ => rewrite (dec_uid_wf fresh _ W) end.
    match goal with W : (1 <=? nmod)%nat = true |- _ => apply Nat.leb_le in W end.
    destruct m as [mn mr me mf mo mu]; cbn [m_name m_rated m_eff m_fuel m_origin m_uid].
    destruct nmod as [|[|n]]; [lia|reflexivity|reflexivity].
  - (* COGES *) split_and H.
    unfold dec_comp, enc_comp, with_fields, sub0. cbn [s_ctype s_ptype s_cogas s_machine s_name s_uid get].
    cbn [T_COGES T_GENSET Nat.eqb Nat.leb negb orb MAX_CTYPE MAX_PTYPE P_SOURCE T_FUEL_CELL_SYSTEM].
    match goal with W : wf_cogas k = true |- _ => rewrite (dec_enc_cogas fresh _ _ W); unfold wf_cogas in W; split_and W end.
    match goal with W : wf_mach gen = true |- _ => rewrite (dec_enc_mach fresh _ _ W); unfold wf_mach in W; split_and W end.
    repeat match goal with W : positive _ = true |- _ => rewrite W; clear W end.
    rewrite (dec_uid_wf fresh _ H). reflexivity.
  - (* battery *) unfold wf_battery in H. split_and H.
    unfold dec_comp, enc_comp, with_fields, sub0. cbn [s_ctype s_ptype s_battery get].
    cbn [T_BATTERY T_COGES T_GENSET T_BATTERY_SYSTEM Nat.eqb Nat.leb negb orb MAX_CTYPE MAX_PTYPE P_STORAGE T_FUEL_CELL_SYSTEM].
    rewrite (dec_enc_battery fresh _ _ H).
    match goal with W : positive _ = true |- _ => rewrite W end. reflexivity.
  - (* battery system *) split_and H.
    unfold dec_comp, enc_comp, with_fields, sub0. cbn [s_ctype s_ptype s_battery s_conv1 s_name s_uid get].
    cbn [T_BATTERY T_COGES T_GENSET T_BATTERY_SYSTEM Nat.eqb Nat.leb negb orb MAX_CTYPE MAX_PTYPE P_STORAGE T_FUEL_CELL_SYSTEM].
    match goal with W : wf_ecomp conv = true |- _ => rewrite (dec_enc_ecomp fresh _ _ W); unfold wf_ecomp in W; split_and W end.
    match goal with W : wf_battery b = true |- _ => unfold wf_battery in W; split_and W; rewrite (dec_enc_battery fresh _ _ W) end.
    repeat match goal with W : positive _ = true |- _ => rewrite W; clear W end.
    rewrite (dec_uid_wf fresh _ H). reflexivity.
  - (* supercapacitor *) unfold wf_supercap in H. split_and H.
    unfold dec_comp, enc_comp, with_fields, sub0. cbn [s_ctype s_ptype s_supercap get].
    cbn [T_BATTERY T_COGES T_GENSET T_BATTERY_SYSTEM T_SUPERCAPACITOR T_SUPERCAPACITOR_SYSTEM Nat.eqb Nat.leb negb orb MAX_CTYPE
         MAX_PTYPE P_STORAGE T_FUEL_CELL_SYSTEM].
    rewrite (dec_enc_supercap fresh _ _ H).
    match goal with W : positive _ = true |- _ => rewrite W end. reflexivity.
  - (* supercapacitor system *) split_and H.
    unfold dec_comp, enc_comp, with_fields, sub0. cbn [s_ctype s_ptype s_supercap s_conv1 s_name s_uid get].
    cbn [T_BATTERY T_COGES T_GENSET T_BATTERY_SYSTEM T_SUPERCAPACITOR T_SUPERCAPACITOR_SYSTEM Nat.eqb Nat.leb negb orb MAX_CTYPE
         MAX_PTYPE P_STORAGE T_FUEL_CELL_SYSTEM].
    match goal with W : wf_ecomp conv = true |- _ => rewrite (dec_enc_ecomp fresh _ _ W); unfold wf_ecomp in W; split_and W end.
    match goal with W : wf_supercap u = true |- _ => unfold wf_supercap in W; split_and W; rewrite (dec_enc_supercap fresh _ _ W) end.
    repeat match goal with W : positive _ = true |- _ => rewrite W; clear W end.
    rewrite (dec_uid_wf fresh _ H). reflexivity.
  - (* drive, PTI/PTO *)
    cbn [enc_comp]. unfold dec_comp. destruct (enc_serial_types r) as [Ec Ep]. rewrite Ec, Ep.
    pose proof (dec_enc_serial 1%nat r H) as D.
    destruct (r_pti r); rewrite D; reflexivity.
  - (* load *) split_and H.
    unfold dec_comp, enc_comp, with_fields, sub0. cbn [s_ctype s_ptype].
    cbn [T_OTHER_LOAD T_GENERATOR Nat.eqb Nat.leb negb orb MAX_CTYPE MAX_PTYPE P_CONSUMER T_FUEL_CELL_SYSTEM T_GENSET T_COGES T_BATTERY_SYSTEM
         T_BATTERY T_SUPERCAPACITOR_SYSTEM T_SUPERCAPACITOR T_PTI_PTO_SYSTEM T_PROPULSION_DRIVE].
    unfold dec_generic. cbn [s_propeller s_machine s_transformer s_conv1 s_conv2 s_other_load s_ctype s_ptype s_name].
    unfold enc_ecomp at 1. cbn [pc_name].
    match goal with W : negb _ = true |- _ => apply negb_true_iff in W; rewrite W end.
    rewrite (dec_enc_ecomp fresh _ _ H). unfold wf_ecomp in H. split_and H.
    repeat match goal with W : positive _ = true |- _ => rewrite W; clear W end. reflexivity.
Qed.

End Components.

(* ---------------------------------------------------------------------------------------------- *)
(* switchboards and the electric system                                                             *)
Section Electric.
Variable fresh : string.

Lemma all_some_map {A B} (f : A -> option B) (g : A -> B) l :
  (forall a, In a l -> f a = Some (g a)) -> all_some (map f l) = Some (map g l).
Proof.
  induction l as [|a l IH]; intros H; [reflexivity|]. cbn [map all_some].
  rewrite (H a (or_introl eq_refl)), IH; [reflexivity|]. intros b Hb. apply H. right. exact Hb.
Qed.

Lemma ptype_reset c : ptype_of (reset_line c) = ptype_of c.
Proof. destruct c; reflexivity. Qed.
Lemma ptype_range c : (1 <= ptype_of c <= 4)%nat.
Proof. unfold ptype_of, P_SOURCE, P_STORAGE, P_PTI_PTO, P_CONSUMER. destruct c; try lia. match goal with |- context [r_pti ?r] => destruct (r_pti r) end; lia. Qed.

(* grouping by power type keeps every component: it is a permutation *)
Lemma filter_lt_S {A} (key : A -> nat) n l :
  Permutation (filter (fun c => key c <? S n)%nat l) (filter (fun c => key c <? n)%nat l ++ filter (fun c => key c =? n)%nat l).
Proof.
  induction l as [|c l IH]; [constructor|]. cbn [filter].
  destruct (Nat.ltb_spec (key c) (S n)) as [L|L], (Nat.ltb_spec (key c) n) as [L'|L'], (Nat.eqb_spec (key c) n) as [E|E]; try lia.
  - cbn [app]. constructor. exact IH.
  - apply Permutation_cons_app. exact IH.
  - exact IH.
Qed.
Lemma group_upto {A} (key : A -> nat) l n :
  Permutation (flat_map (fun k => filter (fun c => key c =? k)%nat l) (seq 0 n)) (filter (fun c => key c <? n)%nat l).
Proof.
  induction n as [|n IH].
  - cbn. induction l as [|c l IHl]; [constructor|exact IHl].
  - rewrite seq_S, flat_map_app. cbn [flat_map Nat.add]. rewrite app_nil_r.
    rewrite filter_lt_S. apply Permutation_app_tail. exact IH.
Qed.
Theorem group_pt_perm l : Permutation (group_pt l) l.
Proof.
  unfold group_pt. rewrite (group_upto ptype_of l 6).
  assert (E : filter (fun c => (ptype_of c <? 6)%nat) l = l).
  { induction l as [|c l IH]; [reflexivity|]. cbn [filter]. pose proof (ptype_range c).
    destruct (Nat.ltb_spec (ptype_of c) 6); [rewrite IH; reflexivity|lia]. }
  rewrite E. apply Permutation_refl.
Qed.

(* grouping a grouped list changes nothing *)
Lemma filter_flat_map {A B} (p : B -> bool) (f : A -> list B) l :
  filter p (flat_map f l) = flat_map (fun a => filter p (f a)) l.
Proof. induction l as [|a l IH]; [reflexivity|]. cbn [flat_map]. rewrite filter_app, IH. reflexivity. Qed.
Lemma filter_filter_key {A} (key : A -> nat) j k l :
  filter (fun c => key c =? k)%nat (filter (fun c => key c =? j)%nat l) = if (j =? k)%nat then filter (fun c => key c =? k)%nat l else [].
Proof.
  induction l as [|c l IH]; [destruct (j =? k)%nat; reflexivity|]. cbn [filter].
  destruct (Nat.eqb_spec (key c) j) as [Ej|Ej]; cbn [filter].
  - destruct (Nat.eqb_spec (key c) k) as [Ek|Ek], (Nat.eqb_spec j k) as [E|E]; try lia; rewrite IH;
      destruct (Nat.eqb_spec j k); try lia; reflexivity.
  - rewrite IH. destruct (Nat.eqb_spec j k) as [E|E]; [|reflexivity].
    destruct (Nat.eqb_spec (key c) k); [lia|reflexivity].
Qed.
Lemma flat_map_ext_in' {A B} (f g : A -> list B) l : (forall a, In a l -> f a = g a) -> flat_map f l = flat_map g l.
Proof.
  induction l as [|a l IH]; intros H; [reflexivity|]. cbn [flat_map]. rewrite (H a (or_introl eq_refl)), IH; [reflexivity|].
  intros b Hb. apply H. right. exact Hb.
Qed.
Theorem group_pt_idem l : group_pt (group_pt l) = group_pt l.
Proof.
  unfold group_pt at 1. unfold group_pt at 2. apply flat_map_ext_in'.
  intros k Hk. unfold group_pt. rewrite filter_flat_map.
  erewrite flat_map_ext; [|intros j; apply (filter_filter_key ptype_of j k l)].
  apply in_seq in Hk.
  destruct k as [|[|[|[|[|[|k]]]]]]; try lia; cbn; rewrite ?app_nil_r; reflexivity.
Qed.

Lemma group_pt_map_reset l : group_pt (map reset_line l) = map reset_line (group_pt l).
Proof.
  unfold group_pt. induction (seq 0 6) as [|k ks IH]; [reflexivity|]. cbn [flat_map]. rewrite map_app, IH. f_equal.
  clear. induction l as [|c l IH]; [reflexivity|]. cbn [map filter]. rewrite ptype_reset.
  destruct (ptype_of c =? k)%nat; cbn [map]; rewrite IH; reflexivity.
Qed.

Definition norm_swb (w : nat * list f_comp) : nat * list f_comp := (fst w, group_pt (map reset_line (snd w))).

Theorem dec_enc_swb w : forallb wf_comp (snd w) = true -> dec_swb fresh (enc_swb w) = Some (norm_swb w).
Proof.
  intros H. unfold dec_swb, enc_swb, norm_swb. cbn [fst snd]. rewrite map_map.
  rewrite (all_some_map (fun c => dec_comp fresh (enc_comp c)) reset_line); [reflexivity|].
  intros c Hc. apply dec_enc_comp. rewrite forallb_forall in H. apply H, Hc.
Qed.

(* ---- the constructor's regrouping by switchboard id ---- *)
Definition flat (ws : list (nat * list f_comp)) : list (nat * f_comp) := flat_map (fun w => map (pair (fst w)) (snd w)) ws.

Lemma ids_of_app a b : ids_of (a ++ b) = fold_right insert_id (ids_of b) (map fst a).
Proof. unfold ids_of. rewrite map_app, fold_right_app. reflexivity. Qed.

Lemma insert_same k n cs : cs <> [] ->
  fold_right insert_id (seq (S k) n) (map fst (map (pair k) cs : list (nat * f_comp))) = seq k (S n).
Proof.
  intros Hne. induction cs as [|c cs IH]; [congruence|]. cbn [map fold_right fst].
  destruct cs as [|c' cs].
  - cbn [map fold_right]. destruct n; cbn [seq insert_id]; [reflexivity|]. rewrite (proj2 (Nat.ltb_lt k (S k))) by lia. reflexivity.
  - rewrite IH by congruence. cbn [seq insert_id]. rewrite Nat.ltb_irrefl, Nat.eqb_refl. reflexivity.
Qed.

Lemma ids_of_flat ws k : Forall (fun w => snd w <> []) ws -> map fst ws = seq k (List.length ws) ->
  ids_of (flat ws) = seq k (List.length ws).
Proof.
  revert k; induction ws as [|[i cs] ws IH]; intros k Hne Hids; [reflexivity|].
  cbn [List.length seq map fst] in Hids. injection Hids as Hi Ht. subst i.
  inversion Hne as [|? ? Hc Hne']; subst. cbn [snd] in Hc.
  unfold flat. cbn [flat_map fst snd]. fold (flat ws). rewrite ids_of_app, (IH (S k) Hne' Ht).
  cbn [List.length]. apply insert_same, Hc.
Qed.

Lemma filter_flat_none ws k i : map fst ws = seq k (List.length ws) -> (i < k)%nat ->
  filter (fun p => (fst p =? i)%nat) (flat ws) = [].
Proof.
  revert k; induction ws as [|[j cs] ws IH]; intros k Hids Hlt; [reflexivity|].
  cbn [List.length seq map fst] in Hids. injection Hids as Hj Ht. subst j.
  unfold flat. cbn [flat_map fst snd]. fold (flat ws). rewrite filter_app, (IH (S k) Ht) by lia. rewrite app_nil_r.
  induction cs as [|c cs IHc]; [reflexivity|]. cbn [map filter fst]. destruct (Nat.eqb_spec k i); [lia|exact IHc].
Qed.

Lemma regroup ws k : Forall (fun w => snd w <> []) ws -> map fst ws = seq k (List.length ws) ->
  map (fun i => (i, map snd (filter (fun p => (fst p =? i)%nat) (flat ws)))) (seq k (List.length ws)) = ws.
Proof.
  revert k; induction ws as [|[j cs] ws IH]; intros k Hne Hids; [reflexivity|].
  cbn [List.length seq map fst] in Hids. injection Hids as Hj Ht. subst j.
  inversion Hne as [|? ? Hc Hne']; subst.
  cbn [List.length seq map]. f_equal.
  - f_equal. unfold flat. cbn [flat_map fst snd]. fold (flat ws). rewrite filter_app, (filter_flat_none ws (S k) k Ht) by lia.
    rewrite app_nil_r. clear. induction cs as [|c cs IH]; [reflexivity|]. cbn [map filter fst]. rewrite Nat.eqb_refl. cbn [map snd].
    rewrite IH. reflexivity.
  - rewrite <- (IH (S k) Hne' Ht) at 2. apply map_ext_in. intros i Hi. apply in_seq in Hi. f_equal. f_equal.
    unfold flat. cbn [flat_map fst snd]. fold (flat ws). rewrite filter_app.
    assert (E : filter (fun p : nat * f_comp => (fst p =? i)%nat) (map (pair k) cs) = []).
    { clear -Hi. induction cs as [|c cs IHc]; [reflexivity|]. cbn [map filter fst]. destruct (Nat.eqb_spec k i); [lia|exact IHc]. }
    rewrite E. reflexivity.
Qed.

Lemma chain_ids_ok n : forall k m, (k + n <= m)%nat -> (1 <= k)%nat ->
  forallb (fun b => existsb (Nat.eqb (fst b)) (seq 1 m) && existsb (Nat.eqb (snd b)) (seq 1 m)) (chain k n) = true.
Proof.
  induction n as [|n IH]; intros k m H1 H2; [reflexivity|]. cbn [chain forallb fst snd].
  assert (In1 : existsb (Nat.eqb k) (seq 1 m) = true) by (apply existsb_exists; exists k; split; [apply in_seq; lia|apply Nat.eqb_refl]).
  assert (In2 : existsb (Nat.eqb (S k)) (seq 1 m) = true) by (apply existsb_exists; exists (S k); split; [apply in_seq; lia|apply Nat.eqb_refl]).
  rewrite In1, In2. cbn [andb]. apply IH; lia.
Qed.

(* a description the format can carry: switchboards 1..n, each with a component, breakers 1-2, 2-3, ..., (n-1)-n *)
Definition representable (e : f_electric) : Prop :=
  map fst (x_swbs e) = seq 1 (List.length (x_swbs e)) /\ Forall (fun w => snd w <> []) (x_swbs e) /\
  x_breakers e = chain 1 (List.length (x_swbs e) - 1).
Definition wf_electric (e : f_electric) : bool := forallb (fun w => forallb wf_comp (snd w)) (x_swbs e).
Definition norm_electric (e : f_electric) : f_electric := {| x_swbs := map norm_swb (x_swbs e); x_breakers := x_breakers e |}.

Lemma group_pt_nonempty l : l <> [] -> group_pt l <> [].
Proof.
  intros H E. pose proof (group_pt_perm l) as P. rewrite E in P. apply Permutation_nil in P. contradiction.
Qed.

Theorem dec_enc_electric e : wf_electric e = true -> representable e ->
  dec_electric fresh (enc_electric e) = Some (norm_electric e).
Proof.
  intros W (Hids & Hne & Hb). unfold dec_electric, enc_electric. rewrite map_map.
  rewrite (all_some_map (fun w => dec_swb fresh (enc_swb w)) norm_swb).
  2:{ intros w Hw. apply dec_enc_swb. unfold wf_electric in W. rewrite forallb_forall in W. apply W, Hw. }
  rewrite map_length. fold (flat (map norm_swb (x_swbs e))).
  set (ws := map norm_swb (x_swbs e)).
  assert (L : List.length ws = List.length (x_swbs e)) by apply map_length.
  assert (Hids' : map fst ws = seq 1 (List.length ws)).
  { unfold ws. rewrite map_map. cbn [norm_swb fst]. rewrite map_length. exact Hids. }
  assert (Hne' : Forall (fun w => snd w <> []) ws).
  { unfold ws. apply Forall_map. eapply Forall_impl; [|exact Hne]. intros w Hw. cbn [norm_swb snd].
    apply group_pt_nonempty. cbv beta in Hw. intros E. apply map_eq_nil in E. contradiction. }
  unfold construct. rewrite (ids_of_flat ws 1 Hne' Hids').
  rewrite <- L.
  assert (C : forallb (fun b => existsb (Nat.eqb (fst b)) (seq 1 (List.length ws)) && existsb (Nat.eqb (snd b)) (seq 1 (List.length ws)))
                      (chain 1 (List.length ws - 1)) = true).
  { destruct (List.length ws) as [|n]; [reflexivity|]. apply chain_ids_ok; lia. }
  rewrite C.
  rewrite (regroup ws 1 Hne' Hids'). unfold norm_electric. fold ws. rewrite Hb, L. reflexivity.
Qed.

End Electric.

(* ---------------------------------------------------------------------------------------------- *)
(* shaft lines                                                                                      *)
Section Lines.
Variable fresh : string.

Definition wf_mcomp (c : m_comp) : bool :=
  match c with
  | MEngine _ uid eng => wf_uid uid && wf_engine eng && negb (String.eqb (e_name eng) "")
  | MEngineGB _ uid eng gb => wf_uid uid && wf_engine eng && wf_mach gb
  | MPropeller _ uid rated _ eff => wf_uid uid && positive rated && wf_pts eff
  | MPti _ r => r_pti r && wf_serial r
  end.

Ltac split_and H :=
  repeat match type of H with (_ && _ = true) => let H' := fresh "W" in apply andb_true_iff in H as [H H'] end.

(* what a shaft-line component is after the round trip when no PTI/PTO is handed over (no electric-side PTI/PTO):
   a PTI/PTO is built anew on the line it is listed on *)
Definition norm_m (line : nat) (c : m_comp) : m_comp :=
  match c with MPti _ r => MPti false (set_line line r) | _ => c end.

Lemma dec_enc_mengine line ptis name uid eng :
  wf_mcomp (MEngine name uid eng) = true ->
  dec_line_comp fresh line ptis
    (set_engine_gear (sub0 P_SOURCE T_MAIN_ENGINE name (e_rated eng) (e_speed eng) uid) (Some (enc_engine eng 1)) None None)
  = Some (MEngine name uid eng).
Proof.
  cbn [wf_mcomp]. intros H. split_and H.
  unfold dec_line_comp, set_engine_gear, sub0. cbn [s_ctype s_engine s_name s_uid get].
  cbn [T_MAIN_ENGINE MAX_CTYPE Nat.leb Nat.eqb negb].
  unfold enc_engine at 1. cbn [pg_name].
  match goal with W : negb _ = true |- _ => apply negb_true_iff in W; rewrite W end.
  match goal with W : wf_engine eng = true |- _ => rewrite (dec_enc_engine fresh _ _ W); unfold wf_engine in W; split_and W end.
  repeat match goal with W : positive _ = true |- _ => rewrite W; clear W end.
  rewrite (dec_uid_wf fresh _ H). reflexivity.
Qed.

Lemma dec_enc_menginegb line ptis name uid eng gb :
  wf_mcomp (MEngineGB name uid eng gb) = true ->
  dec_line_comp fresh line ptis
    (set_engine_gear (sub0 P_SOURCE T_MAIN_ENGINE_GB name (e_rated eng) (e_speed eng) uid) (Some (enc_engine eng 2))
                     (Some (enc_gear gb)) None)
  = Some (MEngineGB name uid eng gb).
Proof.
  cbn [wf_mcomp]. intros H. split_and H.
  unfold dec_line_comp, set_engine_gear, sub0. cbn [s_ctype s_engine s_gear s_name s_uid get].
  cbn [T_MAIN_ENGINE T_MAIN_ENGINE_GB MAX_CTYPE Nat.leb Nat.eqb negb].
  match goal with W : wf_engine eng = true |- _ => rewrite (dec_enc_engine fresh _ _ W); unfold wf_engine in W; split_and W end.
  unfold enc_gear. cbn [pr_eff pr_rated pr_name pr_speed pr_uid].
  match goal with W : wf_mach gb = true |- _ => unfold wf_mach in W; split_and W end.
  match goal with W : wf_pts (h_eff gb) = true |- _ => rewrite (dec_enc_eff _ W) end.
  repeat match goal with W : positive _ = true |- _ => rewrite W; clear W end.
  rewrite (dec_uid_wf fresh _ H).
  match goal with W : wf_uid (h_uid gb) = true |- _ => rewrite (dec_uid_wf fresh _ W) end.
  destruct gb; reflexivity.
Qed.

Lemma dec_enc_mpropeller line ptis name uid rated speed eff pid :
  wf_mcomp (MPropeller name uid rated speed eff) = true ->
  dec_line_comp fresh line ptis
    (set_engine_gear (sub0 P_CONSUMER T_PROPELLER_LOAD name rated speed uid) None None
                     (Some {| pp_eff := enc_eff eff; pp_id := pid; pp_order := 2; pp_uid := uid |}))
  = Some (MPropeller name uid rated speed eff).
Proof.
  cbn [wf_mcomp]. intros H. split_and H.
  unfold dec_line_comp, set_engine_gear, sub0. cbn [s_ctype s_propeller s_name s_uid s_rated s_speed get pp_eff].
  cbn [T_MAIN_ENGINE T_MAIN_ENGINE_GB T_PTI_PTO_SYSTEM T_PROPELLER_LOAD MAX_CTYPE Nat.leb Nat.eqb negb].
  match goal with W : wf_pts eff = true |- _ => rewrite (dec_enc_eff _ W) end.
  repeat match goal with W : positive _ = true |- _ => rewrite W; clear W end.
  rewrite (dec_uid_wf fresh _ H). reflexivity.
Qed.

Lemma dec_enc_mpti_new line sh r :
  wf_mcomp (MPti sh r) = true -> dec_line_comp fresh line None (enc_serial r) = Some (MPti false (set_line line r)).
Proof.
  cbn [wf_mcomp]. intros H. apply andb_true_iff in H as [Hp H].
  unfold dec_line_comp. destruct (enc_serial_types r) as [Ec _]. rewrite Ec, Hp.
  cbn [T_MAIN_ENGINE T_MAIN_ENGINE_GB T_PTI_PTO_SYSTEM MAX_CTYPE Nat.leb Nat.eqb negb].
  pose proof (dec_enc_serial fresh line r H) as D. rewrite Hp in D. rewrite D. reflexivity.
Qed.

Theorem dec_enc_line_comps line l : forallb wf_mcomp l = true -> forall pid,
  all_some (map (dec_line_comp fresh line None) (enc_line_comps l pid)) = Some (map (norm_m line) l).
Proof.
  induction l as [|c l IH]; intros H pid; [reflexivity|]. cbn [forallb] in H. apply andb_true_iff in H as [Hc Hl].
  destruct c as [name uid eng|name uid eng gb|name uid rated speed eff|sh r]; cbn [enc_line_comps map all_some norm_m].
  - rewrite (dec_enc_mengine line None _ _ _ Hc), (IH Hl). reflexivity.
  - rewrite (dec_enc_menginegb line None _ _ _ _ Hc), (IH Hl). reflexivity.
  - rewrite (dec_enc_mpropeller line None _ _ _ _ _ _ Hc), (IH Hl). reflexivity.
  - rewrite (dec_enc_mpti_new line sh r Hc), (IH Hl). reflexivity.
Qed.

Definition norm_line (w : nat * list m_comp) : nat * list m_comp := (fst w, map (norm_m (fst w)) (snd w)).

Theorem dec_enc_line w : forallb wf_mcomp (snd w) = true -> dec_line fresh None (enc_line w) = Some (norm_line w).
Proof.
  intros H. unfold dec_line, enc_line, norm_line. cbn [fst snd]. rewrite (dec_enc_line_comps _ _ H). reflexivity.
Qed.

End Lines.

(* ---------------------------------------------------------------------------------------------- *)
(* whole systems (electric, mechanical with electric)                                                *)
Section Systems.
Variable fresh : string.

Definition wf_lines (ls : list (nat * list m_comp)) : bool := forallb (fun w => forallb wf_mcomp (snd w)) ls.

Definition norm_system (s : f_system) : f_system :=
  match s with
  | SElectric _ e => SElectric "electric power system" (norm_electric e)
  | SMech name e ls => SMech name (norm_electric e) (map norm_line ls)
  | SHybrid name e ls => SHybrid name e ls        (* see the hybrid theorem *)
  end.

Theorem dec_enc_system_electric name e : wf_electric e = true -> representable e ->
  dec_system fresh (enc_system (SElectric name e)) = Some (norm_system (SElectric name e)).
Proof.
  intros W R. unfold dec_system, enc_system. cbn [y_ptype y_swbs]. rewrite (dec_enc_electric fresh e W R). reflexivity.
Qed.

Theorem dec_enc_system_mech name e ls : wf_electric e = true -> representable e -> wf_lines ls = true ->
  dec_system fresh (enc_system (SMech name e ls)) = Some (norm_system (SMech name e ls)).
Proof.
  intros W R WL. unfold dec_system, enc_system. cbn [y_ptype y_swbs y_lines y_name].
  rewrite (dec_enc_electric fresh e W R). rewrite map_map.
  rewrite (all_some_map (fun w => dec_line fresh None (enc_line w)) norm_line); [reflexivity|].
  intros w Hw. apply dec_enc_line. unfold wf_lines in WL. rewrite forallb_forall in WL. apply WL, Hw.
Qed.

(* ---- the first pass normalises, the second changes nothing ---- *)
Lemma set_line_idem a b r : set_line a (set_line b r) = set_line a r.
Proof. reflexivity. Qed.
Lemma reset_line_idem c : reset_line (reset_line c) = reset_line c.
Proof. destruct c; reflexivity. Qed.
Lemma norm_swb_idem w : norm_swb (norm_swb w) = norm_swb w.
Proof.
  unfold norm_swb. cbn [fst snd]. f_equal. rewrite <- group_pt_map_reset, map_map.
  rewrite (map_ext _ reset_line) by apply reset_line_idem. apply group_pt_idem.
Qed.
Lemma norm_electric_idem e : norm_electric (norm_electric e) = norm_electric e.
Proof.
  unfold norm_electric. cbn [x_swbs x_breakers]. f_equal. rewrite map_map. apply map_ext. apply norm_swb_idem.
Qed.
Lemma norm_m_idem line c : norm_m line (norm_m line c) = norm_m line c.
Proof. destruct c; reflexivity. Qed.
Lemma norm_line_idem w : norm_line (norm_line w) = norm_line w.
Proof. unfold norm_line. cbn [fst snd]. f_equal. rewrite map_map. apply map_ext. apply norm_m_idem. Qed.

Theorem norm_system_idem s : norm_system (norm_system s) = norm_system s.
Proof.
  destruct s as [name e|name e ls|name e ls]; cbn [norm_system]; [| |reflexivity].
  - rewrite norm_electric_idem. reflexivity.
  - rewrite norm_electric_idem, map_map. f_equal. apply map_ext. apply norm_line_idem.
Qed.

(* normalisation keeps well-formedness and representability: the second pass is again a round trip *)
Lemma wf_comp_reset c : wf_comp c = true -> wf_comp (reset_line c) = true.
Proof. destruct c; cbn [reset_line wf_comp]; try (intros H; exact H). Qed.

Lemma forallb_perm {A} (p : A -> bool) l l' : Permutation l l' -> forallb p l = forallb p l'.
Proof.
  induction 1 as [|x l l' _ IH|x y l|l l' l'' _ IH1 _ IH2]; cbn [forallb]; [reflexivity|rewrite IH; reflexivity| |congruence].
  destruct (p x), (p y); reflexivity.
Qed.

Lemma wf_norm_swb w : forallb wf_comp (snd w) = true -> forallb wf_comp (snd (norm_swb w)) = true.
Proof.
  intros H. unfold norm_swb. cbn [snd]. rewrite (forallb_perm _ _ _ (group_pt_perm _)).
  rewrite forallb_forall in *. intros c Hc. apply in_map_iff in Hc as [c' [<- Hc']]. apply wf_comp_reset, H, Hc'.
Qed.

Lemma wf_norm_electric e : wf_electric e = true -> wf_electric (norm_electric e) = true.
Proof.
  unfold wf_electric, norm_electric. cbn [x_swbs]. intros H. rewrite forallb_forall in *.
  intros w Hw. apply in_map_iff in Hw as [w' [<- Hw']]. apply wf_norm_swb, H, Hw'.
Qed.

Lemma representable_norm e : representable e -> representable (norm_electric e).
Proof.
  intros (Hids & Hne & Hb). unfold representable, norm_electric. cbn [x_swbs x_breakers]. rewrite map_length, map_map.
  cbn [norm_swb fst]. repeat split; [exact Hids| |exact Hb].
  apply Forall_map. eapply Forall_impl; [|exact Hne]. intros w Hw. cbn [norm_swb snd].
  apply group_pt_nonempty. cbv beta in Hw. intros E. apply map_eq_nil in E. contradiction.
Qed.

Lemma wf_norm_m line c : wf_mcomp c = true -> wf_mcomp (norm_m line c) = true.
Proof. destruct c; cbn [norm_m wf_mcomp]; intros H; exact H. Qed.
Lemma wf_norm_lines ls : wf_lines ls = true -> wf_lines (map norm_line ls) = true.
Proof.
  unfold wf_lines. intros H. rewrite forallb_forall in *. intros w Hw. apply in_map_iff in Hw as [w' [<- Hw']].
  unfold norm_line. cbn [snd]. specialize (H w' Hw'). rewrite forallb_forall in *. intros c Hc.
  apply in_map_iff in Hc as [c' [<- Hc']]. apply wf_norm_m, H, Hc'.
Qed.

End Systems.

(* ---------------------------------------------------------------------------------------------- *)
(* hybrid plants: the PTI/PTOs of the shaft lines are the objects listed on the switchboards          *)
Section Hybrid.
Variable fresh : string.

Definition sel (c : f_comp) : list f_serial := match c with CSerial r => if r_pti r then [r] else [] | _ => [] end.

Lemma elec_ptis_sel e : elec_ptis e = flat_map (fun w => flat_map sel (snd w)) (x_swbs e).
Proof. reflexivity. Qed.

Lemma sel_other k l : k <> 3%nat -> flat_map sel (filter (fun c => (ptype_of c =? k)%nat) l) = [].
Proof.
  intros Hk. induction l as [|c l IH]; [reflexivity|]. cbn [filter].
  destruct (Nat.eqb_spec (ptype_of c) k) as [E|E]; [|exact IH]. cbn [flat_map]. rewrite IH, app_nil_r.
  destruct c as [? ? ? ?|?|? ? ? ? ?|? ? ? ?|?|? ? ? ?|?|? ? ? ?|r|?]; try reflexivity.
  cbn [sel]. cbn [ptype_of] in E. destruct (r_pti r); [|reflexivity]. unfold P_PTI_PTO in E. congruence.
Qed.
Lemma sel_three l : flat_map sel (filter (fun c => (ptype_of c =? 3)%nat) l) = flat_map sel l.
Proof.
  induction l as [|c l IH]; [reflexivity|]. cbn [filter flat_map].
  destruct (Nat.eqb_spec (ptype_of c) 3) as [E|E]; cbn [flat_map]; rewrite IH; [reflexivity|].
  destruct c as [? ? ? ?|?|? ? ? ? ?|? ? ? ?|?|? ? ? ?|?|? ? ? ?|r|?]; try reflexivity.
  cbn [sel]. cbn [ptype_of] in E. destruct (r_pti r); [|reflexivity]. unfold P_PTI_PTO in E. congruence.
Qed.
Lemma sel_group l : flat_map sel (group_pt l) = flat_map sel l.
Proof.
  unfold group_pt. cbn [seq flat_map]. rewrite !flat_map_app.
  rewrite (sel_other 0), (sel_other 1), (sel_other 2), (sel_other 4), (sel_other 5) by discriminate.
  rewrite sel_three. cbn [flat_map app]. rewrite !app_nil_r. reflexivity.
Qed.
Lemma sel_reset c : sel (reset_line c) = map (set_line 1) (sel c).
Proof. destruct c as [? ? ? ?|?|? ? ? ? ?|? ? ? ?|?|? ? ? ?|?|? ? ? ?|r|?]; try reflexivity. cbn. destruct (r_pti r); reflexivity. Qed.
Lemma flat_map_map_out {A B C} (f : B -> C) (g : A -> list B) l : flat_map (fun a => map f (g a)) l = map f (flat_map g l).
Proof. induction l as [|a l IH]; [reflexivity|]. cbn [flat_map]. rewrite map_app, IH. reflexivity. Qed.

Lemma elec_ptis_norm e : elec_ptis (norm_electric e) = map (set_line 1) (elec_ptis e).
Proof.
  rewrite !elec_ptis_sel. unfold norm_electric. cbn [x_swbs]. rewrite <- flat_map_map_out.
  induction (x_swbs e) as [|w ws IH]; [reflexivity|]. cbn [map flat_map]. rewrite IH. f_equal.
  unfold norm_swb. cbn [snd]. rewrite sel_group. rewrite flat_map_concat_map, map_map.
  rewrite (map_ext _ (fun c => map (set_line 1) (sel c))) by apply sel_reset.
  rewrite <- flat_map_concat_map. apply flat_map_map_out.
Qed.

Lemma in_elec_ptis_pti e q : In q (elec_ptis e) -> r_pti q = true.
Proof.
  rewrite elec_ptis_sel. intros H. apply in_flat_map in H as [w [_ H]]. apply in_flat_map in H as [c [_ H]].
  destruct c as [? ? ? ?|?|? ? ? ? ?|? ? ? ?|?|? ? ? ?|?|? ? ? ?|r|?]; try contradiction.
  cbn [sel] in H. destruct (r_pti r) eqn:E; [|contradiction]. destruct H as [<-|[]]. exact E.
Qed.

(* the electric-side PTI/PTO found for a shaft-line subsystem: unique names make `find` hit the right one *)
Lemma find_unique (f : f_serial -> bool) l x :
  NoDup (map r_name l) -> In x l -> f x = true ->
  find (fun r => String.eqb (r_name r) (r_name x)) (filter f l) = Some x.
Proof.
  induction l as [|a l IH]; intros ND Hin Hf; [contradiction|].
  cbn [map] in ND. inversion ND as [|? ? Hna ND']; subst. cbn [filter].
  destruct Hin as [->|Hin].
  - rewrite Hf. cbn [find]. rewrite String.eqb_refl. reflexivity.
  - destruct (f a) eqn:Fa; [|apply IH; assumption]. cbn [find].
    destruct (String.eqb_spec (r_name a) (r_name x)) as [E|E]; [|apply IH; assumption].
    exfalso. apply Hna. rewrite E. apply in_map, Hin.
Qed.

Definition mcomp_ok (ptis : list f_serial) (ln : nat) (c : m_comp) : Prop :=
  match c with
  | MPti sh q => sh = true /\ In q ptis /\ r_line q = ln
  | _ => wf_mcomp c = true
  end.

Lemma enc_serial_head r : s_uid (enc_serial r) = r_uid r /\ s_name (enc_serial r) = r_name r.
Proof.
  unfold enc_serial.
  destruct (put_stages_fields (r_stages r)
              (sub0 (if r_pti r then P_PTI_PTO else P_CONSUMER) (if r_pti r then T_PTI_PTO_SYSTEM else T_PROPULSION_DRIVE)
                    (r_name r) (r_rated r) (r_speed r) (r_uid r)) 1) as (_ & _ & _ & _ & _ & _ & I7 & _ & _ & I10 & _ & _).
  rewrite I7, I10. split; reflexivity.
Qed.

Lemma dec_line_comps_shared ptis ln p l :
  (forall q, In q ptis -> r_pti q = true) ->
  Forall (mcomp_ok ptis ln) l ->
  (forall q, In (MPti true q) l -> find (fun r => String.eqb (r_name r) (r_name q)) p = Some (set_line 1 q)) ->
  forall pid, all_some (map (dec_line_comp fresh ln (Some p)) (enc_line_comps l pid)) = Some l.
Proof.
  intros Hpti. induction l as [|c l IH]; intros Hok Hfind pid; [reflexivity|].
  inversion Hok as [|? ? Hc Hl]; subst.
  assert (Hfind' : forall q, In (MPti true q) l -> find (fun r => String.eqb (r_name r) (r_name q)) p = Some (set_line 1 q))
    by (intros q Hq; apply Hfind; right; exact Hq).
  destruct c as [name uid eng|name uid eng gb|name uid rated speed eff|sh q]; cbn [enc_line_comps map all_some mcomp_ok] in *.
  - rewrite (dec_enc_mengine fresh ln (Some p) _ _ _ Hc), (IH Hl Hfind'). reflexivity.
  - rewrite (dec_enc_menginegb fresh ln (Some p) _ _ _ _ Hc), (IH Hl Hfind'). reflexivity.
  - rewrite (dec_enc_mpropeller fresh ln (Some p) _ _ _ _ _ _ Hc), (IH Hl Hfind'). reflexivity.
  - destruct Hc as (-> & Hin & Hln).
    unfold dec_line_comp at 1. destruct (enc_serial_types q) as [Ec _]. destruct (enc_serial_head q) as [_ En].
    rewrite Ec, En, (Hpti q Hin).
    cbn [T_PTI_PTO_SYSTEM T_MAIN_ENGINE T_MAIN_ENGINE_GB MAX_CTYPE Nat.leb Nat.eqb negb].
    rewrite (Hfind q (or_introl eq_refl)), (IH Hl Hfind').
    subst ln. destruct q; reflexivity.
Qed.

Record hybrid_ok (e : f_electric) (ls : list (nat * list m_comp)) : Prop := {
  hy_wf : wf_electric e = true;
  hy_rep : representable e;
  hy_some : elec_ptis e <> [];
  hy_names : NoDup (map r_name (elec_ptis e));
  hy_uids : NoDup (map r_uid (elec_ptis e));
  hy_lines : Forall (fun w => Forall (mcomp_ok (elec_ptis e) (fst w)) (snd w)) ls;
  hy_count : count_pti ls = List.length (elec_ptis e);
  hy_shared : forallb (shared_on ls) (elec_ptis e) = true;
  hy_drives : forall w c, In w (x_swbs e) -> In c (snd w) -> match c with CSerial r => r_pti r = false -> r_line r = 1%nat | _ => True end
}.

Definition group_electric (e : f_electric) : f_electric :=
  {| x_swbs := map (fun w => (fst w, group_pt (snd w))) (x_swbs e); x_breakers := x_breakers e |}.

Lemma pti_subs_uids l : forall pid q, In (MPti true q) l -> r_pti q = true ->
  In (r_uid q) (map s_uid (filter (fun s => (s_ctype s =? T_PTI_PTO_SYSTEM)%nat) (enc_line_comps l pid))).
Proof.
  induction l as [|c l IH]; intros pid q Hin Hp; [contradiction|].
  destruct Hin as [->|Hin].
  - cbn [enc_line_comps filter]. destruct (enc_serial_types q) as [Ec _]. rewrite Ec, Hp. cbn [Nat.eqb T_PTI_PTO_SYSTEM map].
    left. apply enc_serial_head.
  - destruct c as [? ? ?|? ? ? ?|? ? ? ? ?|sh r]; cbn [enc_line_comps filter].
    + unfold set_engine_gear, sub0 at 1. cbn [s_ctype T_MAIN_ENGINE T_PTI_PTO_SYSTEM Nat.eqb]. apply IH; assumption.
    + unfold set_engine_gear, sub0 at 1. cbn [s_ctype T_MAIN_ENGINE_GB T_PTI_PTO_SYSTEM Nat.eqb]. apply IH; assumption.
    + unfold set_engine_gear, sub0 at 1. cbn [s_ctype T_PROPELLER_LOAD T_PTI_PTO_SYSTEM Nat.eqb]. apply IH; assumption.
    + destruct (s_ctype (enc_serial r) =? T_PTI_PTO_SYSTEM)%nat; [cbn [map]; right|]; apply IH; assumption.
Qed.

Lemma dec_enc_line_hybrid e w :
  NoDup (map r_name (elec_ptis e)) -> Forall (mcomp_ok (elec_ptis e) (fst w)) (snd w) ->
  dec_line fresh (Some (map (set_line 1) (elec_ptis e))) (enc_line w) = Some w.
Proof.
  intros ND Hok. unfold dec_line, enc_line. cbn [fst snd].
  rewrite (dec_line_comps_shared (elec_ptis e) (fst w) _ (snd w) (in_elec_ptis_pti e) Hok); [destruct w; reflexivity|].
  intros q Hq. rewrite Forall_forall in Hok. specialize (Hok _ Hq). cbn [mcomp_ok] in Hok. destruct Hok as (_ & Hin & _).
  unfold ptis_for_line.
  assert (Hp : r_pti q = true) by (eapply in_elec_ptis_pti; eassumption).
  pose proof (find_unique
                (fun r => existsb (String.eqb (r_uid r))
                            (map s_uid (filter (fun s => (s_ctype s =? T_PTI_PTO_SYSTEM)%nat) (enc_line_comps (snd w) 1))))
                (map (set_line 1) (elec_ptis e)) (set_line 1 q)) as F.
  cbn [set_line r_name] in F. apply F.
  - rewrite map_map. cbn [set_line r_name]. exact ND.
  - apply in_map, Hin.
  - cbn [r_uid]. apply existsb_exists. exists (r_uid q). split; [|apply String.eqb_refl].
    apply pti_subs_uids; assumption.
Qed.

Definition patch_comp (ls : list (nat * list m_comp)) (c : f_comp) : f_comp :=
  match c with
  | CSerial r => if r_pti r then CSerial {| r_pti := r_pti r; r_name := r_name r; r_uid := r_uid r; r_rated := r_rated r;
                                            r_speed := r_speed r; r_line := line_of_pti ls r; r_stages := r_stages r |}
                 else c
  | _ => c
  end.
Lemma patch_lines_eq ls e : patch_lines ls e = {| x_swbs := map (fun w => (fst w, map (patch_comp ls) (snd w))) (x_swbs e);
                                                    x_breakers := x_breakers e |}.
Proof. reflexivity. Qed.

Lemma line_of_shared e ls r : hybrid_ok e ls -> In r (elec_ptis e) -> line_of_pti ls (set_line 1 r) = r_line r.
Proof.
  intros H Hin. unfold line_of_pti. cbn [set_line r_uid r_line].
  pose proof (hy_shared _ _ H) as Hs. rewrite forallb_forall in Hs. specialize (Hs r Hin). unfold shared_on in Hs.
  match goal with |- match find ?f ls with _ => _ end = _ => destruct (find f ls) as [w|] eqn:F end.
  - apply find_some in F as [Hw Hex]. apply existsb_exists in Hex as [c [Hc Hu]].
    pose proof (hy_lines _ _ H) as Hl. rewrite Forall_forall in Hl. specialize (Hl w Hw). rewrite Forall_forall in Hl.
    specialize (Hl c Hc). destruct c as [? ? ?|? ? ? ?|? ? ? ? ?|sh q]; try discriminate. destruct sh; [|discriminate].
    cbn [mcomp_ok] in Hl. destruct Hl as (_ & Hq & Hln). apply String.eqb_eq in Hu.
    assert (q = r); [|subst; symmetry; exact Hln].
    pose proof (hy_uids _ _ H) as ND. clear -ND Hq Hin Hu.
    induction (elec_ptis e) as [|a l IH]; [contradiction|]. cbn [map] in ND. inversion ND as [|? ? Hna ND']; subst.
    destruct Hq as [->|Hq], Hin as [->|Hin]; [reflexivity| | |apply IH; assumption].
    + exfalso. apply Hna. rewrite Hu. apply in_map, Hin.
    + exfalso. apply Hna. rewrite <- Hu. apply in_map, Hq.
  - exfalso. apply existsb_exists in Hs as [w [Hw Hex]]. pose proof (find_none _ _ F w Hw) as N. cbv beta in N. congruence.
Qed.

Theorem dec_enc_system_hybrid name e ls : hybrid_ok e ls ->
  dec_system fresh (enc_system (SHybrid name e ls)) = Some (SHybrid name (group_electric e) ls).
Proof.
  intros H. unfold dec_system, enc_system. cbn [y_ptype y_swbs y_lines y_name].
  rewrite (dec_enc_electric fresh e (hy_wf _ _ H) (hy_rep _ _ H)). rewrite elec_ptis_norm.
  destruct (elec_ptis e) as [|p0 ps] eqn:Ept; [exfalso; apply (hy_some _ _ H); exact Ept|].
  cbn [map]. change (set_line 1 p0 :: map (set_line 1) ps) with (map (set_line 1) (p0 :: ps)). rewrite <- Ept.
  rewrite map_map.
  rewrite (all_some_map (fun w => dec_line fresh (Some (map (set_line 1) (elec_ptis e))) (enc_line w)) (fun w => w)).
  2:{ intros w Hw. apply dec_enc_line_hybrid; [apply (hy_names _ _ H)|].
      pose proof (hy_lines _ _ H) as Hl. rewrite Forall_forall in Hl. apply Hl, Hw. }
  rewrite map_id, map_length, (hy_count _ _ H), Nat.eqb_refl. cbn [andb].
  assert (Sh : forallb (shared_on ls) (map (set_line 1) (elec_ptis e)) = true).
  { rewrite forallb_forall. intros r' Hr'. apply in_map_iff in Hr' as [r [<- Hr]].
    pose proof (hy_shared _ _ H) as Hs. rewrite forallb_forall in Hs. exact (Hs r Hr). }
  rewrite Sh. f_equal. f_equal.
  rewrite patch_lines_eq. unfold norm_electric, group_electric. cbn [x_swbs x_breakers]. f_equal.
  rewrite map_map. apply map_ext_in. intros w Hw. unfold norm_swb. cbn [fst snd]. f_equal.
  rewrite group_pt_map_reset, map_map.
  rewrite <- (map_id (group_pt (snd w))) at 2. apply map_ext_in. intros c Hc.
  assert (Hc' : In c (snd w)) by (eapply Permutation_in; [apply group_pt_perm|exact Hc]).
  destruct c as [? ? ? ?|?|? ? ? ? ?|? ? ? ?|?|? ? ? ?|?|? ? ? ?|r|?]; try reflexivity.
  cbn [reset_line patch_comp set_line r_pti]. destruct (r_pti r) eqn:Ep.
  - assert (Hin : In r (elec_ptis e)).
    { rewrite elec_ptis_sel. apply in_flat_map. exists w. split; [exact Hw|]. apply in_flat_map. exists (CSerial r).
      split; [exact Hc'|]. cbn [sel]. rewrite Ep. left. reflexivity. }
    rewrite (line_of_shared e ls r H Hin). destruct r; cbn in *; subst; reflexivity.
  - pose proof (hy_drives _ _ H w (CSerial r) Hw Hc' Ep) as D. destruct r; cbn in *; subst; reflexivity.
Qed.

Lemma elec_ptis_group e : elec_ptis (group_electric e) = elec_ptis e.
Proof.
  rewrite !elec_ptis_sel. unfold group_electric. cbn [x_swbs].
  induction (x_swbs e) as [|w ws IH]; [reflexivity|]. cbn [map flat_map snd]. rewrite IH, sel_group. reflexivity.
Qed.

Lemma group_electric_idem e : group_electric (group_electric e) = group_electric e.
Proof.
  unfold group_electric. cbn [x_swbs x_breakers]. f_equal. rewrite map_map. apply map_ext. intros w. cbn [fst snd].
  rewrite group_pt_idem. reflexivity.
Qed.

Lemma hybrid_ok_group e ls : hybrid_ok e ls -> hybrid_ok (group_electric e) ls.
Proof.
  intros H. constructor; rewrite ?elec_ptis_group; try apply H.
  - pose proof (hy_wf _ _ H) as W. unfold wf_electric, group_electric in *. cbn [x_swbs]. rewrite forallb_forall in *.
    intros w Hw. apply in_map_iff in Hw as [w' [<- Hw']]. cbn [snd]. rewrite (forallb_perm _ _ _ (group_pt_perm _)). apply W, Hw'.
  - destruct (hy_rep _ _ H) as (Hids & Hne & Hb). unfold representable, group_electric. cbn [x_swbs x_breakers].
    rewrite map_length, map_map. cbn [fst]. repeat split; [exact Hids| |exact Hb].
    apply Forall_map. eapply Forall_impl; [|exact Hne]. intros w Hw. cbn [snd]. apply group_pt_nonempty. exact Hw.
  - intros w c Hw Hc. unfold group_electric in Hw. cbn [x_swbs] in Hw. apply in_map_iff in Hw as [w' [<- Hw']]. cbn [snd] in Hc.
    apply (hy_drives _ _ H w' c Hw'). eapply Permutation_in; [apply group_pt_perm|exact Hc].
Qed.

End Hybrid.
